//go:build verif

package vsched

// Cooperative replacement of sync.Cond operations in instrumented code
// (tools/yieldinject rewrites `x.cond.Wait()/Signal()/Broadcast()` on sync.Cond
// fields into the calls below), plus kind-agnostic lock acquisition for mutex
// field names that are declared with different kinds in one package.
//
// For goroutines that are not logical threads of an active Sched (or when the
// receiver object is outside the Focus set) the real sync.Cond operation is
// performed, so the rest of the system is untouched.
// A logical thread that waits is kept in a per-Cond FIFO list (sync.Cond wakes
// waiters in the order of their Wait calls) and parks in the scheduler:
//
//	Point("Wait:<f>")   executing it = enqueue as waiter + unlock c.L
//	Point("Wake:<f>")   executing it = if signalled and c.L can be taken: return
//	                    from Wait holding c.L; otherwise the step is reported
//	                    `Wake:<f>!blocked` and nothing changes
//
// Signal and Broadcast are points of their own ("Signal:<f>", "Broadcast:<f>").

import (
	"runtime"
	"sync"
	"time"
)

type condWaiter struct {
	signalled bool
}

var (
	condMu sync.Mutex
	condQ  = map[*sync.Cond][]*condWaiter{}
)

func controlled() bool {
	s := cur.Load()
	return s != nil && !s.free.Load()
}

// inFocus reports whether points on obj are controlled (no focus set = everything).
func inFocus(obj any) bool {
	s := cur.Load()
	if s == nil || s.focus == nil || obj == nil {
		return true
	}
	s.mu.Lock()
	ok := s.focus[obj]
	s.mu.Unlock()
	return ok
}

func tryLocker(l sync.Locker) bool {
	if tl, ok := l.(interface{ TryLock() bool }); ok {
		return tl.TryLock()
	}
	l.Lock()
	return true
}

// CondWait is the cooperative replacement of c.Wait() (c.L held by the caller).
func CondWait(c *sync.Cond, field string) { CondWaitOn(nil, c, field) }

// CondWaitOn is CondWait inside a method of obj (cooperative only when obj is in focus).
func CondWaitOn(obj any, c *sync.Cond, field string) {
	if self() == nil || !controlled() || !inFocus(obj) {
		c.Wait()
		return
	}
	Point("Wait:" + field)
	w := &condWaiter{}
	condMu.Lock()
	condQ[c] = append(condQ[c], w)
	condMu.Unlock()
	c.L.Unlock()
	var freeSince time.Time
	for {
		Point("Wake:" + field)
		condMu.Lock()
		sig := w.signalled
		condMu.Unlock()
		if sig && tryLocker(c.L) {
			return
		}
		if !controlled() {
			// free running (the controller gave up on this case): wait politely
			if sig {
				c.L.Lock()
				return
			}
			if freeSince.IsZero() {
				freeSince = time.Now()
			} else if time.Since(freeSince) > 40*time.Millisecond {
				runtime.Goexit() // abandoned logical thread of a case that hit its cap
			}
			time.Sleep(50 * time.Microsecond)
			continue
		}
		markBlocked()
	}
}

// wake marks up to n cooperative waiters of c (oldest first) as signalled and
// removes them from the list; n < 0 = all. Returns how many were woken.
func wake(c *sync.Cond, n int) int {
	condMu.Lock()
	defer condMu.Unlock()
	q := condQ[c]
	k := 0
	for len(q) > 0 && (n < 0 || k < n) {
		q[0].signalled = true
		q = q[1:]
		k++
	}
	if len(q) == 0 {
		delete(condQ, c)
	} else {
		condQ[c] = q
	}
	return k
}

// CondSignal is the cooperative replacement of c.Signal().
func CondSignal(c *sync.Cond, field string) { CondSignalOn(nil, c, field) }

func CondSignalOn(obj any, c *sync.Cond, field string) {
	if inFocus(obj) {
		Point("Signal:" + field)
	}
	if wake(c, 1) == 0 {
		c.Signal()
	}
}

// CondBroadcast is the cooperative replacement of c.Broadcast().
func CondBroadcast(c *sync.Cond, field string) { CondBroadcastOn(nil, c, field) }

func CondBroadcastOn(obj any, c *sync.Cond, field string) {
	if inFocus(obj) {
		Point("Broadcast:" + field)
	}
	wake(c, -1)
	c.Broadcast()
}

// LockAny / RLockAny are the kind-agnostic cooperative lock acquisitions used by yieldinject when a
// field name is declared with different mutex kinds in the package; p is the ADDRESS of the field
// (*sync.Mutex, *sync.RWMutex, or a pointer to a pointer field).
func LockAny(p any, label string) { LockAnyOn(nil, p, label) }

func LockAnyOn(obj any, p any, label string) {
	if !inFocus(obj) {
		switch m := p.(type) {
		case *sync.Mutex:
			m.Lock()
		case **sync.Mutex:
			(*m).Lock()
		case *sync.RWMutex:
			m.Lock()
		case **sync.RWMutex:
			(*m).Lock()
		}
		return
	}
	switch m := p.(type) {
	case *sync.Mutex:
		Lock(m, label)
	case **sync.Mutex:
		Lock(*m, label)
	case *sync.RWMutex:
		WLock(m, label)
	case **sync.RWMutex:
		WLock(*m, label)
	}
}

func RLockAny(p any, label string) { RLockAnyOn(nil, p, label) }

func RLockAnyOn(obj any, p any, label string) {
	if !inFocus(obj) {
		switch m := p.(type) {
		case *sync.RWMutex:
			m.RLock()
		case **sync.RWMutex:
			(*m).RLock()
		}
		return
	}
	switch m := p.(type) {
	case *sync.RWMutex:
		RLock(m, label)
	case **sync.RWMutex:
		RLock(*m, label)
	}
}

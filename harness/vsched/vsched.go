//go:build verif

// Package vsched is a cooperative, controller-driven scheduler used by the
// verification harness (overlay-only; mapped to /repo/internal/vsched).
//
// Instrumented copies of goakt source files (made by tools/yieldinject from the
// CURRENT working tree on every run) call Point(label) immediately before each
// atomic operation / lock acquisition.  For goroutines that are not logical
// threads of an active Sched, Point is a no-op, so the rest of the system runs
// normally.  A logical thread parks at every Point until the controller resumes
// it with Step, so a schedule (a list of thread ids) is a deterministic
// execution at atomic-operation granularity.
package vsched

import (
	"runtime"
	"strconv"
	"strings"
	"sync"
	"sync/atomic"
	"time"
)

type thread struct {
	id      int
	resume  chan struct{}
	report  chan string // label the thread is now parked at, or "" when done
	at      string      // label parked at (next op to execute)
	done    bool
	blocked bool
}

// Sched is one controlled execution.
type Sched struct {
	mu      sync.Mutex
	threads []*thread
	free    atomic.Bool
	focus   map[any]bool
}

var (
	regMu  sync.RWMutex
	byGoid = map[uint64]*thread{}
	nreg   atomic.Int64
	cur    atomic.Pointer[Sched]
)

func goid() uint64 {
	var buf [64]byte
	n := runtime.Stack(buf[:], false)
	s := strings.TrimPrefix(string(buf[:n]), "goroutine ")
	if i := strings.IndexByte(s, ' '); i > 0 {
		s = s[:i]
	}
	id, _ := strconv.ParseUint(s, 10, 64)
	return id
}

func self() *thread {
	if nreg.Load() == 0 {
		return nil
	}
	g := goid()
	regMu.RLock()
	t := byGoid[g]
	regMu.RUnlock()
	return t
}

// New creates a scheduler and makes it the active one.
func New() *Sched {
	s := &Sched{}
	cur.Store(s)
	return s
}

// Focus restricts controlled points emitted through PointOn to the given objects
// (method receivers: a *PID, its mailboxes, its dispatch state ...). With an empty
// focus set every point is controlled. Points of unfocused objects pass through,
// so a logical thread may run code of other actors without parking there.
func (s *Sched) Focus(objs ...any) {
	s.mu.Lock()
	if s.focus == nil {
		s.focus = map[any]bool{}
	}
	for _, o := range objs {
		s.focus[o] = true
	}
	s.mu.Unlock()
}

// PointOn is Point for an operation on (a field of) the method receiver obj.
func PointOn(obj any, label string) {
	if nreg.Load() == 0 {
		return
	}
	s := cur.Load()
	if s == nil {
		return
	}
	if s.focus != nil {
		s.mu.Lock()
		ok := s.focus[obj]
		s.mu.Unlock()
		if !ok {
			return
		}
	}
	Point(label)
}

// LockOn is Lock for a mutex field of the method receiver obj: cooperative only
// when obj is in focus (or there is no focus set).
func LockOn(obj any, mu *sync.Mutex, label string) {
	if s := cur.Load(); s != nil && s.focus != nil {
		s.mu.Lock()
		ok := s.focus[obj]
		s.mu.Unlock()
		if !ok {
			mu.Lock()
			return
		}
	}
	Lock(mu, label)
}

// Point parks the calling logical thread before the operation named label.
func Point(label string) {
	t := self()
	if t == nil {
		return
	}
	s := cur.Load()
	if s == nil || s.free.Load() {
		return
	}
	t.report <- label
	<-t.resume
}

// Blocked marks that the operation just attempted could not proceed (lock held);
// the controller sees the step label suffixed with "!blocked".
func markBlocked() {
	if t := self(); t != nil {
		t.blocked = true
	}
}

// Lock is the cooperative replacement of mu.Lock() in instrumented code.
func Lock(mu *sync.Mutex, label string) {
	if self() == nil {
		mu.Lock()
		return
	}
	for {
		Point(label)
		if mu.TryLock() {
			return
		}
		if s := cur.Load(); s == nil || s.free.Load() {
			mu.Lock()
			return
		}
		markBlocked()
	}
}

// RLock / WLock for RWMutex.
func RLock(mu *sync.RWMutex, label string) {
	if self() == nil {
		mu.RLock()
		return
	}
	for {
		Point(label)
		if mu.TryRLock() {
			return
		}
		if s := cur.Load(); s == nil || s.free.Load() {
			mu.RLock()
			return
		}
		markBlocked()
	}
}

func WLock(mu *sync.RWMutex, label string) {
	if self() == nil {
		mu.Lock()
		return
	}
	for {
		Point(label)
		if mu.TryLock() {
			return
		}
		if s := cur.Load(); s == nil || s.free.Load() {
			mu.Lock()
			return
		}
		markBlocked()
	}
}

// Go creates logical thread running f and advances it to its first Point
// (or to completion). It returns the thread id.
func (s *Sched) Go(f func()) int {
	t := &thread{id: len(s.threads), resume: make(chan struct{}), report: make(chan string, 1)}
	s.threads = append(s.threads, t)
	ready := make(chan struct{})
	go func() {
		g := goid()
		regMu.Lock()
		byGoid[g] = t
		regMu.Unlock()
		nreg.Add(1)
		close(ready)
		<-t.resume
		defer func() {
			regMu.Lock()
			delete(byGoid, g)
			regMu.Unlock()
			nreg.Add(-1)
			t.report <- ""
		}()
		f()
	}()
	<-ready
	t.at = "start"
	s.advance(t, 5*time.Second)
	return t.id
}

// advance resumes t and waits until it parks again or finishes.
func (s *Sched) advance(t *thread, timeout time.Duration) string {
	t.blocked = false
	t.resume <- struct{}{}
	select {
	case l := <-t.report:
		if l == "" {
			t.done = true
			t.at = ""
		} else {
			t.at = l
		}
		return "ok"
	case <-time.After(timeout):
		return "stuck"
	}
}

// Step lets thread tid execute the operation it is parked at and run to its
// next Point. It returns the label of the operation executed; suffix
// "!blocked" when a cooperative lock could not be taken, "!done" is returned
// as the label when the thread had already finished, "!stuck" when the thread
// did not reach another Point in time (blocked on something uninstrumented).
func (s *Sched) Step(tid int, timeout time.Duration) string {
	if tid < 0 || tid >= len(s.threads) {
		return "!nothread"
	}
	t := s.threads[tid]
	if t.done {
		return "!done"
	}
	label := t.at
	if r := s.advance(t, timeout); r == "stuck" {
		t.done = true // never touch it again
		return label + "!stuck"
	}
	if t.blocked {
		return label + "!blocked"
	}
	return label
}

// At returns the label thread tid is parked at ("" when done).
func (s *Sched) At(tid int) string { return s.threads[tid].at }

// Done reports whether thread tid has finished.
func (s *Sched) Done(tid int) bool { return s.threads[tid].done }

// N is the number of logical threads.
func (s *Sched) N() int { return len(s.threads) }

// AllDone reports whether every logical thread has finished.
func (s *Sched) AllDone() bool {
	for _, t := range s.threads {
		if !t.done {
			return false
		}
	}
	return true
}

// Release switches to free running: every parked thread is resumed and Point
// becomes a no-op; it waits (up to timeout) for all threads to finish.
// Returns false on timeout.
func (s *Sched) Release(timeout time.Duration) bool {
	s.free.Store(true)
	deadline := time.Now().Add(timeout)
	for _, t := range s.threads {
		if t.done {
			continue
		}
		t.resume <- struct{}{}
	}
	for _, t := range s.threads {
		if t.done {
			continue
		}
		for !t.done {
			select {
			case l := <-t.report:
				if l == "" {
					t.done = true
				} else {
					// a thread that was between the free check and the send: let it go on
					t.resume <- struct{}{}
				}
			case <-time.After(time.Until(deadline)):
				return false
			}
		}
	}
	cur.CompareAndSwap(s, nil)
	return true
}

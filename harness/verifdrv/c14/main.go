//go:build verif

// C14 harness: a real actor in a real actor system whose behaviours are numbered closures.
//
// case line:  t <msg>|<msg>|...        (or `t -` for no message)
//   each <msg> is a comma separated list of switch operations the handler of that message
//   executes through the public ReceiveContext API, in order (may be empty = pure probe):
//     B<k>  ctx.Become(behaviour k)         k in 1..9
//     S<k>  ctx.BecomeStacked(behaviour k)
//     P     ctx.UnBecomeStacked()
//     U     ctx.UnBecome()
//   behaviour 0 is the actor's Receive (the default behaviour).
//
// output:  one field per message = ids of the behaviour(s) that were invoked for it
//          (`-` when no behaviour was invoked, `a+b` if more than one), then
//          `;len=<behaviorStack.Len()>;depth=<linked nodes>`
//
// All messages are sent with actor.Tell from this goroutine; quiescence is the dispatcher's own
// observation (the mailbox wrapper saw a Dequeue that found the mailbox empty after the last send),
// never a sleep, and it works for an actor that has no behaviour left. Watchdog: `HANG` if the actor
// does not go idle within 5 s; after 2 such cases every further case answers `HANG-skipped`.
package main

import (
	"context"
	"fmt"
	"strconv"
	"strings"
	"sync"
	"time"

	"github.com/tochemey/goakt/v4/actor"
	"github.com/tochemey/goakt/v4/internal/verifdrv/vlib"
	"github.com/tochemey/goakt/v4/log"
)

// countingMailbox delegates to the real UnboundedMailbox. `idle` is true exactly when the last
// operation on it was a Dequeue that found it empty: once the harness has stopped sending, that is
// the dispatcher's own "nothing left" observation.
type countingMailbox struct {
	inner *actor.UnboundedMailbox
	mu    sync.Mutex
	cond  *sync.Cond
	idle  bool
}

func newCountingMailbox() *countingMailbox {
	m := &countingMailbox{inner: actor.NewUnboundedMailbox()}
	m.cond = sync.NewCond(&m.mu)
	return m
}

func (m *countingMailbox) Enqueue(c *actor.ReceiveContext) error {
	m.mu.Lock()
	defer m.mu.Unlock()
	m.idle = false
	return m.inner.Enqueue(c)
}

func (m *countingMailbox) Dequeue() *actor.ReceiveContext {
	m.mu.Lock()
	r := m.inner.Dequeue()
	m.idle = r == nil
	m.cond.Broadcast()
	m.mu.Unlock()
	return r
}
func (m *countingMailbox) IsEmpty() bool { return m.inner.IsEmpty() }
func (m *countingMailbox) Len() int64    { return m.inner.Len() }
func (m *countingMailbox) Dispose()      { m.inner.Dispose() }

// waitQuiet blocks until the dispatcher found the mailbox empty (true) or the watchdog expires (false).
func (m *countingMailbox) waitQuiet(d time.Duration) bool {
	deadline := time.Now().Add(d)
	timer := time.AfterFunc(d, func() { m.mu.Lock(); m.cond.Broadcast(); m.mu.Unlock() })
	defer timer.Stop()
	m.mu.Lock()
	defer m.mu.Unlock()
	for !m.idle {
		if time.Now().After(deadline) {
			return false
		}
		m.cond.Wait()
	}
	return true
}

type step struct {
	idx int
	ops []string
}

type switcher struct {
	invoked [][]int
	behs    [10]actor.Behavior
	bad     string
}

func (a *switcher) PreStart(*actor.Context) error { return nil }
func (a *switcher) PostStop(*actor.Context) error { return nil }
func (a *switcher) Receive(ctx *actor.ReceiveContext) { a.handle(0, ctx) }

func (a *switcher) handle(k int, ctx *actor.ReceiveContext) {
	m, ok := ctx.Message().(*step)
	if !ok {
		return
	}
	a.invoked[m.idx] = append(a.invoked[m.idx], k)
	for _, op := range m.ops {
		switch {
		case op == "P":
			ctx.UnBecomeStacked()
		case op == "U":
			ctx.UnBecome()
		case len(op) == 2 && op[0] == 'B' && op[1] >= '1' && op[1] <= '9':
			ctx.Become(a.behs[op[1]-'0'])
		case len(op) == 2 && op[0] == 'S' && op[1] >= '1' && op[1] <= '9':
			ctx.BecomeStacked(a.behs[op[1]-'0'])
		default:
			a.bad = op
		}
	}
}

var (
	sys     actor.ActorSystem
	counter int
	hangs   int // cases that ended in HANG; after maxHangs the rest is skipped so a broken tree cannot stall the run
)

const (
	maxHangs = 2
	watchdog = 5 * time.Second
)

func shutdown(pid *actor.PID) {
	done := make(chan struct{})
	go func() { _ = pid.Shutdown(context.Background()); close(done) }()
	select {
	case <-done:
	case <-time.After(2 * time.Second):
	}
}

// ---- engine E3: the bare behaviorStack under controlled schedules --------------------------------
//
//	bs | prog0 ; prog1 ; … | schedule
//	ops: p<k> = Push(behaviour k)   o = Pop   k = Peek   l = Len   r = Reset
//	results: ok | <k> | nil | <n>;  final digest: chain=<k.k.k|-> len=<n>
type bsObj struct {
	s    *actor.VerifBStack
	behs map[int]actor.Behavior
	last int
}

func (o *bsObj) beh(k int) actor.Behavior {
	if b, ok := o.behs[k]; ok {
		return b
	}
	b := func(*actor.ReceiveContext) { o.last = k }
	o.behs[k] = b
	return b
}

// ident: which numbered closure is this (only one logical thread runs at a time)
func (o *bsObj) ident(b actor.Behavior) string {
	if b == nil {
		return "nil"
	}
	o.last = -1
	b(nil)
	return strconv.Itoa(o.last)
}

func (o *bsObj) Do(tid int, op string) string {
	switch {
	case op == "o":
		return o.ident(o.s.Pop())
	case op == "k":
		return o.ident(o.s.Peek())
	case op == "l":
		return strconv.Itoa(o.s.Len())
	case op == "r":
		o.s.Reset()
		return "ok"
	case strings.HasPrefix(op, "p"):
		k, err := strconv.Atoi(op[1:])
		if err != nil || k < 0 {
			return "bad-op"
		}
		o.s.Push(o.beh(k))
		return "ok"
	}
	return "bad-op"
}

func (o *bsObj) Final() string {
	var vs []string
	for _, b := range o.s.Chain(1000) {
		vs = append(vs, o.ident(b))
	}
	ch := "-"
	if len(vs) > 0 {
		ch = strings.Join(vs, ".")
	}
	return fmt.Sprintf("chain=%s len=%d", ch, o.s.Len())
}

func (o *bsObj) FocusObjs() []any { return []any{o.s.Obj()} }

func mkBS(cfg string, nthreads int) vlib.Obj {
	if cfg != "bs" {
		return nil
	}
	return &bsObj{s: actor.VerifNewBStack(), behs: map[int]actor.Behavior{}}
}

func handle(line string) string {
	if strings.HasPrefix(line, "bs ") || strings.HasPrefix(line, "bs|") {
		return vlib.RunConc(line, mkBS)
	}
	f := vlib.Fields(line)
	if len(f) != 2 || f[0] != "t" {
		return "bad-case"
	}
	var msgs [][]string
	if f[1] != "-" {
		for _, m := range strings.Split(f[1], "|") {
			if m == "" {
				msgs = append(msgs, nil)
			} else {
				msgs = append(msgs, strings.Split(m, ","))
			}
		}
	}
	for _, m := range msgs {
		for _, op := range m {
			okop := op == "P" || op == "U" || (len(op) == 2 && (op[0] == 'B' || op[0] == 'S') && op[1] >= '1' && op[1] <= '9')
			if !okop {
				return "bad-case"
			}
		}
	}
	if hangs >= maxHangs {
		return "HANG-skipped"
	}
	ctx := context.Background()
	a := &switcher{invoked: make([][]int, len(msgs))}
	for k := 1; k < 10; k++ {
		k := k
		a.behs[k] = func(c *actor.ReceiveContext) { a.handle(k, c) }
	}
	counter++
	mb := newCountingMailbox()
	pid, err := sys.Spawn(ctx, "c14-"+strconv.Itoa(counter), a, actor.WithMailbox(mb), actor.WithLongLived())
	if err != nil {
		return "spawn-error " + vlib.Canon(err.Error())
	}
	defer shutdown(pid)
	for i, m := range msgs {
		if err := actor.Tell(ctx, pid, &step{idx: i, ops: m}); err != nil {
			return "tell-error " + vlib.Canon(err.Error())
		}
	}
	if !mb.waitQuiet(watchdog) {
		hangs++
		return "HANG"
	}
	mb.mu.Lock() // happens-after the actor's last write
	defer mb.mu.Unlock()
	if a.bad != "" {
		return "bad-case"
	}
	out := make([]string, len(msgs))
	for i, inv := range a.invoked {
		if len(inv) == 0 {
			out[i] = "-"
			continue
		}
		s := make([]string, len(inv))
		for j, k := range inv {
			s[j] = strconv.Itoa(k)
		}
		out[i] = strings.Join(s, "+")
	}
	return fmt.Sprintf("%s;len=%d;depth=%d", strings.Join(out, " "), actor.VerifC14StackLen(pid), actor.VerifC14StackDepth(pid))
}

func main() {
	ctx := context.Background()
	var err error
	sys, err = actor.NewActorSystem("verifc14", actor.WithLogger(log.DiscardLogger))
	if err != nil {
		panic(err)
	}
	if err = sys.Start(ctx); err != nil {
		panic(err)
	}
	vlib.Loop(handle)
	_ = sys.Stop(ctx)
}

//go:build verif

// C05 harness: the real dispatcher ready queue (actor/ready_queue.go, worker.go, dispatcher.go).
//
//	rq <n> | prog0 ; prog1 ; … | schedule      engine E3: controlled schedules; threads 0..n-1 are the workers
//	    ops: p<id> dispatcher.schedule · l<id> worker.reschedule (own ring) · t take(own id) · run worker.run() · c signalStop
//	seq <n> | op op …                          engine E2: one goroutine, raw entry points
//	    ops: p<id> l<w>.<id> pf<w> pg ts<w> sh<a>.<b> pk tk<w> cl
package main

import (
	"strconv"
	"strings"

	"github.com/tochemey/goakt/v4/actor"
	"github.com/tochemey/goakt/v4/internal/verifdrv/vlib"
)

type obj struct{ d *actor.VerifDisp }

func (o *obj) Do(tid int, op string) string {
	n := o.d.Workers()
	switch {
	case op == "t":
		if tid >= n {
			return "bad-op"
		}
		id, ok := o.d.Take(tid)
		if !ok {
			return "closed"
		}
		return strconv.Itoa(id)
	case op == "run":
		if tid >= n {
			return "bad-op"
		}
		ids := o.d.Run(tid)
		ss := make([]string, len(ids))
		for i, id := range ids {
			ss[i] = strconv.Itoa(id)
		}
		return "run:" + strings.Join(ss, "+")
	case op == "c":
		o.d.Stop()
		return "ok"
	case strings.HasPrefix(op, "p"):
		id, err := strconv.Atoi(op[1:])
		if err != nil || id <= 0 {
			return "bad-op"
		}
		o.d.Schedule(id)
		return "ok"
	case strings.HasPrefix(op, "l"):
		id, err := strconv.Atoi(op[1:])
		if err != nil || id <= 0 || tid >= n {
			return "bad-op"
		}
		o.d.Reschedule(tid, id)
		return "ok"
	}
	return "bad-op"
}

func (o *obj) Final() string { return o.d.Dump() }

func mk(cfg string, nthreads int) vlib.Obj {
	f := strings.Fields(cfg)
	if len(f) != 2 || f[0] != "rq" {
		return nil
	}
	n, err := strconv.Atoi(f[1])
	if err != nil || n < 1 || n > 16 {
		return nil
	}
	return &obj{d: actor.VerifNewDisp(n)}
}

func pair(s string) (int, int, bool) {
	p := strings.Split(s, ".")
	if len(p) != 2 {
		return 0, 0, false
	}
	a, e1 := strconv.Atoi(p[0])
	b, e2 := strconv.Atoi(p[1])
	return a, b, e1 == nil && e2 == nil && a >= 0 && b >= 0
}

func showID(id int) string {
	if id == 0 {
		return "nil"
	}
	return strconv.Itoa(id)
}

func seqOp(d *actor.VerifDisp, op string) (string, bool) {
	n := d.Workers()
	num := func(s string) (int, bool) {
		v, err := strconv.Atoi(s)
		return v, err == nil && v >= 0
	}
	switch {
	case op == "pg":
		return showID(d.PopGlobal()), true
	case op == "pk":
		if d.WouldPark() {
			return "wouldblock", true
		}
		id, ok := d.ParkAndTake()
		if !ok {
			return "closed", true
		}
		return showID(id), true
	case op == "cl":
		d.Close()
		return "ok", true
	case strings.HasPrefix(op, "pf"):
		w, ok := num(op[2:])
		if !ok || w >= n {
			return "", false
		}
		return showID(d.PopFront(w)), true
	case strings.HasPrefix(op, "ts"):
		w, ok := num(op[2:])
		if !ok || w >= n {
			return "", false
		}
		return showID(d.TrySteal(w)), true
	case strings.HasPrefix(op, "tk"):
		w, ok := num(op[2:])
		if !ok || w >= n {
			return "", false
		}
		if !d.Closed() && d.AllEmpty() {
			return "wouldblock", true
		}
		id, ok2 := d.Take(w)
		if !ok2 {
			return "closed", true
		}
		return showID(id), true
	case strings.HasPrefix(op, "sh"):
		a, b, ok := pair(op[2:])
		if !ok || a >= n || b >= n {
			return "", false
		}
		return showID(d.StealHalf(a, b)), true
	case strings.HasPrefix(op, "p"):
		id, ok := num(op[1:])
		if !ok || id == 0 {
			return "", false
		}
		d.Push(id)
		return "ok", true
	case strings.HasPrefix(op, "l"):
		w, id, ok := pair(op[1:])
		if !ok || w >= n || id == 0 {
			return "", false
		}
		d.PushLocal(w, id)
		return "ok", true
	}
	return "", false
}

func runSeq(nstr, ops string) string {
	n, err := strconv.Atoi(nstr)
	if err != nil || n < 1 || n > 16 {
		return "bad-case"
	}
	d := actor.VerifNewDisp(n)
	var rs []string
	for _, op := range strings.Fields(ops) {
		r, ok := seqOp(d, op)
		if !ok {
			return "bad-case"
		}
		rs = append(rs, r)
	}
	return strings.Join(rs, ",") + " | " + d.Dump()
}

func main() {
	vlib.Loop(func(line string) string {
		parts := strings.Split(line, "|")
		if len(parts) == 2 {
			f := strings.Fields(parts[0])
			if len(f) == 2 && f[0] == "seq" {
				return runSeq(f[1], parts[1])
			}
			return "bad-case"
		}
		return vlib.RunConc(line, mk)
	})
}

//go:build verif

// C11 harness: Spawn / SpawnNamedFromFunc / SpawnChild / Shutdown of one real actor system,
// driven by a script whose race windows are made deterministic by gates inside the actors'
// PreStart and PostStop hooks.
//
//	case := op op op …
//	S.a  F.a  C.p.x        full spawn (Spawn, SpawnNamedFromFunc, p.SpawnChild)
//	bS.a bF.a bC.p.x       begin a spawn and hold it inside PreStart (or finish at once when no actor is created)
//	eS.a eF.a eC.p.x       release the held spawn and wait for its result
//	K.a  K.p.x             Shutdown and wait until the death watch has removed the node
//	bK.a / eK.a            begin a Shutdown and hold it inside PostStop / release it and wait for removal
//	P(S.a,F.a,C.p.x)       the listed full spawns issued concurrently from one goroutine each
//	fS.a fF.a fC.p.x       a spawn issued (own cancellable context) while a spawn of the same path is held: a FOLLOWER of the
//	                       single flight; prints `wait` when it is still waiting after the grace period (always, in the code as it is)
//	cS.a cF.a cC.p.x       cancel the oldest waiting follower of that path and print its result
//	jS.a jF.a jC.p.x       after the held spawn ended: the results of all followers of that path
//
// output: one token per op, then `| <digest>`
package main

import (
	"context"
	"fmt"
	"os"
	"sort"
	"strconv"
	"strings"
	"sync"
	"time"

	"github.com/tochemey/goakt/v4/actor"
	"github.com/tochemey/goakt/v4/internal/verifdrv/vlib"
	"github.com/tochemey/goakt/v4/log"
)

const settle = 20 * time.Second

type world struct {
	mu      sync.Mutex
	running map[int]string // live instances (PreStart returned, PostStop not entered) -> key
	cur     map[string]int
	max     map[string]int
	started int
	preGate map[string]chan struct{}
	pstGate map[string]chan struct{}
	events  chan string
}

func newWorld() *world {
	return &world{running: map[int]string{}, cur: map[string]int{}, max: map[string]int{}, preGate: map[string]chan struct{}{},
		pstGate: map[string]chan struct{}{}, events: make(chan string, 1024)}
}

func (w *world) pre(id int, key string) {
	w.mu.Lock()
	g := w.preGate[key]
	delete(w.preGate, key)
	w.mu.Unlock()
	if g != nil {
		w.events <- "pre:" + key
		<-g
	}
	w.mu.Lock()
	w.running[id] = key
	w.started++
	w.cur[key]++
	if w.cur[key] > w.max[key] {
		w.max[key] = w.cur[key]
	}
	w.mu.Unlock()
}

func (w *world) post(id int, key string) {
	w.mu.Lock()
	if _, ok := w.running[id]; ok {
		delete(w.running, id)
		w.cur[key]--
	}
	g := w.pstGate[key]
	delete(w.pstGate, key)
	w.mu.Unlock()
	if g != nil {
		w.events <- "post:" + key
		<-g
	}
}

type act struct {
	w   *world
	id  int
	key string
}

func (a *act) PreStart(*actor.Context) error     { a.w.pre(a.id, a.key); return nil }
func (a *act) Receive(ctx *actor.ReceiveContext) {}
func (a *act) PostStop(*actor.Context) error     { a.w.post(a.id, a.key); return nil }

type pending struct {
	done chan struct{}
	res  string
	rp   *actor.PID // spawn: returned pid (numbered only when the result is printed)
	rerr error
	gate chan struct{}
	pid  *actor.PID // stop: the pid being stopped
	desc []string   // stop: descendant paths at begin
}

// grace: how long a follower is given to (wrongly) finish before it is reported as waiting.
const grace = 300 * time.Millisecond

type follower struct {
	done   chan struct{}
	rp     *actor.PID
	rerr   error
	cancel context.CancelFunc
}

type run struct {
	fol    map[string][]*follower // waiting followers by flight key
	ctx    context.Context
	sys    actor.ActorSystem
	w      *world
	pids   map[*actor.PID]int
	nextID int
	spawns map[string]*pending // open begun spawns by flight key
	stops  map[string]*pending // open begun stops by path
}

func (r *run) pidNo(p *actor.PID) int {
	if n, ok := r.pids[p]; ok {
		return n
	}
	n := len(r.pids) + 1
	r.pids[p] = n
	return n
}

// showShared prints a follower's result: the PID identity only (its running flag would be read at print time, long
// after the call returned).
func (r *run) showShared(p *actor.PID, err error) string {
	if err != nil || p == nil {
		return r.showPID(p, err)
	}
	return fmt.Sprintf("p%d", r.pidNo(p))
}

func (r *run) showPID(p *actor.PID, err error) string {
	if err != nil {
		return "err:" + vlib.Canon(err.Error())
	}
	if p == nil {
		return "nil"
	}
	st := "s"
	if p.IsRunning() {
		st = "r"
	}
	return fmt.Sprintf("p%d%s", r.pidNo(p), st)
}

// spawn call of one kind; key = "a" or "p.x"
func (r *run) spawnFn(kind string, args []string, id int) (func() (*actor.PID, error), string, string) {
	return r.spawnFnCtx(r.ctx, kind, args, id)
}

func (r *run) spawnFnCtx(ctx context.Context, kind string, args []string, id int) (func() (*actor.PID, error), string, string) {
	switch kind {
	case "S":
		if len(args) != 1 {
			return nil, "", ""
		}
		name := args[0]
		a := &act{w: r.w, id: id, key: name}
		return func() (*actor.PID, error) { return r.sys.Spawn(ctx, name, a) }, name, name
	case "F":
		if len(args) != 1 {
			return nil, "", ""
		}
		name := args[0]
		return func() (*actor.PID, error) {
			return r.sys.SpawnNamedFromFunc(ctx, name, func(context.Context, any) error { return nil },
				actor.WithPreStart(func(context.Context) error { r.w.pre(id, name); return nil }),
				actor.WithPostStop(func(context.Context) error { r.w.post(id, name); return nil }))
		}, name, name
	case "C":
		if len(args) != 2 {
			return nil, "", ""
		}
		parent, name := args[0], args[1]
		key := parent + "/" + name
		a := &act{w: r.w, id: id, key: key}
		return func() (*actor.PID, error) {
			pp, ok := actor.VerifNodeAt(r.sys, parent)
			if !ok {
				return nil, fmt.Errorf("noparent")
			}
			return pp.SpawnChild(ctx, name, a)
		}, key, key
	}
	return nil, "", ""
}

func (r *run) waitGone(pid *actor.PID, paths []string) bool {
	deadline := time.Now().Add(settle)
	for {
		gone := true
		for _, n := range actor.VerifUserNodes(r.sys) {
			if n.PID == pid {
				gone = false
			}
			for _, p := range paths {
				if n.Path == p && !n.Running {
					gone = false
				}
			}
		}
		if gone {
			return true
		}
		if time.Now().After(deadline) {
			return false
		}
		time.Sleep(200 * time.Microsecond)
	}
}

func (r *run) descendants(path string) []string {
	var out []string
	for _, n := range actor.VerifUserNodes(r.sys) {
		if strings.HasPrefix(n.Path, path+"/") {
			out = append(out, n.Path)
		}
	}
	return out
}

func (r *run) op(tok string) string {
	if strings.HasPrefix(tok, "P(") && strings.HasSuffix(tok, ")") {
		subs := strings.Split(tok[2:len(tok)-1], ",")
		if len(r.stops) > 0 {
			return "busy" // concurrent callers racing a held stop are not deterministic
		}
		lastOf := map[string]string{}
		for _, s := range subs {
			f := strings.Split(s, ".")
			path := strings.Join(f[1:], "/")
			last := f[len(f)-1]
			if prev, ok := lastOf[last]; ok && prev != path {
				return "bad-op" // same name at two paths: the name index would depend on timing
			}
			lastOf[last] = path
		}
		fns := make([]func() (*actor.PID, error), len(subs))
		for i, s := range subs {
			f := strings.Split(s, ".")
			fn, key, _ := r.spawnFn(f[0], f[1:], r.nextID)
			r.nextID++
			if fn == nil {
				return "bad-op"
			}
			if _, busy := r.spawns[key]; busy {
				return "busy"
			}
			fns[i] = fn
		}
		type res struct {
			p   *actor.PID
			err error
		}
		out := make([]res, len(subs))
		start := make(chan struct{})
		var wg sync.WaitGroup
		for i := range fns {
			wg.Add(1)
			go func(i int) {
				defer wg.Done()
				<-start
				p, err := fns[i]()
				out[i] = res{p, err}
			}(i)
		}
		close(start)
		wg.Wait()
		var ss []string
		for _, o := range out {
			ss = append(ss, r.showPID(o.p, o.err))
		}
		return "[" + strings.Join(ss, ",") + "]"
	}
	f := strings.Split(tok, ".")
	switch f[0] {
	case "S", "F", "C":
		fn, key, _ := r.spawnFn(f[0], f[1:], r.nextID)
		r.nextID++
		if fn == nil {
			return "bad-op"
		}
		if _, busy := r.spawns[key]; busy {
			return "busy"
		}
		p, err := fn()
		return r.showPID(p, err)
	case "bS", "bF", "bC":
		fn, key, gkey := r.spawnFn(f[0][1:], f[1:], r.nextID)
		r.nextID++
		if fn == nil {
			return "bad-op"
		}
		if _, busy := r.spawns[key]; busy {
			return "busy"
		}
		pd := &pending{done: make(chan struct{}), gate: make(chan struct{})}
		r.w.mu.Lock()
		r.w.preGate[gkey] = pd.gate
		r.w.mu.Unlock()
		go func() {
			pd.rp, pd.rerr = fn()
			close(pd.done)
		}()
		select {
		case <-pd.done:
			// no actor was created: the gate was not consumed
			r.w.mu.Lock()
			delete(r.w.preGate, gkey)
			r.w.mu.Unlock()
			return r.showPID(pd.rp, pd.rerr)
		case ev := <-r.w.events:
			if ev != "pre:"+gkey {
				return "unexpected-event:" + ev
			}
			r.spawns[key] = pd
			return "pre"
		case <-time.After(settle):
			return "timeout"
		}
	case "fS", "fF", "fC":
		fctx, cancel := context.WithCancel(r.ctx)
		fn, key, _ := r.spawnFnCtx(fctx, f[0][1:], f[1:], r.nextID)
		r.nextID++
		if fn == nil {
			cancel()
			return "bad-op"
		}
		if _, open := r.spawns[key]; !open {
			cancel()
			return "none"
		}
		fl := &follower{done: make(chan struct{}), cancel: cancel}
		go func() {
			fl.rp, fl.rerr = fn()
			close(fl.done)
		}()
		select {
		case <-fl.done:
			cancel()
			res := r.showShared(fl.rp, fl.rerr) // refused/served before the flight, or a follower that did not wait
			if !strings.HasPrefix(res, "err:") {
				return "[" + res + "]"
			}
			return res
		case <-time.After(grace):
			r.fol[key] = append(r.fol[key], fl)
			return "wait"
		}
	case "cS", "cF", "cC":
		key := strings.Join(f[1:], "/")
		fls := r.fol[key]
		if len(fls) == 0 {
			return "none"
		}
		fl := fls[0]
		r.fol[key] = fls[1:]
		if len(r.fol[key]) == 0 {
			delete(r.fol, key)
		}
		fl.cancel()
		select {
		case <-fl.done:
			res := r.showShared(fl.rp, fl.rerr)
			if !strings.HasPrefix(res, "err:") {
				return "[" + res + "]" // the flight had already ended: the follower holds the shared result
			}
			return res
		case <-time.After(settle):
			return "timeout"
		}
	case "jS", "jF", "jC":
		key := strings.Join(f[1:], "/")
		if _, open := r.spawns[key]; open {
			return "busy"
		}
		fls := r.fol[key]
		if len(fls) == 0 {
			return "none"
		}
		delete(r.fol, key)
		var ss []string
		for _, fl := range fls {
			select {
			case <-fl.done:
				ss = append(ss, r.showShared(fl.rp, fl.rerr))
			case <-time.After(settle):
				ss = append(ss, "timeout")
			}
			fl.cancel()
		}
		return "[" + strings.Join(ss, ",") + "]"
	case "eS", "eF", "eC":
		key := strings.Join(f[1:], "/")
		pd, ok := r.spawns[key]
		if !ok {
			return "none"
		}
		delete(r.spawns, key)
		close(pd.gate)
		select {
		case <-pd.done:
			return r.showPID(pd.rp, pd.rerr)
		case <-time.After(settle):
			return "timeout"
		}
	case "K", "bK":
		path := strings.Join(f[1:], "/")
		for open := range r.stops {
			if open == path || strings.HasPrefix(open, path+"/") {
				return "busy"
			}
		}
		pid, ok := actor.VerifNodeAt(r.sys, path)
		if !ok {
			return "nf"
		}
		if !actor.VerifRunningFlag(pid) {
			return "off"
		}
		desc := r.descendants(path)
		if f[0] == "K" {
			if err := pid.Shutdown(r.ctx); err != nil {
				return "err:" + vlib.Canon(err.Error())
			}
			if !r.waitGone(pid, desc) {
				return "timeout"
			}
			return "ok"
		}
		pd := &pending{done: make(chan struct{}), gate: make(chan struct{}), pid: pid, desc: desc}
		r.w.mu.Lock()
		r.w.pstGate[path] = pd.gate
		r.w.mu.Unlock()
		go func() {
			if err := pid.Shutdown(r.ctx); err != nil {
				pd.res = "err:" + vlib.Canon(err.Error())
			} else {
				pd.res = "ok"
			}
			close(pd.done)
		}()
		select {
		case <-pd.done:
			r.w.mu.Lock()
			delete(r.w.pstGate, path)
			r.w.mu.Unlock()
			r.waitGone(pid, desc)
			return pd.res
		case ev := <-r.w.events:
			if ev != "post:"+path {
				return "unexpected-event:" + ev
			}
			r.stops[path] = pd
			// the children were stopped synchronously; their removal by the death watch is awaited
			r.waitGone(nil, desc)
			return "post"
		case <-time.After(settle):
			return "timeout"
		}
	case "eK":
		path := strings.Join(f[1:], "/")
		pd, ok := r.stops[path]
		if !ok {
			return "none"
		}
		delete(r.stops, path)
		close(pd.gate)
		select {
		case <-pd.done:
		case <-time.After(settle):
			return "timeout"
		}
		if !r.waitGone(pd.pid, pd.desc) {
			return "timeout"
		}
		return pd.res
	}
	return "bad-op"
}

func (r *run) digest() string {
	var nodes []string
	for _, n := range actor.VerifUserNodes(r.sys) {
		st := "s"
		if n.Running {
			st = "r"
		}
		nodes = append(nodes, fmt.Sprintf("%s=p%d%s", n.Path, r.pidNo(n.PID), st))
	}
	r.w.mu.Lock()
	var live []string
	for _, k := range r.w.running {
		live = append(live, k)
	}
	sort.Strings(live)
	var mx []string
	for k, v := range r.w.max {
		if v > 1 {
			mx = append(mx, k+":"+strconv.Itoa(v))
		}
	}
	sort.Strings(mx)
	started := r.w.started
	r.w.mu.Unlock()
	nfol := 0
	for _, fls := range r.fol {
		nfol += len(fls)
	}
	return fmt.Sprintf("tree=%s num=%d live=%s started=%d over=%s open=%d fol=%d", strings.Join(nodes, ","), r.sys.NumActors(), strings.Join(live, ","), started, strings.Join(mx, ","), len(r.stops), nfol)
}

func runCase(line string) string {
	toks := strings.Fields(line)
	if len(toks) == 0 {
		return "bad-case"
	}
	ctx := context.Background()
	var lg log.Logger = log.DiscardLogger
	if os.Getenv("VERIF_LOG") != "" {
		lg = log.NewSlog(log.WarningLevel, os.Stderr)
	}
	sys, err := actor.NewActorSystem("c11", actor.WithLogger(lg))
	if err != nil {
		return "err:newsystem"
	}
	if err := sys.Start(ctx); err != nil {
		return "err:start"
	}
	if !actor.VerifWaitGuardians(sys, 10*time.Second) {
		_ = sys.Stop(ctx)
		return "err:guardians"
	}
	r := &run{ctx: ctx, sys: sys, w: newWorld(), pids: map[*actor.PID]int{}, nextID: 1, spawns: map[string]*pending{}, stops: map[string]*pending{}, fol: map[string][]*follower{}}
	var out []string
	for _, t := range toks {
		out = append(out, vlib.Safe(func() string { return r.op(t) }))
	}
	// release whatever is still held so the system can stop
	var open []string
	for k := range r.spawns {
		open = append(open, k)
	}
	sort.Strings(open) // deterministic release order (a parent before its children)
	for _, k := range open {
		pd := r.spawns[k]
		close(pd.gate)
		<-pd.done
		delete(r.spawns, k)
	}
	d := r.digest()
	for k, pd := range r.stops {
		close(pd.gate)
		<-pd.done
		delete(r.stops, k)
	}
	for k, fls := range r.fol {
		for _, fl := range fls {
			select {
			case <-fl.done:
			case <-time.After(settle):
			}
			fl.cancel()
		}
		delete(r.fol, k)
	}
	sctx, cancel := context.WithTimeout(ctx, 10*time.Second)
	_ = sys.Stop(sctx)
	cancel()
	return strings.Join(out, " ") + " | " + d
}

func main() { vlib.Loop(runCase) }

//go:build verif

// C41 harness: drives REAL replicatorActor instances (2..3 of them in one plain actor system)
// one message at a time and dumps their unexported state after every message.
//
// The replicators are wired to an in-memory "network": the topic actor is a collector actor that
// records every Publish (delta / tombstone) into a message log; the script decides which logged
// message is delivered to which replica and when (any order, duplicates, never).  Coordinated
// reads go through a fake cluster view + remoting client that Ask the peer replicators directly.
//
// case line:  n=<N> ttl=<T> <op> <op> ...
//   u:r:k:n      Update (GCounter key k) at replica r: Increment(nodeID(r), n)        (Ask)
//   g:r:k        Get, local                                                           (Ask)
//   G:r:k        Get with ReadFrom=All (peers = the other replicas, index order)      (Ask)
//   d:r:k        Delete                                                               (Ask)
//   s:r:i        deliver logged message i (delta | tombstone | full state) to r       (Tell + barrier)
//   t:r:k:age:by forged peer tombstone for k, deletedAt = now-age, deleted by replica `by` (9 = a node outside)
//   a:r:q        anti-entropy: digest of r is handled by q; q's full-state reply is LOGGED (deliver with s)
//   w:dt         the clock advances by dt units
//   p:r          prune tick at r
//   q:r:k        CRDTReadRequest for k at r (what a peer's coordinated read sends)    (Ask)
//   b:r:i,j,..   CRDTDeltaBatch from another datacenter carrying logged messages i,j,.. (deltas first, then tombstones)
// Time: one unit = 1 hour; ttl = T units + 30 min, so `now - deletedAt > ttl` is decided by whole
// units and the milliseconds a case takes cannot flip it.
// output: one token per op `result@dump`, dump = S[..]T[..]V[..]Y[..] of the replica the op touched.
package main

import (
	"context"
	"fmt"
	"sort"
	"strconv"
	"strings"
	"time"

	"github.com/tochemey/goakt/v4/actor"
	"github.com/tochemey/goakt/v4/crdt"
	"github.com/tochemey/goakt/v4/internal/address"
	"github.com/tochemey/goakt/v4/internal/cluster"
	"github.com/tochemey/goakt/v4/internal/codec"
	"github.com/tochemey/goakt/v4/internal/internalpb"
	"github.com/tochemey/goakt/v4/internal/remoteclient"
	"github.com/tochemey/goakt/v4/internal/verifdrv/vlib"
	"github.com/tochemey/goakt/v4/log"
)

const unit = time.Hour
const askTimeout = 2 * time.Minute

// ---- collector actor (stands in for the topic actor and for the digest sender) ----

type drain struct{}

type collector struct{ got []any }

func (c *collector) PreStart(*actor.Context) error { return nil }
func (c *collector) PostStop(*actor.Context) error { return nil }
func (c *collector) Receive(ctx *actor.ReceiveContext) {
	switch m := ctx.Message().(type) {
	case *actor.PostStart:
	case *drain:
		out := c.got
		c.got = nil
		ctx.Response(out)
	case *actor.Publish:
		c.got = append(c.got, m.Message())
	case *internalpb.CRDTFullState:
		c.got = append(c.got, m)
	default:
		// Subscribe etc.: ignored
	}
}

// ---- fake cluster view and remoting ----

type world struct {
	sys   actor.ActorSystem
	reps  []*actor.PID
	ids   map[string]int
	coll  *actor.PID
	log   []logged
	now   int64 // logical clock, units
	casen int
}

type fakeCluster struct {
	cluster.Cluster
	self int
	w    *world
}

func (f *fakeCluster) Peers(context.Context) ([]*cluster.Peer, error) {
	var ps []*cluster.Peer
	for i := range f.w.reps {
		if i != f.self {
			ps = append(ps, &cluster.Peer{Host: "127.0.0.1", RemotingPort: 7000 + i})
		}
	}
	return ps, nil
}
func (f *fakeCluster) IsLeader(context.Context) bool { return false }

type fakeRemoting struct {
	remoteclient.Client
	w *world
}

func (f *fakeRemoting) RemoteLookup(_ context.Context, host string, port int, name string) (*address.Address, error) {
	return address.New(name, "verif", host, port), nil
}
func (f *fakeRemoting) RemoteAsk(ctx context.Context, _, to *address.Address, message any, _ time.Duration) (any, error) {
	i := to.Port() - 7000
	if i < 0 || i >= len(f.w.reps) {
		return nil, fmt.Errorf("no such peer")
	}
	return actor.Ask(ctx, f.w.reps[i], message, askTimeout)
}
func (f *fakeRemoting) RemoteTell(ctx context.Context, _, to *address.Address, message any) error {
	i := to.Port() - 7000
	if i < 0 || i >= len(f.w.reps) {
		return fmt.Errorf("no such peer")
	}
	return actor.Tell(ctx, f.w.reps[i], message)
}

// logged is a captured message; tombstones remember their LOGICAL deletion time so that a later
// delivery (after the script advanced the clock) carries the right age.
type logged struct {
	msg any
	at  int64
}

// ---- helpers ----

var ctx = context.Background()

func (w *world) barrier(r int) {
	if _, err := actor.Ask(ctx, w.reps[r], &crdt.Get{Key: crdt.GCounterKey("__barrier")}, askTimeout); err != nil {
		panic("barrier: " + err.Error())
	}
}

// drainInto moves what the collector received into the message log; returns a rendering.
func (w *world) drainInto() string {
	resp, err := actor.Ask(ctx, w.coll, &drain{}, askTimeout)
	if err != nil {
		panic("drain: " + err.Error())
	}
	var sb strings.Builder
	for _, m := range resp.([]any) {
		e := logged{msg: m}
		if t, ok := m.(*internalpb.CRDTTombstone); ok {
			e.at = w.logical(time.Unix(0, t.GetDeletedAtNanos()))
		}
		w.log = append(w.log, e)
		sb.WriteString("+" + w.render(m))
	}
	return sb.String()
}

func (w *world) node(id string) string {
	if i, ok := w.ids[id]; ok {
		return strconv.Itoa(i)
	}
	if id == "ext" {
		return "9"
	}
	return "?" + id
}

func (w *world) gc(d crdt.ReplicatedData) string {
	if d == nil {
		return "nil"
	}
	g, ok := d.(*crdt.GCounter)
	if !ok {
		return fmt.Sprintf("?%T", d)
	}
	st := g.State()
	var parts []string
	for id, v := range st {
		parts = append(parts, w.node(id)+":"+strconv.FormatUint(v, 10))
	}
	sort.Strings(parts)
	return "(" + strings.Join(parts, ",") + ")"
}

func (w *world) pbData(d *internalpb.CRDTData) string {
	if d == nil {
		return "nil"
	}
	return w.gc(crdt.GCounterFromState(d.GetGCounter().GetState()))
}

func kname(k *internalpb.CRDTKey) string {
	return k.GetId() + "/" + strconv.Itoa(int(k.GetDataType())-1)
}

func (w *world) logical(t time.Time) int64 {
	age := time.Since(t)
	g := int64((age + unit/2) / unit)
	if age < 0 {
		g = -int64((-age + unit/2) / unit)
	}
	return w.now - g
}

func (w *world) render(m any) string {
	switch v := m.(type) {
	case *internalpb.CRDTDelta:
		return "D(" + kname(v.GetKey()) + "," + w.node(v.GetOriginNode()) + "," + w.pbData(v.GetData()) + ")"
	case *internalpb.CRDTTombstone:
		return "T(" + kname(v.GetKey()) + "," + strconv.FormatInt(w.logical(time.Unix(0, v.GetDeletedAtNanos())), 10) + "," + w.node(v.GetDeletedByNode()) + ")"
	case *internalpb.CRDTFullState:
		var parts []string
		for _, e := range v.GetEntries() {
			parts = append(parts, kname(e.GetKey())+"="+w.pbData(e.GetData()))
		}
		sort.Strings(parts)
		return "F(" + strings.Join(parts, ";") + ")"
	}
	return fmt.Sprintf("?%T", m)
}

func (w *world) dump(r int) string {
	st := actor.VerifReplSnapshot(w.reps[r])
	var s, t, v, y []string
	for _, k := range st.Keys {
		s = append(s, k+"="+w.gc(st.Store[k]))
	}
	for _, tb := range st.Tombs {
		t = append(t, tb.Key+"="+strconv.FormatInt(w.logical(tb.DeletedAt), 10)+"/"+w.node(tb.DeletedBy)+"/"+strconv.Itoa(int(tb.DataType)))
	}
	var vk, yk []string
	for k := range st.Versions {
		vk = append(vk, k)
	}
	sort.Strings(vk)
	for _, k := range vk {
		v = append(v, k+"="+strconv.FormatUint(st.Versions[k], 10))
	}
	for k := range st.KeyTypes {
		yk = append(yk, k)
	}
	sort.Strings(yk)
	for _, k := range yk {
		y = append(y, k+"="+strconv.Itoa(int(st.KeyTypes[k])))
	}
	return "S[" + strings.Join(s, ";") + "]T[" + strings.Join(t, ";") + "]V[" + strings.Join(v, ";") + "]Y[" + strings.Join(y, ";") + "]"
}

// wire returns the message as it is put on the wire now: a tombstone keeps its logical deletion time.
func (w *world) wire(e logged) any {
	if t, ok := e.msg.(*internalpb.CRDTTombstone); ok {
		return &internalpb.CRDTTombstone{
			Key:            t.GetKey(),
			DeletedAtNanos: time.Now().Add(-time.Duration(w.now-e.at) * unit).UnixNano(),
			DeletedByNode:  t.GetDeletedByNode(),
		}
	}
	return e.msg
}

func atoi(s string) int { n, _ := strconv.Atoi(s); return n }

func (w *world) byNode(by int) string {
	if by >= 0 && by < len(w.reps) {
		return actor.VerifReplNodeID(w.reps[by])
	}
	return "ext"
}

func (w *world) op(tok string) string {
	f := strings.Split(tok, ":")
	bad := "bad-op"
	switch f[0] {
	case "w":
		if len(f) != 2 {
			return bad
		}
		dt := atoi(f[1])
		w.now += int64(dt)
		for _, p := range w.reps {
			actor.VerifReplAge(p, time.Duration(dt)*unit)
		}
		return "-"
	}
	if len(f) < 2 {
		return bad
	}
	r := atoi(f[1])
	if r < 0 || r >= len(w.reps) {
		return bad
	}
	pid := w.reps[r]
	res := ""
	switch f[0] {
	case "u":
		n := uint64(atoi(f[3]))
		me := actor.VerifReplNodeID(pid)
		_, err := actor.Ask(ctx, pid, &crdt.Update{Key: crdt.GCounterKey(f[2]), Initial: crdt.NewGCounter(),
			Modify: func(c crdt.ReplicatedData) crdt.ReplicatedData { return c.(*crdt.GCounter).Increment(me, n) }}, askTimeout)
		if err != nil {
			return "err:" + err.Error()
		}
		res = "ok"
	case "g", "G":
		g := &crdt.Get{Key: crdt.GCounterKey(f[2])}
		if f[0] == "G" {
			g.ReadFrom = crdt.All
		}
		resp, err := actor.Ask(ctx, pid, g, askTimeout)
		if err != nil {
			return "err:" + err.Error()
		}
		res = w.gc(resp.(*crdt.GetResponse).Data)
	case "d":
		_, err := actor.Ask(ctx, pid, &crdt.Delete{Key: crdt.GCounterKey(f[2])}, askTimeout)
		if err != nil {
			return "err:" + err.Error()
		}
		res = "ok"
	case "s":
		i := atoi(f[2])
		if i < 0 || i >= len(w.log) {
			res = "noop"
			break
		}
		if err := actor.Tell(ctx, pid, w.wire(w.log[i])); err != nil {
			return "err:" + err.Error()
		}
		w.barrier(r)
		res = "ok"
	case "t":
		age, by := atoi(f[3]), atoi(f[4])
		pb := &internalpb.CRDTTombstone{
			Key:            codec.EncodeCRDTKey(f[2], crdt.GCounterType),
			DeletedAtNanos: time.Now().Add(-time.Duration(age) * unit).UnixNano(),
			DeletedByNode:  w.byNode(by),
		}
		if err := actor.Tell(ctx, pid, pb); err != nil {
			return "err:" + err.Error()
		}
		w.barrier(r)
		res = "ok"
	case "a":
		q := atoi(f[2])
		if q < 0 || q >= len(w.reps) {
			return bad
		}
		dg := actor.VerifReplDigest(pid)
		// the collector is the sender, so q's full-state reply lands in the collector
		if err := w.coll.Tell(ctx, w.reps[q], dg); err != nil {
			return "err:" + err.Error()
		}
		w.barrier(q)
		res = "ok"
		r = q // the replica that handled the message
	case "p":
		if err := actor.Tell(ctx, pid, actor.VerifPruneTick()); err != nil {
			return "err:" + err.Error()
		}
		w.barrier(r)
		res = "ok"
	case "q":
		resp, err := actor.Ask(ctx, pid, &internalpb.CRDTReadRequest{Key: codec.EncodeCRDTKey(f[2], crdt.GCounterType), FromNode: "ext"}, askTimeout)
		if err != nil {
			return "err:" + err.Error()
		}
		res = w.pbData(resp.(*internalpb.CRDTReadResponse).GetData())
	case "b":
		batch := &internalpb.CRDTDeltaBatch{OriginDc: &internalpb.DataCenter{Name: "other-dc"}, SentAtNanos: time.Now().UnixNano()}
		for _, s := range strings.Split(f[2], ",") {
			i := atoi(s)
			if i < 0 || i >= len(w.log) {
				continue
			}
			switch m := w.wire(w.log[i]).(type) {
			case *internalpb.CRDTDelta:
				batch.Deltas = append(batch.Deltas, m)
			case *internalpb.CRDTTombstone:
				batch.Tombstones = append(batch.Tombstones, m)
			}
		}
		if err := actor.Tell(ctx, pid, batch); err != nil {
			return "err:" + err.Error()
		}
		w.barrier(r)
		res = "ok"
	default:
		return bad
	}
	res += w.drainInto()
	return res + "@" + w.dump(r)
}

var theWorld *world

func setup() *world {
	if theWorld != nil {
		return theWorld
	}
	sys, err := actor.NewActorSystem("verif", actor.WithLogger(log.DiscardLogger))
	if err != nil {
		panic(err)
	}
	if err := sys.Start(ctx); err != nil {
		panic(err)
	}
	coll, err := sys.Spawn(ctx, "collector", &collector{}, actor.WithLongLived())
	if err != nil {
		panic(err)
	}
	theWorld = &world{sys: sys, coll: coll}
	return theWorld
}

func handle(line string) string {
	f := vlib.Fields(line)
	if len(f) < 2 || !strings.HasPrefix(f[0], "n=") || !strings.HasPrefix(f[1], "ttl=") {
		return "bad-case"
	}
	n, ttl := atoi(f[0][2:]), atoi(f[1][4:])
	if n < 1 || n > 4 {
		return "bad-case"
	}
	w := setup()
	w.casen++
	// fresh replicators for every case
	for _, p := range w.reps {
		_ = p.Shutdown(ctx)
	}
	w.reps, w.ids, w.log, w.now = nil, map[string]int{}, nil, 100
	cfg := crdt.NewConfig(
		crdt.WithTombstoneTTL(time.Duration(ttl)*unit+unit/2),
		crdt.WithAntiEntropyInterval(0), crdt.WithPruneInterval(0), crdt.WithSnapshotInterval(0),
	)
	for i := 0; i < n; i++ {
		p, err := actor.VerifSpawnReplicator(ctx, w.sys, fmt.Sprintf("repl-%d-%d", w.casen, i), cfg)
		if err != nil {
			return "spawn-failed " + err.Error()
		}
		w.reps = append(w.reps, p)
	}
	for i, p := range w.reps {
		w.barrier(i) // PostStart has been handled
		actor.VerifReplWire(p, w.coll, &fakeCluster{self: i, w: w}, &fakeRemoting{w: w})
		w.ids[actor.VerifReplNodeID(p)] = i
	}
	w.drainInto()
	w.log = nil
	var out []string
	for _, tok := range f[2:] {
		out = append(out, w.op(tok))
	}
	return strings.Join(out, " ")
}

func main() { vlib.Loop(handle) }

//go:build verif

// C32 harness: drives the real relocation planning functions of actor/relocation_worker.go.
//
// token formats
//   roles    "-" (none) or comma separated positive ints k (role string "r<k>")
//   peers    "." (no peer) or ";"-separated roles
//   actors   "-" or comma separated id.role[.flags]   flags: s singleton, n non-relocatable, y system name
//   grains   "-" or comma separated id[.flags]        flags: d relocation disabled, e eager
//   idlist   "-" or comma separated ids
//
// ops
//   aa <leaderRoles> <peers> <baseLoads|-> <actors>
//        -> "map lead=.. sh=../.. un=.. | seq lead=.. sh=.. un=.."
//        map: ONE call of allocateActors on the whole map (Go picks the iteration order);
//        seq: one call per actor (single-entry map) in case order, baseLoads advanced by the
//             loads of the shares handed out so far -> deterministic
//   ag <totalPeers> <grains>   -> "rel=.. lead=.. sh=.. | seq lead=.. sh=.."
//        rel: relocatableGrains(map) in the order it produced; lead/sh: allocateGrains(total, rel)
//        seq: allocateGrains(total, all grains of the case as a slice, case order)
//   ch <n> <size>              -> chunk lengths of Chunkify([0..n), size)
//   bb <nActors> <nGrains>     -> kinds and sizes of buildRelocateBatchRequests
//   rr <leaderRoles> <survivors> <requests>   requests: "-" or "/"-separated A<actors>+G<grains>
//        -> "sh=.. lead=.. gr=.. fail=.."
//   sp <peersE> <target>               peersE: ";"-separated host:port:roles (small ints; peers may share host or port)
//        -> indices (into peersE) of survivingPeersExcept(peers, peers[target]), in order
//   rx <leaderRoles> <peersE> <target> <requests>
//        the first lines of relocateShare's error path: survivingPeersExcept then reassignByRole
//        -> "sv=<indices> sh=.. lead=.. gr=.. fail=.."
//   dv <actors> <grains>               crash-recovery snapshot builder: real deriveRelocationSetFromRegistry over
//        these registry records of the departed node (grain flag y = system-named grain) -> "a=<ids> g=<ids>"
//   ps <actors>                        graceful-shutdown snapshot builder: a real started system spawns these actors
//        (n = WithRelocationDisabled, y = system actor under a reserved name), real preShutdown
//        -> "a=<ids> foreign=<entries that are none of the case's actors>"
//   ll <survivors> <shareLens> <role>  -> index or -1
//   el <roles> <role>                  -> true|false
//   gate <actor>                       -> skip|proceed|err  (dispatch rule of enqueueRelocation)
package main

import (
	"fmt"
	"sort"
	"strconv"
	"strings"

	"github.com/tochemey/goakt/v4/actor"
	"github.com/tochemey/goakt/v4/internal/address"
	"github.com/tochemey/goakt/v4/internal/cluster"
	"github.com/tochemey/goakt/v4/internal/internalpb"
	"github.com/tochemey/goakt/v4/internal/verifdrv/vlib"
)

const departedHost = "10.9.9.9"
const departedPort = 9000

func roleName(k int) string {
	if k == 0 {
		return ""
	}
	return "r" + strconv.Itoa(k)
}

func parseRoles(s string) ([]string, bool) {
	if s == "-" {
		return nil, true
	}
	var out []string
	for _, t := range strings.Split(s, ",") {
		k, err := strconv.Atoi(t)
		if err != nil || k < 0 {
			return nil, false
		}
		out = append(out, roleName(k))
	}
	return out, true
}

func parsePeers(s string) ([]*cluster.Peer, bool) {
	if s == "." {
		return nil, true
	}
	var out []*cluster.Peer
	for i, t := range strings.Split(s, ";") {
		roles, ok := parseRoles(t)
		if !ok {
			return nil, false
		}
		out = append(out, &cluster.Peer{Host: "10.0.0." + strconv.Itoa(i+1), RemotingPort: 7000 + i, PeersPort: 8000 + i, Roles: roles})
	}
	return out, true
}

// parsePeersE parses host:port:roles;... (endpoints may coincide in host or in port)
func parsePeersE(s string) ([]*cluster.Peer, bool) {
	if s == "." {
		return nil, true
	}
	var out []*cluster.Peer
	for _, t := range strings.Split(s, ";") {
		f := strings.SplitN(t, ":", 3)
		if len(f) != 3 {
			return nil, false
		}
		h, e1 := strconv.Atoi(f[0])
		p, e2 := strconv.Atoi(f[1])
		roles, ok := parseRoles(f[2])
		if e1 != nil || e2 != nil || !ok || h < 0 || p < 0 {
			return nil, false
		}
		out = append(out, &cluster.Peer{Host: "10.0.1." + strconv.Itoa(h), RemotingPort: p, PeersPort: 8000, Roles: roles})
	}
	return out, true
}

func peerIndices(all, sel []*cluster.Peer) string {
	if len(sel) == 0 {
		return "-"
	}
	out := make([]string, len(sel))
	for i, s := range sel {
		out[i] = "foreign"
		for j, p := range all {
			if p == s {
				out[i] = strconv.Itoa(j)
			}
		}
	}
	return strings.Join(out, ",")
}

type reg struct {
	actorID map[*internalpb.Actor]int
	grainID map[*internalpb.Grain]int
	byAddr  map[string]int
}

func newReg() *reg {
	return &reg{actorID: map[*internalpb.Actor]int{}, grainID: map[*internalpb.Grain]int{}, byAddr: map[string]int{}}
}

func (r *reg) mkActor(tok string) (*internalpb.Actor, bool) {
	f := strings.Split(tok, ".")
	if len(f) < 2 {
		return nil, false
	}
	id, e1 := strconv.Atoi(f[0])
	role, e2 := strconv.Atoi(f[1])
	if e1 != nil || e2 != nil || id < 0 || role < 0 {
		return nil, false
	}
	flags := ""
	if len(f) > 2 {
		flags = f[2]
	}
	name := "a" + strconv.Itoa(id)
	if strings.Contains(flags, "y") {
		name = actor.VerifSystemNamePrefix() + "Verif" + strconv.Itoa(id)
	}
	a := &internalpb.Actor{
		Address:     address.New(name, "sys", departedHost, departedPort).String(),
		Type:        "verif.Actor",
		Relocatable: !strings.Contains(flags, "n"),
	}
	if role != 0 {
		rn := roleName(role)
		a.Role = &rn
	}
	if strings.Contains(flags, "s") {
		a.Singleton = &internalpb.SingletonSpec{}
	}
	r.actorID[a] = id
	r.byAddr[a.Address] = id
	return a, true
}

func (r *reg) mkActors(s string) ([]*internalpb.Actor, bool) {
	if s == "-" {
		return nil, true
	}
	var out []*internalpb.Actor
	for _, t := range strings.Split(s, ",") {
		a, ok := r.mkActor(t)
		if !ok {
			return nil, false
		}
		out = append(out, a)
	}
	return out, true
}

func (r *reg) mkGrains(s string) ([]*internalpb.Grain, bool) {
	if s == "-" {
		return nil, true
	}
	var out []*internalpb.Grain
	for _, t := range strings.Split(s, ",") {
		f := strings.Split(t, ".")
		id, err := strconv.Atoi(f[0])
		if err != nil || id < 0 {
			return nil, false
		}
		flags := ""
		if len(f) > 1 {
			flags = f[1]
		}
		gname := "g" + strconv.Itoa(id)
		if strings.Contains(flags, "y") {
			gname = actor.VerifSystemNamePrefix() + "G" + strconv.Itoa(id)
		}
		g := &internalpb.Grain{
			GrainId:           &internalpb.GrainId{Kind: "verif.Grain", Name: gname, Value: "verif.Grain/" + gname},
			Host:              departedHost,
			Port:              departedPort,
			DisableRelocation: strings.Contains(flags, "d"),
			EagerRelocation:   strings.Contains(flags, "e"),
		}
		r.grainID[g] = id
		out = append(out, g)
	}
	return out, true
}

func (r *reg) aids(l []*internalpb.Actor) string {
	if len(l) == 0 {
		return "-"
	}
	s := make([]string, len(l))
	for i, a := range l {
		if id, ok := r.actorID[a]; ok {
			s[i] = strconv.Itoa(id)
		} else {
			s[i] = "foreign"
		}
	}
	return strings.Join(s, ",")
}

func (r *reg) gids(l []*internalpb.Grain) string {
	if len(l) == 0 {
		return "-"
	}
	s := make([]string, len(l))
	for i, g := range l {
		if id, ok := r.grainID[g]; ok {
			s[i] = strconv.Itoa(id)
		} else {
			s[i] = "foreign"
		}
	}
	return strings.Join(s, ",")
}

func (r *reg) ashares(l [][]*internalpb.Actor) string {
	if len(l) == 0 {
		return "none"
	}
	s := make([]string, len(l))
	for i, sh := range l {
		s[i] = r.aids(sh)
	}
	return strings.Join(s, "/")
}

func (r *reg) gshares(l [][]*internalpb.Grain) string {
	if len(l) == 0 {
		return "none"
	}
	s := make([]string, len(l))
	for i, sh := range l {
		s[i] = r.gids(sh)
	}
	return strings.Join(s, "/")
}

func sortedIDList(s string) string {
	if s == "-" {
		return s
	}
	parts := strings.Split(s, ",")
	sort.Slice(parts, func(i, j int) bool {
		a, e1 := strconv.Atoi(parts[i])
		b, e2 := strconv.Atoi(parts[j])
		if e1 != nil || e2 != nil {
			return parts[i] < parts[j]
		}
		return a < b
	})
	return strings.Join(parts, ",")
}

func parseInts(s string) ([]int, bool) {
	if s == "-" {
		return nil, true
	}
	var out []int
	for _, t := range strings.Split(s, ",") {
		k, err := strconv.Atoi(t)
		if err != nil {
			return nil, false
		}
		out = append(out, k)
	}
	return out, true
}

func opAA(f []string) string {
	if len(f) != 5 {
		return "bad-case"
	}
	leader, ok1 := parseRoles(f[1])
	peers, ok2 := parsePeers(f[2])
	base, ok3 := parseInts(f[3])
	r := newReg()
	actors, ok4 := r.mkActors(f[4])
	if !(ok1 && ok2 && ok3 && ok4) {
		return "bad-case"
	}
	m := make(map[string]*internalpb.Actor, len(actors))
	for _, a := range actors {
		if _, dup := m[a.Address]; dup {
			return "bad-case"
		}
		m[a.Address] = a
	}
	st := &internalpb.PeerState{Host: departedHost, PeersPort: 9500, RemotingPort: departedPort, Actors: m}
	lead, shares, unpl := actor.VerifAllocateActors(leader, peers, st, base)
	mapOut := fmt.Sprintf("map lead=%s sh=%s un=%s", r.aids(lead), r.ashares(shares), r.aids(unpl))

	// deterministic replay: one real call per actor, in case order
	n := len(peers) + 1
	loads := make([]int, n)
	if len(base) == n {
		copy(loads, base)
	}
	var sLead, sUnpl, singles []*internalpb.Actor
	sShares := make([][]*internalpb.Actor, n)
	for _, a := range actors {
		one := &internalpb.PeerState{Host: departedHost, PeersPort: 9500, RemotingPort: departedPort, Actors: map[string]*internalpb.Actor{a.Address: a}}
		l1, s1, u1 := actor.VerifAllocateActors(leader, peers, one, loads)
		if len(s1) != n {
			return "seq-shape"
		}
		placed := false
		for i := range s1 {
			if len(s1[i]) > 0 {
				sShares[i] = append(sShares[i], s1[i]...)
				loads[i] += len(s1[i])
				placed = true
			}
		}
		sUnpl = append(sUnpl, u1...)
		if !placed && len(l1) > 0 {
			singles = append(singles, l1...)
		}
	}
	sLead = append(sLead, singles...)
	sLead = append(sLead, sShares[0]...)
	return mapOut + " | " + fmt.Sprintf("seq lead=%s sh=%s un=%s", r.aids(sLead), r.ashares(sShares), r.aids(sUnpl))
}

func opAG(f []string) string {
	if len(f) != 3 {
		return "bad-case"
	}
	total, err := strconv.Atoi(f[1])
	r := newReg()
	grains, ok := r.mkGrains(f[2])
	if err != nil || !ok || total < 1 {
		return "bad-case"
	}
	m := make(map[string]*internalpb.Grain, len(grains))
	for _, g := range grains {
		if _, dup := m[g.GrainId.Value]; dup {
			return "bad-case"
		}
		m[g.GrainId.Value] = g
	}
	rel := actor.VerifRelocatableGrains(m)
	lead, shares := actor.VerifAllocateGrains(total, rel)
	sLead, sShares := actor.VerifAllocateGrains(total, grains)
	return fmt.Sprintf("rel=%s lead=%s sh=%s | seq lead=%s sh=%s", r.gids(rel), r.gids(lead), r.gshares(shares), r.gids(sLead), r.gshares(sShares))
}

func joinInts(l []int) string {
	if len(l) == 0 {
		return "-"
	}
	s := make([]string, len(l))
	for i, v := range l {
		s[i] = strconv.Itoa(v)
	}
	return strings.Join(s, ",")
}

func parseRequests(r *reg, s string) ([]*internalpb.RelocateBatchRequest, bool) {
	if s == "-" {
		return nil, true
	}
	var out []*internalpb.RelocateBatchRequest
	for _, t := range strings.Split(s, "/") {
		parts := strings.Split(t, "+")
		if len(parts) != 2 || !strings.HasPrefix(parts[0], "A") || !strings.HasPrefix(parts[1], "G") {
			return nil, false
		}
		as, ok1 := r.mkActors(parts[0][1:])
		gs, ok2 := r.mkGrains(parts[1][1:])
		if !ok1 || !ok2 {
			return nil, false
		}
		out = append(out, &internalpb.RelocateBatchRequest{DepartedNode: departedHost + ":" + strconv.Itoa(departedPort), Actors: as, Grains: gs})
	}
	return out, true
}

func handle(line string) string {
	f := vlib.Fields(line)
	if len(f) == 0 {
		return "bad-case"
	}
	switch f[0] {
	case "aa":
		return opAA(f)
	case "ag":
		return opAG(f)
	case "ch":
		if len(f) != 3 {
			return "bad-case"
		}
		n, e1 := strconv.Atoi(f[1])
		size, e2 := strconv.Atoi(f[2])
		if e1 != nil || e2 != nil || n < 0 || size < 0 || (size == 0 && n > 0) {
			return "bad-case" // size 0 on a non-empty slice never terminates in the real code
		}
		return joinInts(actor.VerifChunkLens(n, size))
	case "bb":
		if len(f) != 3 {
			return "bad-case"
		}
		na, e1 := strconv.Atoi(f[1])
		ng, e2 := strconv.Atoi(f[2])
		if e1 != nil || e2 != nil || na < 0 || ng < 0 {
			return "bad-case"
		}
		r := newReg()
		var as []*internalpb.Actor
		var gs []*internalpb.Grain
		for i := 0; i < na; i++ {
			a, _ := r.mkActor(strconv.Itoa(i) + ".0")
			as = append(as, a)
		}
		if ng > 0 {
			toks := make([]string, ng)
			for i := range toks {
				toks[i] = strconv.Itoa(i)
			}
			gs, _ = r.mkGrains(strings.Join(toks, ","))
		}
		reqs := actor.VerifBuildRelocateBatchRequests("d", as, gs)
		var out []string
		nextA, nextG := 0, 0
		for _, q := range reqs {
			if q.GetDepartedNode() != "d" || (len(q.GetActors()) > 0 && len(q.GetGrains()) > 0) {
				return "mixed-or-unmarked-batch"
			}
			for _, a := range q.GetActors() {
				if r.actorID[a] != nextA {
					return "actors-reordered"
				}
				nextA++
			}
			for _, g := range q.GetGrains() {
				if r.grainID[g] != nextG {
					return "grains-reordered"
				}
				nextG++
			}
			if len(q.GetActors()) > 0 {
				out = append(out, "a"+strconv.Itoa(len(q.GetActors())))
			} else {
				out = append(out, "g"+strconv.Itoa(len(q.GetGrains())))
			}
		}
		if nextA != na || nextG != ng {
			return "items-lost"
		}
		if len(out) == 0 {
			return "-"
		}
		return strings.Join(out, ",")
	case "rr":
		if len(f) != 4 {
			return "bad-case"
		}
		leader, ok1 := parseRoles(f[1])
		surv, ok2 := parsePeers(f[2])
		r := newReg()
		reqs, ok3 := parseRequests(r, f[3])
		if !(ok1 && ok2 && ok3) {
			return "bad-case"
		}
		shares, lead, grains, fails := actor.VerifReassignByRole(reqs, surv, leader)
		var fl []string
		for _, fa := range fails {
			if fa.GetGrain() {
				fl = append(fl, "grain:"+fa.GetId())
				continue
			}
			if id, ok := r.byAddr[fa.GetId()]; ok {
				fl = append(fl, strconv.Itoa(id))
			} else {
				fl = append(fl, "foreign")
			}
		}
		fs := "-"
		if len(fl) > 0 {
			fs = strings.Join(fl, ",")
		}
		return fmt.Sprintf("sh=%s lead=%s gr=%s fail=%s", r.ashares(shares), r.aids(lead), r.gids(grains), fs)
	case "sp":
		if len(f) != 3 {
			return "bad-case"
		}
		peers, ok := parsePeersE(f[1])
		t, err := strconv.Atoi(f[2])
		if !ok || err != nil || t < 0 || t >= len(peers) {
			return "bad-case"
		}
		return peerIndices(peers, actor.VerifSurvivingPeersExcept(peers, peers[t]))
	case "rx":
		if len(f) != 5 {
			return "bad-case"
		}
		leader, ok1 := parseRoles(f[1])
		peers, ok2 := parsePeersE(f[2])
		t, err := strconv.Atoi(f[3])
		r := newReg()
		reqs, ok3 := parseRequests(r, f[4])
		if !(ok1 && ok2 && ok3) || err != nil || t < 0 || t >= len(peers) {
			return "bad-case"
		}
		surv := actor.VerifSurvivingPeersExcept(peers, peers[t])
		shares, lead, grains, fails := actor.VerifReassignByRole(reqs, surv, leader)
		var fl []string
		for _, fa := range fails {
			if id, ok := r.byAddr[fa.GetId()]; ok && !fa.GetGrain() {
				fl = append(fl, strconv.Itoa(id))
			} else {
				fl = append(fl, "foreign")
			}
		}
		fs := "-"
		if len(fl) > 0 {
			fs = strings.Join(fl, ",")
		}
		return fmt.Sprintf("sv=%s sh=%s lead=%s gr=%s fail=%s", peerIndices(peers, surv), r.ashares(shares), r.aids(lead), r.gids(grains), fs)
	case "dv":
		if len(f) != 3 {
			return "bad-case"
		}
		r := newReg()
		as, ok1 := r.mkActors(f[1])
		gs, ok2 := r.mkGrains(f[2])
		if !ok1 || !ok2 {
			return "bad-case"
		}
		st, ok := actor.VerifDeriveRelocationSet(departedHost, 9500, departedPort, as, gs)
		if !ok {
			return "derive-failed"
		}
		var ka []*internalpb.Actor
		for _, a := range st.GetActors() {
			ka = append(ka, a)
		}
		var kg []*internalpb.Grain
		for _, g := range st.GetGrains() {
			kg = append(kg, g)
		}
		return "a=" + sortedIDList(r.aids(ka)) + " g=" + sortedIDList(r.gids(kg))
	case "ps":
		if len(f) != 2 {
			return "bad-case"
		}
		var specs []actor.VerifLiveActorSpec
		names := map[string]int{}
		if f[1] != "-" {
			for _, tok := range strings.Split(f[1], ",") {
				p := strings.Split(tok, ".")
				if len(p) < 2 {
					return "bad-case"
				}
				id, e1 := strconv.Atoi(p[0])
				role, e2 := strconv.Atoi(p[1])
				if e1 != nil || e2 != nil {
					return "bad-case"
				}
				flags := ""
				if len(p) > 2 {
					flags = p[2]
				}
				name := "a" + strconv.Itoa(id)
				if strings.Contains(flags, "y") {
					name = actor.VerifSystemNamePrefix() + "Verif" + strconv.Itoa(id)
				}
				names[name] = id
				specs = append(specs, actor.VerifLiveActorSpec{Name: name, Role: roleName(role), Relocatable: !strings.Contains(flags, "n"), System: strings.Contains(flags, "y")})
			}
		}
		snap, err := actor.VerifPreShutdownSnapshot(specs)
		if err != nil {
			return "rig-error " + vlib.Canon(err.Error())
		}
		var ids []string
		foreign := 0
		for name, rec := range snap {
			id, ok := names[name]
			if !ok {
				foreign++
				continue
			}
			if !rec.GetRelocatable() {
				return "non-relocatable-record-in-snapshot"
			}
			ids = append(ids, strconv.Itoa(id))
		}
		l := "-"
		if len(ids) > 0 {
			l = strings.Join(ids, ",")
		}
		return "a=" + sortedIDList(l) + " foreign=" + strconv.Itoa(foreign)
	case "ll":
		if len(f) != 4 {
			return "bad-case"
		}
		surv, ok1 := parsePeers(f[1])
		lens, ok2 := parseInts(f[2])
		role, err := strconv.Atoi(f[3])
		if !ok1 || !ok2 || err != nil || len(lens) != len(surv) || role < 0 {
			return "bad-case"
		}
		shares := make([][]*internalpb.Actor, len(surv))
		for i, k := range lens {
			if k < 0 {
				return "bad-case"
			}
			shares[i] = make([]*internalpb.Actor, k)
		}
		return strconv.Itoa(actor.VerifLeastLoadedEligibleSurvivor(surv, shares, roleName(role)))
	case "el":
		if len(f) != 3 {
			return "bad-case"
		}
		roles, ok := parseRoles(f[1])
		role, err := strconv.Atoi(f[2])
		if !ok || err != nil || role < 0 {
			return "bad-case"
		}
		return strconv.FormatBool(actor.VerifEligibleForRole(roles, roleName(role)))
	case "gate":
		if len(f) != 2 {
			return "bad-case"
		}
		r := newReg()
		a, ok := r.mkActor(f[1])
		if !ok {
			return "bad-case"
		}
		return actor.VerifRecreateGate(a, departedHost+":"+strconv.Itoa(departedPort))
	}
	return "bad-case"
}

func main() { vlib.Loop(handle) }

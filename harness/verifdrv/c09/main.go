//go:build verif

// C09 harness.
//   tree <NM> <op>...   op script against the real actor tree (pid_tree.go), dump after every op
//   sys <op>...         spawn/watch/stop/restart script on a real started actor system (zz_verif_c09sys.go)
package main

import (
	"github.com/tochemey/goakt/v4/actor"
	"github.com/tochemey/goakt/v4/internal/verifdrv/vlib"
)

func handle(line string) string {
	f := vlib.Fields(line)
	if len(f) < 2 {
		return "bad-case"
	}
	switch f[0] {
	case "tree":
		return actor.VerifC09TreeCase(f)
	case "sys":
		return actor.VerifC09SysCase(f)
	case "guard":
		return actor.VerifC09GuardCase(f)
	}
	return "bad-case"
}

func main() { vlib.Loop(handle) }

//go:build verif

// C09 harness.
//   tree <NM> <op>...   op script against the real actor tree (pid_tree.go), dump after every op
//   resolve | A ; D | <schedule>   name resolution racing deleteNode under controlled scheduling (E3)
//   sys <op>...         spawn/watch/stop/restart script on a real started actor system (zz_verif_c09sys.go)
//   attach top|child <ms>   a PostStart handler spawns a child while the actor's own spawn is held in front of
//                       its attachment to the tree (zz_verif_c09attach.go; gate inserted by check.py REWRITE)
package main

import (
	"github.com/tochemey/goakt/v4/actor"
	"github.com/tochemey/goakt/v4/internal/verifdrv/vlib"
)

func mkResolve(cfg string, n int) vlib.Obj {
	if v := actor.NewVerifC09Resolve(); v != nil {
		return v
	}
	return nil
}

func handle(line string) string {
	if len(line) > 7 && line[:7] == "resolve" {
		return vlib.RunConc(line, mkResolve)
	}
	f := vlib.Fields(line)
	if len(f) < 2 {
		return "bad-case"
	}
	switch f[0] {
	case "tree":
		return actor.VerifC09TreeCase(f)
	case "sys":
		return actor.VerifC09SysCase(f)
	case "guard":
		return actor.VerifC09GuardCase(f)
	case "attach":
		return actor.VerifC09AttachCase(f)
	}
	return "bad-case"
}

func main() { vlib.Loop(handle) }

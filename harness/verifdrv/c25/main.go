//go:build verif

// C25 harness: drives the real serializers and the real per-type dispatch.
//
// Family C (byte-exact framing / envelopes):
//   pser <reply|log|acct|nonproto> <contenthex>      ProtoSerializer.Serialize
//   pdes <hex>                                        ProtoSerializer.Deserialize
//   cser <c|j> <int64>                                CBOR/JSON Serialize(int64)
//   cdes <c|j> <hex>                                  CBOR/JSON Deserialize
//   ftn <hex>                                         frameTypeName
//   tser <pathhex> <nanos> | tdec <hex> <flag>        terminatedSerializer
//   ppser | ppdec <hex>                               poisonPillSerializer
//   dlv <cmdspec> | denv <envspec> | ddec <hex>       DeliverySerializer
// Family A (scripted serializers under the real dispatch):
//   dsp <seed0|1> <entries> <ops...>
// Family B (real serializers, the harness reports the abstract view and the results):
//   real <entries> <msgspec>
package main

import (
	"bytes"
	"encoding/binary"
	"encoding/hex"
	"errors"
	"fmt"
	"reflect"
	"strconv"
	"strings"

	"google.golang.org/protobuf/proto"
	"google.golang.org/protobuf/reflect/protoreflect"

	"github.com/tochemey/goakt/v4/actor"
	gerrors "github.com/tochemey/goakt/v4/errors"
	"github.com/tochemey/goakt/v4/internal/address"
	"github.com/tochemey/goakt/v4/internal/commands"
	"github.com/tochemey/goakt/v4/internal/internalpb"
	inet "github.com/tochemey/goakt/v4/internal/net"
	"github.com/tochemey/goakt/v4/internal/remoteclient"
	"github.com/tochemey/goakt/v4/internal/types"
	"github.com/tochemey/goakt/v4/internal/verifdrv/vlib"
	"github.com/tochemey/goakt/v4/remote"
	testpb "github.com/tochemey/goakt/v4/test/data/testpb"
)

// ---------------------------------------------------------------- helpers

func hx(b []byte) string {
	if len(b) == 0 {
		return "-"
	}
	return hex.EncodeToString(b)
}

func unhx(s string) []byte {
	if s == "-" || s == "" {
		return []byte{}
	}
	b, err := hex.DecodeString(s)
	if err != nil {
		panic("bad hex " + s)
	}
	return b
}

var errScript = errors.New("verif: scripted serializer refuses")

func cls(err error) string {
	if err == nil {
		return "ok"
	}
	if c := remoteclient.VerifC25ErrClass(err); c != "" {
		return c
	}
	msg := err.Error()
	switch {
	case errors.Is(err, errScript):
		return "custom"
	case errors.Is(err, remote.ErrNotProtoMessage):
		return "not-proto"
	case errors.Is(err, remote.ErrUnknownMessageType):
		return "unknown-type"
	case errors.Is(err, remote.ErrSerializeFailed), errors.Is(err, remote.ErrCBORSerializeFailed), errors.Is(err, remote.ErrJSONSerializeFailed):
		return "marshal"
	case errors.Is(err, remote.ErrDeserializeFailed), errors.Is(err, remote.ErrCBORDeserializeFailed), errors.Is(err, remote.ErrJSONDeserializeFailed):
		return "unmarshal"
	case errors.Is(err, remote.ErrInvalidFrame), errors.Is(err, remote.ErrCBORInvalidFrame), errors.Is(err, remote.ErrJSONInvalidFrame):
		return "invalid-frame"
	case errors.Is(err, remote.ErrCBORNilMessage), errors.Is(err, remote.ErrJSONNilMessage):
		return "nil-message"
	case strings.Contains(msg, "type not registered"):
		return "not-registered"
	case strings.Contains(msg, "not a Terminated frame"), strings.Contains(msg, "not a PoisonPill frame"), strings.Contains(msg, "not a reliable delivery frame"):
		return "not-envelope"
	case errors.Is(err, gerrors.ErrInvalidMessage):
		return "invalid-message"
	case strings.HasPrefix(msg, "proto:"):
		return "unmarshal"
	}
	return "other"
}

func b01(b bool) string {
	if b {
		return "1"
	}
	return "0"
}

// ---------------------------------------------------------------- family C

var (
	protoSer = remote.NewProtoSerializer()
	cborSer  = remote.NewCBORSerializer()
	jsonSer  = remote.NewJSONSerializer()
	termSer  = actor.VerifC25TerminatedSerializer()
	ppSer    = actor.VerifC25PoisonPillSerializer()
	dlvSer   = new(commands.DeliverySerializer)
)

func strField(m any) (string, string, bool) {
	switch v := m.(type) {
	case *testpb.Reply:
		return "testpb.Reply", v.GetContent(), true
	case *testpb.TestLog:
		return "testpb.TestLog", v.GetText(), true
	case *testpb.GetAccount:
		return "testpb.GetAccount", v.GetAccountId(), true
	}
	return "", "", false
}

func mkProto(kind, content string) any {
	switch kind {
	case "reply":
		return &testpb.Reply{Content: content}
	case "log":
		return &testpb.TestLog{Text: content}
	case "acct":
		return &testpb.GetAccount{AccountId: content}
	}
	return &struct{ X int }{1}
}

func serRes(b []byte, err error) string {
	if err != nil {
		return "err:" + cls(err)
	}
	return "ok " + hx(b)
}

func famC(f []string) string {
	switch f[0] {
	case "pser":
		return serRes(protoSer.Serialize(mkProto(f[1], string(unhx(f[2])))))
	case "pdes":
		m, err := protoSer.Deserialize(unhx(f[1]))
		if err != nil {
			return "err:" + cls(err)
		}
		n, c, ok := strField(m)
		if !ok {
			return "ok other"
		}
		return "ok " + n + " " + hx([]byte(c))
	case "cser", "cdes":
		var s remote.Serializer = cborSer
		if f[1] == "j" {
			s = jsonSer
		}
		if f[0] == "cser" {
			v, _ := strconv.ParseInt(f[2], 10, 64)
			return serRes(s.Serialize(v))
		}
		m, err := s.Deserialize(unhx(f[2]))
		if err != nil {
			return "err:" + cls(err)
		}
		if v, ok := m.(int64); ok {
			return "ok int64 " + strconv.FormatInt(v, 10)
		}
		return fmt.Sprintf("ok other %T", m)
	case "ftn":
		n, ok := remoteclient.VerifC25FrameTypeName(unhx(f[1]))
		if !ok {
			return "none"
		}
		return "ok " + hx([]byte(n))
	case "tser":
		nanos, _ := strconv.ParseInt(f[2], 10, 64)
		t, err := actor.VerifC25NewTerminated(string(unhx(f[1])), nanos)
		if err != nil {
			return "bad-case"
		}
		return serRes(termSer.Serialize(t))
	case "tdec":
		data := unhx(f[1])
		view := ""
		// check the claimed parse flag against the real address.Parse on the path slice
		if len(data) >= 20 {
			pl := int(binary.BigEndian.Uint32(data[8:12]))
			if 12+pl+8 == len(data) && pl > 0 {
				_, perr := address.Parse(string(data[12 : 12+pl]))
				if (perr == nil) != (f[2] == "1") {
					view = " view-mismatch"
				}
			}
		}
		m, err := termSer.Deserialize(data)
		if err != nil {
			return "err:" + cls(err) + view
		}
		p, n := actor.VerifC25TerminatedFields(m.(*actor.Terminated))
		return "ok " + hx([]byte(p)) + " " + strconv.FormatInt(n, 10) + view
	case "ppser":
		return serRes(ppSer.Serialize(new(actor.PoisonPill)))
	case "ppdec":
		_, err := ppSer.Deserialize(unhx(f[1]))
		if err != nil {
			return "err:" + cls(err)
		}
		return "ok"
	case "dlv":
		c := mkCmd(f[1])
		if c == nil {
			return "bad-case"
		}
		b, err := dlvSer.Serialize(c)
		if err != nil {
			return "err:" + cls(err)
		}
		m, err := dlvSer.Deserialize(b)
		if err != nil {
			return "ok " + hx(b) + " rt=err:" + cls(err)
		}
		return "ok " + hx(b) + " rt=" + dumpCmd(m)
	case "denv":
		env := mkEnv(f[1])
		if env == nil {
			return "bad-case"
		}
		b, err := proto.MarshalOptions{}.MarshalAppend([]byte{0xFF, 0xFF, 0xFF, 0xFF, 'R', 'D', 'E', 'L'}, env)
		if err != nil {
			return "err:marshal"
		}
		m, err := dlvSer.Deserialize(b)
		if err != nil {
			return hx(b) + " dec=err:" + cls(err)
		}
		return hx(b) + " dec=" + dumpCmd(m)
	case "ddec":
		m, err := dlvSer.Deserialize(unhx(f[1]))
		if err != nil {
			return "err:" + cls(err)
		}
		return "ok " + dumpCmd(m)
	}
	return "bad-case"
}

func i64(s string) int64 { v, _ := strconv.ParseInt(s, 10, 64); return v }

// cmdspec: rc:<nonce> | ra:<s>:<n>:<nonce> | rq:<s>:<nonce>:<c>:<u>:<via> | ak:<s>:<nonce>:<c> | sq:<s>:<id>:<seq>:<payload>:<cfl>
func mkCmd(spec string) any {
	p := strings.Split(spec, ":")
	s := func(i int) string { return string(unhx(p[i])) }
	switch p[0] {
	case "rc":
		return commands.VerifC25RegisterConsumer(s(1))
	case "ra":
		return commands.VerifC25RegistrationAck(s(1), i64(p[2]), s(3))
	case "rq":
		return commands.VerifC25Request(s(1), s(2), i64(p[3]), i64(p[4]), p[5] == "1")
	case "ak":
		return commands.VerifC25Ack(s(1), s(2), i64(p[3]))
	case "sq":
		return commands.VerifC25Sequenced(s(1), s(2), i64(p[3]), unhx(p[4]), p[5][0] == '1', p[5][1] == '1', p[5][2] == '1')
	case "other":
		return &testpb.Reply{Content: "x"}
	}
	return nil
}

func dumpCmd(m any) string {
	h := func(s string) string { return hx([]byte(s)) }
	switch c := m.(type) {
	case *commands.RegisterConsumer:
		return "rc:" + h(c.Nonce())
	case *commands.RegistrationAck:
		return fmt.Sprintf("ra:%s:%d:%s", h(c.SessionID()), c.NextSeq(), h(c.Nonce()))
	case *commands.Request:
		return fmt.Sprintf("rq:%s:%s:%d:%d:%s", h(c.SessionID()), h(c.RegistrationNonce()), c.ConfirmedSeq(), c.RequestUpToSeq(), b01(c.ViaTimeout()))
	case *commands.Ack:
		return fmt.Sprintf("ak:%s:%s:%d", h(c.SessionID()), h(c.RegistrationNonce()), c.ConfirmedSeq())
	case *commands.SequencedMessage:
		return fmt.Sprintf("sq:%s:%s:%d:%s:%s%s%s", h(c.SessionID()), h(c.MessageID()), c.Seq(), hx(c.Payload()), b01(c.Chunked()), b01(c.FirstChunk()), b01(c.LastChunk()))
	}
	return fmt.Sprintf("other:%T", m)
}

// envspec: none | rc/ra/rq/ak as cmdspec | sq:<s>:<id>:<seq>:<payload|~>:<chunk: ~|fl>
func mkEnv(spec string) *internalpb.DeliveryEnvelope {
	p := strings.Split(spec, ":")
	s := func(i int) string { return string(unhx(p[i])) }
	env := new(internalpb.DeliveryEnvelope)
	switch p[0] {
	case "none":
	case "rc":
		env.Command = &internalpb.DeliveryEnvelope_RegisterConsumer{RegisterConsumer: &internalpb.RegisterConsumer{Nonce: s(1)}}
	case "ra":
		env.Command = &internalpb.DeliveryEnvelope_RegistrationAck{RegistrationAck: &internalpb.RegistrationAck{SessionId: s(1), NextSeq: i64(p[2]), Nonce: s(3)}}
	case "rq":
		env.Command = &internalpb.DeliveryEnvelope_Request{Request: &internalpb.Request{SessionId: s(1), RegistrationNonce: s(2), ConfirmedSeq: i64(p[3]), RequestUpToSeq: i64(p[4]), ViaTimeout: p[5] == "1"}}
	case "ak":
		env.Command = &internalpb.DeliveryEnvelope_Ack{Ack: &internalpb.Ack{SessionId: s(1), RegistrationNonce: s(2), ConfirmedSeq: i64(p[3])}}
	case "sq":
		sm := &internalpb.SequencedMessage{SessionId: s(1), MessageId: s(2), Seq: i64(p[3])}
		if p[4] != "~" {
			sm.Payload = &internalpb.ReliablePayload{Data: unhx(p[4])}
		}
		if p[5] != "~" {
			sm.ChunkInfo = &internalpb.ChunkInfo{First: p[5][0] == '1', Last: p[5][1] == '1'}
		}
		env.Command = &internalpb.DeliveryEnvelope_SequencedMessage{SequencedMessage: sm}
	default:
		return nil
	}
	return env
}

// ---------------------------------------------------------------- family A: scripted serializers

type vAny interface{ vAny() }
type vA interface{ vA() }
type vB interface{ vB() }

type V0 struct{}
type V1 struct{}
type V2 struct{}
type V3 struct{}
type U struct{}

func (*V0) vAny() {}
func (*V1) vAny() {}
func (*V2) vAny() {}
func (*V3) vAny() {}
func (*V0) vA()   {}
func (*V1) vA()   {}
func (*V1) vB()   {}
func (*V2) vB()   {}

func mkV(k int) any {
	switch k {
	case 0:
		return new(V0)
	case 1:
		return new(V1)
	case 2:
		return new(V2)
	case 3:
		return new(V3)
	}
	return nil
}

func kindOf(m any) int {
	switch m.(type) {
	case *V0:
		return 0
	case *V1:
		return 1
	case *V2:
		return 2
	case *V3:
		return 3
	}
	return -1
}

func regType(s string) reflect.Type {
	switch s {
	case "x0":
		return reflect.TypeOf(new(V0))
	case "x1":
		return reflect.TypeOf(new(V1))
	case "x2":
		return reflect.TypeOf(new(V2))
	case "x3":
		return reflect.TypeOf(new(V3))
	case "xr":
		return reflect.TypeOf(new(testpb.Reply))
	case "iA":
		return reflect.TypeFor[vA]()
	case "iB":
		return reflect.TypeFor[vB]()
	case "iAny":
		return reflect.TypeFor[vAny]()
	case "iP":
		return reflect.TypeFor[proto.Message]()
	}
	panic("bad reg type " + s)
}

// the value WithClientSerializers takes for a registration type
func regValue(s string) any {
	switch s {
	case "x0":
		return new(V0)
	case "x1":
		return new(V1)
	case "x2":
		return new(V2)
	case "x3":
		return new(V3)
	case "xr":
		return new(testpb.Reply)
	case "iA":
		return (*vA)(nil)
	case "iB":
		return (*vB)(nil)
	case "iAny":
		return (*vAny)(nil)
	case "iP":
		return (*proto.Message)(nil)
	}
	panic("bad reg type " + s)
}

func mkFrame(name string, payload []byte) []byte {
	out := make([]byte, 0, 8+len(name)+len(payload))
	out = binary.BigEndian.AppendUint32(out, uint32(8+len(name)+len(payload)))
	out = binary.BigEndian.AppendUint32(out, uint32(len(name)))
	out = append(out, name...)
	return append(out, payload...)
}

// harness-side frame split (for the scripted serializers only)
func splitFrame(d []byte) (string, []byte, bool) {
	if len(d) < 8 {
		return "", nil, false
	}
	t := int(binary.BigEndian.Uint32(d[:4]))
	n := int(binary.BigEndian.Uint32(d[4:8]))
	if t < 8 || len(d) < t || 8+n > t {
		return "", nil, false
	}
	return string(d[8 : 8+n]), d[8+n : t], true
}

// scripted serializer: S<id>:<serset bits k0..k3>:<fmt raw|fU|fR|fB>:<own h|l>:<foreign r|a|l|g>
type scriptSer struct {
	id      int
	serSet  [4]bool
	format  string
	own     byte
	foreign byte
}

func (s *scriptSer) Serialize(m any) ([]byte, error) {
	k := kindOf(m)
	if k < 0 || !s.serSet[k] {
		return nil, errScript
	}
	tag := []byte{byte(0x40 + s.id), byte(0x30 + k)}
	switch s.format {
	case "raw":
		return append([]byte{0xC5}, tag...), nil
	case "fU":
		return mkFrame("verif.none", tag), nil
	case "fR":
		return mkFrame("testpb.Reply", append([]byte{0x0a, 0x02}, tag...)), nil
	case "fB":
		return mkFrame("testpb.Reply", append([]byte{0xFF}, tag...)), nil
	}
	return nil, errScript
}

func parseTag(d []byte) (int, int, bool) {
	var tag []byte
	if len(d) == 3 && d[0] == 0xC5 {
		tag = d[1:]
	} else if n, p, ok := splitFrame(d); ok {
		switch {
		case n == "verif.none" && len(p) == 2:
			tag = p
		case n == "testpb.Reply" && len(p) == 4 && p[0] == 0x0a && p[1] == 0x02:
			tag = p[2:]
		case n == "testpb.Reply" && len(p) == 3 && p[0] == 0xFF:
			tag = p[1:]
		}
	}
	if tag == nil || tag[0] < 0x40 || tag[0] > 0x49 || tag[1] < 0x30 || tag[1] > 0x33 {
		return 0, 0, false
	}
	return int(tag[0] - 0x40), int(tag[1] - 0x30), true
}

func (s *scriptSer) Deserialize(d []byte) (any, error) {
	id, k, ok := parseTag(d)
	if !ok {
		if s.foreign == 'g' {
			return mkV(0), nil
		}
		return nil, errScript
	}
	mode := s.own
	if id != s.id {
		mode = s.foreign
	}
	switch mode {
	case 'h', 'a', 'g':
		return mkV(k), nil
	case 'l':
		return mkV((k + 1) % 4), nil
	}
	return nil, errScript
}

func parseScript(spec string) remote.Serializer {
	if spec == "P" {
		return remote.NewProtoSerializer()
	}
	p := strings.Split(spec, ":")
	id, _ := strconv.Atoi(p[0][1:])
	s := &scriptSer{id: id, format: p[2], own: p[3][0], foreign: p[4][0]}
	for i := 0; i < 4; i++ {
		s.serSet[i] = p[1][i] == '1'
	}
	return s
}

func serLabel(s remote.Serializer) string {
	switch v := s.(type) {
	case nil:
		return "none"
	case *remote.ProtoSerializer:
		return "P"
	case *scriptSer:
		return "S" + strconv.Itoa(v.id)
	case *remote.CBORSerializer:
		return "C"
	case *remote.JSONSerializer:
		return "J"
	}
	return fmt.Sprintf("%T", s)
}

func msgLabel(m any) string {
	if k := kindOf(m); k >= 0 {
		return "v" + strconv.Itoa(k)
	}
	if r, ok := m.(*testpb.Reply); ok {
		return "r:" + hx([]byte(r.GetContent()))
	}
	if m == nil {
		return "nil"
	}
	return fmt.Sprintf("other:%T", m)
}

func mkMsg(spec string) any {
	switch {
	case spec == "u":
		return new(U)
	case spec[0] == 'v':
		k, _ := strconv.Atoi(spec[1:])
		return mkV(k)
	case strings.HasPrefix(spec, "r:"):
		return &testpb.Reply{Content: string(unhx(spec[2:]))}
	}
	panic("bad msg " + spec)
}

func buildClient(seed bool, entries string) remoteclient.Client {
	var specs []string
	if entries != "-" {
		specs = strings.Split(entries, ",")
	}
	if seed {
		var opts []remoteclient.ClientOption
		for _, e := range specs {
			kv := strings.SplitN(e, "/", 2)
			opts = append(opts, remoteclient.WithClientSerializers(regValue(kv[0]), parseScript(kv[1])))
		}
		return remoteclient.NewClient(opts...)
	}
	var es []remoteclient.VerifC25Entry
	for _, e := range specs {
		kv := strings.SplitN(e, "/", 2)
		es = append(es, remoteclient.VerifC25Entry{Type: regType(kv[0]), Serializer: parseScript(kv[1])})
	}
	return remoteclient.VerifC25Client(es)
}

func deserLabel(disp remote.Serializer, data []byte) string {
	m, err := disp.Deserialize(data)
	if err != nil {
		return "err:" + cls(err)
	}
	return msgLabel(m)
}

func famA(f []string) string {
	cl := buildClient(f[1] == "1", f[2])
	disp := cl.Serializer(nil)
	var out []string
	for _, op := range f[3:] {
		kv := strings.SplitN(op, ":", 2)
		switch kv[0] {
		case "send":
			m := mkMsg(kv[1])
			s := cl.Serializer(m)
			if s == nil {
				out = append(out, "res=none")
				continue
			}
			data, err := s.Serialize(m)
			if err != nil {
				out = append(out, "res="+serLabel(s)+" ser=err:"+cls(err))
				continue
			}
			out = append(out, "res="+serLabel(s)+" ser=ok rt="+deserLabel(disp, data))
		case "dser":
			m := mkMsg(kv[1])
			data, err := disp.Serialize(m)
			if err != nil {
				out = append(out, "dser=err:"+cls(err))
				continue
			}
			out = append(out, "dser="+hx(data))
		case "ddes":
			out = append(out, "ddes="+deserLabel(disp, unhx(kv[1])))
		default:
			out = append(out, "bad-op")
		}
	}
	return strings.Join(out, " ; ")
}

// ---------------------------------------------------------------- family B: real serializers

type CMsg struct {
	A int64
	B string
}

type JMsg struct {
	X int64
	Y string
}

func init() {
	types.GlobalRegistry.Register(new(CMsg))
	types.GlobalRegistry.Register(new(JMsg))
}

// tagSer gives every non-proto entry of family B its own identity (JSONSerializer is a zero-size
// struct, so two instances may share an address); the dispatch only type-asserts *remote.ProtoSerializer.
type tagSer struct {
	idx   int
	inner remote.Serializer
}

func (t *tagSer) Serialize(m any) ([]byte, error)   { return t.inner.Serialize(m) }
func (t *tagSer) Deserialize(d []byte) (any, error) { return t.inner.Deserialize(d) }

type realEntry struct {
	label string
	typ   reflect.Type
	ser   remote.Serializer
	exact bool
}

func mkRealEntry(label string) realEntry {
	switch label {
	case "P":
		return realEntry{label, reflect.TypeFor[proto.Message](), remote.NewProtoSerializer(), false}
	case "Px":
		return realEntry{label, reflect.TypeOf(new(testpb.Reply)), remote.NewProtoSerializer(), true}
	case "C":
		return realEntry{label, reflect.TypeOf(new(CMsg)), remote.NewCBORSerializer(), true}
	case "J":
		return realEntry{label, reflect.TypeOf(new(JMsg)), remote.NewJSONSerializer(), true}
	case "Ci":
		return realEntry{label, reflect.TypeOf(int64(0)), remote.NewCBORSerializer(), true}
	case "Ji":
		return realEntry{label, reflect.TypeOf(int64(0)), remote.NewJSONSerializer(), true}
	case "Cs":
		return realEntry{label, reflect.TypeOf(""), remote.NewCBORSerializer(), true}
	case "Js":
		return realEntry{label, reflect.TypeOf(""), remote.NewJSONSerializer(), true}
	case "Jc":
		return realEntry{label, reflect.TypeOf(new(CMsg)), remote.NewJSONSerializer(), true}
	case "T":
		return realEntry{label, reflect.TypeOf(new(actor.Terminated)), actor.VerifC25TerminatedSerializer(), true}
	case "K":
		return realEntry{label, reflect.TypeOf(new(actor.PoisonPill)), actor.VerifC25PoisonPillSerializer(), true}
	case "D":
		return realEntry{label, reflect.TypeOf(new(commands.Ack)), new(commands.DeliverySerializer), true}
	}
	panic("bad real entry " + label)
}

// msgspec: reply:<hex> | count:<n> | cmsg:<a>:<hex> | jmsg:<x>:<hex> | int:<n> | str:<hex> | term:<pathhex>:<nanos> | pp | ack:<s>:<nonce>:<c> | u
func mkRealMsg(spec string) any {
	p := strings.Split(spec, ":")
	switch p[0] {
	case "reply":
		return &testpb.Reply{Content: string(unhx(p[1]))}
	case "count":
		return &testpb.TestCount{Value: int32(i64(p[1]))}
	case "cmsg":
		return &CMsg{A: i64(p[1]), B: string(unhx(p[2]))}
	case "jmsg":
		return &JMsg{X: i64(p[1]), Y: string(unhx(p[2]))}
	case "int":
		return i64(p[1])
	case "str":
		return string(unhx(p[1]))
	case "term":
		t, err := actor.VerifC25NewTerminated(string(unhx(p[1])), i64(p[2]))
		if err != nil {
			panic("bad terminated path")
		}
		return t
	case "pp":
		return new(actor.PoisonPill)
	case "ack":
		c, err := commands.NewAck(string(unhx(p[1])), string(unhx(p[2])), i64(p[3]))
		if err != nil {
			panic("bad ack")
		}
		return c
	case "u":
		return new(U)
	}
	panic("bad msg " + spec)
}

// canonical text of a message value (for equality)
func canonMsg(m any) string {
	switch v := m.(type) {
	case nil:
		return "nil"
	case proto.Message:
		b, _ := proto.MarshalOptions{Deterministic: true}.Marshal(v)
		return "proto:" + string(proto.MessageName(v)) + ":" + hx(b)
	case *CMsg:
		return fmt.Sprintf("cmsg:%d:%s", v.A, hx([]byte(v.B)))
	case *JMsg:
		return fmt.Sprintf("jmsg:%d:%s", v.X, hx([]byte(v.Y)))
	case int64:
		return fmt.Sprintf("int:%d", v)
	case string:
		return "str:" + hx([]byte(v))
	case *actor.Terminated:
		p, n := actor.VerifC25TerminatedFields(v)
		return fmt.Sprintf("term:%s:%d", hx([]byte(p)), n)
	case *actor.PoisonPill:
		return "pp"
	case *commands.Ack:
		return dumpCmd(v)
	case *U:
		return "u"
	}
	return fmt.Sprintf("other:%T:%v", m, m)
}

func famB(f []string) string {
	var es []realEntry
	if f[1] != "-" {
		for i, l := range strings.Split(f[1], ",") {
			e := mkRealEntry(l)
			if _, ok := e.ser.(*remote.ProtoSerializer); !ok {
				e.ser = &tagSer{i, e.ser}
			}
			es = append(es, e)
		}
	}
	m := mkRealMsg(f[2])
	want := canonMsg(m)
	var all []remoteclient.VerifC25Entry
	for _, e := range es {
		all = append(all, remoteclient.VerifC25Entry{Type: e.typ, Serializer: e.ser})
	}
	cl := remoteclient.VerifC25Client(all)
	disp := cl.Serializer(nil)

	// the abstract view, from the real parts taken one at a time
	acc, ex, serok, pidx := "", "", "", "-"
	for i, e := range es {
		single := remoteclient.VerifC25Client(all[i : i+1])
		acc += b01(single.Serializer(m) != nil)
		ex += b01(e.exact)
		_, err := e.ser.Serialize(m)
		serok += b01(err == nil)
		if _, ok := e.ser.(*remote.ProtoSerializer); ok && pidx == "-" {
			pidx = strconv.Itoa(i)
		}
	}
	if len(es) == 0 {
		acc, ex, serok = "-", "-", "-"
	}
	// the real send path
	chosen := "none"
	s := cl.Serializer(m)
	for i, e := range es {
		if s != nil && e.ser == s {
			chosen = strconv.Itoa(i)
			break
		}
	}
	out := fmt.Sprintf("acc=%s ex=%s serok=%s pidx=%s chosen=%s", acc, ex, serok, pidx, chosen)
	// the dispatcher's own Serialize
	dd, derr := disp.Serialize(m)
	if derr != nil {
		out += " dser=err"
	} else {
		var same []string
		for i, e := range es {
			if b, err := e.ser.Serialize(m); err == nil && bytes.Equal(b, dd) {
				same = append(same, strconv.Itoa(i))
			}
		}
		out += " dser=" + strings.Join(same, ",")
	}
	if s == nil {
		return out + " send=none"
	}
	data, err := s.Serialize(m)
	if err != nil {
		return out + " send=err:" + cls(err)
	}
	dec := ""
	for _, e := range es {
		got, err := e.ser.Deserialize(data)
		switch {
		case err != nil:
			dec += "e"
		case canonMsg(got) == want:
			dec += "s"
		default:
			dec += "d"
		}
	}
	preg, ftn := "0", "none"
	if n, ok := remoteclient.VerifC25FrameTypeName(data); ok {
		ftn = hx([]byte(n))
		if _, err := inet.FindMessageType(protoreflect.FullName(n)); err == nil {
			preg = "1"
		}
	}
	rt := "e"
	got, err := disp.Deserialize(data)
	if err == nil {
		if canonMsg(got) == want {
			rt = "s"
		} else {
			rt = "d:" + canonMsg(got)
		}
	}
	return out + fmt.Sprintf(" send=ok frame=%s ftn=%s dec=%s preg=%s rt=%s", hx(data), ftn, dec, preg, rt)
}

func handle(line string) string {
	f := vlib.Fields(line)
	if len(f) == 0 {
		return "bad-case"
	}
	switch f[0] {
	case "dsp":
		return famA(f)
	case "real":
		return famB(f)
	}
	return famC(f)
}

func main() { vlib.Loop(handle) }

//go:build verif

// C26 harness: drives the real internal/address functions.
//
//	rt <name> <system> <host> <port> [<pname> <psys> <phost> <pport>]...   build with New / NewWithParent
//	   (each further group of four is the parent of the previous one) ->
//	   valid=<0|1> str=<String()> parse=<outcome of Parse(String())> hpof=<HostPortOf(String())>,<ok> fmt=<FormatHostPort> hp=<HostPort()>
//	ps <string>                                                             Parse / HostPortOf on an arbitrary string ->
//	   parse=<outcome> hpof=<hp>,<ok>
//
// Every string field is percent-encoded (bytes outside [A-Za-z0-9._:/@\[\]-] as %HH, the empty
// string as a lone %).  outcome = ok,<name>,<system>,<host>,<port>,<parentName>[,<psys>,<phost>,<pport>]
// | err:<required|format|protocol|portSyntax|portRange|other> | panic
package main

import (
	"errors"
	"fmt"
	"strconv"
	"strings"

	"github.com/tochemey/goakt/v4/internal/address"
	"github.com/tochemey/goakt/v4/internal/verifdrv/vlib"
)

const hexd = "0123456789ABCDEF"

func safe(b byte) bool {
	switch {
	case b >= 'a' && b <= 'z', b >= 'A' && b <= 'Z', b >= '0' && b <= '9':
		return true
	}
	return strings.IndexByte("._:/@[]-", b) >= 0
}

func enc(s string) string {
	if s == "" {
		return "%"
	}
	var sb strings.Builder
	for i := 0; i < len(s); i++ {
		b := s[i]
		if safe(b) {
			sb.WriteByte(b)
		} else {
			sb.WriteByte('%')
			sb.WriteByte(hexd[b>>4])
			sb.WriteByte(hexd[b&15])
		}
	}
	return sb.String()
}

func dec(s string) (string, bool) {
	if s == "%" {
		return "", true
	}
	var sb strings.Builder
	for i := 0; i < len(s); i++ {
		if s[i] != '%' {
			sb.WriteByte(s[i])
			continue
		}
		if i+2 >= len(s) {
			return "", false
		}
		v, err := strconv.ParseUint(s[i+1:i+3], 16, 8)
		if err != nil {
			return "", false
		}
		sb.WriteByte(byte(v))
		i += 2
	}
	return sb.String(), true
}

func outcome(s string) string {
	return vlib.Safe(func() string {
		a, err := address.Parse(s)
		if err != nil {
			switch {
			case err.Error() == "address is required":
				return "err:required"
			case err.Error() == "address format is invalid":
				return "err:format"
			case err.Error() == "address protocol is not supported":
				return "err:protocol"
			case errors.Is(err, strconv.ErrSyntax):
				return "err:portSyntax"
			case errors.Is(err, strconv.ErrRange), strings.Contains(err.Error(), "out of range for int32"):
				return "err:portRange"
			}
			return "err:other"
		}
		if a == nil {
			return "err:nil-address"
		}
		r := fmt.Sprintf("ok,%s,%s,%s,%d", enc(a.Name()), enc(a.System()), enc(a.Host()), a.Port())
		if p := a.Parent(); p != nil {
			r += fmt.Sprintf(",%s,%s,%s,%d", enc(p.Name()), enc(p.System()), enc(p.Host()), p.Port())
			if p.Parent() != nil {
				r += ",grandparent"
			}
		} else {
			r += ",%"
		}
		return r
	})
}

func hpof(s string) string {
	r := vlib.Safe(func() string {
		hp, ok := address.HostPortOf(s)
		b := "0"
		if ok {
			b = "1"
		}
		return enc(hp) + "," + b
	})
	if strings.HasPrefix(r, "panic") {
		return "panic"
	}
	return r
}

func fix(s string) string {
	if strings.HasPrefix(s, "panic") {
		return "panic"
	}
	return s
}

func handle(line string) string {
	f := vlib.Fields(line)
	if len(f) < 2 {
		return "bad-case"
	}
	switch f[0] {
	case "ps":
		if len(f) != 2 {
			return "bad-case"
		}
		s, ok := dec(f[1])
		if !ok {
			return "bad-case"
		}
		return "parse=" + fix(outcome(s)) + " hpof=" + hpof(s)
	case "rt":
		g := f[1:]
		if len(g) == 0 || len(g)%4 != 0 {
			return "bad-case"
		}
		var a *address.Address
		// build from the outermost ancestor inwards
		for i := len(g) - 4; i >= 0; i -= 4 {
			name, ok1 := dec(g[i])
			sys, ok2 := dec(g[i+1])
			host, ok3 := dec(g[i+2])
			port, err := strconv.ParseInt(g[i+3], 10, 64)
			if !ok1 || !ok2 || !ok3 || err != nil {
				return "bad-case"
			}
			if a == nil {
				a = address.New(name, sys, host, int(port))
			} else {
				a = address.NewWithParent(name, sys, host, int(port), a)
			}
		}
		valid := "0"
		if r := vlib.Safe(func() string {
			if a.Validate() == nil {
				return "1"
			}
			return "0"
		}); r == "1" {
			valid = "1"
		} else if strings.HasPrefix(r, "panic") {
			valid = "panic"
		}
		str := a.String()
		return "valid=" + valid + " str=" + enc(str) + " parse=" + fix(outcome(str)) + " hpof=" + hpof(str) +
			" fmt=" + enc(address.FormatHostPort(a.Host(), a.Port())) + " hp=" + enc(a.HostPort())
	}
	return "bad-case"
}

func main() { vlib.Loop(handle) }

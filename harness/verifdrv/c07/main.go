//go:build verif

// C07 harness: a real actor system, one small family per case
//
//	grandparent G -> parent P -> children c0..c(n-1)   (every child spawned with the case's supervisor)
//
// case line:  n=<k> [pm=<mode>] <opt> <opt> ... | <op> <op> ...
//
//	opts (applied in order to supervisor.NewSupervisor):
//	  st:1 | st:A                 WithStrategy(OneForOne | OneForAll)
//	  d:<K>:<dir>                 WithDirective(error of kind K, Directive(dir))   K in A B P N
//	  any:<dir>                   WithAnyErrorDirective(Directive(dir))
//	  r:<max>:<T>                 WithRetry(max, T)            T in -1 0 1 (ns) H (one hour)
//	  b:<i>:<m>:<R>               WithExponentialBackoff(i ms, m ms, R)   R in -1 0 H
//	ops:
//	  f<i><K>   make child i fail: A,B ctx.Err(typed error) ; P panic(string) ; Q panic(typed error) ;
//	            N ctx.Err(*runtime.PanicNilError) ; D ctx.Err(ErrDead)
//	  p<i>      ping child i (the handler bumps the child's state counter)
//	  r<i>      P.Reinstate(child i)
//	  a<i>      age the last fault of child i (in-package accessor; window certainly elapsed)
//	  F<i><k>   the next k PreStart calls of child i fail (k one digit)
//	  R<i>      the public PID.Restart(ctx) on child i, called from outside (only when the system still resolves the child by name)
//
// After every op the harness waits for quiescence by CONDITIONS (never by sleeping a fixed time):
// child turn over -> supervision queue drained (a barrier actor goes through the same FIFO queue)
// -> parent/grandparent/death-watch turns over -> no goroutine born during the op and running goakt
// code is left (restart goroutines) -> all idle again.  Then it prints the family digest:
//
//	<res>|<child>,<child>..|P<signals>|G<signals>|<events>
//	child  = reg.alive.susp.pre.post.handled.restartCount.consecutiveFaults.lastKind
//	events = sorted multiset of Su/Re/St/Sa/Ri:<who> drained from the events stream
package main

import (
	"context"
	"errors"
	"fmt"
	"os"
	"runtime"
	"sort"
	"strconv"
	"strings"
	"sync/atomic"
	"time"

	"github.com/tochemey/goakt/v4/actor"
	gerrors "github.com/tochemey/goakt/v4/errors"
	"github.com/tochemey/goakt/v4/eventstream"
	"github.com/tochemey/goakt/v4/internal/verifdrv/vlib"
	"github.com/tochemey/goakt/v4/log"
	"github.com/tochemey/goakt/v4/supervisor"
)

type ErrA struct{}

func (*ErrA) Error() string { return "err-a" }

type ErrB struct{}

func (*ErrB) Error() string { return "err-b" }

type ErrBarrier struct{}

func (*ErrBarrier) Error() string { return "barrier" }

type failMsg struct{ kind byte }
type pingMsg struct{}

const waitLimit = 30 * time.Second

var (
	sys        actor.ActorSystem
	sub        eventstream.Subscriber
	deathWatch *actor.PID
	barrier    *actor.PID
	caseNo     int
)

// spin waits until cond holds; a generous limit turns a hang into a visible `timeout`.
func spin(what string, cond func() bool) {
	deadline := time.Now().Add(waitLimit)
	for i := 0; !cond(); i++ {
		if i < 200 {
			runtime.Gosched()
		} else {
			time.Sleep(50 * time.Microsecond)
		}
		if i%1024 == 1023 && time.Now().After(deadline) {
			panic("timeout waiting for " + what)
		}
	}
}

// ---- test actors ------------------------------------------------------------

type child struct {
	pre, post, handled atomic.Int64
	failNext           atomic.Int64
}

func (c *child) PreStart(*actor.Context) error {
	n := c.pre.Add(1)
	if n > 1 {
		// a restart of a RUNNING actor shuts it down first, which sends Terminated to the
		// death watch; the death watch then deletes the tree node asynchronously while the
		// restart re-adds it.  The order of those two is a race of the code outside C07;
		// waiting here (PreStart runs after the shutdown and before the re-add) fixes it to
		// the usual order so the check cannot flake on it.
		spin("death watch idle in PreStart", func() bool { return actor.VerifC07Idle(deathWatch) })
	}
	if c.failNext.Load() > 0 {
		c.failNext.Add(-1)
		return errors.New("scripted PreStart failure")
	}
	c.handled.Store(0) // fresh state
	return nil
}

func (c *child) PostStop(*actor.Context) error { c.post.Add(1); return nil }

func (c *child) Receive(ctx *actor.ReceiveContext) {
	switch m := ctx.Message().(type) {
	case *actor.PostStart:
	case *pingMsg:
		c.handled.Add(1)
	case *failMsg:
		switch m.kind {
		case 'A':
			ctx.Err(&ErrA{})
		case 'B':
			ctx.Err(&ErrB{})
		case 'P':
			panic("boom")
		case 'Q':
			panic(&ErrA{})
		case 'N':
			ctx.Err(&runtime.PanicNilError{})
		case 'D':
			ctx.Err(gerrors.ErrDead)
		case 'X':
			ctx.Err(&ErrBarrier{})
		}
	default:
		ctx.Unhandled()
	}
}

type recorder struct {
	signals atomic.Int64
	senders atomic.Value // string: comma list of sender names
}

func (r *recorder) PreStart(*actor.Context) error { return nil }
func (r *recorder) PostStop(*actor.Context) error { return nil }
func (r *recorder) Receive(ctx *actor.ReceiveContext) {
	switch ctx.Message().(type) {
	case *actor.PanicSignal:
		r.signals.Add(1)
		prev, _ := r.senders.Load().(string)
		name := "?"
		if s := ctx.Sender(); s != nil {
			name = s.Name()
		}
		if prev != "" {
			prev += "+"
		}
		r.senders.Store(prev + name)
	default:
	}
}

// ---- goroutine census ---------------------------------------------------------

// goroutines returns id -> stack text of every goroutine.
func goroutines() map[string]string {
	buf := make([]byte, 1<<20)
	for {
		n := runtime.Stack(buf, true)
		if n < len(buf) {
			buf = buf[:n]
			break
		}
		buf = make([]byte, 2*len(buf))
	}
	out := map[string]string{}
	for _, blk := range strings.Split(string(buf), "\n\n") {
		if !strings.HasPrefix(blk, "goroutine ") {
			continue
		}
		rest := blk[len("goroutine "):]
		if i := strings.IndexByte(rest, ' '); i > 0 {
			out[rest[:i]] = blk
		}
	}
	return out
}

// noNewWork: no goroutine born after `base` that runs (or was created by) goakt code.
func noNewWork(base map[string]string) bool {
	for id, blk := range goroutines() {
		if _, old := base[id]; old {
			continue
		}
		if strings.Contains(blk, "tochemey/goakt/v4/") {
			return false
		}
	}
	return true
}

// ---- family ---------------------------------------------------------------------

type family struct {
	g, p   *actor.PID
	ga, pa *recorder
	cs     []*actor.PID
	ca     []*child
	names  map[string]string // actor name -> short label
}

func (f *family) all() []*actor.PID {
	return append([]*actor.PID{f.g, f.p, deathWatch, barrier}, f.cs...)
}

func (f *family) idle() bool {
	for _, p := range f.all() {
		if !actor.VerifC07Idle(p) {
			return false
		}
	}
	return true
}

// drainSupervision: everything submitted to the shared supervision consumer before this call
// has been handled when it returns (single FIFO consumer; the barrier's own failure is last).
func drainSupervision(f *family) {
	ctx := context.Background()
	if err := actor.Tell(ctx, barrier, &failMsg{kind: 'X'}); err != nil {
		panic("barrier tell: " + err.Error())
	}
	spin("barrier suspended", func() bool { return barrier.IsSuspended() })
	if err := f.g.Reinstate(barrier); err != nil {
		panic("barrier reinstate: " + err.Error())
	}
	spin("barrier reinstated", func() bool { return barrier.IsRunning() })
}

func (f *family) settle(base map[string]string) {
	for round := 0; round < 2; round++ {
		spin("family idle", f.idle)
		drainSupervision(f)
		spin("family idle", f.idle)
		spin("restart goroutines", func() bool { return noNewWork(base) })
		spin("family idle", f.idle)
	}
}

func (f *family) digest(res string) string {
	ctx := context.Background()
	var cs []string
	for i, c := range f.cs {
		reg := 0
		if got, err := sys.ActorOf(ctx, c.Name()); err == nil && got == c {
			reg = 1
		}
		cf, lk := actor.VerifC07Faults(c)
		a := f.ca[i]
		cs = append(cs, fmt.Sprintf("%d.%d.%d.%d.%d.%d.%d.%d.%d", reg, b2i(c.IsRunning()), b2i(c.IsSuspended()),
			a.pre.Load(), a.post.Load(), a.handled.Load(), c.RestartCount(), cf, lk))
	}
	var evs []string
	for m := range sub.Iterator() {
		var kind string
		var path actor.Path
		switch e := m.Payload().(type) {
		case *actor.ActorSuspended:
			kind, path = "Su", e.ActorPath()
		case *actor.ActorRestarted:
			kind, path = "Re", e.ActorPath()
		case *actor.ActorStopped:
			kind, path = "St", e.ActorPath()
		case *actor.ActorStarted:
			kind, path = "Sa", e.ActorPath()
		case *actor.ActorReinstated:
			kind, path = "Ri", e.ActorPath()
		default:
			continue
		}
		if lab, ok := f.names[path.Name()]; ok {
			evs = append(evs, kind+":"+lab)
		}
	}
	sort.Strings(evs)
	ev := strings.Join(evs, ",")
	if ev == "" {
		ev = "-"
	}
	return fmt.Sprintf("%s|%s|P%d:%s|G%d:%s|%s", res, strings.Join(cs, ","), f.pa.signals.Load(), f.senders(f.pa), f.ga.signals.Load(), f.senders(f.ga), ev)
}

func (f *family) senders(r *recorder) string {
	s, _ := r.senders.Load().(string)
	if s == "" {
		return "-"
	}
	var out []string
	for _, n := range strings.Split(s, "+") {
		if lab, ok := f.names[n]; ok {
			out = append(out, lab)
		} else {
			out = append(out, "?")
		}
	}
	return strings.Join(out, "+")
}

func b2i(b bool) int {
	if b {
		return 1
	}
	return 0
}

func dur(s string) (time.Duration, error) {
	switch s {
	case "H":
		return time.Hour, nil
	}
	v, err := strconv.ParseInt(s, 10, 64)
	return time.Duration(v), err
}

func kindErr(k string) error {
	switch k {
	case "A":
		return &ErrA{}
	case "B":
		return &ErrB{}
	case "P":
		return &gerrors.PanicError{}
	case "N":
		return &runtime.PanicNilError{}
	}
	return nil
}

func parseOpts(toks []string) ([]supervisor.SupervisorOption, error) {
	var opts []supervisor.SupervisorOption
	for _, t := range toks {
		f := strings.Split(t, ":")
		switch f[0] {
		case "st":
			if len(f) != 2 {
				return nil, errors.New("st")
			}
			if f[1] == "A" {
				opts = append(opts, supervisor.WithStrategy(supervisor.OneForAllStrategy))
			} else {
				opts = append(opts, supervisor.WithStrategy(supervisor.OneForOneStrategy))
			}
		case "d":
			if len(f) != 3 || kindErr(f[1]) == nil {
				return nil, errors.New("d")
			}
			d, err := strconv.Atoi(f[2])
			if err != nil {
				return nil, err
			}
			opts = append(opts, supervisor.WithDirective(kindErr(f[1]), supervisor.Directive(d)))
		case "any":
			if len(f) != 2 {
				return nil, errors.New("any")
			}
			d, err := strconv.Atoi(f[1])
			if err != nil {
				return nil, err
			}
			opts = append(opts, supervisor.WithAnyErrorDirective(supervisor.Directive(d)))
		case "r":
			if len(f) != 3 {
				return nil, errors.New("r")
			}
			n, err := strconv.ParseUint(f[1], 10, 32)
			if err != nil {
				return nil, err
			}
			t, err := dur(f[2])
			if err != nil {
				return nil, err
			}
			opts = append(opts, supervisor.WithRetry(uint32(n), t))
		case "b":
			if len(f) != 4 {
				return nil, errors.New("b")
			}
			i, err1 := strconv.ParseInt(f[1], 10, 64)
			m, err2 := strconv.ParseInt(f[2], 10, 64)
			r, err3 := dur(f[3])
			if err1 != nil || err2 != nil || err3 != nil {
				return nil, errors.New("b")
			}
			opts = append(opts, supervisor.WithExponentialBackoff(time.Duration(i)*time.Millisecond, time.Duration(m)*time.Millisecond, r))
		default:
			return nil, errors.New("opt " + t)
		}
	}
	return opts, nil
}

func handle(line string) string {
	parts := strings.Split(line, "|")
	if len(parts) != 2 {
		return "bad-case"
	}
	cfg := vlib.Fields(parts[0])
	ops := vlib.Fields(parts[1])
	if len(cfg) == 0 || !strings.HasPrefix(cfg[0], "n=") {
		return "bad-case"
	}
	n, err := strconv.Atoi(cfg[0][2:])
	if err != nil || n < 1 || n > 4 {
		return "bad-case"
	}
	if _, err := parseOpts(cfg[1:]); err != nil {
		return "bad-case"
	}
	ctx := context.Background()
	caseNo++
	pfx := fmt.Sprintf("k%d", caseNo)
	f := &family{ga: &recorder{}, pa: &recorder{}, names: map[string]string{}}
	if f.g, err = sys.Spawn(ctx, pfx+"g", f.ga, actor.WithLongLived()); err != nil {
		return "spawn-error " + err.Error()
	}
	defer func() {
		_ = f.g.Shutdown(ctx)
		spin("death watch idle", func() bool { return actor.VerifC07Idle(deathWatch) })
		for range sub.Iterator() {
		}
	}()
	if f.p, err = f.g.SpawnChild(ctx, pfx+"p", f.pa, actor.WithLongLived()); err != nil {
		return "spawn-error " + err.Error()
	}
	f.names[f.g.Name()] = "g"
	f.names[f.p.Name()] = "p"
	for i := 0; i < n; i++ {
		// one Supervisor value per child, all built from the same options
		opts, _ := parseOpts(cfg[1:])
		a := &child{}
		c, err := f.p.SpawnChild(ctx, fmt.Sprintf("%sc%d", pfx, i), a, actor.WithLongLived(), actor.WithSupervisor(supervisor.NewSupervisor(opts...)))
		if err != nil {
			return "spawn-error " + err.Error()
		}
		f.cs = append(f.cs, c)
		f.ca = append(f.ca, a)
		f.names[c.Name()] = fmt.Sprintf("c%d", i)
	}
	spin("family idle", f.idle)
	for range sub.Iterator() {
	}
	outs := []string{f.digest("init")}
	for _, op := range ops {
		if len(op) < 2 {
			return "bad-case"
		}
		i := int(op[1] - '0')
		if i < 0 || i >= n {
			return "bad-case"
		}
		c := f.cs[i]
		base := goroutines()
		res := "ok"
		switch op[0] {
		case 'f':
			if len(op) != 3 || !strings.ContainsRune("ABPQND", rune(op[2])) {
				return "bad-case"
			}
			if err := actor.Tell(ctx, c, &failMsg{kind: op[2]}); err != nil {
				res = "dead"
			}
		case 'p':
			if err := actor.Tell(ctx, c, &pingMsg{}); err != nil {
				res = "dead"
			}
		case 'r':
			if err := f.p.Reinstate(c); err != nil {
				res = "err"
			}
		case 'a':
			actor.VerifC07Age(c)
		case 'R':
			if got, err := sys.ActorOf(ctx, c.Name()); err != nil || got != c {
				res = "err"
			} else if err := c.Restart(ctx); err != nil {
				res = "err"
			}
		case 'F':
			if len(op) != 3 || op[2] < '0' || op[2] > '9' {
				return "bad-case"
			}
			f.ca[i].failNext.Store(int64(op[2] - '0'))
		default:
			return "bad-case"
		}
		f.settle(base)
		outs = append(outs, f.digest(res))
	}
	return strings.Join(outs, " ; ")
}

func main() {
	ctx := context.Background()
	var err error
	sys, err = actor.NewActorSystem("c07", actor.WithLogger(log.DiscardLogger))
	if err != nil {
		fmt.Fprintln(os.Stderr, err)
		os.Exit(3)
	}
	if err = sys.Start(ctx); err != nil {
		fmt.Fprintln(os.Stderr, err)
		os.Exit(3)
	}
	deathWatch = actor.VerifC07DeathWatch(sys)
	if sub, err = sys.Subscribe(); err != nil {
		fmt.Fprintln(os.Stderr, err)
		os.Exit(3)
	}
	// the barrier has a supervisor without any rule, so its failure is a plain suspension
	bs := supervisor.NewSupervisor()
	bs.Reset()
	if barrier, err = sys.Spawn(ctx, "barrier", &child{}, actor.WithLongLived(), actor.WithSupervisor(bs)); err != nil {
		fmt.Fprintln(os.Stderr, err)
		os.Exit(3)
	}
	vlib.Loop(handle)
	_ = sys.Stop(ctx)
}

//go:build verif

// C23 harness: drives the real wire codec of internal/net (ProtoSerializer, Metadata,
// readProtoFrame, Client.unmarshalProtoResponse, ProtoServer.handleConn, FramePool).
//
// Bytes travel as lowercase hex ("-" = empty).  Case lines (see tools/props/c23.py):
//
//	enc  <name> <payload>                 MarshalBinary
//	encm <name> <payload> <md>            MarshalBinaryWithMetadata
//	mde  <md>                             Metadata.MarshalBinary
//	md   <bytes>                          Metadata.UnmarshalBinary
//	dec  <v> <frame>                      UnmarshalBinary
//	decm <v> <frame>                      UnmarshalBinaryWithMetadata
//	cli  <v> <frame>                      Client.unmarshalProtoResponse
//	rd   <max> <pool> <chunk,chunk,..>    readProtoFrame until error
//	srv  <max> <reply> <v> <chunk,..>     ProtoServer.handleConn over an in-memory connection
//	rt   <mode> <name> <payload> <md>     encode (md = none: legacy) then decode; mode u|m|s|c
//	batch <max> <md> <name>:<payload>,..  client marshal -> server loop (echo) -> client read loop
//	bi <n> | bie <c> | get <n>            bucketIndex, bucketIndexExact, FramePool.Get
//
// <md> = nil | none | <dl>/<headers>;  <dl> = 0 | a<int64> (absolute UnixNano) | r<int64> (now+x);
// <headers> = k:v,k:v (hex, "-" = empty) | G<n>x<klen>x<vlen> (generated) | empty.
// Outputs: `ok ...`, `F n=.. p=.. m=..`, `E <enum>`; time-dependent values follow ` @ `.
package main

import (
	"context"
	"encoding/hex"
	"errors"
	"fmt"
	"io"
	"strconv"
	"strings"
	"time"

	"google.golang.org/protobuf/proto"
	"google.golang.org/protobuf/reflect/protodesc"
	"google.golang.org/protobuf/reflect/protoreflect"
	"google.golang.org/protobuf/reflect/protoregistry"
	"google.golang.org/protobuf/types/descriptorpb"
	"google.golang.org/protobuf/types/dynamicpb"
	_ "google.golang.org/protobuf/types/known/wrapperspb"

	_ "github.com/tochemey/goakt/v4/internal/internalpb"
	gnet "github.com/tochemey/goakt/v4/internal/net"
	"github.com/tochemey/goakt/v4/internal/verifdrv/vlib"
)

var (
	ser     = gnet.NewProtoSerializer()
	pool    = gnet.NewFramePool()
	client  = gnet.NewClient("127.0.0.1:1")
	clients = map[uint32]*gnet.Client{}
	servers = map[string]*gnet.ProtoServer{}
	record  []gnet.VerifHandled
)

// Three extra message types with unusual name lengths (1, 3 and 311 bytes), each with one
// `bytes v = 1` field, registered before any lookup: short names put payload bytes into
// frame bytes 8:12, the long one exceeds the client's `nameLen < 256` heuristic bound.
func init() {
	for i, spec := range [][2]string{{"", "A"}, {"v", "A"}, {"verif." + strings.Repeat("x", 300), "Long"}} {
		fdp := &descriptorpb.FileDescriptorProto{
			Name:   proto.String(fmt.Sprintf("verif_c23_%d.proto", i)),
			Syntax: proto.String("proto3"),
			MessageType: []*descriptorpb.DescriptorProto{{
				Name: proto.String(spec[1]),
				Field: []*descriptorpb.FieldDescriptorProto{{
					Name: proto.String("v"), JsonName: proto.String("v"), Number: proto.Int32(1),
					Type:  descriptorpb.FieldDescriptorProto_TYPE_BYTES.Enum(),
					Label: descriptorpb.FieldDescriptorProto_LABEL_OPTIONAL.Enum(),
				}},
			}},
		}
		if spec[0] != "" {
			fdp.Package = proto.String(spec[0])
		}
		fd, err := protodesc.NewFile(fdp, protoregistry.GlobalFiles)
		if err != nil {
			panic(err)
		}
		if err := protoregistry.GlobalTypes.RegisterMessage(dynamicpb.NewMessageType(fd.Messages().Get(0))); err != nil {
			panic(err)
		}
	}
}

func unhex(s string) []byte {
	if s == "-" || s == "" {
		return nil
	}
	b, err := hex.DecodeString(s)
	if err != nil {
		panic("bad-hex")
	}
	return b
}

func hx(b []byte) string {
	if len(b) == 0 {
		return "-"
	}
	return hex.EncodeToString(b)
}

func errName(err error) string {
	switch {
	case errors.Is(err, gnet.ErrInvalidMessageLength):
		return "invalidLength"
	case errors.Is(err, gnet.ErrUnknownMessageType):
		return "unknownType"
	case errors.Is(err, gnet.ErrUnmarshalBinaryFailed):
		return "unmarshalFailed"
	case errors.Is(err, gnet.ErrInvalidMetadata):
		return "invalidMetadata"
	case errors.Is(err, gnet.ErrFrameTooLarge):
		return "frameTooLarge"
	case errors.Is(err, gnet.ErrMarshalBinaryFailed):
		return "marshalFailed"
	case errors.Is(err, io.ErrUnexpectedEOF):
		return "unexpectedEOF"
	case errors.Is(err, io.EOF):
		return "eof"
	}
	return "other:" + vlib.Canon(err.Error())
}

// mkMsg builds a real generated message of the named type from payload bytes.
func mkMsg(name, payload []byte) (proto.Message, string) {
	if len(name) == 0 {
		return nil, ""
	}
	mt, err := gnet.FindMessageType(protoreflect.FullName(string(name)))
	if err != nil {
		return nil, "bad-case unregistered " + string(name)
	}
	msg := mt.New().Interface()
	if err := proto.Unmarshal(payload, msg); err != nil {
		return nil, "bad-case payload"
	}
	return msg, ""
}

func genHeaders(spec string) (keys, vals []string) {
	// G<n>x<klen>x<vlen>
	p := strings.Split(spec[1:], "x")
	n, _ := strconv.Atoi(p[0])
	kl, _ := strconv.Atoi(p[1])
	vl, _ := strconv.Atoi(p[2])
	for i := 0; i < n; i++ {
		d := strconv.Itoa(i)
		k := d
		if len(d) < kl {
			k = strings.Repeat("k", kl-len(d)) + d
		}
		keys = append(keys, k)
		vals = append(vals, strings.Repeat("v", vl))
	}
	return
}

// mkMD parses an <md> token. hasDL reports a deadline; dl is the stored UnixNano.
func mkMD(spec string) (md *gnet.Metadata, dl int64) {
	if spec == "nil" || spec == "none" {
		return nil, 0
	}
	parts := strings.SplitN(spec, "/", 2)
	md = gnet.NewMetadata()
	if len(parts) == 2 && parts[1] != "" {
		if parts[1][0] == 'G' {
			ks, vs := genHeaders(parts[1])
			for i := range ks {
				md.Set(ks[i], vs[i])
			}
		} else {
			for _, kv := range strings.Split(parts[1], ",") {
				p := strings.SplitN(kv, ":", 2)
				md.Set(string(unhex(p[0])), string(unhex(p[1])))
			}
		}
	}
	d := parts[0]
	switch {
	case d == "0":
	case d[0] == 'a':
		dl, _ = strconv.ParseInt(d[1:], 10, 64)
	case d[0] == 'r':
		x, _ := strconv.ParseInt(d[1:], 10, 64)
		dl = time.Now().UnixNano() + x
	}
	gnet.VerifSetDeadlineNano(md, dl)
	return md, dl
}

// timed runs f between two wall-clock readings; it retries when the wall clock and the
// monotonic clock disagree about the elapsed time (a clock step), so the window is reliable.
func timed(f func()) (t0, t1 int64) {
	for i := 0; ; i++ {
		a := time.Now()
		f()
		b := time.Now()
		t0, t1 = a.UnixNano(), b.UnixNano()
		drift := (t1 - t0) - int64(b.Sub(a))
		if (drift > -1000000 && drift < 1000000) || i >= 5 {
			return
		}
	}
}

func fmtMD(md *gnet.Metadata) (string, int64) {
	if md == nil {
		return "nil", 0
	}
	ks, vs, dl := gnet.VerifMDFields(md)
	var sb strings.Builder
	sb.WriteString("h=")
	for i := range ks {
		if i > 0 {
			sb.WriteByte(',')
		}
		sb.WriteString(hx([]byte(ks[i])))
		sb.WriteByte(':')
		sb.WriteString(hx([]byte(vs[i])))
	}
	return sb.String(), dl
}

func detMarshal(m proto.Message) []byte {
	b, err := proto.MarshalOptions{Deterministic: true}.Marshal(m)
	if err != nil {
		panic("remarshal: " + err.Error())
	}
	return b
}

func fmtDecoded(msg proto.Message, md *gnet.Metadata) (string, string) {
	ms, dl := fmtMD(md)
	s := "F n=" + hx([]byte(proto.MessageName(msg))) + " p=" + hx(detMarshal(msg)) + " m=" + ms
	if md != nil {
		return s, fmt.Sprintf(" dl=%d", dl)
	}
	return s, ""
}

func withTimes(s, dls string, t0, t1 int64) string {
	if dls == "" {
		return s
	}
	return fmt.Sprintf("%s @%s t0=%d t1=%d", s, dls, t0, t1)
}

func chunks(s string) []byte {
	var out []byte
	if s == "-" || s == "" {
		return nil
	}
	for _, c := range strings.Split(s, ",") {
		out = append(out, unhex(c)...)
	}
	return out
}

func server(max uint32, reply bool) *gnet.ProtoServer {
	key := fmt.Sprintf("%d/%v", max, reply)
	if ps, ok := servers[key]; ok {
		return ps
	}
	ps, err := gnet.VerifNewServer(max, reply, &record)
	if err != nil {
		panic("server: " + err.Error())
	}
	servers[key] = ps
	return ps
}

func clientFor(max uint32) *gnet.Client {
	if c, ok := clients[max]; ok {
		return c
	}
	c := gnet.NewClient("127.0.0.1:1", gnet.WithMaxFrameSize(max))
	clients[max] = c
	return c
}

func serve(max uint32, reply bool, stream []byte) (string, string, []byte) {
	ps := server(max, reply)
	w := gnet.VerifServe(ps, &record, stream)
	var parts []string
	dls := ""
	for _, h := range record {
		s, d := fmtDecoded(h.Msg, h.MD)
		parts = append(parts, s)
		if d != "" {
			dls += d
		}
	}
	return "D " + strings.Join(parts, " | "), dls, w
}

func decodeOne(mode string, frame []byte) string {
	var msg proto.Message
	var md *gnet.Metadata
	var err error
	var out, dls string
	t0, t1 := timed(func() {
		switch mode {
		case "u":
			msg, _, err = ser.UnmarshalBinary(frame)
		case "m":
			msg, md, _, err = ser.UnmarshalBinaryWithMetadata(frame)
		case "c":
			msg, md, err = gnet.VerifClientDecode(client, frame)
		case "s":
			out, dls, _ = serve(1<<24, false, frame)
		}
	})
	if mode == "s" {
		return withTimes(out, dls, t0, t1)
	}
	if err != nil {
		return "E " + errName(err)
	}
	s, d := fmtDecoded(msg, md)
	return withTimes(s, d, t0, t1)
}

func handle(line string) string {
	f := vlib.Fields(line)
	if len(f) == 0 {
		return "bad-case"
	}
	switch f[0] {
	case "enc":
		msg, bad := mkMsg(unhex(f[1]), unhex(f[2]))
		if bad != "" {
			return bad
		}
		var out []byte
		var err error
		if msg == nil {
			out, err = ser.MarshalBinary(nil)
		} else {
			out, err = ser.MarshalBinary(msg)
		}
		if err != nil {
			return "E " + errName(err)
		}
		return "ok " + hx(out)
	case "encm":
		msg, bad := mkMsg(unhex(f[1]), unhex(f[2]))
		if bad != "" {
			return bad
		}
		md, dl := mkMD(f[3])
		var out []byte
		var err error
		t0, t1 := timed(func() {
			if msg == nil {
				out, err = ser.MarshalBinaryWithMetadata(nil, md)
			} else {
				out, err = ser.MarshalBinaryWithMetadata(msg, md)
			}
		})
		if err != nil {
			return "E " + errName(err)
		}
		if md == nil {
			return "ok " + hx(out)
		}
		return withTimes("ok "+hx(out), fmt.Sprintf(" dl=%d", dl), t0, t1)
	case "mde":
		md, dl := mkMD(f[1])
		var out []byte
		t0, t1 := timed(func() { out = md.MarshalBinary() })
		return withTimes("ok "+hx(out), fmt.Sprintf(" dl=%d", dl), t0, t1)
	case "md":
		data := unhex(f[1])
		md := &gnet.Metadata{}
		var err error
		t0, t1 := timed(func() { md = &gnet.Metadata{}; err = md.UnmarshalBinary(data) })
		if err != nil {
			return "E " + errName(err)
		}
		s, dl := fmtMD(md)
		return withTimes("ok "+s, fmt.Sprintf(" dl=%d", dl), t0, t1)
	case "dec":
		return decodeOne("u", unhex(f[2]))
	case "decm":
		return decodeOne("m", unhex(f[2]))
	case "cli":
		return decodeOne("c", unhex(f[2]))
	case "rd":
		max, _ := strconv.ParseUint(f[1], 10, 32)
		var p *gnet.FramePool
		if f[2] == "1" {
			p = pool
		}
		frames, caps, err := gnet.VerifReadFrames(chunks(f[3]), p, uint32(max))
		var fs, cs []string
		for i := range frames {
			fs = append(fs, hx(frames[i]))
			cs = append(cs, strconv.Itoa(caps[i]))
		}
		return "ok f=" + strings.Join(fs, ",") + " c=" + strings.Join(cs, ",") + " e=" + errName(err)
	case "srv":
		max, _ := strconv.ParseUint(f[1], 10, 32)
		var out, dls string
		var w []byte
		t0, t1 := timed(func() { out, dls, w = serve(uint32(max), f[2] == "1", chunks(f[4])) })
		return withTimes(out+" W="+hx(w), dls, t0, t1)
	case "rt":
		msg, bad := mkMsg(unhex(f[2]), unhex(f[3]))
		if bad != "" || msg == nil {
			return "bad-case " + bad
		}
		var frame []byte
		var err error
		var dl int64
		var md *gnet.Metadata
		var res string
		t0, t1 := timed(func() {
			if f[4] == "none" {
				frame, err = ser.MarshalBinary(msg)
			} else {
				md, dl = mkMD(f[4])
				frame, err = ser.MarshalBinaryWithMetadata(msg, md)
			}
			if err == nil {
				res = decodeOne(f[1], frame)
			}
		})
		if err != nil {
			return "E enc-" + errName(err)
		}
		// drop the inner time window, report the outer one (covers encode and decode)
		if i := strings.Index(res, " t0="); i >= 0 {
			res = res[:i]
		}
		if strings.Contains(res, " @") {
			return fmt.Sprintf("%s t0=%d t1=%d dlin=%d", res, t0, t1, dl)
		}
		return res
	case "batch":
		max, _ := strconv.ParseUint(f[1], 10, 32)
		c := clientFor(uint32(max))
		var res, dls string
		var dlin int64
		t0, t1 := timed(func() {
			ctx := context.Background()
			md, dl := mkMD(f[2])
			dlin = dl
			if f[2] == "nil" {
				// a typed nil *Metadata in the context: marshalProtoWithContext must ignore it
				ctx = gnet.ContextWithMetadata(ctx, nil)
			} else if md != nil {
				ctx = gnet.ContextWithMetadata(ctx, md)
			}
			var stream []byte
			n := 0
			if f[3] != "-" {
				for _, it := range strings.Split(f[3], ",") {
					p := strings.SplitN(it, ":", 2)
					msg, bad := mkMsg(unhex(p[0]), unhex(p[1]))
					if bad != "" || msg == nil {
						res = "bad-case " + bad
						return
					}
					b, err := gnet.VerifClientMarshal(c, ctx, msg)
					if err != nil {
						res = "E enc-" + errName(err)
						return
					}
					stream = append(stream, b...)
					n++
				}
			}
			var out string
			var w []byte
			out, dls, w = serve(uint32(max), true, stream)
			msgs, mds, err := gnet.VerifClientReadN(c, w, n)
			var parts []string
			for i := range msgs {
				s, _ := fmtDecoded(msgs[i], mds[i])
				parts = append(parts, s)
			}
			e := "nil"
			if err != nil {
				e = errName(err)
			}
			res = out + " R " + strings.Join(parts, " | ") + " e=" + e
		})
		if dls != "" {
			return fmt.Sprintf("%s @%s t0=%d t1=%d dlin=%d", res, dls, t0, t1, dlin)
		}
		return res
	case "bi":
		n, _ := strconv.ParseInt(f[1], 10, 64)
		return strconv.Itoa(gnet.VerifBucketIndex(int(n)))
	case "bie":
		n, _ := strconv.ParseInt(f[1], 10, 64)
		return strconv.Itoa(gnet.VerifBucketIndexExact(int(n)))
	case "get":
		n, _ := strconv.ParseInt(f[1], 10, 64)
		b := pool.Get(int(n))
		r := fmt.Sprintf("%d %d", len(b), cap(b))
		pool.Put(b)
		return r
	}
	return "bad-case"
}

func main() { vlib.Loop(handle) }

//go:build verif

// C44 harness: one case line = `<deliveryConfirmation> op op ...`; the scenario engine lives in-package
// (harness/inpkg/actor/zz_verif_c44.go) because it drives the unexported work-pulling controller.
package main

import (
	"github.com/tochemey/goakt/v4/actor"
	"github.com/tochemey/goakt/v4/internal/verifdrv/vlib"
)

func main() { vlib.Loop(actor.VerifC44Run) }

//go:build verif

// C10 harness: watch / unwatch / stop / restart scripts on a real started actor system
// (the scenario runner lives in harness/inpkg/actor/zz_verif_c09sys.go).
//   sys <op>...
package main

import (
	"github.com/tochemey/goakt/v4/actor"
	"github.com/tochemey/goakt/v4/internal/verifdrv/vlib"
)

func handle(line string) string {
	f := vlib.Fields(line)
	if len(f) < 2 || f[0] != "sys" {
		return "bad-case"
	}
	return actor.VerifC09SysCase(f)
}

func main() { vlib.Loop(handle) }

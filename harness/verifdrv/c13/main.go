//go:build verif

// C13 harness: a scripted actor in a real actor system decides per delivery whether to stash,
// unstash, unstash-all or just handle.
//
// case line:  <buf> <batches> <decisions>
//   buf        1 = spawned WithStashing, 0 = no stash buffer
//   batches    b1/b2/...  each a comma separated list of message ids (may be empty); `-` = no batch.
//              Batch i is enqueued (actor.Tell from this goroutine) while the actor is parked inside the
//              handler of gate message i, so the arrival order in the mailbox is fully determined:
//              gate1 | batch1 gate2 | batch2 gate3 | ... ; re-enqueued (unstashed) messages land where the
//              actor's own doReceive puts them.
//   decisions  d1,d2,...  one per DELIVERY of a user message, in delivery order; each is `h` (just handle)
//              or a string over S (ctx.Stash), U (ctx.Unstash), A (ctx.UnstashAll) executed in order inside
//              the handler. Deliveries beyond the list are plain `h`.  `-` = empty list.
//
// output:  one field per delivery: `<id>` or `<id>:<codes>` with one code per call:
//          o = no error, n = ErrStashBufferNotSet, e = "stash buffer may be closed" (nothing stashed), ? = other;
//          then `;st=<pid.StashSize()>;alias=<n>` where n counts observations (made at the end of every delivery on the
//          real objects) of one ReceiveContext being in two places among main mailbox chain / stash chain / global pool
//
// Quiescence = the dispatcher's own observation: the mailbox wrapper saw a Dequeue that found the
// mailbox empty after the last send (never a sleep).  Watchdogs, so that a broken stash cannot stall
// the run: `RUNAWAY <n> <events>` when more user deliveries happen than messages were sent plus Stash
// calls were made (deterministic, count based); `HANG` / `HANG gate <i>` when the actor does not reach
// the gate / does not go idle within 5 s; after 2 such cases every further case answers `HANG-skipped`;
// `LOST gate <i>` when the dispatcher found the mailbox empty although gate i was enqueued and never delivered
// (deterministic); `G<i>dup` in the event list when a gate is delivered twice.
package main

import (
	"context"
	"errors"
	"fmt"
	"strconv"
	"strings"
	"sync"
	"time"

	"github.com/tochemey/goakt/v4/actor"
	gerrors "github.com/tochemey/goakt/v4/errors"
	"github.com/tochemey/goakt/v4/internal/verifdrv/vlib"
	"github.com/tochemey/goakt/v4/log"
)

// countingMailbox delegates to the real UnboundedMailbox. `idle` is true exactly when the last
// operation on it was a Dequeue that found it empty: once the harness has stopped sending, that is
// the dispatcher's own "nothing left" observation, independent of any counting (a broken stash
// may link messages into the mailbox behind the wrapper's back).
type countingMailbox struct {
	inner   *actor.UnboundedMailbox
	mu      sync.Mutex
	cond    *sync.Cond
	enq     int
	handed  int
	idle    bool
	runaway bool
}

func newCountingMailbox() *countingMailbox {
	m := &countingMailbox{inner: actor.NewUnboundedMailbox()}
	m.cond = sync.NewCond(&m.mu)
	return m
}

func (m *countingMailbox) Enqueue(c *actor.ReceiveContext) error {
	m.mu.Lock()
	defer m.mu.Unlock()
	m.enq++
	m.idle = false
	return m.inner.Enqueue(c)
}

func (m *countingMailbox) Dequeue() *actor.ReceiveContext {
	m.mu.Lock()
	r := m.inner.Dequeue()
	if r != nil {
		m.handed++
		m.idle = false
	} else {
		m.idle = true
	}
	m.cond.Broadcast()
	m.mu.Unlock()
	return r
}
func (m *countingMailbox) IsEmpty() bool { return m.inner.IsEmpty() }
func (m *countingMailbox) Len() int64    { return m.inner.Len() }
func (m *countingMailbox) Dispose()      { m.inner.Dispose() }

func (m *countingMailbox) signalRunaway() {
	m.mu.Lock()
	m.runaway = true
	m.cond.Broadcast()
	m.mu.Unlock()
}

const (
	quiet = iota
	runaway
	hang
)

// waitQuiet blocks until the dispatcher found the mailbox empty, the actor reported a runaway
// delivery count, or the watchdog expires.
func (m *countingMailbox) waitQuiet(d time.Duration) int {
	deadline := time.Now().Add(d)
	timer := time.AfterFunc(d, func() { m.mu.Lock(); m.cond.Broadcast(); m.mu.Unlock() })
	defer timer.Stop()
	m.mu.Lock()
	defer m.mu.Unlock()
	for {
		switch {
		case m.runaway:
			return runaway
		case m.idle:
			return quiet
		case time.Now().After(deadline):
			return hang
		}
		m.cond.Wait()
	}
}

type user struct{ id int }
type gate struct{ idx int }

type stasher struct {
	decisions []string
	next      int
	events    []string
	entered   int // highest gate whose handler was entered (guarded by mb.mu)
	release   chan struct{}
	mb        *countingMailbox
	alias     int    // observations of one ReceiveContext object in two places (must stay 0)
	aliasWhat string // first such observation
	bound     int // deliveries a correct stash can cause: messages sent + successful-or-not Stash calls
	count     int
}

func (a *stasher) PreStart(*actor.Context) error { return nil }
func (a *stasher) PostStop(*actor.Context) error { return nil }

func code(err error) byte {
	switch {
	case err == nil:
		return 'o'
	case errors.Is(err, gerrors.ErrStashBufferNotSet):
		return 'n'
	case err.Error() == "stash buffer may be closed":
		return 'e'
	}
	return '?'
}

// checkAlias looks at the real objects: the main mailbox chain (sentinel first), the stash mailbox chain
// and the free contexts of the global pool must be pairwise distinct ReceiveContext objects, and the
// context being handled is the main mailbox's sentinel (Model/C13/Pool.lean, theorem pool_no_alias).
func (a *stasher) checkAlias(ctx *actor.ReceiveContext) {
	const max = 100000
	seen := map[*actor.ReceiveContext]string{}
	note := func(what string) {
		a.alias++
		if a.aliasWhat == "" {
			a.aliasWhat = what
		}
	}
	add := func(cs []*actor.ReceiveContext, where string) {
		if len(cs) >= max {
			note(where + "-cycle")
		}
		for i, c := range cs {
			w := where
			if i == 0 && where != "pool" {
				w += "-sentinel"
			}
			if prev, ok := seen[c]; ok {
				note(prev + "+" + w)
			} else {
				seen[c] = w
			}
		}
	}
	main := actor.VerifC13MailboxChain(a.mb.inner, max)
	if len(main) == 0 || main[0] != ctx {
		note("handled-context-is-not-the-main-sentinel")
	}
	add(main, "main")
	add(actor.VerifC13StashChain(ctx.Self(), max), "stash")
	add(actor.VerifC13PoolSnapshot(), "pool")
}

func (a *stasher) Receive(ctx *actor.ReceiveContext) {
	switch m := ctx.Message().(type) {
	case *gate:
		a.mb.mu.Lock()
		dup := m.idx <= a.entered
		if !dup {
			a.entered = m.idx
		}
		a.mb.cond.Broadcast()
		a.mb.mu.Unlock()
		if dup {
			// a gate delivered twice (nobody sent it twice): report it, do not park again
			a.events = append(a.events, "G"+strconv.Itoa(m.idx)+"dup")
			return
		}
		<-a.release
	case *user:
		a.count++
		if a.count > a.bound {
			// more deliveries than sends + Stash calls: something re-delivers on its own.
			// Report once, then stay passive (no events, no stash calls) so a loop that
			// feeds on our calls dies out.
			if a.count == a.bound+1 {
				a.mb.signalRunaway()
			}
			return
		}
		d := "h"
		if a.next < len(a.decisions) {
			d = a.decisions[a.next]
		}
		a.next++
		if d == "h" {
			a.events = append(a.events, strconv.Itoa(m.id))
			a.checkAlias(ctx)
			return
		}
		codes := make([]byte, 0, len(d))
		for i := 0; i < len(d); i++ {
			ctx.Err(nil)
			switch d[i] {
			case 'S':
				ctx.Stash()
			case 'U':
				ctx.Unstash()
			case 'A':
				ctx.UnstashAll()
			}
			codes = append(codes, code(actor.VerifC13CtxErr(ctx)))
			ctx.Err(nil) // keep supervision out of the experiment
		}
		a.events = append(a.events, strconv.Itoa(m.id)+":"+string(codes))
		a.checkAlias(ctx)
	}
}

var (
	sys     actor.ActorSystem
	counter int
	hangs   int // cases that ended in HANG / RUNAWAY; after maxHangs the rest is skipped
)

const (
	maxHangs = 2
	watchdog = 5 * time.Second
)

// stashSize guards pid.StashSize(): it walks the stash chain, which a broken stash can turn into a cycle.
func stashSize(pid *actor.PID) string {
	ch := make(chan uint64, 1)
	go func() { ch <- pid.StashSize() }()
	select {
	case n := <-ch:
		return strconv.FormatUint(n, 10)
	case <-time.After(2 * time.Second):
		hangs++
		return "LOOP"
	}
}

func shutdown(pid *actor.PID) {
	done := make(chan struct{})
	go func() { _ = pid.Shutdown(context.Background()); close(done) }()
	select {
	case <-done:
	case <-time.After(2 * time.Second):
	}
}

func parse(line string) (buf bool, batches [][]int, decisions []string, ok bool) {
	f := vlib.Fields(line)
	if len(f) != 3 || (f[0] != "0" && f[0] != "1") {
		return
	}
	buf = f[0] == "1"
	if f[1] != "-" {
		for _, b := range strings.Split(f[1], "/") {
			var ids []int
			if b != "" {
				for _, s := range strings.Split(b, ",") {
					n, err := strconv.Atoi(s)
					if err != nil || n < 0 {
						return
					}
					ids = append(ids, n)
				}
			}
			batches = append(batches, ids)
		}
	}
	if f[2] != "-" {
		for _, d := range strings.Split(f[2], ",") {
			if d == "" {
				return
			}
			if d != "h" {
				for i := 0; i < len(d); i++ {
					if d[i] != 'S' && d[i] != 'U' && d[i] != 'A' {
						return
					}
				}
			}
			decisions = append(decisions, d)
		}
	}
	ok = true
	return
}

// handle runs the script twice, on two successive actors, in the small-pool regime: the second run's
// messages travel in ReceiveContext objects the first run's deliveries (and Stash calls) used. Both runs
// must give the same observations; the second is reported (a difference = `UNSTABLE …`), so a failure that
// needs recycled contexts is reproducible from the single case line.
func handle(line string) string {
	// first run on an EMPTY pool (every context is freshly allocated); afterwards the pool holds exactly
	// the contexts this run recycled, in order. Dropping the oldest one (the mailbox's initial sentinel)
	// aligns the second run's Tells with the contexts that carried the same messages in the first run.
	actor.VerifC13PoolKeepLast(0)
	first := runOnce(line)
	if first == "bad-case" || strings.HasPrefix(first, "HANG") || strings.HasPrefix(first, "RUNAWAY") || strings.HasPrefix(first, "LOST") {
		return first
	}
	second := runOnce(line)
	if second != first {
		return "UNSTABLE first=" + first + " again=" + second
	}
	return second
}

func runOnce(line string) string {
	buf, batches, decisions, ok := parse(line)
	if !ok {
		return "bad-case"
	}
	if hangs >= maxHangs {
		return "HANG-skipped"
	}
	ctx := context.Background()
	counter++
	mb := newCountingMailbox()
	a := &stasher{decisions: decisions, release: make(chan struct{}, 1), mb: mb, bound: 1}
	for _, b := range batches {
		a.bound += len(b)
	}
	for _, d := range decisions {
		a.bound += strings.Count(d, "S")
	}
	opts := []actor.SpawnOption{actor.WithMailbox(mb), actor.WithLongLived()}
	if buf {
		opts = append(opts, actor.WithStashing())
	}
	pid, err := sys.Spawn(ctx, "c13-"+strconv.Itoa(counter), a, opts...)
	if err != nil {
		return "spawn-error " + vlib.Canon(err.Error())
	}
	defer shutdown(pid)
	tell := func(m any) string {
		if err := actor.Tell(ctx, pid, m); err != nil {
			return "tell-error " + vlib.Canon(err.Error())
		}
		return ""
	}
	// waitGate: the actor entered gate i (quiet), or the dispatcher found the mailbox empty although
	// gate i was enqueued and never delivered (lost — deterministic, no timeout), or the watchdog expired.
	const lost = 99
	waitGate := func(i int) int {
		deadline := time.Now().Add(watchdog)
		timer := time.AfterFunc(watchdog, func() { mb.mu.Lock(); mb.cond.Broadcast(); mb.mu.Unlock() })
		defer timer.Stop()
		mb.mu.Lock()
		defer mb.mu.Unlock()
		for {
			switch {
			case a.entered >= i:
				return quiet
			case mb.runaway:
				return runaway
			case mb.idle:
				return lost
			case time.Now().After(deadline):
				return hang
			}
			mb.cond.Wait()
		}
	}
	gateFail := func(i, r int) string {
		select {
		case a.release <- struct{}{}:
		default:
		}
		switch r {
		case lost:
			return "LOST gate " + strconv.Itoa(i)
		case runaway:
			hangs++
			return fmt.Sprintf("RUNAWAY %d", a.bound+1)
		}
		hangs++
		return "HANG gate " + strconv.Itoa(i)
	}
	if len(batches) > 0 {
		if e := tell(&gate{idx: 1}); e != "" {
			return e
		}
		if r := waitGate(1); r != quiet {
			return gateFail(1, r)
		}
		for i, b := range batches {
			for _, id := range b {
				if e := tell(&user{id: id}); e != "" {
					a.release <- struct{}{}
					return e
				}
			}
			last := i == len(batches)-1
			if !last {
				if e := tell(&gate{idx: i + 2}); e != "" {
					a.release <- struct{}{}
					return e
				}
			}
			a.release <- struct{}{}
			if !last {
				if r := waitGate(i + 2); r != quiet {
					return gateFail(i+2, r)
				}
			}
		}
	}
	switch mb.waitQuiet(watchdog) {
	case hang:
		hangs++
		return "HANG"
	case runaway:
		hangs++
		mb.mu.Lock()
		defer mb.mu.Unlock()
		return fmt.Sprintf("RUNAWAY %d %s", a.bound+1, strings.Join(a.events, " "))
	}
	st := stashSize(pid)
	mb.mu.Lock()
	defer mb.mu.Unlock()
	al := strconv.Itoa(a.alias)
	if a.alias > 0 {
		al += "(" + a.aliasWhat + ")"
	}
	return fmt.Sprintf("%s;st=%s;alias=%s", strings.Join(a.events, " "), st, al)
}

func main() {
	ctx := context.Background()
	var err error
	sys, err = actor.NewActorSystem("verifc13", actor.WithLogger(log.DiscardLogger))
	if err != nil {
		panic(err)
	}
	if err = sys.Start(ctx); err != nil {
		panic(err)
	}
	vlib.Loop(handle)
	_ = sys.Stop(ctx)
}

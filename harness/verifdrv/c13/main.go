//go:build verif

// C13 harness: a scripted actor in a real actor system decides per delivery whether to stash,
// unstash, unstash-all or just handle.
//
// case line:  <buf> <batches> <decisions>
//   buf        1 = spawned WithStashing, 0 = no stash buffer
//   batches    b1/b2/...  each a comma separated list of message ids (may be empty); `-` = no batch.
//              Batch i is enqueued (actor.Tell from this goroutine) while the actor is parked inside the
//              handler of gate message i, so the arrival order in the mailbox is fully determined:
//              gate1 | batch1 gate2 | batch2 gate3 | ... ; re-enqueued (unstashed) messages land where the
//              actor's own doReceive puts them.
//   decisions  d1,d2,...  one per DELIVERY of a user message, in delivery order; each is `h` (just handle)
//              or a string over S (ctx.Stash), U (ctx.Unstash), A (ctx.UnstashAll) executed in order inside
//              the handler. Deliveries beyond the list are plain `h`.  `-` = empty list.
//
// output:  one field per delivery: `<id>` or `<id>:<codes>` with one code per call:
//          o = no error, n = ErrStashBufferNotSet, e = "stash buffer may be closed" (nothing stashed), ? = other;
//          then `;st=<pid.StashSize()>`
//
// Quiescence = counting mailbox wrapper (completed == enqueued), never a sleep.
package main

import (
	"context"
	"errors"
	"fmt"
	"strconv"
	"strings"
	"sync"
	"time"

	"github.com/tochemey/goakt/v4/actor"
	gerrors "github.com/tochemey/goakt/v4/errors"
	"github.com/tochemey/goakt/v4/internal/verifdrv/vlib"
	"github.com/tochemey/goakt/v4/log"
)

type countingMailbox struct {
	inner     *actor.UnboundedMailbox
	mu        sync.Mutex
	cond      *sync.Cond
	enq       int
	handed    int
	completed int
}

func newCountingMailbox() *countingMailbox {
	m := &countingMailbox{inner: actor.NewUnboundedMailbox()}
	m.cond = sync.NewCond(&m.mu)
	return m
}

func (m *countingMailbox) Enqueue(c *actor.ReceiveContext) error {
	m.mu.Lock()
	m.enq++
	m.mu.Unlock()
	return m.inner.Enqueue(c)
}

func (m *countingMailbox) Dequeue() *actor.ReceiveContext {
	m.mu.Lock()
	m.completed = m.handed
	r := m.inner.Dequeue()
	if r != nil {
		m.handed++
	}
	m.cond.Broadcast()
	m.mu.Unlock()
	return r
}
func (m *countingMailbox) IsEmpty() bool { return m.inner.IsEmpty() }
func (m *countingMailbox) Len() int64    { return m.inner.Len() }
func (m *countingMailbox) Dispose()      { m.inner.Dispose() }

func (m *countingMailbox) waitQuiet(d time.Duration) bool {
	deadline := time.Now().Add(d)
	timer := time.AfterFunc(d, func() { m.mu.Lock(); m.cond.Broadcast(); m.mu.Unlock() })
	defer timer.Stop()
	m.mu.Lock()
	defer m.mu.Unlock()
	for m.completed != m.enq {
		if time.Now().After(deadline) {
			return false
		}
		m.cond.Wait()
	}
	return true
}

type user struct{ id int }
type gate struct{ idx int }

type stasher struct {
	decisions []string
	next      int
	events    []string
	entered   chan int
	release   chan struct{}
}

func (a *stasher) PreStart(*actor.Context) error { return nil }
func (a *stasher) PostStop(*actor.Context) error { return nil }

func code(err error) byte {
	switch {
	case err == nil:
		return 'o'
	case errors.Is(err, gerrors.ErrStashBufferNotSet):
		return 'n'
	case err.Error() == "stash buffer may be closed":
		return 'e'
	}
	return '?'
}

func (a *stasher) Receive(ctx *actor.ReceiveContext) {
	switch m := ctx.Message().(type) {
	case *gate:
		a.entered <- m.idx
		<-a.release
	case *user:
		d := "h"
		if a.next < len(a.decisions) {
			d = a.decisions[a.next]
		}
		a.next++
		if d == "h" {
			a.events = append(a.events, strconv.Itoa(m.id))
			return
		}
		codes := make([]byte, 0, len(d))
		for i := 0; i < len(d); i++ {
			ctx.Err(nil)
			switch d[i] {
			case 'S':
				ctx.Stash()
			case 'U':
				ctx.Unstash()
			case 'A':
				ctx.UnstashAll()
			}
			codes = append(codes, code(actor.VerifC13CtxErr(ctx)))
			ctx.Err(nil) // keep supervision out of the experiment
		}
		a.events = append(a.events, strconv.Itoa(m.id)+":"+string(codes))
	}
}

var (
	sys     actor.ActorSystem
	counter int
)

func parse(line string) (buf bool, batches [][]int, decisions []string, ok bool) {
	f := vlib.Fields(line)
	if len(f) != 3 || (f[0] != "0" && f[0] != "1") {
		return
	}
	buf = f[0] == "1"
	if f[1] != "-" {
		for _, b := range strings.Split(f[1], "/") {
			var ids []int
			if b != "" {
				for _, s := range strings.Split(b, ",") {
					n, err := strconv.Atoi(s)
					if err != nil || n < 0 {
						return
					}
					ids = append(ids, n)
				}
			}
			batches = append(batches, ids)
		}
	}
	if f[2] != "-" {
		for _, d := range strings.Split(f[2], ",") {
			if d == "" {
				return
			}
			if d != "h" {
				for i := 0; i < len(d); i++ {
					if d[i] != 'S' && d[i] != 'U' && d[i] != 'A' {
						return
					}
				}
			}
			decisions = append(decisions, d)
		}
	}
	ok = true
	return
}

func handle(line string) string {
	buf, batches, decisions, ok := parse(line)
	if !ok {
		return "bad-case"
	}
	ctx := context.Background()
	a := &stasher{decisions: decisions, entered: make(chan int, 1), release: make(chan struct{}, 1)}
	counter++
	mb := newCountingMailbox()
	opts := []actor.SpawnOption{actor.WithMailbox(mb), actor.WithLongLived()}
	if buf {
		opts = append(opts, actor.WithStashing())
	}
	pid, err := sys.Spawn(ctx, "c13-"+strconv.Itoa(counter), a, opts...)
	if err != nil {
		return "spawn-error " + vlib.Canon(err.Error())
	}
	defer func() { _ = pid.Shutdown(ctx) }()
	tell := func(m any) string {
		if err := actor.Tell(ctx, pid, m); err != nil {
			return "tell-error " + vlib.Canon(err.Error())
		}
		return ""
	}
	waitGate := func(i int) bool {
		select {
		case got := <-a.entered:
			return got == i
		case <-time.After(20 * time.Second):
			return false
		}
	}
	if len(batches) > 0 {
		if e := tell(&gate{idx: 1}); e != "" {
			return e
		}
		if !waitGate(1) {
			return "TIMEOUT gate 1"
		}
		for i, b := range batches {
			for _, id := range b {
				if e := tell(&user{id: id}); e != "" {
					a.release <- struct{}{}
					return e
				}
			}
			last := i == len(batches)-1
			if !last {
				if e := tell(&gate{idx: i + 2}); e != "" {
					a.release <- struct{}{}
					return e
				}
			}
			a.release <- struct{}{}
			if !last && !waitGate(i+2) {
				return "TIMEOUT gate " + strconv.Itoa(i+2)
			}
		}
	}
	if !mb.waitQuiet(20 * time.Second) {
		return "TIMEOUT"
	}
	mb.mu.Lock()
	defer mb.mu.Unlock()
	return fmt.Sprintf("%s;st=%d", strings.Join(a.events, " "), pid.StashSize())
}

func main() {
	ctx := context.Background()
	var err error
	sys, err = actor.NewActorSystem("verifc13", actor.WithLogger(log.DiscardLogger))
	if err != nil {
		panic(err)
	}
	if err = sys.Start(ctx); err != nil {
		panic(err)
	}
	vlib.Loop(handle)
	_ = sys.Stop(ctx)
}

//go:build verif

// C08 harness: drives the real backoffDelay / recordFault / WithExponentialBackoff.
// Line protocol: see lean/GoaktVerif/Driver/C08.lean.
package main

import (
	"strconv"
	"strings"
	"time"

	"github.com/tochemey/goakt/v4/actor"
	"github.com/tochemey/goakt/v4/internal/verifdrv/vlib"
	"github.com/tochemey/goakt/v4/supervisor"
)

func ints(fs []string) ([]int64, bool) {
	out := make([]int64, len(fs))
	for i, s := range fs {
		v, err := strconv.ParseInt(s, 10, 64)
		if err != nil {
			return nil, false
		}
		out[i] = v
	}
	return out, true
}

func i2s(v int64) string { return strconv.FormatInt(v, 10) }

func handle(line string) string {
	f := vlib.Fields(line)
	if len(f) == 0 {
		return "bad-case"
	}
	switch f[0] {
	case "bo":
		a, ok := ints(f[1:])
		if !ok || len(a) != 3 {
			return "bad-case"
		}
		return i2s(int64(actor.VerifBackoffDelay(a[0], time.Duration(a[1]), time.Duration(a[2]))))
	case "seq":
		a, ok := ints(f[1:])
		if !ok || len(a) != 4 || a[3] < 0 {
			return "bad-case"
		}
		var out []string
		for j := int64(0); j < a[3]; j++ {
			out = append(out, i2s(int64(actor.VerifBackoffDelay(a[2]+j, time.Duration(a[0]), time.Duration(a[1])))))
		}
		return strings.Join(out, " ")
	case "cfg", "cfgbo":
		a, ok := ints(f[1:])
		if !ok || (f[0] == "cfg" && len(a) != 3) || (f[0] == "cfgbo" && len(a) != 4) {
			return "bad-case"
		}
		sup := supervisor.NewSupervisor(supervisor.WithExponentialBackoff(time.Duration(a[0]), time.Duration(a[1]), time.Duration(a[2])))
		if f[0] == "cfg" {
			return i2s(int64(sup.InitialDelay())) + " " + i2s(int64(sup.MaxDelay())) + " " + i2s(int64(sup.BackoffResetAfter()))
		}
		// exactly what handleRestartDirective evaluates
		return i2s(int64(actor.VerifBackoffDelay(a[3], sup.InitialDelay(), sup.MaxDelay())))
	case "rf":
		if len(f) < 3 {
			return "bad-case"
		}
		a, ok := ints(f[1:3])
		if !ok {
			return "bad-case"
		}
		p := actor.VerifNewFaultProbe(a[1])
		var out []string
		fresh := true
		for _, ag := range f[3:] {
			before := time.Now().UnixNano()
			switch ag {
			case "z":
				p.SetLast(0)
			case "neg":
				p.SetLast(-5)
			default:
				age, err := strconv.ParseInt(ag, 10, 64)
				if err != nil {
					return "bad-case"
				}
				p.SetLast(before - age)
			}
			c := p.RecordFault(time.Duration(a[0]))
			after := time.Now().UnixNano()
			out = append(out, i2s(c))
			// one-sided with slack for wall-clock adjustments: the stored stamp is a reading taken during the call
			if l := p.Last(); l < before-int64(time.Second) || l > after+int64(time.Second) || p.Count() != c {
				fresh = false
			}
		}
		if fresh {
			out = append(out, "fresh")
		} else {
			out = append(out, "stale")
		}
		return strings.Join(out, " ")
	}
	return "bad-case"
}

func main() { vlib.Loop(handle) }

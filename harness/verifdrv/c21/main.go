//go:build verif

// C21 harness: the real consistent hash ring and a real router actor (in one actor system),
// driven in-package.  Line protocol: see lean/GoaktVerif/Driver/C21.lean.
package main

import (
	"context"
	"errors"
	"fmt"
	"os"
	"sort"
	"strconv"
	"strings"
	"sync"
	"time"

	"github.com/tochemey/goakt/v4/actor"
	"github.com/tochemey/goakt/v4/internal/verifdrv/vlib"
	"github.com/tochemey/goakt/v4/log"
)

// ---- table hasher: every string that is hashed must be in the table ------------------------

type tableHasher struct {
	t       map[string]uint64
	missing []string
}

func (h *tableHasher) HashCode(b []byte) uint64 {
	v, ok := h.t[string(b)]
	if !ok {
		h.missing = append(h.missing, string(b))
	}
	return v
}

func dash(s string) string {
	if s == "" {
		return "-"
	}
	return s
}

// ring <vn> m0:h,h m1:h,h / k0:h k1:h [! m1]
func doRing(f []string) string {
	vn, err := strconv.Atoi(f[1])
	if err != nil {
		return "bad-case"
	}
	th := &tableHasher{t: map[string]uint64{}}
	var members, keys []string
	rm := ""
	stage := 0
	for i := 2; i < len(f); i++ {
		tok := f[i]
		switch {
		case tok == "/":
			stage = 1
		case tok == "!":
			stage = 2
		case stage == 2:
			rm = tok
		default:
			nv := strings.SplitN(tok, ":", 2)
			if len(nv) != 2 {
				return "bad-case"
			}
			if stage == 0 {
				members = append(members, nv[0])
				if nv[1] != "" {
					for j, hs := range strings.Split(nv[1], ",") {
						h, err := strconv.ParseUint(hs, 10, 64)
						if err != nil {
							return "bad-case"
						}
						th.t[fmt.Sprintf("%s#%d", nv[0], j)] = h
					}
				}
			} else {
				h, err := strconv.ParseUint(nv[1], 10, 64)
				if err != nil {
					return "bad-case"
				}
				keys = append(keys, nv[0])
				th.t[nv[0]] = h
			}
		}
	}
	r := actor.VerifNewRing(th, vn)
	look := func() string {
		var out []string
		for _, k := range keys {
			out = append(out, dash(r.Lookup(k)))
		}
		return strings.Join(out, " ")
	}
	r.Set(members)
	res := look()
	if rm != "" {
		var rest []string
		for _, m := range members {
			if m != rm {
				rest = append(rest, m)
			}
		}
		r.Set(rest)
		res += " | " + look()
	}
	if len(th.missing) > 0 {
		return "bad-case missing-hash " + th.missing[0]
	}
	return res
}

func dumpRing(r *actor.VerifRing, name func(string) string) string {
	keys, owners := r.Dump()
	var b strings.Builder
	for i, k := range keys {
		if i > 0 {
			b.WriteByte(',')
		}
		b.WriteString(strconv.FormatUint(k, 10))
		b.WriteByte('=')
		b.WriteString(name(owners[i]))
	}
	if len(keys) == 0 {
		return "-"
	}
	return b.String()
}

// xring <vn> <nmembers> <nkeys> <seed> <rm index or -1>   (real xxh3)
func doXRing(f []string) string {
	if len(f) != 6 {
		return "bad-case"
	}
	vn, _ := strconv.Atoi(f[1])
	nm, _ := strconv.Atoi(f[2])
	nk, _ := strconv.Atoi(f[3])
	seed := f[4]
	rm, _ := strconv.Atoi(f[5])
	idx := map[string]string{}
	var members []string
	for i := 0; i < nm; i++ {
		m := fmt.Sprintf("goakt://sys@127.0.0.1:0/pool%sRoutee%d", seed, i)
		members = append(members, m)
		idx[m] = strconv.Itoa(i)
	}
	name := func(s string) string { return idx[s] }
	r := actor.VerifNewRing(nil, vn)
	seg := func() string {
		var ks []string
		for j := 0; j < nk; j++ {
			k := fmt.Sprintf("key-%s-%d", seed, j)
			got := r.Lookup(k)
			again := r.Lookup(k)
			o := "-"
			if got != "" {
				o = name(got)
			}
			if again != got {
				o += "~" // unstable
			}
			ks = append(ks, fmt.Sprintf("%d:%d:%s", j, r.KeyHash(k), o))
		}
		return "R " + dumpRing(r, name) + " K " + strings.Join(ks, " ")
	}
	r.Set(members)
	out := seg()
	if rm >= 0 && rm < nm {
		// the members reach set() in map iteration order: rebuild in a different (reversed) order
		var rest []string
		for i := len(members) - 1; i >= 0; i-- {
			if i != rm {
				rest = append(rest, members[i])
			}
		}
		r.Set(rest)
		out += " | " + seg()
	}
	return out
}

// ---- real router ----------------------------------------------------------------------------

type vmsg struct {
	id  int
	key string
}
type vping struct{}
type vcrash struct{}

type delivery struct {
	routee string
	id     int
}

var (
	delMu      sync.Mutex
	deliveries []delivery
)

// Routee records what it receives.
type Routee struct{}

func (*Routee) PreStart(*actor.Context) error { return nil }
func (*Routee) PostStop(*actor.Context) error { return nil }
func (*Routee) Receive(ctx *actor.ReceiveContext) {
	switch m := ctx.Message().(type) {
	case *vmsg:
		delMu.Lock()
		deliveries = append(deliveries, delivery{ctx.Self().Name(), m.id})
		delMu.Unlock()
	case *vping:
		ctx.Response(&vping{})
	case *vcrash:
		panic("verif: routee crash requested")
	default:
		ctx.Unhandled()
	}
}

func takeDeliveries() []delivery {
	delMu.Lock()
	d := deliveries
	deliveries = nil
	delMu.Unlock()
	return d
}

var (
	sysOnce sync.Once
	sys     actor.ActorSystem
	sysErr  error
	nextID  int
)

const long = 60 * time.Second

// grace period for the goroutines a fan-out spawns (positive wait: the loop ends as soon as every
// running routee has the message)
var fanWait = 30 * time.Second

func system() (actor.ActorSystem, error) {
	sysOnce.Do(func() {
		s, err := actor.NewActorSystem("verifc21", actor.WithLogger(log.DiscardLogger))
		if err != nil {
			sysErr = err
			return
		}
		if err := s.Start(context.Background()); err != nil {
			sysErr = err
			return
		}
		sys = s
	})
	return sys, sysErr
}

type pool struct {
	name    string
	pid     *actor.PID
	v       *actor.VerifRouter
	routees map[int]*actor.PID // by index
}

func routeeIndex(name string) int {
	i := strings.LastIndex(name, "Routee")
	if i < 0 {
		return -1
	}
	n, err := strconv.Atoi(name[i+len("Routee"):])
	if err != nil {
		return -1
	}
	return n
}

// setupRetries bounds how often newPool rebuilds a pool whose routees were spawned outside the actor tree.
const setupRetries = 8

// newPool spawns a router with n routees and checks that the pool is the well-formed starting state the
// cases assume: the router's map holds exactly the n routees <pool>Routee<i>, and each of them is
// registered in the actor tree (ActorOf resolves its name to the same PID). The second part is not about
// routing: a routee that SpawnChild returned but that is not registered is not stopped with the router and
// its failures are not escalated to it, so the `ch` cases (crash -> escalate -> ring rebuilt) and close()
// would not do what the case says. goakt could produce such a pool before its fix "PostStart is sent once
// the actor is attached to the tree" (the router's PostStart handler, which spawns the routees, could run
// before Spawn had registered the router itself; the insertion error "parent pid does not exist" was
// ignored; hit once by this harness on a cold, loaded machine: DESIGN.md I.6, finding C09-F4). Such a pool is
// discarded and rebuilt, with a note on stderr; anything else wrong with the setup is an error.
func newPool(n int, opts ...actor.RouterOption) (*pool, error) {
	for attempt := 0; ; attempt++ {
		p, unregistered, err := tryPool(n, opts...)
		if err != nil || unregistered == "" {
			return p, err
		}
		fmt.Fprintf(os.Stderr, "verif c21: pool %s discarded: routee %s is running and in the router's map but not registered in the actor tree (spawn/attach race, the subject of C09 not C21)\n", p.name, unregistered)
		for _, rp := range p.routees {
			_ = rp.Shutdown(context.Background())
		}
		p.close()
		if attempt >= setupRetries {
			return nil, fmt.Errorf("routee %s not registered in the actor tree (after %d rebuilt pools)", unregistered, attempt)
		}
	}
}

func tryPool(n int, opts ...actor.RouterOption) (*pool, string, error) {
	s, err := system()
	if err != nil {
		return nil, "", err
	}
	ctx := context.Background()
	nextID++
	p := &pool{name: fmt.Sprintf("p%d", nextID), routees: map[int]*actor.PID{}}
	p.pid, err = s.SpawnRouter(ctx, p.name, n, new(Routee), opts...)
	if err != nil {
		return nil, "", err
	}
	// barrier: GetRoutees is answered only after PostStart spawned the routees
	if _, err := p.names(); err != nil {
		return nil, "", err
	}
	p.v = actor.VerifRouterOf(p.pid)
	if p.v == nil {
		return nil, "", errors.New("not a router")
	}
	mapped := p.v.MapRoutees()
	if len(mapped) != n {
		return nil, "", fmt.Errorf("router map holds %d routees, want %d", len(mapped), n)
	}
	byName := map[string]*actor.PID{}
	for _, rp := range mapped {
		byName[rp.Name()] = rp
	}
	unregistered := ""
	for i := 0; i < n; i++ {
		name := fmt.Sprintf("%sRoutee%d", p.name, i)
		rp, ok := byName[name]
		if !ok {
			return nil, "", fmt.Errorf("routee %d: no routee named %s in the router's map", i, name)
		}
		p.routees[i] = rp
		if reg, err := s.ActorOf(ctx, name); err != nil || reg != rp {
			if unregistered == "" {
				unregistered = name
			}
		}
	}
	takeDeliveries()
	return p, unregistered, nil
}

func (p *pool) names() ([]string, error) {
	rep, err := actor.Ask(context.Background(), p.pid, new(actor.GetRoutees), long)
	if err != nil {
		return nil, err
	}
	r, ok := rep.(*actor.Routees)
	if !ok {
		return nil, fmt.Errorf("unexpected reply %T", rep)
	}
	return r.Names(), nil
}

// barrier: every running routee has processed everything enqueued before this call
func (p *pool) settle() {
	for _, rp := range p.routees {
		if rp.IsRunning() {
			_, _ = actor.Ask(context.Background(), rp, &vping{}, long)
		}
	}
}

func (p *pool) close() {
	_ = p.pid.Shutdown(context.Background())
}

func orderIdx(order []string) string {
	var o []string
	for _, n := range order {
		o = append(o, strconv.Itoa(routeeIndex(n)))
	}
	return strings.Join(o, ",")
}

// rr|fan <n> <start> ops...   ops: m = route one message, k<i> = stop routee i (the router is not told)
func doRoute(f []string, fan bool) string {
	if len(f) < 3 {
		return "bad-case"
	}
	n, err1 := strconv.Atoi(f[1])
	start, err2 := strconv.ParseUint(f[2], 10, 32)
	if err1 != nil || err2 != nil || n < 1 || n > 64 {
		return "bad-case"
	}
	strat := actor.RoundRobinRouting
	if fan {
		strat = actor.FanOutRouting
	}
	p, err := newPool(n, actor.WithRoutingStrategy(strat))
	if err != nil {
		return "CRASH setup: " + err.Error()
	}
	defer p.close()
	p.v.SetCounter(uint32(start))
	var out []string
	msgID := 0
	for _, op := range f[3:] {
		switch {
		case op == "m":
			msgID++
			id := msgID
			var order []string
			var ok bool
			var rerr error
			order, ok = p.v.Available()
			res := ""
			if ok {
				res = vlib.Safe(func() string {
					rerr = p.v.Dispatch(context.Background(), &vmsg{id: id})
					return ""
				})
			}
			tok := "o=" + orderIdx(order) + ";r="
			switch {
			case strings.HasPrefix(res, "panic"):
				tok += "panic"
			case !ok:
				tok += "noroutees"
			case fan:
				want := 0
				for _, rp := range p.routees {
					if rp.IsRunning() {
						want++
					}
				}
				// fan-out Tells run on goroutines: wait (positively) until every running routee has the message
				got := map[int]int{}
				deadline := time.Now().Add(fanWait)
				for {
					for _, d := range takeDeliveries() {
						if d.id == id {
							got[routeeIndex(d.routee)]++
						}
					}
					if len(got) >= want {
						break
					}
					if time.Now().After(deadline) {
						// something is not delivered at all (never on the unchanged code): do not
						// spend the long grace period again on every later message
						fanWait = 2 * time.Second
						break
					}
					time.Sleep(time.Millisecond)
				}
				p.settle()
				for _, d := range takeDeliveries() {
					if d.id == id {
						got[routeeIndex(d.routee)]++
					}
				}
				var rs []string
				var ks []int
				for k := range got {
					ks = append(ks, k)
				}
				sort.Ints(ks)
				for _, k := range ks {
					for c := 0; c < got[k]; c++ {
						rs = append(rs, strconv.Itoa(k))
					}
				}
				tok += strings.Join(rs, ",")
			default:
				p.settle()
				var rs []string
				for _, d := range takeDeliveries() {
					if d.id == id {
						rs = append(rs, strconv.Itoa(routeeIndex(d.routee)))
					}
				}
				switch {
				case len(rs) > 0:
					tok += strings.Join(rs, ",")
				case rerr != nil:
					tok += "dead"
				default:
					tok += "none"
				}
			}
			tok += ";z=" + strconv.Itoa(p.v.MapSize())
			out = append(out, tok)
		case strings.HasPrefix(op, "k"):
			i, err := strconv.Atoi(op[1:])
			rp, ok := p.routees[i]
			if err != nil || !ok {
				return "bad-case"
			}
			_ = rp.Shutdown(context.Background())
			out = append(out, "k")
		default:
			return "bad-case"
		}
	}
	out = append(out, "c="+strconv.FormatUint(uint64(p.v.Counter()), 10))
	return strings.Join(out, " ")
}

// ch <n> <vn> <nkeys> <rm>    real router with ConsistentHashRouting and the default xxh3 hasher.
// every key is routed twice; then routee <rm> (if >= 0) is crashed: it escalates, the router stops it
// and rebuilds the ring; then every key is routed twice again.
func doCH(f []string) string {
	if len(f) != 5 {
		return "bad-case"
	}
	n, _ := strconv.Atoi(f[1])
	vn, _ := strconv.Atoi(f[2])
	nk, _ := strconv.Atoi(f[3])
	rm, _ := strconv.Atoi(f[4])
	if n < 1 || n > 64 || nk < 0 {
		return "bad-case"
	}
	extractor := func(msg any) string {
		if m, ok := msg.(*vmsg); ok {
			return m.key
		}
		return ""
	}
	p, err := newPool(n, actor.WithConsistentHashRouter(extractor), actor.WithConsistentHashVirtualNodes(vn))
	if err != nil {
		return "CRASH setup: " + err.Error()
	}
	defer p.close()
	name := func(id string) string { return strconv.Itoa(routeeIndex(id)) }
	msgID := 0
	seg := func() string {
		ring := p.v.Ring()
		var ks []string
		for j := 0; j < nk; j++ {
			key := fmt.Sprintf("key-%s-%d", p.name, j)
			var recv [2]string
			for t := 0; t < 2; t++ {
				msgID++
				id := msgID
				res := ""
				recv[t] = "none"
				if _, ok := p.v.Available(); ok {
					res = vlib.Safe(func() string {
						_ = p.v.Dispatch(context.Background(), &vmsg{id: id, key: key})
						return ""
					})
				} else {
					recv[t] = "-" // no routees left: handleNoRoutees territory, nothing is routed
				}
				p.settle()
				if strings.HasPrefix(res, "panic") {
					recv[t] = "panic"
				}
				for _, d := range takeDeliveries() {
					if d.id == id {
						recv[t] = strconv.Itoa(routeeIndex(d.routee))
					}
				}
			}
			o := recv[0]
			if recv[1] != recv[0] {
				o += "~" + recv[1]
			}
			ks = append(ks, fmt.Sprintf("%d:%d:%s", j, ring.KeyHash(key), o))
		}
		return "R " + dumpRing(ring, name) + " K " + strings.Join(ks, " ")
	}
	out := seg()
	if rm >= 0 && rm < n {
		if err := actor.Tell(context.Background(), p.routees[rm], &vcrash{}); err != nil {
			return "CRASH tell: " + err.Error()
		}
		// positive wait: the router has handled the PanicSignal once the routee left its map
		deadline := time.Now().Add(long)
		for {
			names, err := p.names()
			if err != nil {
				return "CRASH names: " + err.Error()
			}
			gone := true
			for _, nm := range names {
				if routeeIndex(nm) == rm {
					gone = false
				}
			}
			if gone {
				break
			}
			if time.Now().After(deadline) {
				return "CRASH routee not removed"
			}
			time.Sleep(2 * time.Millisecond)
		}
		out += " | " + seg()
	}
	return out
}

func handle(line string) string {
	f := vlib.Fields(line)
	if len(f) == 0 {
		return "bad-case"
	}
	switch f[0] {
	case "ring":
		if len(f) < 2 {
			return "bad-case"
		}
		return doRing(f)
	case "xring":
		return doXRing(f)
	case "rr":
		return doRoute(f, false)
	case "fan":
		return doRoute(f, true)
	case "ch":
		return doCH(f)
	}
	return "bad-case"
}

func main() { vlib.Loop(handle) }

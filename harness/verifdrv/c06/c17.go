//go:build verif

// C17 scenarios: a tree of instrumented user actors and a population of grains in a real actor
// system, traffic in flight, then ActorSystem.Stop.
//
//   sys t=<parent list> g=<number of grains> | op op ...
//
// `t=-,0,0,1`: actor 0 is a child of the user guardian, actors 1 and 2 are children of 0, actor 3 of 1.
// ops:  t<k>       Tell actor k                      -> ok | dead
//       m<k>       send to grain k                   -> sent | wait
//       r<k>+ r<k>-  close / open the Receive gate of actor k
//       q<k>+ q<k>-  close / open the OnReceive gate of grain k
//       k<k>       system.Kill(actor k), waits       -> .
//       R<k>       actor k's PID.Restart(), waits     -> .
//       d<k>       PoisonPill to grain k, waits      -> .
//       stop       go system.Stop(); wait until it returned or the window expired -> done | err | pending
//       after      Tell every actor and every grain  -> one of o(k)/x (accepted / rejected) per target
// Output: <results> | LOG <A<k>.kind@gid[/via] ... G<k>.kind@gid[/via]#inst ... STOP.b STOP.e> | FIN <stop result>
package main

import (
	"context"
	"fmt"
	"strconv"
	"strings"
	"sync/atomic"
	"time"

	"github.com/tochemey/goakt/v4/actor"
)

type c17env struct {
	sys    actor.ActorSystem
	rec    *recorder
	acts   []*tactor
	pids   []*actor.PID
	genvs  []*genv
	gids   []*actor.GrainIdentity
	gnames []string
}

func (e *c17env) quiet() bool {
	for i, p := range e.pids {
		if e.acts[i].recv.nparked() > 0 {
			continue
		}
		if !(actor.VerifC06Sched(p) == 0 && actor.VerifC06Empty(p)) {
			return false
		}
	}
	for i, id := range e.gids {
		if e.genvs[i].rcv.nparked() > 0 {
			continue
		}
		if r, ok := actor.VerifGrainLookup(e.sys, id); ok {
			_, _, s, q := r.State()
			if s != 0 || q != 0 {
				return false
			}
		}
	}
	return true
}

func runC17(line string) string {
	parts := strings.SplitN(line, "|", 2)
	if len(parts) != 2 {
		return "bad-case"
	}
	var parents []int
	ngr := 0
	for _, c := range strings.Fields(parts[0])[1:] {
		if strings.HasPrefix(c, "t=") && len(c) > 2 {
			for _, s := range strings.Split(c[2:], ",") {
				if s == "-" {
					parents = append(parents, -1)
				} else {
					n, err := strconv.Atoi(s)
					if err != nil || n >= len(parents) {
						return "bad-case"
					}
					parents = append(parents, n)
				}
			}
		}
		if strings.HasPrefix(c, "g=") {
			ngr, _ = strconv.Atoi(c[2:])
		}
	}
	ops := strings.Fields(parts[1])
	ctx, cancel := context.WithCancel(context.Background())
	defer cancel()
	sys, err := newSystem(0)
	if err != nil {
		return "CRASH cannot start system: " + err.Error()
	}
	stopped := false
	defer func() {
		if !stopped {
			stopSystem(sys)
		}
	}()
	e := &c17env{sys: sys, rec: &recorder{}}
	for k, p := range parents {
		a := newTActor("A"+strconv.Itoa(k), e.rec)
		a.logPostStart = false
		var pid *actor.PID
		if p < 0 {
			pid, err = sys.Spawn(ctx, a.name, a, actor.WithLongLived())
		} else {
			pid, err = e.pids[p].SpawnChild(ctx, a.name, a, actor.WithLongLived())
		}
		if err != nil {
			return "CRASH cannot spawn: " + err.Error()
		}
		e.acts = append(e.acts, a)
		e.pids = append(e.pids, pid)
	}
	uniq := strconv.FormatInt(sysCounter.Add(1), 10)
	for k := 0; k < ngr; k++ {
		name := "G" + strconv.Itoa(k) + "x" + uniq
		env := &genv{rec: e.rec, act: &gate{}, rcv: &gate{}, dea: &gate{}, label: "G" + strconv.Itoa(k)}
		genvMu.Lock()
		genvs[name] = env
		genvMu.Unlock()
		defer func() {
			genvMu.Lock()
			delete(genvs, name)
			genvMu.Unlock()
		}()
		id, err := sys.GrainIdentity(ctx, name, func(context.Context) (actor.Grain, error) { return &Tgrain{}, nil }, actor.WithLongLivedGrain())
		if err != nil {
			return "CRASH cannot activate grain: " + err.Error()
		}
		e.genvs = append(e.genvs, env)
		e.gids = append(e.gids, id)
		e.gnames = append(e.gnames, name)
	}
	if !waitFor(e.quiet, mustTimeout) {
		return "CRASH system never became quiet after start-up"
	}

	var res []string
	var stopDone atomic.Bool
	var stopErr atomic.Value
	stopLaunched := false
	idx := func(op string, pre string, suf string) (int, bool) {
		s := strings.TrimSuffix(strings.TrimPrefix(op, pre), suf)
		n, err := strconv.Atoi(s)
		return n, err == nil
	}
	for _, op := range ops {
		r := "."
		switch {
		case op == "stop":
			if stopLaunched {
				return "bad-case"
			}
			stopLaunched = true
			stopped = true
			e.rec.add("b", "STOP", "", "")
			go func() {
				defer func() { _ = recover() }()
				err := sys.Stop(context.Background())
				e.rec.add("e", "STOP", "", "")
				if err != nil {
					stopErr.Store(err.Error())
				}
				stopDone.Store(true)
			}()
			waitFor(stopDone.Load, 2*time.Second)
			switch {
			case !stopDone.Load():
				r = "pending"
			case stopErr.Load() != nil:
				r = "err"
			default:
				r = "done"
			}
		case op == "burst":
			for round := 0; round < 3; round++ {
				for _, p := range e.pids {
					_ = actor.Tell(ctx, p, &vmsg{})
				}
				for _, id := range e.gids {
					id := id
					go func() {
						defer func() { _ = recover() }()
						tctx, tcancel := context.WithTimeout(ctx, 2*time.Second)
						defer tcancel()
						_ = sys.TellGrain(tctx, id, &gmsg{})
					}()
				}
			}
		case op == "after":
			var out []string
			for _, p := range e.pids {
				if err := actor.Tell(ctx, p, &vmsg{}); err != nil {
					out = append(out, "x")
				} else {
					out = append(out, "o")
				}
			}
			for _, id := range e.gids {
				tctx, tcancel := context.WithTimeout(ctx, time.Second)
				if err := sys.TellGrain(tctx, id, &gmsg{}); err != nil {
					out = append(out, "x")
				} else {
					out = append(out, "o")
				}
				tcancel()
			}
			r = strings.Join(out, "")
			if r == "" {
				r = "-"
			}
		case strings.HasPrefix(op, "t"):
			k, ok := idx(op, "t", "")
			if !ok || k >= len(e.pids) {
				return "bad-case"
			}
			r = tellRes(actor.Tell(ctx, e.pids[k], &vmsg{}))
		case strings.HasPrefix(op, "m"):
			k, ok := idx(op, "m", "")
			if !ok || k >= len(e.gids) {
				return "bad-case"
			}
			var sent atomic.Bool
			go func() {
				defer func() { _ = recover() }()
				_ = actor.VerifGrainTell(ctx, sys, e.gids[k], &gmsg{}, func() { sent.Store(true) })
			}()
			if waitFor(sent.Load, window) {
				r = "sent"
			} else {
				r = "wait"
			}
		case strings.HasPrefix(op, "r") && strings.HasSuffix(op, "+"):
			k, ok := idx(op, "r", "+")
			if !ok || k >= len(e.acts) {
				return "bad-case"
			}
			e.acts[k].recv.close()
		case strings.HasPrefix(op, "r") && strings.HasSuffix(op, "-"):
			k, ok := idx(op, "r", "-")
			if !ok || k >= len(e.acts) {
				return "bad-case"
			}
			e.acts[k].recv.open()
		case strings.HasPrefix(op, "q") && strings.HasSuffix(op, "+"):
			k, ok := idx(op, "q", "+")
			if !ok || k >= len(e.genvs) {
				return "bad-case"
			}
			e.genvs[k].rcv.close()
		case strings.HasPrefix(op, "q") && strings.HasSuffix(op, "-"):
			k, ok := idx(op, "q", "-")
			if !ok || k >= len(e.genvs) {
				return "bad-case"
			}
			e.genvs[k].rcv.open()
		case strings.HasPrefix(op, "k"):
			k, ok := idx(op, "k", "")
			if !ok || k >= len(e.pids) {
				return "bad-case"
			}
			_ = sys.Kill(ctx, e.acts[k].name)
		case strings.HasPrefix(op, "R"):
			k, ok := idx(op, "R", "")
			if !ok || k >= len(e.pids) {
				return "bad-case"
			}
			// A stopped actor is removed from the actor tree by the death-watch actor asynchronously; whether
			// the restart finds it there decides whether it is re-attached (C17-F4). Make that deterministic:
			// restart a stopped actor only once its name no longer resolves.
			if !e.pids[k].IsRunning() {
				waitFor(func() bool {
					ok, err := sys.ActorExists(ctx, e.acts[k].name)
					return err != nil || !ok
				}, 5*time.Second)
			}
			// Restart spins until the actor is idle: never wait for it unboundedly (a handler may be parked)
			var rdone atomic.Bool
			go func() {
				defer func() { _ = recover() }()
				_ = e.pids[k].Restart(ctx)
				rdone.Store(true)
			}()
			if !waitFor(rdone.Load, 2*time.Second) {
				r = "pending"
			}
		case strings.HasPrefix(op, "d"):
			k, ok := idx(op, "d", "")
			if !ok || k >= len(e.gids) {
				return "bad-case"
			}
			tctx, tcancel := context.WithTimeout(ctx, 5*time.Second)
			_ = sys.TellGrain(tctx, e.gids[k], &actor.PoisonPill{})
			tcancel()
		default:
			return "bad-case"
		}
		if !stopLaunched && op != "burst" {
			waitFor(e.quiet, window)
		}
		res = append(res, r)
	}
	// epilogue: release every gate, let everything finish
	for _, a := range e.acts {
		a.recv.open()
	}
	for _, g := range e.genvs {
		g.rcv.open()
	}
	fin := "nostop"
	if stopLaunched {
		if waitFor(stopDone.Load, mustTimeout) {
			if v := stopErr.Load(); v != nil {
				fin = "stop-err"
			} else {
				fin = "stop-ok"
			}
		} else {
			fin = "stop-timeout"
		}
	}
	// handlers released by the epilogue finish on their own goroutines: give them the window
	waitFor(func() bool {
		for _, a := range e.acts {
			if a.inRecv.Load() != 0 {
				return false
			}
		}
		for _, g := range e.genvs {
			if g.inRcv.Load() != 0 {
				return false
			}
		}
		return true
	}, mustTimeout)
	cancel()
	return fmt.Sprintf("%s | LOG %s | FIN %s", strings.Join(res, " "), render(e.rec.snapshot(), "", true), fin)
}

//go:build verif

// Lifecycle harness binary: C06 (actor hooks), C17 (system stop), C31 (grain activations).
// The first word of the case line selects the scenario family.
package main

import (
	"runtime"
	"strings"

	"github.com/tochemey/goakt/v4/internal/verifdrv/vlib"
)

func handle(line string) string {
	f := strings.Fields(line)
	if len(f) == 0 {
		return "bad-case"
	}
	switch f[0] {
	case "solo", "child", "sib":
		return runC06(line)
	case "grain":
		return runC31(line)
	case "sys":
		return runC17(line)
	}
	return "bad-case"
}

func main() {
	// a small, fixed number of dispatcher workers (the dispatcher sizes itself from GOMAXPROCS)
	runtime.GOMAXPROCS(4)
	vlib.Loop(handle)
}

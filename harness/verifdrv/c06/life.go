//go:build verif

// Shared plumbing of the lifecycle harness (C06, C17, C31): an event recorder with a logical
// clock, re-openable gates that park lifecycle hooks, and the instrumented test actor.
// Nothing here sleeps to synchronise: every wait polls a condition that must become true on a
// correct run (long timeout, failure reported) or is a bounded ONE-SIDED observation window
// (short bound, expiry reported as `pending`, never as a failure).
package main

import (
	"runtime"
	"strconv"
	"strings"
	"sync"
	"sync/atomic"
	"time"

	"github.com/tochemey/goakt/v4/actor"
)

// ---------------------------------------------------------------------------
// goroutine identity and stop-path detection
// ---------------------------------------------------------------------------

func goid() uint64 {
	var buf [64]byte
	n := runtime.Stack(buf[:], false)
	s := strings.TrimPrefix(string(buf[:n]), "goroutine ")
	if i := strings.IndexByte(s, ' '); i > 0 {
		s = s[:i]
	}
	id, _ := strconv.ParseUint(s, 10, 64)
	return id
}

func frames() []string {
	pcs := make([]uintptr, 96)
	n := runtime.Callers(2, pcs)
	fr := runtime.CallersFrames(pcs[:n])
	var out []string
	for {
		f, more := fr.Next()
		out = append(out, f.Function)
		if !more {
			break
		}
	}
	return out
}

func short(fn string) string {
	if i := strings.LastIndex(fn, "/"); i >= 0 {
		fn = fn[i+1:]
	}
	return strings.ReplaceAll(fn, " ", "")
}

// stopVia names the stop path that is running PostStop on the calling goroutine: the caller of
// the innermost (*PID).Shutdown / tryPassivation frame.  This is the `exact signature per stop path`.
func stopVia() string {
	fs := frames()
	for i, f := range fs {
		if !strings.HasSuffix(f, "actor.(*PID).doStop") {
			continue
		}
		if i+1 >= len(fs) {
			return "other:top"
		}
		c := fs[i+1]
		if strings.HasSuffix(c, "actor.(*PID).tryPassivation") {
			return "pass"
		}
		if !strings.HasSuffix(c, "actor.(*PID).Shutdown") || i+2 >= len(fs) {
			return "other:" + short(c)
		}
		d := fs[i+2]
		switch {
		case strings.HasSuffix(d, "actor.(*PID).dispatchOne"):
			return "pill"
		case strings.HasSuffix(d, "actor.(*ReceiveContext).Shutdown"):
			return "self"
		case strings.HasSuffix(d, "actor.(*actorSystem).Kill"):
			return "kill"
		case strings.HasSuffix(d, "actor.(*PID).Stop"):
			if i+3 < len(fs) && strings.HasSuffix(fs[i+3], "actor.(*ReceiveContext).Stop") {
				return "ctx"
			}
			return "stop"
		case strings.Contains(d, "actor.(*PID).freeChildren"):
			return "parent"
		case strings.Contains(d, "actor.(*PID).handleStopDirective"):
			return "sup"
		case strings.HasSuffix(d, "actor.restartSubtree"):
			return "restart"
		case strings.HasPrefix(d, "main."):
			return "direct"
		}
		return "other:" + short(d)
	}
	return "other:nodoStop"
}

// startVia names what is running PreStart: a spawn or the restart path.
func startVia() string {
	for _, f := range frames() {
		if strings.HasSuffix(f, "actor.restartSubtree") {
			return "restart"
		}
	}
	return "spawn"
}

// ---------------------------------------------------------------------------
// recorder
// ---------------------------------------------------------------------------

type event struct {
	kind  string // preB preE recvB recvE postB postE (actors) / actB actE rcvB rcvE deaB deaE (grains)
	who   string // actor or grain name
	gid   uint64
	via   string
	extra string
}

type recorder struct {
	mu  sync.Mutex
	evs []event
}

func (r *recorder) add(kind, who, via, extra string) {
	g := goid()
	r.mu.Lock()
	r.evs = append(r.evs, event{kind, who, g, via, extra})
	r.mu.Unlock()
}

func (r *recorder) snapshot() []event {
	r.mu.Lock()
	defer r.mu.Unlock()
	return append([]event(nil), r.evs...)
}

func (r *recorder) count(kind, who string) int {
	r.mu.Lock()
	defer r.mu.Unlock()
	n := 0
	for _, e := range r.evs {
		if e.kind == kind && e.who == who {
			n++
		}
	}
	return n
}

func (e event) String() string {
	s := e.kind + "@" + strconv.FormatUint(e.gid, 10)
	if e.via != "" {
		s += "/" + e.via
	}
	return s
}

// render prints the events of `who` (all when who == "") in logical-clock order.
func render(evs []event, who string, withName bool) string {
	var out []string
	for _, e := range evs {
		if who != "" && e.who != who {
			continue
		}
		s := e.String()
		if withName {
			s = e.who + "." + s
		}
		if e.extra != "" {
			s += "#" + e.extra
		}
		out = append(out, s)
	}
	return strings.Join(out, " ")
}

// ---------------------------------------------------------------------------
// gates
// ---------------------------------------------------------------------------

type parkInfo struct {
	gid uint64
	via string
}

// gate parks every goroutine that passes while it is closed, until it is opened.
type gate struct {
	mu     sync.Mutex
	closed bool
	ch     chan struct{}
	parked []parkInfo
}

func (g *gate) close() {
	g.mu.Lock()
	if !g.closed {
		g.closed = true
		g.ch = make(chan struct{})
	}
	g.mu.Unlock()
}

func (g *gate) open() {
	g.mu.Lock()
	if g.closed {
		g.closed = false
		g.parked = nil // released goroutines are no longer parked from this instant on
		close(g.ch)
	}
	g.mu.Unlock()
}

func (g *gate) pass(via string) {
	g.mu.Lock()
	if !g.closed {
		g.mu.Unlock()
		return
	}
	ch := g.ch
	me := goid()
	g.parked = append(g.parked, parkInfo{me, via})
	g.mu.Unlock()
	<-ch
}

func (g *gate) parkedVia(via string) bool { return g.countVia(via) > 0 }

func (g *gate) countVia(via string) int {
	g.mu.Lock()
	defer g.mu.Unlock()
	n := 0
	for _, p := range g.parked {
		if p.via == via {
			n++
		}
	}
	return n
}

func (g *gate) nparked() int {
	g.mu.Lock()
	defer g.mu.Unlock()
	return len(g.parked)
}

// ---------------------------------------------------------------------------
// polling
// ---------------------------------------------------------------------------

// mustTimeout bounds waits for things that MUST happen on a correct run (expiry = failure).
const mustTimeout = 30 * time.Second

// window is the one-sided observation bound (expiry = `pending`, never a failure).
var window = 250 * time.Millisecond

func waitFor(cond func() bool, d time.Duration) bool {
	deadline := time.Now().Add(d)
	for i := 0; ; i++ {
		if cond() {
			return true
		}
		if time.Now().After(deadline) {
			return false
		}
		if i < 50 {
			runtime.Gosched()
		} else {
			time.Sleep(100 * time.Microsecond)
		}
	}
}

// ---------------------------------------------------------------------------
// test actor
// ---------------------------------------------------------------------------

// vmsg is the harness message. do: "" plain, "self" handler calls ctx.Shutdown(), "stopchild"
// handler calls ctx.Stop(child), "fail" handler panics.
type vmsg struct {
	do    string
	child *actor.PID
}

type tactor struct {
	name              string
	r                 *recorder
	pre, recv, post   *gate
	inRecv            atomic.Int32
	logPostStart      bool
	handled, poststop atomic.Int64
}

func newTActor(name string, r *recorder) *tactor {
	return &tactor{name: name, r: r, pre: &gate{}, recv: &gate{}, post: &gate{}, logPostStart: true}
}

func (a *tactor) PreStart(*actor.Context) error {
	via := startVia()
	a.r.add("preB", a.name, via, "")
	a.pre.pass(via)
	a.r.add("preE", a.name, "", "")
	return nil
}

func (a *tactor) Receive(rc *actor.ReceiveContext) {
	var m *vmsg
	switch x := rc.Message().(type) {
	case *actor.PostStart:
		if !a.logPostStart {
			return
		}
		m = &vmsg{}
	case *vmsg:
		m = x
	default:
		return
	}
	a.r.add("recvB", a.name, "", "")
	a.inRecv.Add(1)
	defer func() {
		a.inRecv.Add(-1)
		a.handled.Add(1)
		a.r.add("recvE", a.name, "", "")
	}()
	a.recv.pass("turn")
	switch m.do {
	case "self":
		rc.Shutdown()
	case "stopchild":
		rc.Stop(m.child)
	case "fail":
		panic("verif: requested failure")
	}
}

func (a *tactor) PostStop(*actor.Context) error {
	via := stopVia()
	a.r.add("postB", a.name, via, "")
	a.post.pass(via)
	a.poststop.Add(1)
	a.r.add("postE", a.name, "", "")
	return nil
}

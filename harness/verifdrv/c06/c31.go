//go:build verif

// C31 scenarios: one grain identity in a real actor system, its hooks parked at harness gates.
//
//   grain [reent] b=<budget> | op op ...
//
// ops:  g+a g-a  OnActivate gate   g+r g-r  OnReceive gate   g+d g-d  OnDeactivate gate
//       t        go TellGrain(G, msg)            (returns when the handler answered)
//       pill     go TellGrain(G, PoisonPill)     (what poisonAllGrains enqueues at shutdown)
//       pass     go process.passivationTry()     (what the passivation manager goroutine runs)
//       probe    -> m0 (no process registered) | m1a<active>o<onPoisonPill>d<dispatch>q<mailbox length>
// Output:  <result per op> | LOG <hook events kind@goroutine/via#instance> | FIN <probe>
// Events: actB actE rcvB rcvE deaB deaE; `#k` is the grain INSTANCE (Go object) the hook ran on.
package main

import (
	"context"
	"fmt"
	"strconv"
	"strings"
	"sync"
	"sync/atomic"

	"github.com/tochemey/goakt/v4/actor"
	"github.com/tochemey/goakt/v4/reentrancy"
)

// genv is the environment a test grain instance finds by its identity name (instances created by
// the registry through reflection are zero values).
type genv struct {
	rec           *recorder
	act, rcv, dea *gate
	ninst         atomic.Int64
	inRcv         atomic.Int32
	label         string // name the events are recorded under (default: the identity name)
}

func (e *genv) who(name string) string {
	if e.label != "" {
		return e.label
	}
	return name
}

var (
	genvMu sync.Mutex
	genvs  = map[string]*genv{}
)

func genvFor(name string) *genv {
	genvMu.Lock()
	defer genvMu.Unlock()
	return genvs[name]
}

// Tgrain is the instrumented grain.
type Tgrain struct {
	env  *genv
	inst int64
	name string
}

type gmsg struct{}

func deaVia() string {
	fs := frames()
	for i, f := range fs {
		if !strings.HasSuffix(f, "actor.(*grainPID).deactivate") {
			continue
		}
		// skip deferred/closure frames of deactivate itself
		if i+1 >= len(fs) {
			return "other"
		}
		c := fs[i+1]
		switch {
		case strings.HasSuffix(c, "actor.(*grainPID).handlePoisonPill"):
			return "pill"
		case strings.HasSuffix(c, "actor.(*grainPID).handlePassivationPill"):
			return "ppill"
		case strings.HasSuffix(c, "actor.(*grainPID).passivationTry"):
			return "pass"
		}
		return "other:" + short(c)
	}
	return "other:nodeactivate"
}

func (g *Tgrain) OnActivate(_ context.Context, props *actor.GrainProps) error {
	g.name = props.Identity().Name()
	g.env = genvFor(g.name)
	if g.env == nil {
		return nil
	}
	if g.inst == 0 {
		g.inst = g.env.ninst.Add(1)
	}
	x := strconv.FormatInt(g.inst, 10)
	g.env.rec.add("actB", g.env.who(g.name), "", x)
	g.env.act.pass("act")
	g.env.rec.add("actE", g.env.who(g.name), "", x)
	return nil
}

func (g *Tgrain) OnReceive(gc *actor.GrainContext) {
	if g.env == nil {
		gc.NoErr()
		return
	}
	if _, ok := gc.Message().(*gmsg); !ok {
		gc.Unhandled()
		return
	}
	x := strconv.FormatInt(g.inst, 10)
	g.env.rec.add("rcvB", g.env.who(g.name), "", x)
	g.env.inRcv.Add(1)
	g.env.rcv.pass("turn")
	g.env.inRcv.Add(-1)
	g.env.rec.add("rcvE", g.env.who(g.name), "", x)
	gc.NoErr()
}

func (g *Tgrain) OnDeactivate(context.Context, *actor.GrainProps) error {
	if g.env == nil {
		return nil
	}
	via := deaVia()
	x := strconv.FormatInt(g.inst, 10)
	g.env.rec.add("deaB", g.env.who(g.name), via, x)
	g.env.dea.pass(via)
	g.env.rec.add("deaE", g.env.who(g.name), "", x)
	return nil
}

type glaunch struct {
	launch
	sent atomic.Bool
}

type c31env struct {
	sys  actor.ActorSystem
	env  *genv
	id   *actor.GrainIdentity
	ref  actor.VerifGrainRef // the process the scenario started with (what a manager entry targets)
	refs []actor.VerifGrainRef
	ls   []*glaunch
}

func (e *c31env) cur() actor.VerifGrainRef {
	e.track()
	return e.refs[len(e.refs)-1]
}

// note every process ever seen in the map (for accounting of queued messages)
func (e *c31env) track() {
	if r, ok := actor.VerifGrainLookup(e.sys, e.id); ok {
		for _, o := range e.refs {
			if o.Same(r) {
				return
			}
		}
		e.refs = append(e.refs, r)
	}
}

func (e *c31env) stable() bool {
	e.track()
	// every send has handed its message over (or is parked in an activation it triggered); every
	// passivation attempt has returned or is parked inside OnDeactivate
	waiting := 0
	for _, l := range e.ls {
		if !l.done.Load() && !l.sent.Load() {
			waiting++
		}
	}
	if waiting > e.env.act.nparked()+e.env.dea.countVia("pass") {
		return false
	}
	// every process is either quiescent or parked in its turn
	parkedTurns := e.env.rcv.nparked() + e.env.dea.countVia("pill") + e.env.dea.countVia("ppill")
	busy := 0
	for _, r := range e.refs {
		_, _, s, q := r.State()
		if s != 0 || q != 0 {
			busy++
		}
	}
	return busy <= parkedTurns
}

// probe reports the process that is registered in the grain map right now (m1 + its flags), or m0:
// a process that is no longer registered has no stable identity for the harness (it may have come
// and gone between two polls), so nothing else is reported about it.
func (e *c31env) probe() string {
	r, inMap := actor.VerifGrainLookup(e.sys, e.id)
	if !inMap {
		return "m0"
	}
	a, o, d, q := r.State()
	b := func(x bool) string {
		if x {
			return "1"
		}
		return "0"
	}
	return "m1a" + b(a) + "o" + b(o) + "d" + strconv.Itoa(int(d)) + "q" + strconv.FormatInt(q, 10)
}

func runC31(line string) string {
	parts := strings.SplitN(line, "|", 2)
	if len(parts) != 2 {
		return "bad-case"
	}
	cfg := strings.Fields(parts[0])
	ops := strings.Fields(parts[1])
	budget, reent := 0, false
	for _, c := range cfg[1:] {
		if strings.HasPrefix(c, "b=") {
			budget, _ = strconv.Atoi(c[2:])
		}
		if c == "reent" {
			reent = true
		}
	}
	ctx, cancel := context.WithCancel(context.Background())
	defer cancel()
	sys, err := newSystem(budget)
	if err != nil {
		return "CRASH cannot start system: " + err.Error()
	}
	defer stopSystem(sys)
	name := "G" + strconv.FormatInt(sysCounter.Add(1), 10)
	env := &genv{rec: &recorder{}, act: &gate{}, rcv: &gate{}, dea: &gate{}}
	genvMu.Lock()
	genvs[name] = env
	genvMu.Unlock()
	defer func() {
		genvMu.Lock()
		delete(genvs, name)
		genvMu.Unlock()
	}()
	gopts := []actor.GrainOption{actor.WithLongLivedGrain()}
	if reent {
		gopts = append(gopts, actor.WithGrainReentrancy(reentrancy.New(reentrancy.WithMode(reentrancy.AllowAll))))
	}
	id, err := sys.GrainIdentity(ctx, name, func(context.Context) (actor.Grain, error) { return &Tgrain{}, nil }, gopts...)
	if err != nil {
		return "CRASH cannot activate grain: " + err.Error()
	}
	e := &c31env{sys: sys, env: env, id: id}
	ref, ok := actor.VerifGrainLookup(sys, id)
	if !ok {
		return "CRASH grain not registered after activation"
	}
	e.ref = ref
	e.refs = []actor.VerifGrainRef{ref}

	send := func(msg any, real bool) *glaunch {
		l := &glaunch{}
		e.ls = append(e.ls, l)
		go func() {
			defer l.done.Store(true)
			defer func() { _ = recover() }()
			var err error
			if real {
				err = sys.TellGrain(ctx, id, msg)
			} else {
				err = actor.VerifGrainTell(ctx, sys, id, msg, func() { l.sent.Store(true) })
			}
			if err != nil {
				l.via = "err"
			} else {
				l.via = "ok"
			}
		}()
		return l
	}
	var res []string
	for _, op := range ops {
		r := "."
		var l *glaunch
		switch op {
		case "g+a":
			env.act.close()
		case "g-a":
			env.act.open()
		case "g+r":
			env.rcv.close()
		case "g-r":
			env.rcv.open()
		case "g+d":
			env.dea.close()
		case "g-d":
			env.dea.open()
		case "t":
			l = send(&gmsg{}, false)
		case "pill":
			l = send(&actor.PoisonPill{}, false)
		case "T":
			l = send(&gmsg{}, true)
		case "PILL":
			l = send(&actor.PoisonPill{}, true)
		case "pass":
			target := e.cur()
			l = &glaunch{}
			e.ls = append(e.ls, l)
			go func() {
				defer l.done.Store(true)
				defer func() { _ = recover() }()
				if target.Passivate() {
					l.via = "ok"
				} else {
					l.via = "no"
				}
			}()
		case "probe":
			waitFor(e.stable, window)
			r = e.probe()
		default:
			return "bad-case"
		}
		waitFor(e.stable, window)
		if l != nil {
			switch {
			case op == "pass" && l.done.Load():
				r = "done"
			case op == "pass" && env.dea.countVia("pass") > 0:
				r = "parked"
			case op != "pass" && (l.sent.Load() || l.done.Load()):
				r = "sent"
			case op != "pass" && env.act.nparked() > 0:
				r = "parked"
			default:
				r = "wait"
			}
		}
		res = append(res, r)
	}
	env.act.open()
	env.rcv.open()
	env.dea.open()
	fin := ""
	lost := 0
	quiet := func() bool {
		e.track()
		for _, r := range e.refs {
			_, _, s, q := r.State()
			if s != 0 || q != 0 {
				return false
			}
		}
		for _, l := range e.ls {
			if !l.done.Load() && !l.sent.Load() {
				return false
			}
		}
		return true
	}
	alldone := func() bool {
		for _, l := range e.ls {
			if !l.done.Load() {
				return false
			}
		}
		return true
	}
	if !waitFor(quiet, mustTimeout) {
		fin = "timeout "
	} else if !waitFor(alldone, window) {
		// a send whose message receive() dropped only returns at its 5 s request timeout
		for _, l := range e.ls {
			if !l.done.Load() {
				lost++
			}
		}
		cancel()
		waitFor(alldone, mustTimeout)
		fin = "lost=" + strconv.Itoa(lost) + " "
	}
	fin += e.probe()
	return fmt.Sprintf("%s | LOG %s | FIN %s", strings.Join(res, " "), render(env.rec.snapshot(), name, false), fin)
}

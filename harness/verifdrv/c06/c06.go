//go:build verif

// C06 scenarios: one instrumented actor A in a real actor system, its lifecycle hooks parked at
// harness gates, every stop path of the property issued against it.
//
//   <topology> b=<budget> | op op op ...
//
// topology: solo (A under the user guardian) | child (P is A's parent) | sib (P parent of A and B,
//           B supervised one-for-all with the Stop directive)
// ops:  g+r g-r   close/open the Receive gate of A      g+p g-p  PostStop gate      g+s g-s  PreStart gate
//       t         Tell(A, msg)                 -> ok | dead
//       pill      Tell(A, PoisonPill)          -> ok | dead
//       self      Tell(A, msg whose handler calls ctx.Shutdown())
//       kill      go system.Kill("A")                       (external goroutine)
//       pstop     go P.Stop(A)                              (external goroutine, PID.Stop)
//       parent    go P.Shutdown()                           (A stopped by the parent's freeChildren)
//       ctx       Tell(P, msg whose handler calls ctx.Stop(A))  (stop issued from another actor's turn)
//       sup       Tell(B, msg whose handler panics)         (supervisor stops the one-for-all group)
//       pass      go A.passivationTry()                     (what the passivation manager goroutine runs)
//       restart   go A.Restart()
//       probe     -> flags and dispatch state
// After every op the harness waits until the system is stable (every launched activity finished or
// parked at a gate, A idle with empty mailboxes or parked) or the one-sided window expired.
// Output:  <result per op> | LOG <A's hook events in logical-clock order, kind@goroutine/via> | FIN <flags>
package main

import (
	"context"
	"fmt"
	"runtime"
	"strconv"
	"strings"
	"sync/atomic"
	"time"

	"github.com/tochemey/goakt/v4/actor"
	"github.com/tochemey/goakt/v4/supervisor"
)

var sysCounter atomic.Int64

type launch struct {
	via  string
	done atomic.Bool
}

type c06env struct {
	sys     actor.ActorSystem
	rec     *recorder
	a, p, b *tactor
	apid    *actor.PID
	ppid    *actor.PID
	bpid    *actor.PID
	ls      []*launch
	hogged  bool
	hogGate *gate
	hogRecv *atomic.Int64
	hogPids []*actor.PID
}

// blocker occupies one dispatcher worker for as long as the hog gate is closed.
type blocker struct {
	g *gate
	n *atomic.Int64
}

func (b *blocker) PreStart(*actor.Context) error { return nil }
func (b *blocker) PostStop(*actor.Context) error { return nil }
func (b *blocker) Receive(rc *actor.ReceiveContext) {
	if _, ok := rc.Message().(*vmsg); ok {
		b.n.Add(1)
		b.g.pass("hog")
	}
}

// hog parks every dispatcher worker inside a blocker actor's handler, so that an actor that
// becomes Scheduled stays Scheduled (no worker takes it) until unhog.
func (e *c06env) hog(ctx context.Context) bool {
	nw := runtime.GOMAXPROCS(0)
	if nw < 2 {
		nw = 2
	}
	if e.hogGate == nil {
		e.hogGate = &gate{}
		e.hogRecv = &atomic.Int64{}
		for i := 0; i < nw; i++ {
			pid, err := e.sys.Spawn(ctx, "hog"+strconv.Itoa(i), &blocker{g: e.hogGate, n: e.hogRecv}, actor.WithLongLived())
			if err != nil {
				return false
			}
			e.hogPids = append(e.hogPids, pid)
		}
	}
	if e.hogged {
		return true
	}
	e.hogGate.close()
	for _, pid := range e.hogPids {
		if err := actor.Tell(ctx, pid, &vmsg{}); err != nil {
			return false
		}
	}
	e.hogged = true
	// every worker must be parked: in a blocker, or in A's own turn (a parked handler / in-turn PostStop)
	return waitFor(func() bool {
		busy := 0
		if e.a.recv.nparked() > 0 || e.a.post.parkedVia("pill") || e.a.post.parkedVia("self") {
			busy = 1
		}
		return e.hogGate.nparked() >= nw-busy
	}, mustTimeout)
}

func newSystem(budget int) (actor.ActorSystem, error) {
	name := "verif" + strconv.FormatInt(sysCounter.Add(1), 10)
	opts := []actor.Option{actor.WithLoggingDisabled(), actor.WithShutdownTimeout(20 * time.Second)}
	if budget > 0 {
		opts = append(opts, actor.WithThroughputBudget(budget))
	}
	sys, err := actor.NewActorSystem(name, opts...)
	if err != nil {
		return nil, err
	}
	if err := sys.Start(context.Background()); err != nil {
		return nil, err
	}
	return sys, nil
}

func stopSystem(sys actor.ActorSystem) {
	done := make(chan struct{})
	go func() {
		defer close(done)
		defer func() { _ = recover() }()
		_ = sys.Stop(context.Background())
	}()
	select {
	case <-done:
	case <-time.After(25 * time.Second):
	}
}

func (e *c06env) parkedVia(via string) bool {
	return e.a.post.parkedVia(via) || e.a.pre.parkedVia(via)
}

// isParked: launches of one stop path are matched to parked hooks in launch order (the first
// launched is the first to get the stop lock under the prompt reading of the script).
func (e *c06env) isParked(l *launch) bool {
	n := e.a.post.countVia(l.via) + e.a.pre.countVia(l.via)
	for _, o := range e.ls {
		if o == l {
			return n > 0
		}
		if o.via == l.via && !o.done.Load() {
			n--
		}
	}
	return false
}

// workerStable: A's dispatch is quiescent (Idle, both mailboxes empty) or its turn is parked at a gate.
func (e *c06env) workerStable() bool {
	if e.a.recv.nparked() > 0 || e.a.post.parkedVia("pill") || e.a.post.parkedVia("self") {
		return true
	}
	if e.hogged && actor.VerifC06Sched(e.apid) == 1 {
		return true // Scheduled, and no worker is free to take it
	}
	return actor.VerifC06Sched(e.apid) == 0 && actor.VerifC06Empty(e.apid)
}

func (e *c06env) stable() bool {
	for _, l := range e.ls {
		if !l.done.Load() && !e.isParked(l) {
			return false
		}
	}
	if e.ppid != nil && !(actor.VerifC06Sched(e.ppid) == 0 && actor.VerifC06Empty(e.ppid)) && !e.parkedVia("ctx") && !e.parkedVia("sup") && !e.parkedVia("parent") {
		return false
	}
	return e.workerStable()
}

func (e *c06env) settle() bool { return waitFor(e.stable, window) }

func (e *c06env) status(l *launch) string {
	switch {
	case l.done.Load():
		return "done"
	case e.isParked(l):
		return "parked"
	}
	return "pending"
}

func (e *c06env) launch(via string, f func()) *launch {
	l := &launch{via: via}
	e.ls = append(e.ls, l)
	go func() {
		defer l.done.Store(true)
		defer func() { _ = recover() }()
		f()
	}()
	return l
}

func tellRes(err error) string {
	if err == nil {
		return "ok"
	}
	if strings.Contains(err.Error(), "dead") || strings.Contains(err.Error(), "not alive") {
		return "dead"
	}
	return "dead"
}

func (e *c06env) probe() string {
	return actor.VerifC06Flags(e.apid) + "d" + strconv.Itoa(int(actor.VerifC06Sched(e.apid))) +
		map[bool]string{true: "e", false: "q"}[actor.VerifC06Empty(e.apid)] +
		map[bool]string{true: "B", false: "n"}[actor.VerifC06Behavior(e.apid)]
}

func runC06(line string) string {
	parts := strings.SplitN(line, "|", 2)
	if len(parts) != 2 {
		return "bad-case"
	}
	cfg := strings.Fields(parts[0])
	ops := strings.Fields(parts[1])
	if len(cfg) == 0 {
		return "bad-case"
	}
	topo := cfg[0]
	budget := 0
	for _, c := range cfg[1:] {
		if strings.HasPrefix(c, "b=") {
			budget, _ = strconv.Atoi(c[2:])
		}
	}
	ctx := context.Background()
	sys, err := newSystem(budget)
	if err != nil {
		return "CRASH cannot start system: " + err.Error()
	}
	defer stopSystem(sys)

	e := &c06env{sys: sys, rec: &recorder{}}
	e.a = newTActor("A", e.rec)
	switch topo {
	case "solo":
		e.apid, err = sys.Spawn(ctx, "A", e.a)
	case "child", "sib":
		e.p = newTActor("P", e.rec)
		e.ppid, err = sys.Spawn(ctx, "P", e.p)
		if err == nil {
			if topo == "sib" {
				sup := supervisor.NewSupervisor(supervisor.WithStrategy(supervisor.OneForAllStrategy), supervisor.WithAnyErrorDirective(supervisor.StopDirective))
				e.apid, err = e.ppid.SpawnChild(ctx, "A", e.a, actor.WithSupervisor(sup))
				if err == nil {
					e.b = newTActor("B", e.rec)
					e.bpid, err = e.ppid.SpawnChild(ctx, "B", e.b, actor.WithSupervisor(sup))
				}
			} else {
				e.apid, err = e.ppid.SpawnChild(ctx, "A", e.a)
			}
		}
	default:
		return "bad-case"
	}
	if err != nil {
		return "CRASH cannot spawn: " + err.Error()
	}
	// the PostStart message of every spawned actor must be handled before the script starts
	if !waitFor(func() bool {
		ok := e.workerStable() && e.rec.count("recvE", "A") >= 1
		if e.ppid != nil {
			ok = ok && e.rec.count("recvE", "P") >= 1 && actor.VerifC06Sched(e.ppid) == 0
		}
		if e.bpid != nil {
			ok = ok && e.rec.count("recvE", "B") >= 1 && actor.VerifC06Sched(e.bpid) == 0
		}
		return ok
	}, mustTimeout) {
		return "CRASH PostStart never handled"
	}

	var res []string
	for _, op := range ops {
		r := "."
		var l *launch
		switch op {
		case "g+r":
			e.a.recv.close()
		case "g-r":
			e.a.recv.open()
		case "g+p":
			e.a.post.close()
		case "g-p":
			e.a.post.open()
		case "g+s":
			e.a.pre.close()
		case "g-s":
			e.a.pre.open()
		case "t":
			r = tellRes(actor.Tell(ctx, e.apid, &vmsg{}))
		case "pill":
			r = tellRes(actor.Tell(ctx, e.apid, &actor.PoisonPill{}))
		case "self":
			r = tellRes(actor.Tell(ctx, e.apid, &vmsg{do: "self"}))
		case "kill":
			l = e.launch("kill", func() { _ = sys.Kill(ctx, "A") })
		case "pstop":
			if e.ppid == nil {
				return "bad-case"
			}
			l = e.launch("stop", func() { _ = e.ppid.Stop(ctx, e.apid) })
		case "parent":
			if e.ppid == nil {
				return "bad-case"
			}
			l = e.launch("parent", func() { _ = e.ppid.Shutdown(ctx) })
		case "ctx":
			if e.ppid == nil {
				return "bad-case"
			}
			n0 := e.rec.count("recvE", "P")
			if err := actor.Tell(ctx, e.ppid, &vmsg{do: "stopchild", child: e.apid}); err != nil {
				r = "dead"
			} else {
				l = &launch{via: "ctx"}
				e.ls = append(e.ls, l)
				go func() {
					waitFor(func() bool { return e.rec.count("recvE", "P") > n0 }, mustTimeout)
					l.done.Store(true)
				}()
			}
		case "sup":
			if e.bpid == nil {
				return "bad-case"
			}
			if err := actor.Tell(ctx, e.bpid, &vmsg{do: "fail"}); err != nil {
				r = "dead"
			} else {
				l = &launch{via: "sup"}
				e.ls = append(e.ls, l)
				go func() {
					// the directive is applied asynchronously; it has run once B was stopped by it
					waitFor(func() bool {
						return e.rec.count("postE", "B") >= 1 && strings.HasPrefix(actor.VerifC06Flags(e.apid), "r0s0")
					}, mustTimeout)
					l.done.Store(true)
				}()
			}
		case "pass":
			l = e.launch("pass", func() { _ = actor.VerifC06Passivate(e.apid) })
		case "restart":
			l = e.launch("restart", func() { _ = e.apid.Restart(ctx) })
		case "hog":
			if !e.hog(ctx) {
				return "CRASH cannot occupy the dispatcher workers"
			}
		case "unhog":
			if e.hogged {
				e.hogged = false
				e.hogGate.open()
			}
		case "probe":
			e.settle()
			r = e.probe()
		default:
			return "bad-case"
		}
		e.settle()
		if l != nil {
			r = e.status(l)
		}
		res = append(res, r)
	}

	// epilogue: open every gate, everything launched must finish, A must become quiescent
	if e.hogged {
		e.hogged = false
		e.hogGate.open()
	}
	e.a.recv.open()
	e.a.post.open()
	e.a.pre.open()
	fin := ""
	if !waitFor(func() bool {
		for _, l := range e.ls {
			if !l.done.Load() {
				return false
			}
		}
		return actor.VerifC06Sched(e.apid) == 0 && actor.VerifC06Empty(e.apid)
	}, mustTimeout) {
		fin = "timeout "
	}
	fin += e.probe()
	return fmt.Sprintf("%s | LOG %s | FIN %s", strings.Join(res, " "), render(e.rec.snapshot(), "A", false), fin)
}

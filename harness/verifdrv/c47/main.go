//go:build verif

// C47 harness: drives the real breaker.CircuitBreaker with a fake clock.  Every caller is a
// goroutine that is parked inside its protected function until the case tells it how to end, so
// concurrent callers interleave deterministically at acquire / (record+release) granularity.
// Protocol: see lean/GoaktVerif/Driver/C47.lean.
package main

import (
	"context"
	"errors"
	"strconv"
	"strings"
	"sync/atomic"
	"time"

	"github.com/tochemey/goakt/v4/breaker"
	"github.com/tochemey/goakt/v4/internal/verifdrv/vlib"
)

// ctlCtx is a context whose Err() the harness controls (Execute only consults ctx.Err()).
type ctlCtx struct {
	context.Context
	err atomic.Pointer[error]
}

func (c *ctlCtx) Err() error {
	if p := c.err.Load(); p != nil {
		return *p
	}
	return nil
}

type caller struct {
	ctx     *ctlCtx
	entered chan struct{}
	outcome chan byte
	done    chan struct{}
}

var errBoom = errors.New("boom")

func handle(line string) string {
	f := vlib.Fields(line)
	if len(f) < 8 {
		return "bad-case"
	}
	var n [8]int64
	for i := 0; i < 8; i++ {
		v, err := strconv.ParseInt(f[i], 10, 64)
		if err != nil {
			return "bad-case"
		}
		n[i] = v
	}
	if n[1] <= 0 {
		return "bad-case"
	}
	var clock atomic.Int64
	clock.Store(n[7])
	b := breaker.NewCircuitBreaker(
		breaker.WithFailureRate(float64(n[0])/float64(n[1])),
		breaker.WithMinRequests(int(n[2])),
		breaker.WithOpenTimeout(time.Duration(n[3])),
		breaker.WithWindow(time.Duration(n[4]), int(n[5])),
		breaker.WithHalfOpenMaxCalls(int(n[6])),
		breaker.WithClock(func() time.Time { return time.Unix(0, clock.Load()) }),
	)
	callers := map[int]*caller{}
	defer func() {
		for _, c := range callers { // unblock whatever is still parked
			c.outcome <- 's'
			<-c.done
		}
	}()
	out := []string{breaker.VerifCfg(b)}
	for _, op := range f[8:] {
		ans := "."
		switch {
		case op == "x":
			ctx, cancel := context.WithCancel(context.Background())
			cancel()
			_, _ = b.Execute(ctx, func(context.Context) (any, error) { return nil, nil })
		case op == "m":
			m := b.Metrics()
			ans = strconv.FormatUint(m.Successes, 10) + "/" + strconv.FormatUint(m.Failures, 10)
		case op == "H":
			breaker.VerifStaleToHalfOpen(b)
		case op == "C":
			breaker.VerifStaleToClosed(b)
		case op[0] == 't':
			d, err := strconv.ParseInt(op[1:], 10, 64)
			if err != nil || d < 0 {
				return "bad-case"
			}
			clock.Add(d)
		case op[0] == 'b':
			id, err := strconv.Atoi(op[1:])
			if err != nil {
				return "bad-case"
			}
			if _, dup := callers[id]; dup {
				ans = "?"
				break
			}
			c := &caller{ctx: &ctlCtx{Context: context.Background()}, entered: make(chan struct{}), outcome: make(chan byte), done: make(chan struct{})}
			before := breaker.VerifSem(b)
			go func() {
				defer close(c.done)
				_, _ = b.Execute(c.ctx, func(context.Context) (any, error) {
					c.entered <- struct{}{}
					switch <-c.outcome {
					case 's':
						return 1, nil
					case 'p':
						panic("boom")
					case 'd':
						e := context.DeadlineExceeded
						c.ctx.err.Store(&e)
						return nil, e
					case 'c':
						e := context.Canceled
						c.ctx.err.Store(&e)
						return nil, e
					default:
						return nil, errBoom
					}
				})
			}()
			select {
			case <-c.entered:
				callers[id] = c
				if breaker.VerifSem(b) > before {
					ans = "A1"
				} else {
					ans = "A0"
				}
			case <-c.done:
				ans = "R"
			}
		case op[0] == 'e':
			if len(op) < 3 {
				return "bad-case"
			}
			id, err := strconv.Atoi(op[1 : len(op)-1])
			if err != nil || !strings.ContainsRune("sfpdc", rune(op[len(op)-1])) {
				return "bad-case"
			}
			c, ok := callers[id]
			if !ok {
				ans = "?"
				break
			}
			delete(callers, id)
			c.outcome <- op[len(op)-1]
			<-c.done
		default:
			return "bad-case"
		}
		out = append(out, ans+"|"+breaker.VerifDump(b))
	}
	return strings.Join(out, " ")
}

func main() { vlib.Loop(handle) }

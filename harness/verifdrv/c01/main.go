//go:build verif

// C01/C02 harness (engine E3): one real actor under controlled dispatch.
//   <nworkers> <budget> | prog0 ; prog1 ; … | schedule
// thread programs: t<k> = Tell(message k) ; w<i> = one take-and-run-turn attempt of worker i ; r = Restart
// Output: T … | R … | F H=<handled ids in handler-exit order> O=<max handlers in progress at once> E=<ready entries> S=<sched state> P=<pending>
package main

import (
	"context"
	"fmt"
	"os"
	"strconv"
	"strings"
	"sync"
	"sync/atomic"
	"time"

	"github.com/tochemey/goakt/v4/actor"
	"github.com/tochemey/goakt/v4/internal/verifdrv/vlib"
	"github.com/tochemey/goakt/v4/internal/vsched"
	"github.com/tochemey/goakt/v4/log"
)

type probe struct {
	mu      sync.Mutex
	handled []string
	inside  atomic.Int32
	maxIn   atomic.Int32
	starts  atomic.Int32
	armed   atomic.Bool
}

func (p *probe) PreStart(*actor.Context) error { p.starts.Add(1); return nil }
func (p *probe) PostStop(*actor.Context) error { return nil }
func (p *probe) Receive(ctx *actor.ReceiveContext) {
	if !p.armed.Load() {
		return
	}
	id := "?"
	switch m := ctx.Message().(type) {
	case *actor.VerifMsg:
		id = strconv.Itoa(m.ID)
	case *actor.PostStart:
		id = "ps"
	default:
		id = fmt.Sprintf("%T", m)
	}
	n := p.inside.Add(1)
	for {
		old := p.maxIn.Load()
		if n <= old || p.maxIn.CompareAndSwap(old, n) {
			break
		}
	}
	vsched.Point("Recv")
	p.mu.Lock()
	p.handled = append(p.handled, id)
	p.mu.Unlock()
	p.inside.Add(-1)
}

var (
	sys   actor.ActorSystem
	caseN int
)

type rigObj struct {
	rig *actor.VerifRig
	p   *probe
	// coarse: macro steps end only before dispatch-level operations (used by the oracle-only cases that name a
	// mailbox kind, whose mailbox is not instrumented)
	coarse bool
}

func (o *rigObj) FocusObjs() []any { return o.rig.FocusObjs() }

// Boundary: macro steps (schedule entries `tid*`, used by the failing-schedule search only) end right
// before an operation on the dispatch state, a ready-queue operation, a mailbox linearisation point or
// the handler.
func (o *rigObj) Boundary(label string) bool {
	switch label {
	case "Load:v", "CAS:v", "Store:v", "take", "pause", "Call:schedule", "Call:reschedule", "Recv":
		return true
	case "Load:next", "Swap:tail":
		return !o.coarse
	}
	return false
}

func (o *rigObj) Do(tid int, op string) string {
	ctx := context.Background()
	switch {
	case strings.HasPrefix(op, "t") && strings.Contains(op, "-"):
		// t<a>-<b>: Tell messages a..b in order (one op, result = number accepted)
		ab := strings.SplitN(op[1:], "-", 2)
		a, err1 := strconv.Atoi(ab[0])
		b, err2 := strconv.Atoi(ab[1])
		if err1 != nil || err2 != nil {
			return "bad-op"
		}
		n := 0
		for id := a; id <= b; id++ {
			if err := actor.Tell(ctx, o.rig.PID, &actor.VerifMsg{ID: id}); err == nil {
				n++
			}
		}
		return "ok" + strconv.Itoa(n)
	case strings.HasPrefix(op, "t"):
		id, err := strconv.Atoi(op[1:])
		if err != nil {
			return "bad-op"
		}
		if err := actor.Tell(ctx, o.rig.PID, &actor.VerifMsg{ID: id}); err != nil {
			return "err"
		}
		return "ok"
	case strings.HasPrefix(op, "w"):
		w, err := strconv.Atoi(op[1:])
		if err != nil {
			return "bad-op"
		}
		if o.rig.TryTurn(w) {
			return "turn"
		}
		return "idle"
	case op == "p":
		// pause: a schedule point of its own, so that the ops after it start when the schedule says so
		vsched.Point("pause")
		return "ok"
	case op == "r":
		if err := o.rig.PID.Restart(ctx); err != nil {
			return "err"
		}
		return "ok"
	}
	return "bad-op"
}

// Abort is called when a case hit the step cap: drain the actor so that a restart thread spinning until
// the dispatch state is Idle can finish instead of leaking a busy goroutine.
func (o *rigObj) Abort() {
	for i := 0; i < 200; i++ {
		o.rig.TryTurn(0)
		time.Sleep(5 * time.Millisecond)
	}
}

func (o *rigObj) Final() string {
	// sequential completion: worker 0 runs turns until nothing is left (bounded)
	for i := 0; i < 2000; i++ {
		if !o.rig.TryTurn(0) {
			break
		}
	}
	o.p.mu.Lock()
	h := strings.Join(o.p.handled, ",")
	o.p.mu.Unlock()
	res := fmt.Sprintf("H=%s O=%d E=%d S=%d P=%v", h, o.p.maxIn.Load(), o.rig.Entries(), o.rig.SchedState(), o.rig.Pending())
	_ = o.rig.PID.Shutdown(context.Background())
	return res
}

func verifID(m any) int {
	if v, ok := m.(*actor.VerifMsg); ok {
		return v.ID
	}
	return -1
}

func mk(cfg string, nthreads int) vlib.Obj {
	f := strings.Fields(cfg)
	if len(f) != 2 && len(f) != 3 {
		return nil
	}
	// optional third word: mailbox kind (oracle-only cases; the Lean model covers the default mailbox)
	opts := []actor.SpawnOption{actor.WithLongLived()}
	if len(f) == 3 {
		var mb actor.Mailbox
		switch {
		case f[2] == "unbounded":
			mb = actor.NewUnboundedMailbox()
		case f[2] == "segmented":
			mb = actor.NewUnboundedSegmentedMailbox()
		case f[2] == "fair":
			mb = actor.NewUnboundedFairMailbox()
		case strings.HasPrefix(f[2], "ring"):
			c, _ := strconv.Atoi(f[2][4:])
			mb = actor.NewNonBlockingBoundedMailbox(c)
		case strings.HasPrefix(f[2], "bounded"):
			c, _ := strconv.Atoi(f[2][7:])
			mb = actor.NewBoundedMailbox(c)
		case f[2] == "uprio":
			mb = actor.NewUnboundedPriorityMailBox(func(a, b any) bool { return verifID(a) < verifID(b) })
		case f[2] == "usprio":
			mb = actor.NewUnboundedStablePriorityMailbox(func(a, b any) bool { return verifID(a) < verifID(b) })
		default:
			return nil
		}
		opts = append(opts, actor.WithMailbox(mb))
	}
	nw, err1 := strconv.Atoi(f[0])
	budget, err2 := strconv.Atoi(f[1])
	if err1 != nil || err2 != nil || nw < 1 || budget < 1 {
		return nil
	}
	caseN++
	p := &probe{}
	rig, err := actor.VerifNewRig(context.Background(), sys, fmt.Sprintf("probe-%d", caseN), p, nw, budget, opts...)
	if err != nil {
		fmt.Fprintln(os.Stderr, "rig:", err)
		return nil
	}
	p.armed.Store(true)
	return &rigObj{rig: rig, p: p, coarse: len(f) == 3}
}

func main() {
	var err error
	sys, err = actor.NewActorSystem("verif", actor.WithLogger(log.DiscardLogger))
	if err != nil {
		panic(err)
	}
	if err := sys.Start(context.Background()); err != nil {
		panic(err)
	}
	time.Sleep(50 * time.Millisecond)
	vlib.StepTimeout = 5 * time.Second
	vlib.Loop(func(line string) string { return vlib.RunConc(line, mk) })
	_ = sys.Stop(context.Background())
}

//go:build verif

// C24 harness: real compression wrappers (internal/net) around loop-back TCP connections.
//
// case:  <codec> <conn> <conn> …        codec ∈ none|gzip|zstd|brotli ; ONE wrapper object per case, so its pooled
//                                       codec objects are reused by the successive connections
// conn:  <dir>[/<dir>]                  first direction client→server, optional second direction server→client
// dir:   <kind><seed>:<wsizes>:<rsizes>:<mode>   kind r=pseudo-random bytes, z=repetitive bytes; sizes comma separated;
//                                       mode s = writer streams all segments, p = writer waits after each segment until
//                                       the reader has received it (only works if Write flushes)
// output per direction: n=<bytes> sum=<checksum>   |  MISMATCH@<offset>  |  timeout  |  err:<class>
package main

import (
	"errors"
	"fmt"
	"io"
	"net"
	"os"
	"path/filepath"
	"strconv"
	"strings"
	"sync/atomic"
	"time"

	inet "github.com/tochemey/goakt/v4/internal/net"
	"github.com/tochemey/goakt/v4/internal/verifdrv/vlib"
)

// Hang guard. It only exists to turn a deadlock into a verdict and never fires on the unchanged tree.
// Generous (120 s) until a hang has been seen; a hang is remembered for the rest of the process and, through a
// marker file keyed by the parent process (check.py), by the harness processes the same check starts later
// (search, shrinking), so that a build that hangs is reported in minutes rather than hours.
var hung atomic.Int32

func markerPath() string {
	return filepath.Join(os.TempDir(), fmt.Sprintf("verif_c24_hung_%d", os.Getppid()))
}

func hungBefore() bool {
	st, err := os.Stat(markerPath())
	return err == nil && time.Since(st.ModTime()) < time.Hour
}

var hungAtStart = hungBefore()

func noteHang() {
	hung.Add(1)
	_ = os.WriteFile(markerPath(), []byte("1"), 0o644)
}

func hangGuard() time.Duration {
	switch n := hung.Load(); {
	case n >= 3:
		return 300 * time.Millisecond
	case n >= 1 || hungAtStart:
		return 5 * time.Second
	}
	return 120 * time.Second
}

func genData(kind byte, seed uint64, n int) []byte {
	out := make([]byte, n)
	x := seed % 2147483648
	for i := 0; i < n; i++ {
		x = (x*1103515245 + 12345) % 2147483648
		if kind == 'z' {
			out[i] = byte((uint64(i)/64 + seed) % 7)
		} else {
			out[i] = byte((x / 65536) % 256)
		}
	}
	return out
}

func ints(s string) []int {
	var out []int
	if s == "" || s == "-" {
		return out
	}
	for _, t := range strings.Split(s, ",") {
		v, _ := strconv.Atoi(t)
		out = append(out, v)
	}
	return out
}

func errClass(err error) string {
	var ne net.Error
	if (errors.As(err, &ne) && ne.Timeout()) || errors.Is(err, os.ErrDeadlineExceeded) {
		noteHang()
		return "timeout"
	}
	if errors.Is(err, io.EOF) || errors.Is(err, io.ErrUnexpectedEOF) {
		return "err:eof"
	}
	return "err:" + strings.ReplaceAll(vlib.Canon(err.Error()), " ", "_")
}

// transfer writes the segments on w and reads them on r; returns the output token
func transfer(w, r net.Conn, spec string) string {
	p := strings.Split(spec, ":")
	if len(p) != 4 || len(p[0]) < 2 {
		return "bad-dir"
	}
	kind := p[0][0]
	seed, _ := strconv.ParseUint(p[0][1:], 10, 64)
	wsizes, rsizes := ints(p[1]), ints(p[2])
	if len(rsizes) == 0 {
		rsizes = []int{4096}
	}
	total := 0
	for _, s := range wsizes {
		total += s
	}
	data := genData(kind, seed, total)
	pingpong := p[3] == "p"
	acks := make(chan struct{}, len(wsizes)+1)
	werr := make(chan error, 1)
	go func() {
		off := 0
		for _, s := range wsizes {
			n, err := w.Write(data[off : off+s])
			if err != nil {
				werr <- err
				return
			}
			if n != s {
				werr <- fmt.Errorf("short write %d of %d", n, s)
				return
			}
			off += s
			if pingpong && s > 0 {
				select {
				case <-acks:
				case <-time.After(hangGuard()):
					werr <- os.ErrDeadlineExceeded
					return
				}
			}
		}
		werr <- nil
	}()
	// boundaries at which the writer is released (ping-pong)
	var bounds []int
	if pingpong {
		c := 0
		for _, s := range wsizes {
			c += s
			if s > 0 {
				bounds = append(bounds, c)
			}
		}
	}
	got := make([]byte, 0, total)
	buf := make([]byte, 1<<20)
	ri := 0
	for len(got) < total {
		size := rsizes[ri%len(rsizes)]
		ri++
		if size < 1 {
			size = 1
		}
		if size > len(buf) {
			size = len(buf)
		}
		n, err := r.Read(buf[:size])
		got = append(got, buf[:n]...)
		for len(bounds) > 0 && len(got) >= bounds[0] {
			bounds = bounds[1:]
			acks <- struct{}{}
		}
		if err != nil && len(got) < total {
			return errClass(err)
		}
	}
	select {
	case err := <-werr:
		if err != nil {
			return "w-" + errClass(err)
		}
	case <-time.After(hangGuard()):
		noteHang()
		return "timeout"
	}
	if len(got) != total {
		return fmt.Sprintf("LENGTH %d!=%d", len(got), total)
	}
	h := uint64(7)
	for i, b := range got {
		if b != data[i] {
			return fmt.Sprintf("MISMATCH@%d", i)
		}
		h = (h*31 + uint64(b) + 1) % 4294967291
	}
	return fmt.Sprintf("n=%d sum=%d", total, h)
}

func pair() (net.Conn, net.Conn, error) {
	l, err := net.Listen("tcp", "127.0.0.1:0")
	if err != nil {
		return nil, nil, err
	}
	defer l.Close()
	type res struct {
		c   net.Conn
		err error
	}
	ch := make(chan res, 1)
	go func() {
		c, err := l.Accept()
		ch <- res{c, err}
	}()
	c, err := net.DialTimeout("tcp", l.Addr().String(), hangGuard())
	if err != nil {
		return nil, nil, err
	}
	s := <-ch
	if s.err != nil {
		c.Close()
		return nil, nil, s.err
	}
	return c, s.c, nil
}

func handle(line string) string {
	f := vlib.Fields(line)
	if len(f) < 2 {
		return "bad-case"
	}
	var wrapper inet.ConnWrapper
	switch f[0] {
	case "none":
	case "gzip":
		g, err := inet.NewGzipConnWrapper()
		if err != nil {
			return "setup-failed"
		}
		wrapper = g
	case "zstd":
		z, err := inet.NewZstdConnWrapper()
		if err != nil {
			return "setup-failed"
		}
		wrapper = z
	case "brotli":
		wrapper = inet.NewBrotliConnWrapper()
	default:
		return "bad-case"
	}
	var out []string
	for _, cs := range f[1:] {
		rawC, rawS, err := pair()
		if err != nil {
			out = append(out, "setup-failed")
			continue
		}
		deadline := time.Now().Add(hangGuard())
		_ = rawC.SetDeadline(deadline)
		_ = rawS.SetDeadline(deadline)
		c, s := rawC, rawS
		if wrapper != nil {
			if c, err = wrapper.Wrap(rawC); err != nil {
				out = append(out, "wrap-failed")
				continue
			}
			if s, err = wrapper.Wrap(rawS); err != nil {
				out = append(out, "wrap-failed")
				continue
			}
		}
		dirs := strings.Split(cs, "/")
		res := transfer(c, s, dirs[0])
		if len(dirs) > 1 {
			res += " / " + transfer(s, c, dirs[1])
		}
		out = append(out, res)
		_ = c.Close()
		_ = s.Close()
	}
	return strings.Join(out, " ; ")
}

func main() { vlib.Loop(handle) }

//go:build verif

// C40 harness: the REAL ddata.EncodeCRDT / DecodeCRDT (with the production CRDTValueSerializer)
// and codec.EncodeCRDTKey / DecodeCRDTKey on states reached by op sequences.
//
// case line:  <T> <op> <op> ...      three variables 0,1,2 of type T, all fresh at the start
//   T: gc pn fl lw mv os om (ORMap of GCounter) oms (ORMap of ORSet) omm (ORMap of ORMap of GCounter)
//      osx (ORSet with elements of several Go types)
//   common ops:  v:m:w  v = v.Merge(w)      v:R  v.ResetDelta()      v:D  v = v.Delta() when non-nil
//                v:C    v = v.CompactData() (os, om*)      v:W  v = Decode(Encode(v)) when both succeed
//                v:B:node:counter:val  (mv, os) v = <T>FromRawState(one entry val with dot (node,counter), clock {node:counter})
//   gc  v:i:node:n          pn  v:i:node:n  v:d:node:n      fl  v:e
//   lw  v:s:val:ts:node     mv  v:s:node:val                os  v:a:node:e  v:r:e
//   om  v:s:node:key:n  (value = NewGCounter().Increment(node,n))   v:r:key
//   oms v:s:node:key:e  (value = NewORSet().Add(node,e))            v:r:key
//   omm v:s:node:key:k2 (value = NewORMap().Set(node,k2,GCounter{node:1}))  v:r:key
//   osx v:a:node:lit  v:r:lit   lit = i.5 | s.abc | i64.5 | b.1 | f.2.5 | u8.7
// output (x = variable 0, y = variable 1, x' = Decode(Encode(x))), fields separated by `|`:
//   dump(x) | ok/err | dump(x') | core(x) | core(x') | core(x⊔y) | core(x'⊔y) | core(y⊔x) | core(y⊔x') | dump(x'⊔y) | dump(y⊔x')
// key cases:  key <id> <dt> -> enc=<id>/<wire> dec=<id>/<dt> | dec=err ;  rawkey <id> <wire> ;  nilkey ;  nildata
package main

import (
	"fmt"
	"strconv"
	"strings"
	"time"

	"github.com/tochemey/goakt/v4/crdt"
	"github.com/tochemey/goakt/v4/internal/codec"
	"github.com/tochemey/goakt/v4/internal/ddata"
	"github.com/tochemey/goakt/v4/internal/internalpb"
	"github.com/tochemey/goakt/v4/internal/verifdrv/vlib"
)

var ser = ddata.NewCRDTValueSerializer()

func atoi(s string) int { n, _ := strconv.Atoi(s); return n }

func fresh(t string) crdt.ReplicatedData {
	switch t {
	case "gc":
		return crdt.NewGCounter()
	case "pn":
		return crdt.NewPNCounter()
	case "fl":
		return crdt.NewFlag()
	case "lw":
		return crdt.NewLWWRegister()
	case "mv":
		return crdt.NewMVRegister()
	case "os", "osx":
		return crdt.NewORSet()
	case "om", "oms", "omm":
		return crdt.NewORMap()
	}
	return nil
}

func lit(s string) any {
	kv := strings.SplitN(s, ".", 2)
	if len(kv) != 2 {
		return atoi(s)
	}
	switch kv[0] {
	case "i":
		return atoi(kv[1])
	case "s":
		return kv[1]
	case "i64":
		return int64(atoi(kv[1]))
	case "b":
		return kv[1] == "1"
	case "f":
		f, _ := strconv.ParseFloat(kv[1], 64)
		return f
	case "u8":
		return uint8(atoi(kv[1]))
	}
	return s
}

func roundTrip(v crdt.ReplicatedData) (crdt.ReplicatedData, bool) {
	pb, err := ddata.EncodeCRDT(v, ser)
	if err != nil {
		return nil, false
	}
	out, err := ddata.DecodeCRDT(pb, ser)
	if err != nil {
		return nil, false
	}
	return out, true
}

func apply(t string, vars []crdt.ReplicatedData, tok string) bool {
	f := strings.Split(tok, ":")
	if len(f) < 2 {
		return false
	}
	v := atoi(f[0])
	if v < 0 || v >= len(vars) {
		return false
	}
	x := vars[v]
	a := f[2:]
	node := func(i int) string { return crdt.VerifNodeName(atoi(a[i])) }
	switch f[1] {
	case "m":
		w := atoi(a[0])
		if w < 0 || w >= len(vars) {
			return false
		}
		vars[v] = x.Merge(vars[w])
		return true
	case "R":
		x.ResetDelta()
		return true
	case "D":
		if d := x.Delta(); d != nil {
			vars[v] = d
		}
		return true
	case "C":
		if c, ok := x.(crdt.Compactable); ok {
			vars[v] = c.CompactData()
		}
		return true
	case "W":
		if y, ok := roundTrip(x); ok {
			vars[v] = y
		}
		return true
	case "B":
		if len(a) != 3 {
			return false
		}
		cnt, _ := strconv.ParseUint(a[1], 10, 64)
		d := crdt.Dot{NodeID: node(0), Counter: cnt}
		clk := map[string]uint64{node(0): cnt}
		switch t {
		case "mv":
			vars[v] = crdt.MVRegisterFromRawState([]crdt.MVEntry{{Value: atoi(a[2]), Dot: d}}, clk)
		case "os":
			vars[v] = crdt.ORSetFromRawState([]crdt.Entry{{Element: atoi(a[2]), Dots: []crdt.Dot{d}}}, clk)
		default:
			return false
		}
		return true
	}
	switch t {
	case "gc":
		if f[1] == "i" {
			vars[v] = x.(*crdt.GCounter).Increment(node(0), uint64(atoi(a[1])))
			return true
		}
	case "pn":
		if f[1] == "i" {
			vars[v] = x.(*crdt.PNCounter).Increment(node(0), uint64(atoi(a[1])))
			return true
		}
		if f[1] == "d" {
			vars[v] = x.(*crdt.PNCounter).Decrement(node(0), uint64(atoi(a[1])))
			return true
		}
	case "fl":
		if f[1] == "e" {
			vars[v] = x.(*crdt.Flag).Enable()
			return true
		}
	case "lw":
		if f[1] == "s" {
			ts, _ := strconv.ParseInt(a[1], 10, 64)
			vars[v] = x.(*crdt.LWWRegister).Set(atoi(a[0]), time.Unix(0, ts), node(2))
			return true
		}
	case "mv":
		if f[1] == "s" {
			vars[v] = x.(*crdt.MVRegister).Set(node(0), atoi(a[1]))
			return true
		}
	case "os":
		if f[1] == "a" {
			vars[v] = x.(*crdt.ORSet).Add(node(0), atoi(a[1]))
			return true
		}
		if f[1] == "r" {
			vars[v] = x.(*crdt.ORSet).Remove(atoi(a[0]))
			return true
		}
	case "osx":
		if f[1] == "a" {
			vars[v] = x.(*crdt.ORSet).Add(node(0), lit(a[1]))
			return true
		}
		if f[1] == "r" {
			vars[v] = x.(*crdt.ORSet).Remove(lit(a[0]))
			return true
		}
	case "om", "oms", "omm":
		m := x.(*crdt.ORMap)
		if f[1] == "r" {
			vars[v] = m.Remove(atoi(a[0]))
			return true
		}
		if f[1] == "s" {
			var val crdt.ReplicatedData
			switch t {
			case "om":
				val = crdt.NewGCounter().Increment(node(0), uint64(atoi(a[2])))
			case "oms":
				val = crdt.NewORSet().Add(node(0), atoi(a[2]))
			default:
				val = crdt.NewORMap().Set(node(0), atoi(a[2]), crdt.NewGCounter().Increment(node(0), 1))
			}
			vars[v] = m.Set(node(0), atoi(a[1]), val)
			return true
		}
	}
	return false
}

func keyCase(f []string) string {
	switch f[0] {
	case "key":
		pb := codec.EncodeCRDTKey(f[1], crdt.DataType(atoi(f[2])))
		out := fmt.Sprintf("enc=%s/%d ", pb.GetId(), int32(pb.GetDataType()))
		id, dt, err := codec.DecodeCRDTKey(pb)
		if err != nil {
			return out + "dec=err"
		}
		return out + fmt.Sprintf("dec=%s/%d", id, int(dt))
	case "rawkey":
		id, dt, err := codec.DecodeCRDTKey(&internalpb.CRDTKey{Id: f[1], DataType: internalpb.CRDTDataType(atoi(f[2]))})
		if err != nil {
			return "dec=err"
		}
		return fmt.Sprintf("dec=%s/%d", id, int(dt))
	case "nilkey":
		if _, _, err := codec.DecodeCRDTKey(nil); err != nil {
			return "dec=err"
		}
		return "dec=ok"
	case "nildata":
		if _, err := ddata.DecodeCRDT(nil, ser); err != nil {
			return "dec=err"
		}
		return "dec=ok"
	}
	return "bad-case"
}

func handle(line string) string {
	f := vlib.Fields(line)
	if len(f) == 0 {
		return "bad-case"
	}
	switch f[0] {
	case "key", "rawkey", "nilkey", "nildata":
		if (f[0] == "key" || f[0] == "rawkey") && len(f) != 3 {
			return "bad-case"
		}
		return keyCase(f)
	}
	t := f[0]
	if fresh(t) == nil {
		return "bad-case"
	}
	vars := []crdt.ReplicatedData{fresh(t), fresh(t), fresh(t)}
	for _, tok := range f[1:] {
		if !apply(t, vars, tok) {
			return "bad-case"
		}
	}
	x, y := vars[0], vars[1]
	out := []string{crdt.VerifDump(x)}
	x2, ok := roundTrip(x)
	if !ok {
		return strings.Join(append(out, "err"), "|")
	}
	out = append(out, "ok", crdt.VerifDump(x2),
		crdt.VerifCore(x), crdt.VerifCore(x2),
		crdt.VerifCore(x.Merge(y)), crdt.VerifCore(x2.Merge(y)),
		crdt.VerifCore(y.Merge(x)), crdt.VerifCore(y.Merge(x2)),
		crdt.VerifDump(x2.Merge(y)), crdt.VerifDump(y.Merge(x2)))
	return strings.Join(out, "|")
}

func main() { vlib.Loop(handle) }

//go:build verif

// C18 harness: drop causes on a real actor system, observed through the events stream and the count API.
//
// case:  sys <cap> ; ev ; ev ; …       (one fresh actor system with loop-back remoting per case)
//   full <A|B|none> <ids>      gated actor G (NonBlockingBoundedMailbox(cap)): fill the ring, then tell ids → dropped
//   unh <A|B|none> <ids>       actor U calls ctx.Unhandled() on every Reply
//   unhps <k>                  a fresh actor calls ctx.Unhandled() on its PostStart (control traffic: no dead letter)
//   rmiss <A|B|none|bad> <ids> server-side handler of an inbound remote tell, receiver `ghost` does not exist
//   rpass <k> <i|b> <A|B|none|bad> <ids>   inbound remote tells for a fresh actor V<k> that is in the middle of being
//                              passivated (time-based strategy; PostStop is held open by the harness while the handler
//                              runs; mode i = the actor is idle, b = it is also held inside a long Receive)
//   rbadr <id> / rbadp <id>    same with an unparseable receiver / an undecodable payload
//   rtell <k> <ids>            real RemoteTell (coalescer + TCP loop-back) to the missing `ghost`, then a sentinel
//   batch <k> <specs>          enqueueCoalescedFailure with the real drain goroutine, then a sentinel batch (receiver s<k>)
//   mq <cap> / mbatch <specs> / mdrain    fan-out queue without consumer: hand-offs (inline publication when it is full),
//                              then the real drain loop on demand
//   count                      ActorSystem.Metric().DeadlettersCount()
//   par <ev> | <ev> | …        the listed events run concurrently
// specs: g<id> good (sender A), n<id> good without sender, r<id> unparseable receiver, p<id> undecodable payload
// output: dl=<id/sender/receiver/cause,… sorted> total=<n> per=<name:n,…> reads=<…>
package main

import (
	"context"
	"errors"
	"fmt"
	"net"
	"os"
	"path/filepath"
	"sort"
	"strconv"
	"strings"
	"sync"
	"sync/atomic"
	"time"

	"github.com/tochemey/goakt/v4/actor"
	"github.com/tochemey/goakt/v4/eventstream"
	"github.com/tochemey/goakt/v4/internal/verifdrv/vlib"
	"github.com/tochemey/goakt/v4/log"
	"github.com/tochemey/goakt/v4/passivation"
	"github.com/tochemey/goakt/v4/remote"
	testpb "github.com/tochemey/goakt/v4/test/data/testpb"
)

// Hang guard. It only exists to turn a lost message into a verdict and never fires on the unchanged tree.
// Generous (300 s) until a hang has been seen; a hang is remembered for the rest of the process and, through a
// marker file keyed by the parent process (check.py), by the harness processes the same check starts later
// (search, shrinking), so that a build that loses a sentinel is reported in minutes rather than hours.
var stuckSeen atomic.Int32

func markerPath() string {
	return filepath.Join(os.TempDir(), fmt.Sprintf("verif_c18_hung_%d", os.Getppid()))
}

func hungBefore() bool {
	st, err := os.Stat(markerPath())
	return err == nil && time.Since(st.ModTime()) < time.Hour
}

var hungAtStart = hungBefore()

func waitLimit() time.Duration {
	switch n := stuckSeen.Load(); {
	case n >= 3:
		return time.Second
	case n >= 1 || hungAtStart:
		return 5 * time.Second
	}
	return 300 * time.Second
}

type gated struct {
	entered   chan struct{}
	release   chan struct{}
	processed chan struct{}
	leaked    atomic.Int64
}

func (g *gated) PreStart(*actor.Context) error { return nil }
func (g *gated) PostStop(*actor.Context) error { return nil }
func (g *gated) Receive(ctx *actor.ReceiveContext) {
	switch ctx.Message().(type) {
	case *testpb.TestWait:
		g.entered <- struct{}{}
		<-g.release
	case *testpb.TestLog:
		g.processed <- struct{}{}
	case *testpb.TestPing:
		ctx.Response(new(testpb.TestPong))
	case *testpb.Reply:
		g.leaked.Add(1)
	}
}

type unhandler struct{ onPostStart bool }

func (u *unhandler) PreStart(*actor.Context) error { return nil }
func (u *unhandler) PostStop(*actor.Context) error { return nil }
func (u *unhandler) Receive(ctx *actor.ReceiveContext) {
	switch ctx.Message().(type) {
	case *actor.PostStart:
		if u.onPostStart {
			ctx.Unhandled()
		}
	case *testpb.TestPing:
		ctx.Response(new(testpb.TestPong))
	case *testpb.Reply:
		if !u.onPostStart {
			ctx.Unhandled()
		}
	}
}

// victim: passivated by the time-based strategy; PostStop (and optionally a long Receive) are held open
type victim struct {
	inReceive      chan struct{}
	releaseReceive chan struct{}
	inPostStop     chan struct{}
	releasePost    chan struct{}
	handled        *atomic.Int64
}

func (v *victim) PreStart(*actor.Context) error { return nil }
func (v *victim) Receive(ctx *actor.ReceiveContext) {
	switch ctx.Message().(type) {
	case *testpb.TestWait:
		close(v.inReceive)
		<-v.releaseReceive
	case *testpb.Reply:
		v.handled.Add(1)
	}
}
func (v *victim) PostStop(*actor.Context) error {
	close(v.inPostStop)
	<-v.releasePost
	return nil
}

type plain struct{}

func (plain) PreStart(*actor.Context) error { return nil }
func (plain) PostStop(*actor.Context) error { return nil }
func (plain) Receive(*actor.ReceiveContext) {}

type world struct {
	sys      actor.ActorSystem
	sub      eventstream.Subscriber
	g        *gated
	gPID     *actor.PID
	uPID     *actor.PID
	aPID     *actor.PID
	bPID     *actor.PID
	prefix   string // goakt://sys@host:port/
	noSender string
	ring     int
	extra    sync.Map // extra receiver names to report
	mu       sync.Mutex
	reads    []string
	problems []string
}

func (w *world) problem(s string) {
	if strings.HasPrefix(s, "stuck") {
		stuckSeen.Add(1)
		_ = os.WriteFile(markerPath(), []byte("1"), 0o644)
	}
	w.mu.Lock()
	w.problems = append(w.problems, s)
	w.mu.Unlock()
}

func freePort() int {
	l, err := net.Listen("tcp", "127.0.0.1:0")
	if err != nil {
		return 0
	}
	defer l.Close()
	return l.Addr().(*net.TCPAddr).Port
}

var sysSeq atomic.Int64

func nextPow2(n int) int {
	if n <= 2 {
		return 2
	}
	v := 1
	for v < n {
		v <<= 1
	}
	return v
}

func newWorld(capacity int) (*world, error) {
	ctx := context.Background()
	var sys actor.ActorSystem
	var err error
	for try := 0; try < 5; try++ {
		port := freePort()
		sys, err = actor.NewActorSystem(fmt.Sprintf("vc18n%d", sysSeq.Add(1)), actor.WithLogger(log.DiscardLogger),
			actor.WithRemote(remote.NewConfig("127.0.0.1", port)))
		if err != nil {
			continue
		}
		if err = sys.Start(ctx); err == nil {
			break
		}
	}
	if err != nil {
		return nil, err
	}
	w := &world{sys: sys, ring: nextPow2(capacity)}
	w.g = &gated{entered: make(chan struct{}, 1), release: make(chan struct{}), processed: make(chan struct{}, 1<<16)}
	if w.gPID, err = sys.Spawn(ctx, "G", w.g, actor.WithMailbox(actor.NewNonBlockingBoundedMailbox(capacity))); err != nil {
		return nil, err
	}
	if w.uPID, err = sys.Spawn(ctx, "U", &unhandler{}); err != nil {
		return nil, err
	}
	if w.aPID, err = sys.Spawn(ctx, "A", plain{}); err != nil {
		return nil, err
	}
	if w.bPID, err = sys.Spawn(ctx, "B", plain{}); err != nil {
		return nil, err
	}
	a := actor.VerifC18AddrOf(w.aPID)
	w.prefix = a[:strings.LastIndex(a, "/")+1]
	w.noSender = actor.VerifC18AddrOf(sys.NoSender())
	// every base actor is started and idle before the measured phase
	for _, p := range []*actor.PID{w.gPID, w.uPID} {
		if err := w.ping(p); err != nil {
			return nil, err
		}
	}
	if w.sub, err = sys.Subscribe(); err != nil {
		return nil, err
	}
	return w, nil
}

func (w *world) ping(p *actor.PID) error {
	_, err := actor.Ask(context.Background(), p, new(testpb.TestPing), waitLimit())
	return err
}

func (w *world) close() {
	ctx, cancel := context.WithTimeout(context.Background(), 60*time.Second)
	defer cancel()
	_ = w.sys.Stop(ctx)
}

func (w *world) sender(s string) *actor.PID {
	switch s {
	case "A":
		return w.aPID
	case "B":
		return w.bPID
	}
	return nil
}

func (w *world) tell(snd string, to *actor.PID, id string) {
	msg := &testpb.Reply{Content: "m" + id}
	if p := w.sender(snd); p != nil {
		_ = p.Tell(context.Background(), to, msg)
		return
	}
	_ = actor.Tell(context.Background(), to, msg)
}

func (w *world) name(addr string) string {
	if addr == w.noSender {
		return "nosender"
	}
	if strings.HasPrefix(addr, w.prefix) {
		return addr[len(w.prefix):]
	}
	return "?" + addr
}

func (w *world) wire(kind byte, id string) actor.VerifC18WireMsg {
	payload, _ := actor.VerifC18Serialize(w.sys, &testpb.Reply{Content: "m" + id})
	m := actor.VerifC18WireMsg{Sender: actor.VerifC18AddrOf(w.aPID), Receiver: w.prefix + "ghost", Payload: payload}
	switch kind {
	case 'n':
		m.Sender = ""
	case 'r':
		m.Receiver = "not an address"
	case 'p':
		m.Payload = []byte{0x01, 0x02, 0x03}
	}
	return m
}

func (w *world) waitCount(receiver string, atLeast int64, what string) {
	deadline := time.Now().Add(waitLimit())
	pause := time.Millisecond
	for {
		if n, ok := actor.VerifC18Count(w.sys, receiver); ok && n >= atLeast {
			return
		}
		if time.Now().After(deadline) {
			w.problem("stuck:" + what)
			return
		}
		time.Sleep(pause)
		if pause < 50*time.Millisecond {
			pause *= 2
		}
	}
}

func ids(s string) []string {
	if s == "-" || s == "" {
		return nil
	}
	return strings.Split(s, ",")
}

var errBatch = errors.New("verif batch failure")

func (w *world) runEvent(f []string) {
	switch f[0] {
	case "full":
		if err := w.ping(w.gPID); err != nil {
			w.problem("ping-G")
			return
		}
		_ = actor.Tell(context.Background(), w.gPID, new(testpb.TestWait))
		select {
		case <-w.g.entered:
		case <-time.After(waitLimit()):
			w.problem("stuck:gate")
			return
		}
		for i := 0; i < w.ring; i++ {
			_ = actor.Tell(context.Background(), w.gPID, new(testpb.TestLog))
		}
		for _, id := range ids(f[2]) {
			w.tell(f[1], w.gPID, id)
		}
		w.g.release <- struct{}{}
		for i := 0; i < w.ring; i++ {
			select {
			case <-w.g.processed:
			case <-time.After(waitLimit()):
				w.problem("stuck:drain-G")
				return
			}
		}
		_ = w.ping(w.gPID)
	case "unh":
		for _, id := range ids(f[2]) {
			w.tell(f[1], w.uPID, id)
		}
		_ = w.ping(w.uPID)
	case "unhps":
		p, err := w.sys.Spawn(context.Background(), "P"+f[1], &unhandler{onPostStart: true})
		if err != nil {
			w.problem("spawn-P")
			return
		}
		_ = w.ping(p)
	case "rmiss":
		for _, id := range ids(f[2]) {
			m := w.wire('g', id)
			switch f[1] {
			case "B":
				m.Sender = actor.VerifC18AddrOf(w.bPID)
			case "none":
				m.Sender = ""
			case "bad":
				m.Sender = "::not an address::"
			}
			actor.VerifC18DeliverRemoteTell(w.sys, m)
		}
	case "rpass":
		name := "V" + f[1]
		w.extra.Store(name, true)
		v := &victim{inReceive: make(chan struct{}), releaseReceive: make(chan struct{}), inPostStop: make(chan struct{}),
			releasePost: make(chan struct{}), handled: &w.g.leaked}
		p, err := w.sys.Spawn(context.Background(), name, v,
			actor.WithPassivationStrategy(passivation.NewTimeBasedStrategy(200*time.Millisecond)))
		if err != nil {
			w.problem("spawn-V")
			return
		}
		if f[2] == "b" {
			_ = actor.Tell(context.Background(), p, new(testpb.TestWait))
			select {
			case <-v.inReceive:
			case <-time.After(waitLimit()):
				w.problem("stuck:victim-receive")
				return
			}
		}
		select {
		case <-v.inPostStop: // passivation is running PostStop: passivatingState is set, stoppingState is not
		case <-time.After(waitLimit()):
			w.problem("stuck:passivation")
			return
		}
		for _, id := range ids(f[4]) {
			m := w.wire('g', id)
			m.Receiver = w.prefix + name
			switch f[3] {
			case "B":
				m.Sender = actor.VerifC18AddrOf(w.bPID)
			case "none":
				m.Sender = ""
			case "bad":
				m.Sender = "::not an address::"
			}
			actor.VerifC18DeliverRemoteTell(w.sys, m)
		}
		close(v.releasePost)
		deadline := time.Now().Add(waitLimit())
		for !actor.VerifC18Stopped(p) {
			if time.Now().After(deadline) {
				w.problem("stuck:victim-stop")
				break
			}
			time.Sleep(2 * time.Millisecond)
		}
		if f[2] == "b" {
			close(v.releaseReceive)
		}
		// let a message that was wrongly enqueued be dequeued (and discarded or handled) before the final count
		time.Sleep(50 * time.Millisecond)
	case "rbadr":
		actor.VerifC18DeliverRemoteTell(w.sys, w.wire('r', f[1]))
	case "rbadp":
		actor.VerifC18DeliverRemoteTell(w.sys, w.wire('p', f[1]))
	case "rtell":
		a := actor.VerifC18AddrOf(w.aPID)
		for _, id := range ids(f[2]) {
			if err := actor.VerifC18RemoteTell(w.sys, a, w.prefix+"ghost", &testpb.Reply{Content: "m" + id}); err != nil {
				w.problem("rtell-error")
			}
		}
		k, _ := strconv.Atoi(f[1])
		sn := fmt.Sprintf("s%d", k)
		w.extra.Store(sn, true)
		if err := actor.VerifC18RemoteTell(w.sys, a, w.prefix+sn, &testpb.Reply{Content: fmt.Sprintf("m%d", 900000+k)}); err != nil {
			w.problem("rtell-error")
		}
		w.waitCount(w.prefix+sn, 1, "rtell-sentinel")
	case "batch", "mbatch":
		var msgs []actor.VerifC18WireMsg
		specs := f[1]
		if f[0] == "batch" {
			specs = f[2]
		}
		for _, s := range ids(specs) {
			msgs = append(msgs, w.wire(s[0], s[1:]))
		}
		actor.VerifC18BatchFail(w.sys, "127.0.0.1:1", msgs, errBatch)
		if f[0] == "batch" {
			k, _ := strconv.Atoi(f[1])
			sn := fmt.Sprintf("s%d", k)
			w.extra.Store(sn, true)
			m := w.wire('g', strconv.Itoa(900000+k))
			m.Receiver = w.prefix + sn
			actor.VerifC18BatchFail(w.sys, "127.0.0.1:1", []actor.VerifC18WireMsg{m}, errBatch)
			w.waitCount(w.prefix+sn, 1, "batch-sentinel")
		}
	case "mq":
		c, _ := strconv.Atoi(f[1])
		actor.VerifC18ManualQueue(w.sys, c)
	case "mdrain":
		actor.VerifC18DrainNow(w.sys)
	case "count":
		m := w.sys.Metric(context.Background())
		w.mu.Lock()
		if m == nil {
			w.reads = append(w.reads, "nil")
		} else {
			w.reads = append(w.reads, strconv.FormatInt(m.DeadlettersCount(), 10))
		}
		w.mu.Unlock()
	case "par":
		var wg sync.WaitGroup
		for _, sub := range strings.Split(strings.Join(f[1:], " "), "|") {
			sf := strings.Fields(sub)
			if len(sf) == 0 {
				continue
			}
			wg.Add(1)
			go func() {
				defer wg.Done()
				w.runEvent(sf)
			}()
		}
		wg.Wait()
	default:
		w.problem("bad-event:" + f[0])
	}
}

func cause(reason string) string {
	switch {
	case strings.Contains(reason, "mailbox is full"):
		return "full"
	case strings.Contains(reason, "unhandled message"):
		return "unhandled"
	case strings.Contains(reason, "not found"):
		return "notfound"
	case strings.Contains(reason, "actor is not alive"):
		return "notrunning"
	case strings.Contains(reason, "verif batch failure"):
		return "batch"
	}
	return "other(" + strings.ReplaceAll(reason, " ", "_") + ")"
}

func handle(line string) string {
	parts := strings.Split(line, ";")
	head := strings.Fields(parts[0])
	if len(head) != 2 || head[0] != "sys" {
		return "bad-case"
	}
	capacity, _ := strconv.Atoi(head[1])
	w, err := newWorld(capacity)
	if err != nil {
		return "setup-failed"
	}
	defer w.close()
	for _, ev := range parts[1:] {
		f := strings.Fields(ev)
		if len(f) > 0 {
			w.runEvent(f)
		}
	}
	// final quiescence marker: the count request is served after every dead letter enqueued before it
	total, ok := actor.VerifC18Count(w.sys, "")
	if !ok {
		w.problem("no-count")
	}
	names := []string{"G", "U", "ghost"}
	w.extra.Range(func(k, _ any) bool { names = append(names, k.(string)); return true })
	sort.Strings(names)
	var per []string
	for _, n := range names {
		c, _ := actor.VerifC18Count(w.sys, w.prefix+n)
		per = append(per, fmt.Sprintf("%s:%d", n, c))
	}
	var dls []string
	for msg := range w.sub.Iterator() {
		if d, ok := msg.Payload().(*actor.Deadletter); ok {
			id := "?"
			if r, ok := d.Message().(*testpb.Reply); ok {
				id = strings.TrimPrefix(r.GetContent(), "m")
			} else {
				id = fmt.Sprintf("%T", d.Message())
			}
			snd, rcv := "nil", "nil"
			if d.Sender() != nil {
				snd = w.name(d.Sender().String())
			}
			if d.Receiver() != nil {
				rcv = w.name(d.Receiver().String())
			}
			dls = append(dls, fmt.Sprintf("%s/%s/%s/%s", id, snd, rcv, cause(d.Reason())))
		}
	}
	sort.Strings(dls)
	out := fmt.Sprintf("dl=%s total=%d per=%s reads=%s", strings.Join(dls, ","), total, strings.Join(per, ","), strings.Join(w.reads, ","))
	if n := w.g.leaked.Load(); n != 0 {
		w.problem(fmt.Sprintf("leaked:%d", n))
	}
	if len(w.problems) > 0 {
		sort.Strings(w.problems)
		out += " problems=" + strings.Join(w.problems, ",")
	}
	return out
}

func main() { vlib.Loop(handle) }

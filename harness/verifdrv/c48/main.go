//go:build verif

// C48 harness: drives the real xsync.TTLMap with an injected clock.
// case = `<ttl> <t0> <op> ...`; ops: s<k>=<v> g<k> d<k> r l a t<d> D  (see Driver/C48.lean)
package main

import (
	"strconv"
	"strings"

	"github.com/tochemey/goakt/v4/internal/verifdrv/vlib"
	"github.com/tochemey/goakt/v4/internal/xsync"
)

func handle(line string) string {
	f := vlib.Fields(line)
	if len(f) < 2 {
		return "bad-case"
	}
	ttl, err1 := strconv.ParseInt(f[0], 10, 64)
	t0, err2 := strconv.ParseInt(f[1], 10, 64)
	if err1 != nil || err2 != nil {
		return "bad-case"
	}
	clock := t0
	m := xsync.VerifNewTTLMap(ttl, &clock)
	var out []string
	for _, op := range f[2:] {
		switch {
		case op == "r":
			m.Reset()
		case op == "l":
			out = append(out, strconv.Itoa(m.Len()))
		case op == "a":
			out = append(out, strconv.Itoa(m.ActiveLen()))
		case op == "D":
			out = append(out, xsync.VerifDumpTTLMap(m))
		case op[0] == 's':
			kv := strings.SplitN(op[1:], "=", 2)
			if len(kv) != 2 {
				return "bad-case"
			}
			k, e1 := strconv.Atoi(kv[0])
			v, e2 := strconv.ParseInt(kv[1], 10, 64)
			if e1 != nil || e2 != nil || k < 0 {
				return "bad-case"
			}
			m.Set(k, v)
		case op[0] == 'g':
			k, e := strconv.Atoi(op[1:])
			if e != nil || k < 0 {
				return "bad-case"
			}
			if v, ok := m.Get(k); ok {
				out = append(out, strconv.FormatInt(v, 10))
			} else {
				out = append(out, "-")
			}
		case op[0] == 'd':
			k, e := strconv.Atoi(op[1:])
			if e != nil || k < 0 {
				return "bad-case"
			}
			m.Delete(k)
		case op[0] == 't':
			d, e := strconv.ParseInt(op[1:], 10, 64)
			if e != nil || d < 0 {
				return "bad-case"
			}
			clock += d
		default:
			return "bad-case"
		}
	}
	return strings.Join(out, " ")
}

func main() { vlib.Loop(handle) }

//go:build verif

// Package vlib is the shared plumbing of the verification harness binaries
// (overlay-only: it never exists in /repo).  One output line per input line;
// panics inside a case are recovered and printed as `panic: ...`.
package vlib

import (
	"bufio"
	"fmt"
	"os"
	"strings"
)

// Loop reads case lines from stdin and prints f(line) for each, flushing per line.
func Loop(f func(line string) string) {
	in := bufio.NewScanner(os.Stdin)
	in.Buffer(make([]byte, 1<<20), 1<<28)
	out := bufio.NewWriterSize(os.Stdout, 1<<16)
	defer out.Flush()
	for in.Scan() {
		line := in.Text()
		res := Safe(func() string { return f(line) })
		res = strings.ReplaceAll(res, "\n", "\\n")
		fmt.Fprintln(out, res)
		out.Flush()
	}
}

// Safe runs f, turning a panic into a canonical `panic: <msg>` string.
func Safe(f func() string) (res string) {
	defer func() {
		if r := recover(); r != nil {
			res = "panic: " + Canon(fmt.Sprint(r))
		}
	}()
	return f()
}

// Canon strips addresses and goroutine ids from runtime messages.
func Canon(s string) string {
	if i := strings.Index(s, "\n"); i >= 0 {
		s = s[:i]
	}
	return s
}

// Fields splits on spaces.
func Fields(s string) []string { return strings.Fields(s) }

//go:build verif

package vlib

import (
	"fmt"
	"strconv"
	"strings"
	"time"

	"github.com/tochemey/goakt/v4/internal/vsched"
)

// Obj is a concurrent object under controlled scheduling (engine E3).
// Do runs one operation on the calling logical thread (the instrumented code
// parks at vsched points inside it) and returns its canonical result.
// Final is called sequentially after every thread finished.
type Obj interface {
	Do(tid int, op string) string
	Final() string
}

// StepTimeout bounds one controlled step (a thread that does not reach its next
// point in time is reported as stuck, never waited for forever).
var StepTimeout = 3 * time.Second

// FinishCap bounds the deterministic completion phase.
const FinishCap = 4000

// RunConc executes one case:   cfg | prog0 ; prog1 ; … | schedule
// Output:  T <tid:label …> | R <r,r,…;r,…> | F <final>
// After the schedule is exhausted the remaining threads are completed
// deterministically: round-robin, one step each, lowest tid first, at most
// FinishCap steps (then `cap` is appended to the trace).
func RunConc(line string, mk func(cfg string, nthreads int) Obj) string {
	parts := strings.Split(line, "|")
	if len(parts) != 3 {
		return "bad-case"
	}
	cfg := strings.TrimSpace(parts[0])
	var progs [][]string
	for _, p := range strings.Split(parts[1], ";") {
		progs = append(progs, strings.Fields(p))
	}
	// schedule entries: `<tid>` = one step; `<tid>*` = macro step (search only, not replayed by the Lean
	// models): step thread tid until it is parked at a label of the object's boundary set (or done)
	var sched []int
	var star []bool
	for _, s := range strings.Fields(parts[2]) {
		st := strings.HasSuffix(s, "*")
		n, err := strconv.Atoi(strings.TrimSuffix(s, "*"))
		if err != nil {
			return "bad-case"
		}
		sched = append(sched, n)
		star = append(star, st)
	}
	s := vsched.New()
	obj := mk(cfg, len(progs))
	if obj == nil {
		return "bad-case"
	}
	if f, ok := obj.(interface{ FocusObjs() []any }); ok {
		s.Focus(f.FocusObjs()...)
	}
	results := make([][]string, len(progs))
	for tid, prog := range progs {
		tid, prog := tid, prog
		s.Go(func() {
			for _, op := range prog {
				r := Safe(func() string { return obj.Do(tid, op) })
				results[tid] = append(results[tid], r)
			}
		})
	}
	var trace []string
	stuck := false
	step := func(tid int) {
		l := s.Step(tid, StepTimeout)
		trace = append(trace, fmt.Sprintf("%d:%s", tid, l))
		if strings.HasSuffix(l, "!stuck") {
			stuck = true
		}
	}
	boundary := func(string) bool { return true }
	if b, ok := obj.(interface{ Boundary(label string) bool }); ok {
		boundary = b.Boundary
	}
	for i, tid := range sched {
		if tid < 0 || tid >= s.N() {
			trace = append(trace, fmt.Sprintf("%d:!nothread", tid))
			continue
		}
		step(tid)
		if star[i] {
			for k := 0; k < 200 && !s.Done(tid) && !stuck && !boundary(s.At(tid)); k++ {
				step(tid)
			}
		}
	}
	n := 0
	for !s.AllDone() && n < FinishCap && !stuck {
		for tid := 0; tid < s.N() && n < FinishCap; tid++ {
			if !s.Done(tid) {
				step(tid)
				n++
			}
		}
	}
	if !s.AllDone() {
		trace = append(trace, "cap")
		s.Release(2 * time.Second)
	}
	var rs []string
	for _, r := range results {
		rs = append(rs, strings.Join(r, ","))
	}
	fin := ""
	if s.AllDone() {
		fin = Safe(obj.Final)
	} else {
		fin = "unfinished"
	}
	return "T " + strings.Join(trace, " ") + " | R " + strings.Join(rs, ";") + " | F " + fin
}

//go:build verif

package vlib

import (
	"fmt"
	"strconv"
	"strings"
	"time"

	"github.com/tochemey/goakt/v4/internal/vsched"
)

// Obj is a concurrent object under controlled scheduling (engine E3).
// Do runs one operation on the calling logical thread (the instrumented code
// parks at vsched points inside it) and returns its canonical result.
// Final is called sequentially after every thread finished.
type Obj interface {
	Do(tid int, op string) string
	Final() string
}

// runPCT: probabilistic concurrency testing (Burckhardt et al.) over macro steps. Random thread priorities,
// depth-1 random priority change points among the first k macro steps; always runs the highest-priority
// thread that is not done; a thread that blocks or spins for long is demoted.
func runPCT(s *vsched.Sched, p []int64, step func(int), boundary func(string) bool, stuck *bool) {
	seed, depth, k := p[0], int(p[1]), int(p[2])
	if depth < 1 {
		depth = 1
	}
	if k < 1 {
		k = 1
	}
	x := uint64(seed)*0x9E3779B97F4A7C15 + 0xD1B54A32D192ED03
	next := func(n int) int {
		x ^= x << 13
		x ^= x >> 7
		x ^= x << 17
		return int(x % uint64(n))
	}
	n := s.N()
	prio := make([]int, n)
	perm := make([]int, n)
	for i := range perm {
		perm[i] = i
	}
	for i := n - 1; i > 0; i-- {
		j := next(i + 1)
		perm[i], perm[j] = perm[j], perm[i]
	}
	for i, t := range perm {
		prio[t] = depth + i
	}
	change := map[int]int{}
	for i := 0; i < depth-1; i++ {
		change[1+next(k)] = depth - 2 - i
	}
	low := 0
	run := make([]int, n)
	for steps := 1; steps < 4*FinishCap && !s.AllDone() && !*stuck; steps++ {
		best := -1
		for t := 0; t < n; t++ {
			if !s.Done(t) && (best < 0 || prio[t] > prio[best]) {
				best = t
			}
		}
		if best < 0 {
			return
		}
		before := s.At(best)
		step(best)
		for i := 0; i < 200 && !s.Done(best) && !*stuck && !boundary(s.At(best)); i++ {
			step(best)
		}
		run[best]++
		if v, ok := change[steps]; ok {
			prio[best] = v
		}
		// a thread that spins on the same point (blocked lock, wait loop) yields to everybody else
		if !s.Done(best) && s.At(best) == before && run[best] > 8 {
			low--
			prio[best] = low
			run[best] = 0
		}
	}
}

// StepTimeout bounds one controlled step (a thread that does not reach its next
// point in time is reported as stuck, never waited for forever).
var StepTimeout = 3 * time.Second

// FinishCap bounds the deterministic completion phase.
const FinishCap = 4000

// RunConc executes one case:   cfg | prog0 ; prog1 ; … | schedule
// Output:  T <tid:label …> | R <r,r,…;r,…> | F <final>
// After the schedule is exhausted the remaining threads are completed
// deterministically: round-robin, one step each, lowest tid first, at most
// FinishCap steps (then `cap` is appended to the trace).
func RunConc(line string, mk func(cfg string, nthreads int) Obj) string {
	parts := strings.Split(line, "|")
	if len(parts) != 3 {
		return "bad-case"
	}
	cfg := strings.TrimSpace(parts[0])
	var progs [][]string
	for _, p := range strings.Split(parts[1], ";") {
		progs = append(progs, strings.Fields(p))
	}
	// schedule entries: `<tid>` = one step; `<tid>*` = macro step (search only, not replayed by the Lean
	// models): step thread tid until it is parked at a label of the object's boundary set (or done)
	var sched []int
	var star []bool
	var pct []int64
	schedFields := strings.Fields(parts[2])
	if len(schedFields) == 4 && schedFields[0] == "pct" {
		// `pct <seed> <depth> <k>`: online PCT scheduler over macro steps (search only; deterministic for a seed)
		for _, f := range schedFields[1:] {
			n, err := strconv.ParseInt(f, 10, 64)
			if err != nil {
				return "bad-case"
			}
			pct = append(pct, n)
		}
		schedFields = nil
	}
	for _, s := range schedFields {
		st := strings.HasSuffix(s, "*")
		n, err := strconv.Atoi(strings.TrimSuffix(s, "*"))
		if err != nil {
			return "bad-case"
		}
		sched = append(sched, n)
		star = append(star, st)
	}
	s := vsched.New()
	obj := mk(cfg, len(progs))
	if obj == nil {
		return "bad-case"
	}
	if f, ok := obj.(interface{ FocusObjs() []any }); ok {
		s.Focus(f.FocusObjs()...)
	}
	results := make([][]string, len(progs))
	for tid, prog := range progs {
		tid, prog := tid, prog
		s.Go(func() {
			for _, op := range prog {
				r := Safe(func() string { return obj.Do(tid, op) })
				results[tid] = append(results[tid], r)
			}
		})
	}
	var trace []string
	stuck := false
	step := func(tid int) {
		l := s.Step(tid, StepTimeout)
		trace = append(trace, fmt.Sprintf("%d:%s", tid, l))
		if strings.HasSuffix(l, "!stuck") {
			stuck = true
		}
	}
	boundary := func(string) bool { return true }
	if b, ok := obj.(interface{ Boundary(label string) bool }); ok {
		boundary = b.Boundary
	}
	if pct != nil {
		runPCT(s, pct, step, boundary, &stuck)
	}
	for i, tid := range sched {
		if tid < 0 || tid >= s.N() {
			trace = append(trace, fmt.Sprintf("%d:!nothread", tid))
			continue
		}
		step(tid)
		if star[i] {
			for k := 0; k < 200 && !s.Done(tid) && !stuck && !boundary(s.At(tid)); k++ {
				step(tid)
			}
		}
	}
	n := 0
	for !s.AllDone() && n < FinishCap && !stuck {
		for tid := 0; tid < s.N() && n < FinishCap; tid++ {
			if !s.Done(tid) {
				step(tid)
				n++
			}
		}
	}
	capped := false
	var rs []string
	if !s.AllDone() {
		capped = true
		// results as they stand at the cap (what the model reports); what happens after the release is not compared
		for _, r := range results {
			rs = append(rs, strings.Join(r, ","))
		}
		trace = append(trace, "cap")
		// let the object unblock threads that wait for a condition only it can establish (e.g. a restart
		// spinning until the actor is idle), then let everything run freely to its end
		if a, ok := obj.(interface{ Abort() }); ok {
			go a.Abort()
		}
		s.Release(3 * time.Second)
	}
	if !capped {
		for _, r := range results {
			rs = append(rs, strings.Join(r, ","))
		}
	}
	fin := ""
	if s.AllDone() && !capped {
		fin = Safe(obj.Final)
	} else {
		fin = "unfinished"
	}
	return "T " + strings.Join(trace, " ") + " | R " + strings.Join(rs, ";") + " | F " + fin
}

//go:build verif

// C30 harness (engine E3): goakt's grain activation protocol on several in-process
// nodes sharing one fake cluster registry, under controlled schedules.
//
//	c30 <nnodes> <node of thread 0> <node of thread 1> … | prog0 ; prog1 ; … | schedule
//
// ops (executed by a logical thread on its node):
//
//	s   ensureGrainProcess (what every delivery to the grain runs first)
//	sa  the same, with the next OnActivate of that node failing
//	sp  the same, with the next plain registry put of that node failing (publication failure → rollback)
//	d   grainPID.deactivate on the process in the node's local table
//	t   time passes: every registry record written with an expiry option disappears (none is, in the code as it is)
//
// schedule points: op:<op> (start of an operation), Load:running + RLock:mu/Lock:mu
// (every registry operation of internal/cluster/cluster.go; the store access itself
// happens in the step that takes the lock), grain:OnActivate, grain:OnDeactivate.
package main

import (
	"context"
	"fmt"
	"strconv"
	"strings"

	"github.com/tochemey/goakt/v4/actor"
	"github.com/tochemey/goakt/v4/internal/cluster"
	"github.com/tochemey/goakt/v4/internal/verifdrv/vlib"
	"github.com/tochemey/goakt/v4/internal/vsched"
)

type world struct {
	reg     *cluster.VerifRegistry
	gw      *actor.VerifGrainWorld
	nodes   []*actor.VerifGrainNode
	thrNode []int
}

func (o *world) Do(tid int, op string) string {
	if tid < 0 || tid >= len(o.thrNode) {
		return "bad-op"
	}
	idx := o.thrNode[tid]
	n := o.nodes[idx]
	ctx := context.Background()
	switch op {
	case "s", "sa", "sp", "d", "t":
	default:
		return "bad-op"
	}
	vsched.Point("op:" + op)
	switch op {
	case "s":
		return n.Send(ctx)
	case "sa":
		o.gw.FailNextActivate(idx)
		r := n.Send(ctx)
		o.gw.ClearFail(idx)
		return r
	case "sp":
		o.reg.FailNext(idx, "put")
		r := n.Send(ctx)
		o.reg.ClearFail(idx)
		return r
	case "d":
		return n.Deactivate(ctx)
	case "t":
		if k := o.reg.ExpireLeases(); k > 0 {
			return "expired" + strconv.Itoa(k)
		}
		return "tick"
	}
	return "bad-op"
}

func (o *world) Final() string {
	owner := "none"
	if b, ok := o.reg.Raw(cluster.VerifGrainKey(o.nodes[0].Key())); ok {
		hp := cluster.VerifDecodeGrainOwner(b)
		owner = hp
		if i := strings.LastIndex(hp, ":"); i >= 0 {
			if p, err := strconv.Atoi(hp[i+1:]); err == nil {
				owner = strconv.Itoa(p - actor.VerifGrainBasePort)
			}
		}
	}
	var tbl, act []string
	for _, n := range o.nodes {
		tbl = append(tbl, n.Local())
	}
	for _, a := range o.gw.Active(len(o.nodes)) {
		act = append(act, strconv.Itoa(a))
	}
	return fmt.Sprintf("R=%s tbl=%s act=%s max=%d ev=%s log=%s", owner, strings.Join(tbl, ""), strings.Join(act, ","),
		o.gw.Max(), strings.Join(o.gw.Events(), ","), strings.ReplaceAll(o.reg.Log(), " ", ","))
}

func mk(cfg string, nthreads int) vlib.Obj {
	f := strings.Fields(cfg)
	if len(f) < 2 || f[0] != "c30" {
		return nil
	}
	nn, err := strconv.Atoi(f[1])
	if err != nil || nn < 1 || nn > 8 || len(f) != 2+nthreads {
		return nil
	}
	o := &world{reg: cluster.VerifNewRegistry(nn), gw: actor.VerifNewGrainWorld()}
	for _, s := range f[2:] {
		k, err := strconv.Atoi(s)
		if err != nil || k < 0 || k >= nn {
			return nil
		}
		o.thrNode = append(o.thrNode, k)
	}
	for i := 0; i < nn; i++ {
		cl := cluster.VerifNewCluster(o.reg, i, actor.VerifDiscoveryNode(i))
		o.nodes = append(o.nodes, actor.VerifNewGrainNode(o.gw, i, cl, "g"))
	}
	return o
}

func main() { vlib.Loop(func(line string) string { return vlib.RunConc(line, mk) }) }

//go:build verif

// C29 harness: a REAL actor system with remoting on 127.0.0.1 (receiver: the real remoteTellHandler /
// remoteAskHandler / messageMetadata / extractContextWithPropagator) and a REAL remoteclient.Client
// (sender: injectMessageMetadata / enrichContext, coalescer on for mode tell), both configured with a
// recording ContextPropagator.  Every caller is a goroutine with its own header map in its context;
// callers run concurrently, so their messages share coalesced batches in arbitrary ways.  The sink
// actor records, per message id, the headers its ReceiveContext.Context() carries.
//
//	prop <tell|stell|ask|bask> <maxBatch> <reps> | <spec> | <spec> ...
//	  spec: `-` (no headers) or comma-separated entries  key=v1;v2  (http.Header.Add per value) or
//	        ~key=v1;v2 (raw map assignment, the key is NOT canonicalised by the propagator)
//
//	seq <maxBatch> | <a|b|s|t>:<spec> | ...   ONE client (coalescing on), ONE goroutine pinned to its OS
//	  thread, the steps in order: a / s = RemoteAsk (10 s / 5 s timeout), b = RemoteBatchAsk of 2,
//	  t = coalesced RemoteTell.
//	  Consecutive calls of different kinds with different (shrinking) key sets: nothing of an earlier
//	  call's headers may show up in a later message.  Output: one token per step  i.0[...]
//
// output: one token per message  i.j[K=v,K2=v2]  (keys sorted), sorted by caller and message;
// for ask/bask the reply must carry the same headers and (bask) arrive in request order, else the
// token is suffixed with !reply
package main

import (
	"context"
	"fmt"
	"net/http"
	"runtime"
	"sort"
	"strconv"
	"strings"
	"sync"
	"time"

	"google.golang.org/protobuf/types/known/wrapperspb"

	"github.com/tochemey/goakt/v4/actor"
	"github.com/tochemey/goakt/v4/internal/address"
	"github.com/tochemey/goakt/v4/internal/net"
	"github.com/tochemey/goakt/v4/internal/remoteclient"
	"github.com/tochemey/goakt/v4/internal/verifdrv/vlib"
	"github.com/tochemey/goakt/v4/log"
	"github.com/tochemey/goakt/v4/remote"
)

type sendKey struct{}
type recvKey struct{}

type entry struct {
	key  string
	vals []string
	raw  bool
}

// recorder is the ContextPropagator used on both sides.
type recorder struct{}

func (recorder) Inject(ctx context.Context, h http.Header) error {
	es, _ := ctx.Value(sendKey{}).([]entry)
	for _, e := range es {
		if e.raw {
			h[e.key] = append(h[e.key], e.vals...)
		} else {
			for _, v := range e.vals {
				h.Add(e.key, v)
			}
		}
	}
	return nil
}

func (recorder) Extract(ctx context.Context, h http.Header) (context.Context, error) {
	return context.WithValue(ctx, recvKey{}, h.Clone()), nil
}

func canon(h http.Header) string {
	keys := make([]string, 0, len(h))
	for k := range h {
		keys = append(keys, k)
	}
	sort.Strings(keys)
	parts := make([]string, len(keys))
	for i, k := range keys {
		parts[i] = k + "=" + strings.Join(h[k], ";")
	}
	return strings.Join(parts, ",")
}

type sink struct {
	mu   sync.Mutex
	seen map[string]string
	n    int
	cond *sync.Cond
}

var theSink = func() *sink { s := &sink{seen: map[string]string{}}; s.cond = sync.NewCond(&s.mu); return s }()

func (*sink) PreStart(*actor.Context) error { return nil }
func (*sink) PostStop(*actor.Context) error { return nil }
func (s *sink) Receive(ctx *actor.ReceiveContext) {
	m, ok := ctx.Message().(*wrapperspb.StringValue)
	if !ok {
		return
	}
	h, _ := ctx.Context().Value(recvKey{}).(http.Header)
	c := canon(h)
	s.mu.Lock()
	s.seen[m.GetValue()] = c
	s.n++
	s.cond.Broadcast()
	s.mu.Unlock()
	if strings.Contains(m.GetValue(), "A") {
		ctx.Response(wrapperspb.String(m.GetValue() + "#" + c))
	}
}

var (
	sys      actor.ActorSystem
	sysErr   string
	host     = "127.0.0.1"
	port     int
	caseNo   int
	sinkAddr *address.Address
)

func startSystem() {
	ctx := context.Background()
	port = net.Get(1)[0]
	s, err := actor.NewActorSystem("c29recv", actor.WithLogger(log.DiscardLogger),
		actor.WithRemote(remote.NewConfig(host, port, remote.WithContextPropagator(recorder{}))))
	if err == nil {
		err = s.Start(ctx)
	}
	if err != nil {
		sysErr = err.Error()
		return
	}
	sys = s
	time.Sleep(200 * time.Millisecond)
	if _, err := sys.Spawn(ctx, "sink", theSink); err != nil {
		sysErr = err.Error()
		return
	}
	cl := remoteclient.NewClient()
	defer cl.Close()
	a, err := cl.RemoteLookup(ctx, host, port, "sink")
	if err != nil || a == nil {
		sysErr = fmt.Sprint("lookup: ", err)
		return
	}
	sinkAddr = a
}

func parseSpec(s string) ([]entry, bool) {
	s = strings.TrimSpace(s)
	if s == "-" || s == "" {
		return nil, true
	}
	var es []entry
	for _, part := range strings.Split(s, ",") {
		kv := strings.SplitN(part, "=", 2)
		if len(kv) != 2 || kv[0] == "" {
			return nil, false
		}
		e := entry{key: kv[0], vals: strings.Split(kv[1], ";")}
		if strings.HasPrefix(e.key, "~") {
			e.raw, e.key = true, e.key[1:]
		}
		es = append(es, e)
	}
	return es, true
}

// handleSeq: mixed request-level and per-message calls, one after the other, on one client.
func handleSeq(parts []string, f []string) string {
	mb, err := strconv.Atoi(f[1])
	if err != nil || mb < 1 || len(parts) < 2 || len(parts) > 40 {
		return "bad-case"
	}
	type step struct {
		kind byte
		es   []entry
	}
	var steps []step
	for _, p := range parts[1:] {
		p = strings.TrimSpace(p)
		if len(p) < 2 || p[1] != ':' || !strings.ContainsRune("abst", rune(p[0])) {
			return "bad-case"
		}
		es, ok := parseSpec(p[2:])
		if !ok {
			return "bad-case"
		}
		steps = append(steps, step{p[0], es})
	}
	caseNo++
	cl := remoteclient.NewClient(remoteclient.WithClientContextPropagator(recorder{}), remoteclient.WithSendCoalescing(mb))
	defer cl.Close()
	from := address.NoSender()
	id := func(i int, ask bool) string {
		if ask {
			return fmt.Sprintf("%dA%d.0", caseNo, i)
		}
		return fmt.Sprintf("%dT%d.0", caseNo, i)
	}
	ids := make([]string, len(steps))
	errc := make(chan string, 1)
	go func() {
		// sync.Pool caches are per P: stay on one thread so that a pooled object put by one call is
		// the one the next call gets
		runtime.LockOSThread()
		defer runtime.UnlockOSThread()
		for i, st := range steps {
			ctx := context.WithValue(context.Background(), sendKey{}, st.es)
			var err error
			switch st.kind {
			case 't':
				ids[i] = id(i, false)
				err = cl.RemoteTell(ctx, from, sinkAddr, wrapperspb.String(ids[i]))
			case 'a':
				ids[i] = id(i, true)
				_, err = cl.RemoteAsk(ctx, from, sinkAddr, wrapperspb.String(ids[i]), 10*time.Second)
			case 's':
				ids[i] = id(i, true)
				_, err = cl.RemoteAsk(ctx, from, sinkAddr, wrapperspb.String(ids[i]), 5*time.Second)
			case 'b':
				ids[i] = id(i, true)
				_, err = cl.RemoteBatchAsk(ctx, from, sinkAddr, []any{wrapperspb.String(ids[i]), wrapperspb.String(ids[i] + "x")}, 10*time.Second)
			}
			if err != nil {
				errc <- err.Error()
				return
			}
		}
		errc <- ""
	}()
	if e := <-errc; e != "" {
		return "SEND-ERROR " + vlib.Canon(e)
	}
	deadline := time.Now().Add(15 * time.Second)
	for {
		theSink.mu.Lock()
		n := 0
		for _, k := range ids {
			if _, ok := theSink.seen[k]; ok {
				n++
			}
		}
		theSink.mu.Unlock()
		if n == len(ids) {
			break
		}
		if time.Now().After(deadline) {
			return fmt.Sprintf("MISSING %d of %d", len(ids)-n, len(ids))
		}
		time.Sleep(2 * time.Millisecond)
	}
	var out []string
	theSink.mu.Lock()
	for i, k := range ids {
		out = append(out, fmt.Sprintf("%d.0[%s]", i, theSink.seen[k]))
		delete(theSink.seen, k)
		delete(theSink.seen, k+"x")
	}
	theSink.mu.Unlock()
	return strings.Join(out, " ")
}

func handle(line string) string {
	if sysErr != "" {
		return "system-error " + sysErr
	}
	parts := strings.Split(line, "|")
	f := vlib.Fields(parts[0])
	if len(f) == 2 && f[0] == "seq" {
		return handleSeq(parts, f)
	}
	if len(f) != 4 || f[0] != "prop" || len(parts) < 2 {
		return "bad-case"
	}
	mode := f[1]
	mb, err1 := strconv.Atoi(f[2])
	reps, err2 := strconv.Atoi(f[3])
	if err1 != nil || err2 != nil || mb < 1 || reps < 1 || reps > 16 {
		return "bad-case"
	}
	var specs [][]entry
	for _, p := range parts[1:] {
		es, ok := parseSpec(p)
		if !ok {
			return "bad-case"
		}
		specs = append(specs, es)
	}
	caseNo++
	opts := []remoteclient.ClientOption{remoteclient.WithClientContextPropagator(recorder{})}
	switch mode {
	case "tell":
		opts = append(opts, remoteclient.WithSendCoalescing(mb))
	case "stell", "ask", "bask":
	default:
		return "bad-case"
	}
	cl := remoteclient.NewClient(opts...)
	defer cl.Close()
	from := address.NoSender()
	id := func(i, j int) string {
		tag := "T"
		if mode == "ask" || mode == "bask" {
			tag = "A"
		}
		return fmt.Sprintf("%d%s%d.%d", caseNo, tag, i, j)
	}
	replyBad := map[string]bool{}
	var rmu sync.Mutex
	var sendErr string
	var wg sync.WaitGroup
	start := make(chan struct{})
	for i := range specs {
		wg.Add(1)
		go func(i int) {
			defer wg.Done()
			ctx := context.WithValue(context.Background(), sendKey{}, specs[i])
			<-start
			fail := func(err error) {
				rmu.Lock()
				sendErr = err.Error()
				rmu.Unlock()
			}
			checkReply := func(want string, got any) {
				v, ok := got.(*wrapperspb.StringValue)
				bad := !ok || !strings.HasPrefix(v.GetValue(), want+"#")
				if !bad {
					theSink.mu.Lock()
					bad = v.GetValue() != want+"#"+theSink.seen[want]
					theSink.mu.Unlock()
				}
				if bad {
					rmu.Lock()
					replyBad[want] = true
					rmu.Unlock()
				}
			}
			switch mode {
			case "tell", "stell":
				for j := 0; j < reps; j++ {
					if err := cl.RemoteTell(ctx, from, sinkAddr, wrapperspb.String(id(i, j))); err != nil {
						fail(err)
						return
					}
				}
			case "ask":
				for j := 0; j < reps; j++ {
					r, err := cl.RemoteAsk(ctx, from, sinkAddr, wrapperspb.String(id(i, j)), 10*time.Second)
					if err != nil {
						fail(err)
						return
					}
					checkReply(id(i, j), r)
				}
			case "bask":
				msgs := make([]any, reps)
				for j := range msgs {
					msgs[j] = wrapperspb.String(id(i, j))
				}
				rs, err := cl.RemoteBatchAsk(ctx, from, sinkAddr, msgs, 10*time.Second)
				if err != nil {
					fail(err)
					return
				}
				if len(rs) != reps {
					fail(fmt.Errorf("%d replies for %d requests", len(rs), reps))
					return
				}
				for j, r := range rs {
					checkReply(id(i, j), r) // reply j must answer request j
				}
			}
		}(i)
	}
	close(start)
	wg.Wait()
	if sendErr != "" {
		return "SEND-ERROR " + vlib.Canon(sendErr)
	}
	// tells are asynchronous: wait until the sink has seen them all
	want := len(specs) * reps
	deadline := time.Now().Add(15 * time.Second)
	for {
		theSink.mu.Lock()
		n := 0
		for i := range specs {
			for j := 0; j < reps; j++ {
				if _, ok := theSink.seen[id(i, j)]; ok {
					n++
				}
			}
		}
		theSink.mu.Unlock()
		if n == want {
			break
		}
		if time.Now().After(deadline) {
			return fmt.Sprintf("MISSING %d of %d", want-n, want)
		}
		time.Sleep(2 * time.Millisecond)
	}
	var out []string
	theSink.mu.Lock()
	for i := range specs {
		for j := 0; j < reps; j++ {
			k := id(i, j)
			tok := fmt.Sprintf("%d.%d[%s]", i, j, theSink.seen[k])
			if replyBad[k] {
				tok += "!reply"
			}
			out = append(out, tok)
			delete(theSink.seen, k)
		}
	}
	theSink.mu.Unlock()
	return strings.Join(out, " ")
}

func main() {
	startSystem()
	vlib.Loop(handle)
}

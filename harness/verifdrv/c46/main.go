//go:build verif

// C46 harness: stream junctions on the REAL goakt stream package.
//
// End to end (public API, counting sinks, 10 s timeout => "timeout"):
//
//	mg <src>/<src>/...            Merge of Of(...) sources          -> `done|… n=.. | elems`   (mgb/ccb/zpb: slow consumer)
//	cc <src>/<src>/...            Concat
//	zp <src>/<src>/...            Zip                                -> elements are [a,b,..] tuples
//	bc <n> <src>                  Broadcast to n branches            -> `st n | elems ## st n | elems ...` (one per branch)
//	bl <n> <src> [pm:w]           Balance (optionally behind a ParallelMap(w, +0) in the source pipeline)
//	blb <n> <src> pm:w            same with sinks that block until the shared upstream pipeline has stopped
//	pt <n> <m> <src>              Partition with selector x -> (x mod m) (m > n gives out-of-range selections, dropped by contract)
//	a source is a comma list of ints or `-` for empty.
//
// One real junction actor, message by message (VerifRig):
//
//	ja merge|concat|zip <n> | ev...        rN request, vS:V sub-value of slot S, dS sub-done of slot S, k cancel
//	jh bchub|blhub|pthub <n> <m> | ev...   sS:N slotDemand, eV element, c complete, xID error, qS slotCancel
//	js bcslot|blslot|ptslot | ev...        rN request, h hubReady, eV element, c, xID, k cancel
package main

import (
	"context"
	"errors"
	"fmt"
	"os"
	"strconv"
	"strings"
	"sync"
	"sync/atomic"
	"time"

	"github.com/tochemey/goakt/v4/actor"
	"github.com/tochemey/goakt/v4/internal/verifdrv/vlib"
	"github.com/tochemey/goakt/v4/log"
	"github.com/tochemey/goakt/v4/stream"
)

var (
	sys actor.ActorSystem
	ctx = context.Background()
)

func atoi(s string) int {
	n, err := strconv.Atoi(s)
	if err != nil {
		panic("bad-int " + s)
	}
	return n
}

func emod(x, m int) int {
	r := x % m
	if r < 0 {
		r += m
	}
	return r
}

func parseInts(s string) []int {
	if s == "-" || s == "" {
		return nil
	}
	var out []int
	for _, p := range strings.Split(s, ",") {
		out = append(out, atoi(p))
	}
	return out
}

func parseSources(s string) []stream.Source[int] {
	var out []stream.Source[int]
	for _, p := range strings.Split(s, "/") {
		out = append(out, stream.Of(parseInts(p)...))
	}
	return out
}

// collector is one counting sink
type collector struct {
	mu    sync.Mutex
	got   []string
	hooks atomic.Int64
	gate  chan struct{}
}

func newCollector(blocked bool) *collector {
	c := &collector{gate: make(chan struct{})}
	if !blocked {
		close(c.gate)
	}
	return c
}

func (c *collector) rec(v any) error {
	<-c.gate
	c.mu.Lock()
	c.got = append(c.got, stream.VerifFmt(v))
	c.mu.Unlock()
	return nil
}

func (c *collector) result(h stream.StreamHandle, deadline <-chan time.Time) string {
	status := "done"
	select {
	case <-h.Done():
		if e := h.Err(); e != nil {
			status = "err=" + e.Error()
		}
	case <-deadline:
		status = "timeout"
		h.Abort()
	}
	c.mu.Lock()
	defer c.mu.Unlock()
	return fmt.Sprintf("%s n=%d | %s", status, c.hooks.Load(), strings.Join(c.got, " "))
}

func runOne[T any](src stream.Source[T], blocked bool) string {
	c := newCollector(blocked)
	g := src.To(stream.VerifCountingSink(func(v T) error { return c.rec(v) }, func() { c.hooks.Add(1) }))
	h, err := g.Run(ctx, sys)
	if err != nil {
		return "run-error " + err.Error()
	}
	if blocked {
		// slow consumer: hold the sink while the sub-pipelines run to their end, so that the junction actor has
		// to buffer what exceeds the sink's demand window
		time.Sleep(400 * time.Millisecond)
		close(c.gate)
	}
	return c.result(h, time.After(10*time.Second))
}

func runBranches(branches []stream.Source[int], blocked bool) string {
	cs := make([]*collector, len(branches))
	hs := make([]stream.StreamHandle, len(branches))
	for i, b := range branches {
		c := newCollector(blocked)
		cs[i] = c
		h, err := b.To(stream.VerifCountingSink(func(v int) error { return c.rec(v) }, func() { c.hooks.Add(1) })).Run(ctx, sys)
		if err != nil {
			return "run-error " + err.Error()
		}
		hs[i] = h
	}
	if blocked {
		// slow consumers: hold every branch sink until the shared upstream pipeline has had time to finish
		time.Sleep(400 * time.Millisecond)
		for _, c := range cs {
			close(c.gate)
		}
	}
	deadline := time.After(10 * time.Second)
	res := make([]string, len(branches))
	for i := range branches {
		res[i] = cs[i].result(hs[i], deadline)
	}
	return strings.Join(res, " ## ")
}

func withPM(src stream.Source[int], f []string, at int) stream.Source[int] {
	if len(f) > at && strings.HasPrefix(f[at], "pm:") {
		w := atoi(strings.TrimPrefix(f[at], "pm:"))
		return stream.Via(src, stream.ParallelMap(w, func(x int) int { return x }))
	}
	return src
}

func handleE2E(f []string) string {
	switch f[0] {
	case "mg", "mgb":
		return runOne(stream.Merge(parseSources(f[1])...), f[0] == "mgb")
	case "cc", "ccb":
		return runOne(stream.Concat(parseSources(f[1])...), f[0] == "ccb")
	case "zp", "zpb":
		return runOne(stream.Zip(parseSources(f[1])...), f[0] == "zpb")
	case "bc":
		return runBranches(stream.Broadcast(stream.Of(parseInts(f[2])...), atoi(f[1])), false)
	case "bl":
		return runBranches(stream.Balance(withPM(stream.Of(parseInts(f[2])...), f, 3), atoi(f[1])), false)
	case "blb":
		return runBranches(stream.Balance(withPM(stream.Of(parseInts(f[2])...), f, 3), atoi(f[1])), true)
	case "pt":
		n, m := atoi(f[1]), atoi(f[2])
		return runBranches(stream.Partition(stream.Of(parseInts(f[3])...), n, func(x int) int { return emod(x, m) }), false)
	}
	return "bad-case"
}

func render(rig *stream.VerifRig, out []string) string {
	s := strings.Join(out, ";")
	if s == "" {
		s = "-"
	}
	return s + "{" + rig.State() + "}"
}

func handleActor(line string) string {
	halves := strings.SplitN(line, "|", 2)
	f := vlib.Fields(halves[0])
	evs := []string{}
	if len(halves) > 1 {
		evs = vlib.Fields(halves[1])
	}
	var rig *stream.VerifRig
	var out0 []string
	var err error
	switch f[0] {
	case "ja":
		a := stream.VerifJunctionSource(f[1], atoi(f[2]), sys)
		rig, out0, err = stream.VerifNewRig(ctx, sys, a, false, true)
	case "jh":
		m := atoi(f[3])
		rig, out0, err = stream.VerifNewHubRig(ctx, sys, f[1], atoi(f[2]), func(x int) int { return emod(x, m) })
	case "js":
		rig, out0, err = stream.VerifNewRig(ctx, sys, stream.VerifSlotActor(f[1]), true, true)
	}
	if err != nil {
		return "rig-error " + err.Error()
	}
	defer rig.Close(ctx)
	res := []string{render(rig, out0)}
	for _, ev := range evs {
		var out []string
		var err error
		arg := ev[1:]
		switch ev[0] {
		case 'r':
			out, err = rig.Request(ctx, int64(atoi(arg)))
		case 'v':
			p := strings.SplitN(arg, ":", 2)
			out, err = rig.SubValue(ctx, atoi(p[0]), atoi(p[1]))
		case 'd':
			out, err = rig.SubDone(ctx, atoi(arg))
		case 'k':
			out, err = rig.Cancel(ctx)
		case 's':
			p := strings.SplitN(arg, ":", 2)
			out, err = rig.SlotDemand(ctx, atoi(p[0]), int64(atoi(p[1])))
		case 'q':
			out, err = rig.SlotCancel(ctx, atoi(arg))
		case 'e':
			out, err = rig.Element(ctx, atoi(arg))
		case 'c':
			out, err = rig.Complete(ctx)
		case 'x':
			out, err = rig.Error(ctx, errors.New(arg))
		case 'h':
			out, err = rig.HubReady(ctx)
		default:
			return "bad-case"
		}
		if err != nil {
			return "step-error " + err.Error() + " after " + strings.Join(res, " ")
		}
		res = append(res, render(rig, out))
	}
	return strings.Join(res, " ")
}

func handle(line string) string {
	f := vlib.Fields(line)
	if len(f) == 0 {
		return "bad-case"
	}
	switch f[0] {
	case "ja", "jh", "js":
		return handleActor(line)
	}
	res := handleE2E(f)
	for i := 0; i < 2 && strings.Contains(res, "timeout"); i++ {
		res = handleE2E(f)
	}
	return res
}

func main() {
	var err error
	sys, err = actor.NewActorSystem("verifc46", actor.WithLogger(log.DiscardLogger))
	if err != nil {
		fmt.Fprintln(os.Stderr, err)
		os.Exit(2)
	}
	if err = sys.Start(ctx); err != nil {
		fmt.Fprintln(os.Stderr, err)
		os.Exit(2)
	}
	vlib.Loop(handle)
	_ = sys.Stop(ctx)
}

//go:build verif

// C42/C43 harness: one case line = `<window> <deliveryConfirmation> op op ...`; the scenario engine lives
// in-package (harness/inpkg/actor/zz_verif_c42.go) because it drives unexported controller types.
package main

import (
	"github.com/tochemey/goakt/v4/actor"
	"github.com/tochemey/goakt/v4/internal/verifdrv/vlib"
)

func main() { vlib.Loop(actor.VerifC42Run) }

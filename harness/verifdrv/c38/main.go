//go:build verif

// C38 harness: drives the real crdt package.  A case is
//
//	<ty> <nv> <op> <op> ... [L]
//
// ty ∈ gc pn fl lw mv os om; nv variables v0..v(nv-1), all starting as New<T>().  Ops (fields
// separated by ':', d/a/b are variable indices):
//
//	m:d:a:b   v[d] = v[a].Merge(v[b])        c:d:a   v[d] = v[a].Clone()
//	r:a       v[a].ResetDelta() (in place)   D:d:a   v[d] = v[a].Delta() (a fresh New<T>() and marker N when nil)
//	gc/pn  i:d:a:n:v  Increment(node n, v)    pn  k:d:a:n:v  Decrement
//	fl     e:d:a      Enable()
//	lw     s:d:a:v:ts:n  Set(v, time.Unix(0,ts), node n)
//	mv     s:d:a:n:v  Set(node n, v)
//	os     a:d:a:n:e  Add(node n, e)   x:d:a:e  Remove(e)   p:d:a  Compact()
//	om     s:d:a:n:k:gn:gv  Set(node n, key k, NewGCounter().Increment(node gn, gv))   x:d:a:k  Remove(k)   p:d:a  Compact()
//	L      law section (last): dumps of every variable, of Merge for every ordered pair, of both
//	       groupings of every triple, plus a purity verdict (inputs dumped before and after every
//	       Merge/Clone, and after mutating the result).
//
// Output: one segment per op, joined by '|'; a segment lists `i=<dump>` for every variable whose dump
// changed (joined by ';'), so unintended sharing between variables shows up as an extra change.
package main

import (
	"fmt"
	"strconv"
	"strings"
	"time"

	"github.com/tochemey/goakt/v4/crdt"
	"github.com/tochemey/goakt/v4/internal/verifdrv/vlib"
)

type rd = crdt.ReplicatedData

func newOf(ty string) rd {
	switch ty {
	case "gc":
		return crdt.NewGCounter()
	case "pn":
		return crdt.NewPNCounter()
	case "fl":
		return crdt.NewFlag()
	case "lw":
		return crdt.NewLWWRegister()
	case "mv":
		return crdt.NewMVRegister()
	case "os":
		return crdt.NewORSet()
	case "om":
		return crdt.NewORMap()
	}
	return nil
}

func atoi(s string) int {
	n, err := strconv.Atoi(s)
	if err != nil {
		panic("bad-int " + s)
	}
	return n
}

func atou(s string) uint64 {
	n, err := strconv.ParseUint(s, 10, 64)
	if err != nil {
		panic("bad-uint " + s)
	}
	return n
}

// typeOp applies a type specific operation to src.
func typeOp(ty string, f []string, src rd) (rd, bool) {
	switch ty + f[0] {
	case "gci":
		return src.(*crdt.GCounter).Increment(crdt.VerifNodeName(atoi(f[3])), atou(f[4])), true
	case "pni":
		return src.(*crdt.PNCounter).Increment(crdt.VerifNodeName(atoi(f[3])), atou(f[4])), true
	case "pnk":
		return src.(*crdt.PNCounter).Decrement(crdt.VerifNodeName(atoi(f[3])), atou(f[4])), true
	case "fle":
		return src.(*crdt.Flag).Enable(), true
	case "lws":
		ts, err := strconv.ParseInt(f[4], 10, 64)
		if err != nil {
			panic("bad-int " + f[4])
		}
		return src.(*crdt.LWWRegister).Set(atoi(f[3]), time.Unix(0, ts), crdt.VerifNodeName(atoi(f[5]))), true
	case "mvs":
		return src.(*crdt.MVRegister).Set(crdt.VerifNodeName(atoi(f[3])), atoi(f[4])), true
	case "osa":
		return src.(*crdt.ORSet).Add(crdt.VerifNodeName(atoi(f[3])), atoi(f[4])), true
	case "osx":
		return src.(*crdt.ORSet).Remove(atoi(f[3])), true
	case "osp":
		return src.(*crdt.ORSet).Compact(), true
	case "oms":
		v := crdt.NewGCounter().Increment(crdt.VerifNodeName(atoi(f[5])), atou(f[6]))
		return src.(*crdt.ORMap).Set(crdt.VerifNodeName(atoi(f[3])), atoi(f[4]), v), true
	case "omx":
		return src.(*crdt.ORMap).Remove(atoi(f[3])), true
	case "omp":
		return src.(*crdt.ORMap).Compact(), true
	}
	return nil, false
}

func handle(line string) string {
	fs := vlib.Fields(line)
	if len(fs) < 2 {
		return "bad-case"
	}
	ty := fs[0]
	nv, err := strconv.Atoi(fs[1])
	if err != nil || nv < 1 || nv > 8 || newOf(ty) == nil {
		return "bad-case"
	}
	vars := make([]rd, nv)
	prev := make([]string, nv)
	for i := range vars {
		vars[i] = newOf(ty)
		prev[i] = crdt.VerifDump(vars[i])
	}
	var segs []string
	for _, tok := range fs[2:] {
		f := strings.Split(tok, ":")
		marker := ""
		ix := func(k int) int {
			if k >= len(f) {
				panic("bad-case")
			}
			i := atoi(f[k])
			if i < 0 || i >= nv {
				panic("bad-case")
			}
			return i
		}
		switch f[0] {
		case "L":
			segs = append(segs, laws(ty, vars))
			continue
		case "m":
			d, a, b := ix(1), ix(2), ix(3)
			vars[d] = vars[a].Merge(vars[b])
		case "c":
			d, a := ix(1), ix(2)
			vars[d] = vars[a].Clone()
		case "r":
			vars[ix(1)].ResetDelta()
		case "D":
			d, a := ix(1), ix(2)
			dl := vars[a].Delta()
			if dl == nil {
				marker = "N"
				dl = newOf(ty)
			}
			vars[d] = dl
		default:
			d, a := ix(1), ix(2)
			res, ok := typeOp(ty, f, vars[a])
			if !ok {
				return "bad-case"
			}
			vars[d] = res
		}
		var ch []string
		if marker != "" {
			ch = append(ch, marker)
		}
		for i := range vars {
			s := crdt.VerifDump(vars[i])
			if s != prev[i] {
				ch = append(ch, fmt.Sprintf("%d=%s", i, s))
				prev[i] = s
			}
		}
		segs = append(segs, strings.Join(ch, ";"))
	}
	return strings.Join(segs, "|")
}

// laws evaluates Merge / Clone on every pair and triple of the current variables and reports the
// raw results (the oracle judges them), plus the purity verdict.
func laws(ty string, vars []rd) string {
	n := len(vars)
	before := make([]string, n)
	for i := range vars {
		before[i] = crdt.VerifDump(vars[i])
	}
	impure := ""
	check := func(what string) {
		for i := range vars {
			if s := crdt.VerifDump(vars[i]); s != before[i] && impure == "" {
				impure = fmt.Sprintf("%s changed v%d from %s to %s", what, i, before[i], s)
			}
		}
	}
	// mutate a result in every way the API allows in place, then look at the inputs again
	poke := func(r rd) {
		r.ResetDelta()
		switch x := r.(type) {
		case *crdt.GCounter:
			x.Increment("zz", 1)
		case *crdt.PNCounter:
			x.Decrement("zz", 1)
		case *crdt.ORSet:
			x.Add("zz", 424242).Remove(424242)
		case *crdt.ORMap:
			x.Set("zz", 424242, crdt.NewGCounter()).Remove(424242)
		case *crdt.MVRegister:
			x.Set("zz", 1)
		}
	}
	var out []string
	out = append(out, "L")
	for i := range vars {
		out = append(out, fmt.Sprintf("V%d=%s", i, before[i]))
	}
	for i := range vars {
		c := vars[i].Clone()
		out = append(out, fmt.Sprintf("C%d=%s", i, crdt.VerifDump(c)))
		poke(c)
		check(fmt.Sprintf("Clone(v%d)+mutation of the clone", i))
	}
	for i := range vars {
		for j := range vars {
			m := vars[i].Merge(vars[j])
			check(fmt.Sprintf("Merge(v%d,v%d)", i, j))
			out = append(out, fmt.Sprintf("M%d%d=%s", i, j, crdt.VerifDump(m)))
			poke(m)
			check(fmt.Sprintf("mutation of the result of Merge(v%d,v%d)", i, j))
		}
	}
	for i := range vars {
		for j := range vars {
			for k := range vars {
				l := vars[i].Merge(vars[j]).Merge(vars[k])
				r := vars[i].Merge(vars[j].Merge(vars[k]))
				out = append(out, fmt.Sprintf("A%d%d%d=%s", i, j, k, crdt.VerifDump(l)))
				out = append(out, fmt.Sprintf("B%d%d%d=%s", i, j, k, crdt.VerifDump(r)))
			}
		}
	}
	check("nested merges")
	if impure == "" {
		out = append(out, "P=ok")
	} else {
		out = append(out, "P=impure: "+impure)
	}
	return strings.Join(out, ";")
}

func main() { vlib.Loop(handle) }

//go:build verif

// C22 harness: drives the real client balancers.
//   rr <n> <start> <k>        RoundRobin with n nodes, cursor preset to start, k calls -> indices
//   rnd <n> <k>               Random, k calls -> indices
//   ll <w0,w1,..> ops...      LeastLoad; ops: p = Next(), s<i>=<w> = SetWeight on original node i
package main

import (
	"fmt"
	"strconv"
	"strings"

	"github.com/tochemey/goakt/v4/client"
	"github.com/tochemey/goakt/v4/internal/verifdrv/vlib"
)

func mkNodes(n int, weights []float64) ([]*client.Node, map[*client.Node]int) {
	nodes := make([]*client.Node, n)
	idx := map[*client.Node]int{}
	for i := range nodes {
		w := 0.0
		if weights != nil {
			w = weights[i]
		}
		nodes[i] = client.NewNode(fmt.Sprintf("127.0.0.1:%d", 10000+i), client.WithWeight(w))
		idx[nodes[i]] = i
	}
	return nodes, idx
}

func name(idx map[*client.Node]int, nd *client.Node) string {
	if i, ok := idx[nd]; ok {
		return strconv.Itoa(i)
	}
	return "foreign"
}

func handle(line string) string {
	f := vlib.Fields(line)
	if len(f) == 0 {
		return "bad-case"
	}
	switch f[0] {
	case "rr":
		n, _ := strconv.Atoi(f[1])
		start, _ := strconv.ParseUint(f[2], 10, 32)
		k, _ := strconv.Atoi(f[3])
		nodes, idx := mkNodes(n, nil)
		b := client.NewRoundRobin()
		b.Set(nodes...)
		client.VerifSetRRCursor(b, uint32(start))
		if n == 0 {
			// empty pool: Next panics (documented precondition: Set a non-empty pool first)
			r := vlib.Safe(func() string { b.Next(); return "no-panic" })
			if strings.HasPrefix(r, "panic") {
				return "panic"
			}
			return r
		}
		var out []string
		for i := 0; i < k; i++ {
			out = append(out, name(idx, b.Next()))
		}
		return strings.Join(out, " ")
	case "rnd":
		n, _ := strconv.Atoi(f[1])
		k, _ := strconv.Atoi(f[2])
		nodes, idx := mkNodes(n, nil)
		b := client.NewRandom()
		b.Set(nodes...)
		var out []string
		for i := 0; i < k; i++ {
			out = append(out, name(idx, b.Next()))
		}
		return strings.Join(out, " ")
	case "ll":
		var ws []float64
		if f[1] != "-" {
			for _, s := range strings.Split(f[1], ",") {
				w, _ := strconv.ParseInt(s, 10, 64)
				ws = append(ws, float64(w))
			}
		}
		nodes, idx := mkNodes(len(ws), ws)
		orig := append([]*client.Node(nil), nodes...)
		b := client.NewLeastLoad()
		b.Set(nodes...)
		if len(ws) == 0 {
			r := vlib.Safe(func() string { b.Next(); return "no-panic" })
			if strings.HasPrefix(r, "panic") {
				return "panic"
			}
			return r
		}
		var out []string
		for _, op := range f[2:] {
			if op == "p" {
				out = append(out, name(idx, b.Next()))
			} else if strings.HasPrefix(op, "s") {
				kv := strings.SplitN(op[1:], "=", 2)
				i, _ := strconv.Atoi(kv[0])
				w, _ := strconv.ParseInt(kv[1], 10, 64)
				orig[i].SetWeight(float64(w))
			}
		}
		return strings.Join(out, " ")
	}
	return "bad-case"
}

func main() { vlib.Loop(handle) }

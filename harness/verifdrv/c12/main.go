//go:build verif

// C12 harness: real actors + the real passivationManager driven by hand on a virtual clock.
// The driver lives in-package (harness/inpkg/actor/zz_verif_c12.go) because everything it
// touches is unexported.  Case format: `sys <strategies> | op ; op ; …`, see that file.
package main

import (
	"github.com/tochemey/goakt/v4/actor"
	"github.com/tochemey/goakt/v4/internal/verifdrv/vlib"
)

func main() { vlib.Loop(actor.VerifC12Run) }

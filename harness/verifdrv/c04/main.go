//go:build verif

// C04 harness (engine E3): real mailbox implementations under controlled schedules.
//   <mailbox> | prog0 ; prog1 ; … | schedule
// ops: e<k> = Enqueue(message k), d = Dequeue, emp = IsEmpty, len = Len
package main

import (
	"strconv"
	"strings"

	"github.com/tochemey/goakt/v4/actor"
	"github.com/tochemey/goakt/v4/internal/verifdrv/vlib"
)

type mbox struct{ m actor.Mailbox }

func (o *mbox) Do(tid int, op string) string {
	switch {
	case op == "d":
		rc := o.m.Dequeue()
		if rc == nil {
			return "nil"
		}
		return strconv.Itoa(actor.VerifContextID(rc))
	case op == "emp":
		return strconv.FormatBool(o.m.IsEmpty())
	case op == "len":
		return strconv.FormatInt(o.m.Len(), 10)
	case strings.HasPrefix(op, "e"):
		id, err := strconv.Atoi(op[1:])
		if err != nil {
			return "bad-op"
		}
		if err := o.m.Enqueue(actor.VerifNewContext(id)); err != nil {
			return "full"
		}
		return "ok"
	}
	return "bad-op"
}

func (o *mbox) Final() string {
	var out []string
	for i := 0; i < 100000; i++ {
		rc := o.m.Dequeue()
		if rc == nil {
			break
		}
		out = append(out, strconv.Itoa(actor.VerifContextID(rc)))
	}
	return strings.Join(out, " ")
}

func mk(cfg string, n int) vlib.Obj {
	f := strings.Fields(cfg)
	if len(f) == 0 {
		return nil
	}
	switch f[0] {
	case "unbounded":
		return &mbox{m: actor.NewUnboundedMailbox()}
	}
	return nil
}

func main() { vlib.Loop(func(line string) string { return vlib.RunConc(line, mk) }) }

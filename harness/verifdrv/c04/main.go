//go:build verif

// C04 harness (engine E3): real mailbox implementations under controlled schedules.
//
//	<mailbox> [args] | prog0 ; prog1 ; … | schedule
//
// mailboxes: unbounded | segmented | fair | uprio <pf> | usprio <pf> | bprio <cap> <pf> |
// bsprio <cap> <pf> | ring <cap> | bounded <cap> (black box: one sequential program, no schedule)
// priority functions <pf> on message ids: lt (a<b), gt (a>b), d2 (a/2<b/2), m3 (a%3<b%3)
// ops: e<k> = Enqueue(message k), e<k>@<s> = Enqueue(message k from sender s),
// d = Dequeue, emp = IsEmpty, len = Len
package main

import (
	"runtime"
	"runtime/debug"
	"strconv"
	"strings"
	"sync/atomic"
	"time"

	"github.com/tochemey/goakt/v4/actor"
	"github.com/tochemey/goakt/v4/internal/verifdrv/vlib"
)

// clock is the logical time of a case: it ticks at every invocation and every return of a mailbox
// operation, so `r@s-e` records the real-time interval of the operation (one thread runs at a time).
type mbox struct {
	m     actor.Mailbox
	clock atomic.Int64
}

func doOp(m actor.Mailbox, op string) string {
	switch {
	case op == "d":
		rc := m.Dequeue()
		if rc == nil {
			return "nil"
		}
		return strconv.Itoa(actor.VerifContextID(rc))
	case op == "emp":
		return strconv.FormatBool(m.IsEmpty())
	case op == "len":
		return strconv.FormatInt(m.Len(), 10)
	case strings.HasPrefix(op, "e"):
		body := op[1:]
		key := 0
		if i := strings.IndexByte(body, '@'); i >= 0 {
			k, err := strconv.Atoi(body[i+1:])
			if err != nil {
				return "bad-op"
			}
			key = k
			body = body[:i]
		}
		id, err := strconv.Atoi(body)
		if err != nil {
			return "bad-op"
		}
		if err := m.Enqueue(actor.VerifNewContextFrom(id, key)); err != nil {
			return "full"
		}
		return "ok"
	}
	return "bad-op"
}

func (o *mbox) Do(tid int, op string) string {
	s := o.clock.Add(1)
	r := doOp(o.m, op)
	e := o.clock.Add(1)
	return r + "@" + strconv.FormatInt(s, 10) + "-" + strconv.FormatInt(e, 10)
}

// Final drains the mailbox sequentially (all logical threads are done) and appends Len().
func (o *mbox) Final() string {
	var out []string
	for i := 0; i < 100000; i++ {
		rc := o.m.Dequeue()
		if rc == nil {
			break
		}
		out = append(out, strconv.Itoa(actor.VerifContextID(rc)))
	}
	return strings.TrimSpace(strings.Join(out, " ") + " # " + strconv.FormatInt(o.m.Len(), 10))
}

func prio(name string) actor.PriorityFunc {
	id := actor.VerifMsgID
	switch name {
	case "lt":
		return func(a, b any) bool { return id(a) < id(b) }
	case "gt":
		return func(a, b any) bool { return id(a) > id(b) }
	case "d2":
		return func(a, b any) bool { return id(a)/2 < id(b)/2 }
	case "m3":
		return func(a, b any) bool { return id(a)%3 < id(b)%3 }
	}
	return nil
}

func newMailbox(cfg string) actor.Mailbox {
	f := strings.Fields(cfg)
	if len(f) == 0 {
		return nil
	}
	num := func(i int) (int, bool) {
		if i >= len(f) {
			return 0, false
		}
		n, err := strconv.Atoi(f[i])
		return n, err == nil && n >= 1 && n <= 1<<16
	}
	pf := func(i int) actor.PriorityFunc {
		if i >= len(f) {
			return nil
		}
		return prio(f[i])
	}
	switch f[0] {
	case "unbounded":
		return actor.NewUnboundedMailbox()
	case "segmented":
		// the case names the segment size its model run assumes; it must be the real constant
		if c, ok := num(1); ok && c == actor.VerifSegmentSize() {
			return actor.NewUnboundedSegmentedMailbox()
		}
	case "fair":
		return actor.NewUnboundedFairMailbox()
	case "uprio":
		if p := pf(1); p != nil {
			return actor.NewUnboundedPriorityMailBox(p)
		}
	case "usprio":
		if p := pf(1); p != nil {
			return actor.NewUnboundedStablePriorityMailbox(p)
		}
	case "bprio":
		if c, ok := num(1); ok {
			if p := pf(2); p != nil {
				return actor.NewBoundedPriorityMailbox(c, p)
			}
		}
	case "bsprio":
		if c, ok := num(1); ok {
			if p := pf(2); p != nil {
				return actor.NewBoundedStablePriorityMailbox(c, p)
			}
		}
	case "ring":
		if c, ok := num(1); ok {
			return actor.NewNonBlockingBoundedMailbox(c)
		}
	case "bounded":
		if c, ok := num(1); ok {
			return actor.NewBoundedMailbox(c)
		}
	}
	return nil
}

func mk(cfg string, n int) vlib.Obj {
	m := newMailbox(cfg)
	if m == nil {
		return nil
	}
	return &mbox{m: m}
}

// runSeq: the blocking BoundedMailbox (third-party ring buffer, not instrumented) is driven by
// one sequential program; an operation that blocks (Put on a full ring) is reported as `stuck`.
func runSeq(line string) string {
	parts := strings.Split(line, "|")
	if len(parts) != 3 {
		return "bad-case"
	}
	m := newMailbox(strings.TrimSpace(parts[0]))
	if m == nil {
		return "bad-case"
	}
	ops := strings.Fields(parts[1])
	resc := make(chan string, 1)
	go func() {
		var rs []string
		for _, op := range ops {
			rs = append(rs, vlib.Safe(func() string { return doOp(m, op) }))
		}
		fin := vlib.Safe((&mbox{m: m}).Final)
		resc <- "T | R " + strings.Join(rs, ",") + " | F " + fin
	}()
	select {
	case r := <-resc:
		return r
	case <-time.After(3 * time.Second):
		m.Dispose()
		return "stuck"
	}
}

func main() {
	// one P and no background GC: sync.Pool (the fair mailbox's sender-node pool) is then a
	// deterministic function of the Put/Get sequence of the case itself.
	runtime.GOMAXPROCS(1)
	debug.SetGCPercent(-1)
	vlib.Loop(func(line string) string {
		defer runtime.GC()
		if strings.HasPrefix(strings.TrimSpace(line), "bounded ") {
			return runSeq(line)
		}
		return vlib.RunConc(line, mk)
	})
}

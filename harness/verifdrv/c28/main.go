//go:build verif

// C28 harness: concurrent request/response exchanges over the REAL pooled inet.Client (mode inet:
// SendProto / SendBatchProto) or the REAL remoteclient.Client (mode rc: RemoteAsk / RemoteBatchAsk)
// against a REAL in-process inet.ProtoServer on 127.0.0.1.  Every request carries an id "k.i"; the
// server handler records the connection the frame arrived on (numbered in dial order), reports
// "entered" to the controller and parks on a gate; the controller releases it with the scripted
// behaviour (echo the id / return an error = close the connection / return nil = no reply), or lets
// the caller's deadline expire first.  Calls run in their own goroutines, so several calls are in
// flight at once and share the pool; the controller serialises only the points at which they touch it.
//
//	pool <inet|rc> <maxIdle> <it:0|1> op...      it=1: idle timeout 1ns (every pooled connection is stale)
//	  a<k>[d]      start call k with one request (d: 200 ms deadline)
//	  b<k>:<n>[d]  start call k with n requests (inet: SendBatchProto, n frames; rc: RemoteBatchAsk, one frame)
//	  b<k>:<n>c    (inet) batch with a cancellable context; k<k> cancels it: SendBatchProto notices between two reads
//	  b<k>:<n>x    (inet, n>=2) batch whose context is already cancelled: a pooled connection is taken, the first
//	               frame written, then the cancellation is noticed between two writes (no pooled connection: dial fails)
//	  r<k> e<k> n<k>   release the parked request of call k: reply / handler error / no reply
//	  t            let the deadline of every deadline call in flight expire (their requests stay parked)
//	  x            Client.Close()   (rc mode: calls started afterwards are ignored, they would use a new pool;
//	               rc mode also maps maxIdle 0 to the default 32, as WithClientMaxIdleConns does)
//
//	storm <rounds> <fails> <workers> <per> <kb>   (uncontrolled real concurrency, real remoteclient) each round: <fails>
//	  RemoteAsk calls that end in an error (the server closes the connection), then <workers> goroutines x <per>
//	  RemoteAsk calls with pairwise distinct payloads of <kb> KiB, answered at once by the echo server; counts the
//	  asks that returned WITHOUT error a reply that is not the echo of their own request.  output: wrong=<n>
//
// output: one token per call `k@c<conn>=ok:<reply ids>` | `k@c<conn>=err` (conn `-` if the server never
// saw the call), then `idle=<n> conns=<dialled>`
package main

import (
	"context"
	"errors"
	"fmt"
	"net"
	"strconv"
	"strings"
	"sync"
	"sync/atomic"
	"time"

	"google.golang.org/protobuf/proto"
	"google.golang.org/protobuf/types/known/wrapperspb"

	"github.com/tochemey/goakt/v4/internal/address"
	"github.com/tochemey/goakt/v4/internal/internalpb"
	inet "github.com/tochemey/goakt/v4/internal/net"
	"github.com/tochemey/goakt/v4/internal/remoteclient"
	"github.com/tochemey/goakt/v4/internal/verifdrv/vlib"
	"github.com/tochemey/goakt/v4/remote"
)

const (
	deadline = 200 * time.Millisecond
	longWait = 10 * time.Second
	enterMax = 1500 * time.Millisecond
)

type parked struct {
	id   string // "k.i" (rc batch: id of the first message)
	conn int
	gate chan byte
}

type caseState struct {
	mu      sync.Mutex
	nconn   int
	entered chan *parked
}

type connKey struct{}

var (
	caseNo   atomic.Int64
	cur      atomic.Pointer[caseState]
	srvHost  string
	srvPort  int
	srvError string
	payload  = remote.NewProtoSerializer()
)

func connID(cs *caseState, conn inet.Connection) int {
	if v, ok := conn.Context().Value(connKey{}).(int); ok {
		return v
	}
	cs.mu.Lock()
	id := cs.nconn
	cs.nconn++
	cs.mu.Unlock()
	conn.SetContext(context.WithValue(context.Background(), connKey{}, id))
	return id
}

// park: request values are "<case number>/<k.i>"; a frame of an earlier case that is still
// travelling (e.g. the rest of a batch whose caller timed out) must not disturb the current one:
// its connection is closed.
func park(conn inet.Connection, val string) (byte, bool) {
	cs := cur.Load()
	if strings.HasPrefix(val, "storm/S") {
		return '+', false // storm traffic: echo at once
	}
	if strings.HasPrefix(val, "storm/F") {
		return 'e', false // storm fault: the handler fails, the server closes the connection
	}
	no, id, ok := strings.Cut(val, "/")
	if cs == nil || !ok || no != strconv.FormatInt(caseNo.Load(), 10) {
		return 'e', false
	}
	p := &parked{id: id, conn: connID(cs, conn), gate: make(chan byte, 1)}
	cs.entered <- p
	return <-p.gate, true
}

// inet mode: request = StringValue("k.i"), reply = the same value
func echoHandler(_ context.Context, conn inet.Connection, msg proto.Message) (proto.Message, error) {
	req, ok := msg.(*wrapperspb.StringValue)
	if !ok {
		return nil, errors.New("unexpected type")
	}
	o, _ := park(conn, req.GetValue())
	switch o {
	case 'e':
		return nil, errors.New("scripted handler error")
	case 'n':
		return nil, nil
	}
	return wrapperspb.String(req.GetValue()), nil // echo
}

// rc mode: RemoteAskRequest with n messages -> RemoteAskResponse echoing the n payloads in order
func askHandler(_ context.Context, conn inet.Connection, msg proto.Message) (proto.Message, error) {
	req, ok := msg.(*internalpb.RemoteAskRequest)
	if !ok || len(req.GetRemoteMessages()) == 0 {
		return nil, errors.New("unexpected request")
	}
	first, err := payload.Deserialize(req.GetRemoteMessages()[0].GetMessage())
	if err != nil {
		return nil, err
	}
	id := first.(*wrapperspb.StringValue).GetValue()
	o, _ := park(conn, id)
	switch o {
	case 'e':
		return nil, errors.New("scripted handler error")
	case 'n':
		return nil, nil
	}
	resp := &internalpb.RemoteAskResponse{}
	for _, m := range req.GetRemoteMessages() {
		resp.Messages = append(resp.Messages, m.GetMessage())
	}
	return resp, nil
}

func startServer() {
	ps, err := inet.NewProtoServer("127.0.0.1:0",
		inet.WithProtoHandler("google.protobuf.StringValue", echoHandler),
		inet.WithProtoHandler("internalpb.RemoteAskRequest", askHandler))
	if err == nil {
		err = ps.Listen()
	}
	if err != nil {
		srvError = err.Error()
		return
	}
	go func() { _ = ps.Serve() }()
	h, p, _ := net.SplitHostPort(ps.ListenAddr().String())
	srvHost = h
	srvPort, _ = strconv.Atoi(p)
}

type call struct {
	k        int
	n        int
	frames   int // request frames on the wire (rc batch: 1)
	dl       bool
	batch    bool
	ctx      context.Context
	cancel   context.CancelFunc
	canc     bool // cancellable context
	pre      bool // cancelled before the call starts
	cancld   bool
	served   int
	starved  bool
	conn     int
	cur      *parked
	done     chan string
	res      string
	finished bool
	started  time.Time
}

type ctl struct {
	cs     *caseState
	mode   string
	ic     *inet.Client
	rc     remoteclient.Client
	calls  map[int]*call
	order  []int
	early  []*parked // entered events that arrived while waiting for something else
	closed bool
	stall  bool
}

func (c *ctl) run(cl *call) {
	ctx := context.Background()
	cancel := func() {}
	if cl.dl {
		ctx, cancel = context.WithTimeout(ctx, deadline)
	}
	if cl.ctx != nil {
		ctx = cl.ctx
	}
	defer cancel()
	ids := make([]string, cl.n)
	for i := range ids {
		ids[i] = fmt.Sprintf("%d/%d.%d", caseNo.Load(), cl.k, i)
	}
	var got []string
	var err error
	if c.mode == "inet" {
		if !cl.batch {
			var resp proto.Message
			resp, err = c.ic.SendProto(ctx, wrapperspb.String(ids[0]))
			if err == nil {
				got = []string{replyID(resp)}
			}
		} else {
			reqs := make([]proto.Message, cl.n)
			for i := range reqs {
				reqs[i] = wrapperspb.String(ids[i])
			}
			var resps []proto.Message
			resps, err = c.ic.SendBatchProto(ctx, reqs)
			for _, r := range resps {
				got = append(got, replyID(r))
			}
		}
	} else {
		from := address.New("asker", "sys", srvHost, srvPort)
		to := address.New("target", "sys", srvHost, srvPort)
		timeout := time.Duration(0)
		if cl.dl {
			timeout = deadline
		}
		if !cl.batch {
			var resp any
			resp, err = c.rc.RemoteAsk(context.Background(), from, to, wrapperspb.String(ids[0]), timeout)
			if err == nil {
				got = []string{replyID(resp)}
			}
		} else {
			msgs := make([]any, cl.n)
			for i := range msgs {
				msgs[i] = wrapperspb.String(ids[i])
			}
			var resps []any
			resps, err = c.rc.RemoteBatchAsk(context.Background(), from, to, msgs, timeout)
			for _, r := range resps {
				got = append(got, replyID(r))
			}
		}
	}
	if err != nil {
		cl.done <- "err"
		return
	}
	cl.done <- "ok:" + strings.Join(got, ",")
}

func replyID(m any) string {
	if v, ok := m.(*wrapperspb.StringValue); ok {
		_, id, _ := strings.Cut(v.GetValue(), "/")
		return id
	}
	return fmt.Sprintf("?%T", m)
}

// waitEntered waits (bounded) until the next request of call cl is parked at the server.
func (c *ctl) waitEntered(cl *call) {
	want := strconv.Itoa(cl.k) + "."
	for i, p := range c.early {
		if strings.HasPrefix(p.id, want) {
			c.early = append(c.early[:i], c.early[i+1:]...)
			cl.cur, cl.conn = p, p.conn
			return
		}
	}
	to := time.After(enterMax)
	for {
		select {
		case p := <-c.cs.entered:
			if strings.HasPrefix(p.id, want) {
				cl.cur, cl.conn = p, p.conn
				return
			}
			c.early = append(c.early, p)
		case r := <-cl.done:
			cl.res, cl.finished = r, true
			return
		case <-to:
			return // never block the script: a request that does not reach the server shows in the results
		}
	}
}

func (c *ctl) waitDone(cl *call, max time.Duration) {
	if cl.finished {
		return
	}
	select {
	case r := <-cl.done:
		cl.res, cl.finished = r, true
	case <-time.After(max):
	}
}

func (c *ctl) start(k, n int, dl, batch bool, flag byte) {
	if _, dup := c.calls[k]; dup {
		return
	}
	if c.closed && c.mode == "rc" {
		// remoteclient.Close drops its inet.Client cache: a later ask would build a brand-new pool,
		// which is a different object from the one under study
		return
	}
	cl := &call{k: k, n: n, frames: n, dl: dl, conn: -1, done: make(chan string, 1)}
	cl.batch = batch
	if batch {
		if c.mode == "rc" {
			cl.frames = 1
		}
	}
	cl.started = time.Now()
	c.calls[k] = cl
	c.order = append(c.order, k)
	if flag == 'c' || flag == 'x' {
		cl.canc = true
		cl.ctx, cl.cancel = context.WithCancel(context.Background())
		if flag == 'x' {
			cl.pre, cl.cancld = true, true
			cl.cancel()
		}
	}
	go c.run(cl)
	if cl.pre {
		// the call ends by itself (dial error, or cancellation noticed after the first frame); the frame it
		// may have written surfaces at the server later and is answered during clean-up
		c.waitDone(cl, longWait)
		return
	}
	c.waitEntered(cl)
}

func (c *ctl) release(k int, o byte) {
	cl := c.calls[k]
	if cl == nil || cl.cur == nil {
		return
	}
	if o == 'n' && !cl.dl {
		o = 'e' // without a deadline a swallowed request would block the caller for ever
	}
	p := cl.cur
	cl.cur = nil
	cl.served++
	if o == 'n' {
		cl.starved = true
	}
	p.gate <- o
	if cl.finished {
		return
	}
	if o == 'e' {
		c.waitDone(cl, longWait)
		return
	}
	if cl.served < cl.frames {
		if cl.cancld && o == '+' {
			// the response just released is read successfully, then SendBatchProto sees ctx.Done()
			c.waitDone(cl, longWait)
			return
		}
		c.waitEntered(cl)
		return
	}
	if o == 'n' || cl.starved {
		// the caller is waiting for a response that will never come: only its deadline ends the call
		c.expireAll()
		return
	}
	c.waitDone(cl, longWait)
}

// expireAll waits until every deadline call in flight has run into its deadline.
func (c *ctl) expireAll() {
	for _, k := range c.order {
		if cl := c.calls[k]; cl.dl && !cl.finished {
			c.waitDone(cl, longWait)
		}
	}
}

// checkStall flags the run when a deadline call in flight is so old that its deadline may fire
// before the script gets to the point where the model expects it (machine under load).
func (c *ctl) checkStall() {
	for _, k := range c.order {
		if cl := c.calls[k]; cl.dl && !cl.finished {
			select {
			case r := <-cl.done:
				cl.res, cl.finished = r, true
				if r == "err" {
					c.stall = true
				}
			default:
				if time.Since(cl.started) > deadline*6/10 {
					c.stall = true
				}
			}
		}
	}
}

func handleStorm(f []string) string {
	if srvError != "" {
		return "server-error " + srvError
	}
	var v [5]int
	for i := range v {
		n, err := strconv.Atoi(f[i+1])
		if err != nil || n < 0 {
			return "bad-case"
		}
		v[i] = n
	}
	rounds, fails, workers, per, kb := v[0], v[1], v[2], v[3], v[4]
	if rounds < 1 || rounds > 200 || fails > 256 || workers < 1 || workers > 64 || per < 1 || per > 1000 || kb > 256 {
		return "bad-case"
	}
	cur.Store(nil)
	cl := remoteclient.NewClient()
	defer cl.Close()
	from := address.New("asker", "sys", srvHost, srvPort)
	to := address.New("target", "sys", srvHost, srvPort)
	var wrong, ok atomic.Int64
	for r := 0; r < rounds; r++ {
		for i := 0; i < fails; i++ {
			_, _ = cl.RemoteAsk(context.Background(), from, to, wrapperspb.String(fmt.Sprintf("storm/F%d.%d", r, i)+strings.Repeat("f", kb*1024)), 5*time.Second)
		}
		var wg sync.WaitGroup
		for w := 0; w < workers; w++ {
			wg.Add(1)
			go func(w int) {
				defer wg.Done()
				for i := 0; i < per; i++ {
					tag := fmt.Sprintf("storm/S%d.%d.%d-", r, w, i)
					want := tag + strings.Repeat(string(rune('a'+(w+i)%26)), kb*1024)
					resp, err := cl.RemoteAsk(context.Background(), from, to, wrapperspb.String(want), 10*time.Second)
					if err != nil {
						continue
					}
					if v, isStr := resp.(*wrapperspb.StringValue); !isStr || v.GetValue() != want {
						wrong.Add(1)
					} else {
						ok.Add(1)
					}
				}
			}(w)
		}
		wg.Wait()
	}
	if ok.Load() == 0 && wrong.Load() == 0 {
		return "HARNESS-FAIL no ask completed"
	}
	return fmt.Sprintf("wrong=%d", wrong.Load())
}

func handle(line string) string {
	f := vlib.Fields(line)
	if len(f) == 6 && f[0] == "storm" {
		return handleStorm(f)
	}
	if len(f) < 4 || f[0] != "pool" || (f[1] != "inet" && f[1] != "rc") {
		return "bad-case"
	}
	if srvError != "" {
		return "server-error " + srvError
	}
	maxIdle, err := strconv.Atoi(f[2])
	if err != nil || maxIdle < 0 {
		return "bad-case"
	}
	c := &ctl{cs: &caseState{entered: make(chan *parked, 256)}, mode: f[1], calls: map[int]*call{}}
	caseNo.Add(1)
	cur.Store(c.cs)
	idleTO := 30 * time.Second
	if f[3] == "1" {
		idleTO = time.Nanosecond
	}
	if c.mode == "inet" {
		c.ic = inet.NewClient(net.JoinHostPort(srvHost, strconv.Itoa(srvPort)), inet.WithMaxIdleConns(maxIdle), inet.WithIdleTimeout(idleTO))
	} else {
		c.rc = remoteclient.NewClient(remoteclient.WithClientMaxIdleConns(maxIdle), remoteclient.WithClientIdleTimeout(idleTO))
		c.ic = c.rc.NetClient(srvHost, srvPort)
	}
	for _, op := range f[4:] {
		c.checkStall()
		switch {
		case op == "x":
			if !c.closed {
				c.closed = true
				if c.mode == "inet" {
					_ = c.ic.Close()
				} else {
					c.rc.Close()
				}
			}
		case op[0] == 'a' || op[0] == 'b':
			body := op[1:]
			dl := strings.HasSuffix(body, "d")
			body = strings.TrimSuffix(body, "d")
			var flag byte
			if op[0] == 'b' && (strings.HasSuffix(body, "c") || strings.HasSuffix(body, "x")) {
				flag = body[len(body)-1]
				body = body[:len(body)-1]
				if dl || f[1] != "inet" {
					return "bad-case"
				}
			}
			n := 1
			if op[0] == 'b' {
				kv := strings.SplitN(body, ":", 2)
				if len(kv) != 2 {
					return "bad-case"
				}
				body = kv[0]
				n, err = strconv.Atoi(kv[1])
				if err != nil || n < 1 || n > 16 {
					return "bad-case"
				}
			}
			k, err := strconv.Atoi(body)
			if err != nil {
				return "bad-case"
			}
			if flag == 'x' && n < 2 {
				return "bad-case"
			}
			c.start(k, n, dl, op[0] == 'b', flag)
		case op == "t":
			c.expireAll()
		case op[0] == 'k':
			k, err := strconv.Atoi(op[1:])
			if err != nil {
				return "bad-case"
			}
			// honoured only while at least two frames are unanswered: the cancellation is then noticed after the
			// next (non-final) read whatever the client goroutine's progress; with one frame left it would race
			// with the client's last between-reads check
			if cl := c.calls[k]; cl != nil && cl.canc && !cl.cancld && cl.frames-cl.served >= 2 {
				cl.cancld = true
				cl.cancel()
			}
		case op[0] == 'r' || op[0] == 'e' || op[0] == 'n':
			k, err := strconv.Atoi(op[1:])
			if err != nil {
				return "bad-case"
			}
			o := op[0]
			if o == 'r' {
				o = '+'
			}
			c.release(k, o)
		default:
			return "bad-case"
		}
	}
	// finish: answer everything that is still parked, wait for every call
	for _, k := range c.order {
		cl := c.calls[k]
		for !cl.finished {
			c.checkStall()
			if cl.finished {
				break
			}
			if cl.cur != nil {
				c.release(k, '+')
				continue
			}
			c.waitEntered(cl)
			if cl.cur == nil && !cl.finished {
				c.waitDone(cl, longWait)
				break
			}
		}
	}
	// handlers whose caller has long gone may still be parked
	for _, k := range c.order {
		if cl := c.calls[k]; cl.cur != nil {
			cl.cur.gate <- '+'
			cl.cur = nil
		}
	}
	for _, p := range c.early {
		p.gate <- '+'
	}
	idle := inet.VerifIdleCount(c.ic)
	var out []string
	for _, k := range c.order {
		cl := c.calls[k]
		cn := "-"
		if cl.conn >= 0 && !cl.pre {
			cn = "c" + strconv.Itoa(cl.conn)
		}
		res := cl.res
		if !cl.finished {
			res = "hung"
		}
		out = append(out, fmt.Sprintf("%d@%s=%s", k, cn, res))
	}
	c.cs.mu.Lock()
	nconn := c.cs.nconn
	c.cs.mu.Unlock()
	if !c.closed {
		if c.mode == "inet" {
			_ = c.ic.Close()
		} else {
			c.rc.Close()
		}
	}
	if c.stall {
		return "STALL"
	}
	return fmt.Sprintf("%s idle=%d conns=%d", strings.Join(out, " "), idle, nconn)
}

func main() {
	startServer()
	vlib.Loop(handle)
}

//go:build verif

// C35 harness: drives the REAL relocation-handoff code (actor/relocation_handoff.go and the
// SendSync/SendAsync entry points of actor/pid.go) against a scripted actor system, with real
// timers.  A case line is a batch of sub-cases separated by " ; " which run concurrently:
//   sync <maxWaitMs> <ctxDone 0|1> <script>   deliverAcrossHandoff, clustered
//   sync0 <script>                            deliverAcrossHandoff, not clustered
//   async <inCluster 0|1> <script>            deliverBypassingHandoff
//   sendsync <maxWaitMs> <script>             PID.SendSync   (script over P,N,T only)
//   sendasync <inCluster 0|1> <script>        PID.SendAsync  (script over P,N,T only)
//   consts                                    the four constants
// script: one letter per ActorOf call, the last one repeats: P remote target on a relocating
// endpoint, L remote live, l local, N retryable not-found while a relocation is in flight,
// n the same with nothing in flight, A ErrActorNotFound in flight, T terminal error.
// output per sub-case: lookups=<k> out=<kind> rec=<0|1> tin=<ns> thi=<ns> lk=<ns,..> dl=<ns|none> ret=<ns>
package main

import (
	"fmt"
	"strconv"
	"strings"
	"sync"
	"time"

	"github.com/tochemey/goakt/v4/actor"
	"github.com/tochemey/goakt/v4/internal/verifdrv/vlib"
)

func okScript(s, allowed string) bool {
	if s == "" {
		return false
	}
	for _, c := range s {
		if !strings.ContainsRune(allowed, c) {
			return false
		}
	}
	return true
}

func one(sub string) string {
	f := vlib.Fields(sub)
	if len(f) == 0 {
		return "bad-case"
	}
	var tr actor.VerifC35Trace
	switch {
	case f[0] == "consts" && len(f) == 1:
		c := actor.VerifC35Consts()
		return fmt.Sprintf("consts %d %d %d %d", c[0], c[1], c[2], c[3])
	case f[0] == "sync" && len(f) == 4 && okScript(f[3], "PLlNnAT"):
		ms, err := strconv.Atoi(f[1])
		if err != nil || ms < 0 || ms > 5000 {
			return "bad-case"
		}
		tr = actor.VerifC35Run("sync", f[3], true, time.Duration(ms)*time.Millisecond, f[2] == "1")
	case f[0] == "sync0" && len(f) == 2 && okScript(f[1], "PLlNnAT"):
		tr = actor.VerifC35Run("sync", f[1], false, 0, false)
	case f[0] == "async" && len(f) == 3 && okScript(f[2], "PLlNnAT"):
		tr = actor.VerifC35Run("async", f[2], f[1] == "1", 0, false)
	case f[0] == "sendsync" && len(f) == 3 && okScript(f[2], "PNT"):
		ms, err := strconv.Atoi(f[1])
		if err != nil || ms < 0 || ms > 5000 {
			return "bad-case"
		}
		tr = actor.VerifC35Run("sendsync", f[2], true, time.Duration(ms)*time.Millisecond, false)
	case f[0] == "sendasync" && len(f) == 3 && okScript(f[2], "PNT") && !(f[1] != "1" && f[2][0] == 'P'):
		tr = actor.VerifC35Run("sendasync", f[2], f[1] == "1", 0, false)
	default:
		return "bad-case"
	}
	lk := make([]string, len(tr.Lookups))
	for i, t := range tr.Lookups {
		lk[i] = strconv.FormatInt(t, 10)
	}
	dl := "none"
	if tr.HasDl {
		dl = strconv.FormatInt(tr.Dl, 10)
	}
	return fmt.Sprintf("lookups=%d out=%s rec=%d tin=%d thi=%d lk=%s dl=%s ret=%d",
		len(tr.Lookups), strings.ReplaceAll(tr.Out, " ", "_"), tr.Recorded, tr.TIn, tr.THi, strings.Join(lk, ","), dl, tr.Ret)
}

func handle(line string) string {
	subs := strings.Split(line, ";")
	outs := make([]string, len(subs))
	var wg sync.WaitGroup
	for i, s := range subs {
		wg.Add(1)
		go func(i int, s string) {
			defer wg.Done()
			outs[i] = vlib.Safe(func() string { return one(strings.TrimSpace(s)) })
		}(i, s)
	}
	wg.Wait()
	return strings.Join(outs, " ; ")
}

func main() { vlib.Loop(handle) }

//go:build verif

// C27 harness: drives the REAL remoteclient.Client (RemoteTell -> getCoalescer -> coalescer.submit,
// the real writer goroutine, the real Close) against a real in-process inet.ProtoServer on
// 127.0.0.1 whose RemoteTellRequest handler is the fake transport end: it records each batch it
// receives, reports "entered" to the controller and blocks on a gate until the controller releases
// it with the scripted outcome.  The controller only acts while the writer goroutine is parked
// inside a flush (or idle on an empty channel), which makes the batch boundaries deterministic;
// the one genuinely random thing that remains (Go's select between `done` and `in` after close)
// is enumerated on the model side.
//
//	co <maxBatch> <hdl:0|1> op...
//	  s<t>   thread t sends its next message (RemoteTell; 25 ms deadline when the channel is full)
//	  b<t>   thread t sends with a cancellable context from its own goroutine (blocks when full)
//	  x      cancel the blocked sender
//	  r+ r- r!   release the flush in flight: success / internalpb.Error reply / connection dropped
//	  c<o..> Client.Close(); the outcomes o ∈ {+,-,!} are used for the flush in flight and the
//	         flushes that follow (default +). Implicit at the end of the case.
//	  after c: s<t> calls coalescer.submit directly on the closed coalescer
//
// output: cap=<n> | S <t.q=res ...> | B <ids:outcome ...> | H <ids ...> | L <ids>
//
//	gc <n> <maxBatch>   n goroutines make the FIRST sends to a destination at the same moment (the
//	  coalescer-creation mutex is held until all of them are inside getCoalescer); then every goroutine
//	  sends a second message.  Reported: the number of distinct coalescers n racing getCoalescer calls
//	  return (must be 1), the largest number of flushes in flight at once at the fake remote node (must
//	  be 1: single writer), and the batches in the order the remote node completed them (newest
//	  in-flight batch released first, so that a second writer shows as a reordering).
//	output: writers=<k> inflight=<m> | B <ids:+ ...>
//
//	race <ms> <goroutines>   stress probe for submit racing close (real goroutines, no control): for <ms>
//	  milliseconds coalescers are created, fed by <goroutines> senders and closed concurrently; every
//	  message whose submit returned nil must have been flushed.  output: lost=<n>  (0 by theorem C27_close_complete)
//
//	fq <size> op...    the failure fan-out of actor/remote_server.go on a real, started actor system:
//	  e<n>  enqueueCoalescedFailure with a failed batch of n messages (ids count up from 0)
//	  d / u shuttingDown := true / false
//	  at the end the real drainCoalescedFailures goroutine runs over the queue; the dead letters are
//	  read from the system's event stream
//	output: cap=<real queue capacity> q=<hand-offs queued> dead=<ids in publication order>
package main

import (
	"context"
	"errors"
	"fmt"
	"net"
	"strconv"
	"strings"
	"sync"
	"sync/atomic"
	"time"

	"google.golang.org/protobuf/proto"
	"google.golang.org/protobuf/types/known/durationpb"
	"google.golang.org/protobuf/types/known/wrapperspb"

	"github.com/tochemey/goakt/v4/actor"
	"github.com/tochemey/goakt/v4/eventstream"
	"github.com/tochemey/goakt/v4/log"
	"github.com/tochemey/goakt/v4/remote"

	gerrors "github.com/tochemey/goakt/v4/errors"
	"github.com/tochemey/goakt/v4/internal/address"
	"github.com/tochemey/goakt/v4/internal/internalpb"
	inet "github.com/tochemey/goakt/v4/internal/net"
	"github.com/tochemey/goakt/v4/internal/remoteclient"
	"github.com/tochemey/goakt/v4/internal/verifdrv/vlib"
)

const wait = 20 * time.Second

type entered struct {
	ids  string
	gate chan byte
	at   time.Time
}

type caseState struct {
	entered chan *entered
}

var (
	cur      atomic.Pointer[caseState]
	srvHost  string
	srvPort  int
	srvError string
)

func senderID(s string) string {
	a, err := address.Parse(s)
	if err != nil {
		return "?" + s
	}
	return strings.TrimPrefix(a.Name(), "m")
}

func idsOf(msgs []*internalpb.RemoteMessage) string {
	out := make([]string, len(msgs))
	for i, m := range msgs {
		out[i] = senderID(m.GetSender())
	}
	return strings.Join(out, ",")
}

func tellHandler(_ context.Context, _ inet.Connection, msg proto.Message) (proto.Message, error) {
	req, ok := msg.(*internalpb.RemoteTellRequest)
	cs := cur.Load()
	if !ok || cs == nil {
		return &internalpb.RemoteTellResponse{}, nil
	}
	e := &entered{ids: idsOf(req.GetRemoteMessages()), gate: make(chan byte, 1), at: time.Now()}
	cs.entered <- e
	switch <-e.gate {
	case '-':
		return &internalpb.Error{Code: internalpb.Code_CODE_INTERNAL_ERROR, Message: "scripted failure"}, nil
	case '!':
		return nil, errors.New("scripted connection drop")
	}
	return &internalpb.RemoteTellResponse{}, nil
}

func startServer() {
	ps, err := inet.NewProtoServer("127.0.0.1:0", inet.WithProtoHandler("internalpb.RemoteTellRequest", tellHandler))
	if err != nil {
		srvError = err.Error()
		return
	}
	if err := ps.Listen(); err != nil {
		srvError = err.Error()
		return
	}
	go func() { _ = ps.Serve() }()
	h, p, _ := net.SplitHostPort(ps.ListenAddr().String())
	srvHost = h
	srvPort, _ = strconv.Atoi(p)
}

type ctl struct {
	cs       *caseState
	cl       remoteclient.Client
	co       remoteclient.VerifCoalescer
	to       *address.Address
	seq      map[int]int
	subs     []string
	batches  []string
	handled  []string
	hmu      sync.Mutex
	inflight *entered
	stall    bool
	// blocked sender
	bl       bool
	blTag    string
	blT      int
	blCancel context.CancelFunc
	blRes    chan string
	closed   bool
	closeRet chan struct{}
	left     string
}

func classify(err error) string {
	switch {
	case err == nil:
		return "ok"
	case errors.Is(err, context.Canceled), errors.Is(err, context.DeadlineExceeded):
		// ErrRemoteSendBackpressure joined with the context error (from submit), or the bare context
		// error when RemoteTell's own ctx.Err() check fired first: both are "the caller's context ended"
		return "ctx"
	case errors.Is(err, gerrors.ErrRemoteSendFailure):
		return "closed"
	}
	return "err"
}

func (c *ctl) next(t int) (string, *address.Address) {
	q := c.seq[t]
	c.seq[t] = q + 1
	tag := fmt.Sprintf("%d.%d", t, q)
	return tag, address.New("m"+tag, "sys", srvHost, srvPort)
}

// waitEntered blocks until the writer's next flush has reached the fake transport.
func (c *ctl) waitEntered() bool {
	select {
	case e := <-c.cs.entered:
		c.inflight = e
		return true
	case <-time.After(wait):
		return false
	}
}

func (c *ctl) release(o byte) {
	e := c.inflight
	if time.Since(e.at) > 3*time.Second {
		c.stall = true // the 5 s flush timeout may have fired first: outcome not trustworthy
	}
	c.batches = append(c.batches, e.ids+":"+string(o))
	c.inflight = nil
	e.gate <- o
}

func (c *ctl) tell(t int) string {
	if c.bl && c.blT == t {
		return "" // a goroutine has one call at a time: thread t is still inside its blocked send
	}
	tag, from := c.next(t)
	if c.closed {
		r := c.co.Submit(context.Background(), from.String())
		c.subs = append(c.subs, tag+"="+r)
		return ""
	}
	idle := c.inflight == nil
	full := c.co.Len() >= c.co.Cap()
	ctx := context.Background()
	cancel := func() {}
	if full {
		ctx, cancel = context.WithTimeout(ctx, 25*time.Millisecond)
	}
	err := c.cl.RemoteTell(ctx, from, c.to, durationpb.New(time.Duration(t)))
	cancel()
	c.subs = append(c.subs, tag+"="+classify(err))
	if err == nil && idle {
		if !c.waitEntered() {
			return "no-flush-after-submit"
		}
	}
	return ""
}

func (c *ctl) tellBlocking(t int) string {
	if c.closed || c.bl || c.co.Len() < c.co.Cap() {
		return c.tell(t)
	}
	tag, from := c.next(t)
	c.blT = t
	ctx, cancel := context.WithCancel(context.Background())
	c.bl, c.blTag, c.blCancel, c.blRes = true, tag, cancel, make(chan string, 1)
	res := c.blRes
	go func() {
		res <- classify(c.cl.RemoteTell(ctx, from, c.to, durationpb.New(time.Duration(t))))
	}()
	return ""
}

func (c *ctl) resolveBlocked() string {
	select {
	case r := <-c.blRes:
		c.subs = append(c.subs, c.blTag+"="+r)
		c.blCancel()
		c.bl = false
		return ""
	case <-time.After(wait):
		return "blocked-sender-never-returned"
	}
}

func (c *ctl) doRelease(o byte) string {
	if c.inflight == nil {
		return ""
	}
	more := c.co.Len() > 0 || c.bl
	c.release(o)
	if more {
		if !c.waitEntered() {
			return "no-next-flush"
		}
		if c.bl {
			return c.resolveBlocked()
		}
	}
	return ""
}

func (c *ctl) doClose(outcomes string) string {
	if c.closed {
		return ""
	}
	c.closed = true
	c.closeRet = make(chan struct{})
	go func() { c.cl.Close(); close(c.closeRet) }()
	dl := time.Now().Add(wait)
	for !c.co.DoneClosed() {
		if time.Now().After(dl) {
			return "done-never-closed"
		}
		time.Sleep(50 * time.Microsecond)
	}
	if c.bl {
		if r := c.resolveBlocked(); r != "" {
			return r
		}
	}
	k := 0
	nextOutcome := func() byte {
		if k < len(outcomes) {
			k++
			return outcomes[k-1]
		}
		return '+'
	}
	if c.inflight != nil {
		c.release(nextOutcome())
	}
	for {
		select {
		case e := <-c.cs.entered:
			c.inflight = e
			c.release(nextOutcome())
		case <-c.closeRet:
			c.left = strings.Join(mapIDs(c.co.Leftover()), ",")
			return ""
		case <-time.After(wait):
			return "close-never-returned"
		}
	}
}

func mapIDs(s []string) []string {
	out := make([]string, len(s))
	for i, x := range s {
		out[i] = senderID(x)
	}
	return out
}

var (
	fqOnce sync.Once
	fqSys  actor.ActorSystem
	fqFan  actor.VerifFanout
	fqSub  eventstream.Subscriber
	fqErr  string
	fqPort int
	fqCase int
)

func fqStart() {
	ctx := context.Background()
	fqPort = inet.Get(1)[0]
	sys, err := actor.NewActorSystem("c27fq", actor.WithLogger(log.DiscardLogger), actor.WithRemote(remote.NewConfig("127.0.0.1", fqPort)))
	if err == nil {
		err = sys.Start(ctx)
	}
	if err != nil {
		fqErr = err.Error()
		return
	}
	time.Sleep(200 * time.Millisecond)
	fan, ok := actor.VerifFanoutOf(sys)
	if !ok {
		fqErr = "no remoting"
		return
	}
	sub, err := sys.Subscribe()
	if err != nil {
		fqErr = err.Error()
		return
	}
	fqSys, fqFan, fqSub = sys, fan, sub
}

func handleFQ(f []string) string {
	fqOnce.Do(fqStart)
	if fqErr != "" {
		return "system-error " + fqErr
	}
	size, err := strconv.Atoi(f[1])
	if err != nil || size < 0 || size > 1024 {
		return "bad-case"
	}
	fqCase++
	capv := fqFan.RealCap()
	fqFan.Install(size)
	ser := remote.NewProtoSerializer()
	recv := address.New("nobody", "c27fq", "127.0.0.1", fqPort).String()
	next, lastQueued := 0, ""
	for _, op := range f[2:] {
		switch {
		case op == "d":
			fqFan.SetShuttingDown(true)
		case op == "u":
			fqFan.SetShuttingDown(false)
		case op[0] == 'e':
			n, err := strconv.Atoi(op[1:])
			if err != nil || n < 0 || n > 64 {
				fqFan.SetShuttingDown(false)
				fqFan.Drain()
				return "bad-case"
			}
			msgs := make([]*internalpb.RemoteMessage, n)
			for i := range msgs {
				payload, _ := ser.Serialize(wrapperspb.String(fmt.Sprintf("%d/%d", fqCase, next)))
				next++
				msgs[i] = &internalpb.RemoteMessage{Sender: address.New("s", "c27fq", "127.0.0.1", fqPort).String(), Receiver: recv, Message: payload}
			}
			before := fqFan.QueueLen()
			fqFan.Enqueue("127.0.0.1:1", msgs)
			if fqFan.QueueLen() > before && n > 0 {
				lastQueued = strconv.Itoa(next - 1)
			}
		default:
			fqFan.SetShuttingDown(false)
			fqFan.Drain()
			return "bad-case"
		}
	}
	q := fqFan.QueueLen()
	fqFan.SetShuttingDown(false)
	fqFan.Drain()
	// the dead-letter actor publishes asynchronously but in mailbox order: once the LAST message that
	// went through the queue has shown up, everything handed off before it has too
	var dead []string
	deadline := time.Now().Add(10 * time.Second)
	prefix := strconv.Itoa(fqCase) + "/"
	sawLast := lastQueued == ""
	poll := func() {
		for m := range fqSub.Iterator() {
			if dl, ok := m.Payload().(*actor.Deadletter); ok {
				if v, ok := dl.Message().(*wrapperspb.StringValue); ok && strings.HasPrefix(v.GetValue(), prefix) {
					id := strings.TrimPrefix(v.GetValue(), prefix)
					dead = append(dead, id)
					if id == lastQueued {
						sawLast = true
					}
				}
			}
		}
	}
	for !sawLast && time.Now().Before(deadline) {
		poll()
		if !sawLast {
			time.Sleep(2 * time.Millisecond)
		}
	}
	// a little grace for dead letters that were not expected
	time.Sleep(5 * time.Millisecond)
	poll()
	return fmt.Sprintf("cap=%d q=%d dead=%s", capv, q, strings.Join(dead, ","))
}

const gcHold = 40 * time.Millisecond

func handleGC(f []string) string {
	if srvError != "" {
		return "server-error " + srvError
	}
	if len(f) != 3 {
		return "bad-case"
	}
	n, err1 := strconv.Atoi(f[1])
	mb, err2 := strconv.Atoi(f[2])
	if err1 != nil || err2 != nil || n < 1 || n > 8 || mb < 1 {
		return "bad-case"
	}
	if 4*mb < 2*n {
		return "bad-case" // all 2n messages must fit the channel so that no send blocks
	}
	// part 1: structure. n racing getCoalescer calls on a fresh client.
	cs0 := &caseState{entered: make(chan *entered, 64)}
	cur.Store(cs0)
	clA := remoteclient.NewClient(remoteclient.WithSendCoalescing(mb))
	writers, _ := remoteclient.VerifRaceGetCoalescer(clA, srvHost, srvPort, n, func() { time.Sleep(gcHold) })
	clA.Close()

	// part 2: behaviour through RemoteTell.
	cs := &caseState{entered: make(chan *entered, 64)}
	cur.Store(cs)
	cl := remoteclient.NewClient(remoteclient.WithSendCoalescing(mb), remoteclient.WithCoalescingErrorHandler(
		func(string, []*internalpb.RemoteMessage, error) {}))
	to := address.New("target", "sys", srvHost, srvPort)
	send := func(t, q int) error {
		from := address.New(fmt.Sprintf("m%d.%d", t, q), "sys", srvHost, srvPort)
		return cl.RemoteTell(context.Background(), from, to, durationpb.New(time.Duration(t)))
	}
	unlock := remoteclient.VerifHoldCoalescerLock(cl)
	errs := make(chan error, n)
	for t := 0; t < n; t++ {
		go func(t int) { errs <- send(t, 0) }(t)
	}
	time.Sleep(gcHold)
	unlock()
	for t := 0; t < n; t++ {
		if err := <-errs; err != nil {
			cl.Close()
			return "HARNESS-FAIL first send: " + vlib.Canon(err.Error())
		}
	}
	for t := 0; t < n; t++ {
		if err := send(t, 1); err != nil {
			cl.Close()
			return "HARNESS-FAIL second send: " + vlib.Canon(err.Error())
		}
	}
	var inflight []*entered
	var batches []string
	maxIn, delivered, stall := 0, 0, false
	collect := func(d time.Duration) {
		to := time.After(d)
		for {
			select {
			case e := <-cs.entered:
				inflight = append(inflight, e)
				if len(inflight) > maxIn {
					maxIn = len(inflight)
				}
			case <-to:
				return
			}
		}
	}
	deadline := time.Now().Add(wait)
	for delivered < 2*n && time.Now().Before(deadline) {
		// give a second writer, if there is one, the time to show up before anything is released
		collect(60 * time.Millisecond)
		if len(inflight) == 0 {
			continue
		}
		e := inflight[len(inflight)-1] // newest first
		inflight = inflight[:len(inflight)-1]
		if time.Since(e.at) > 3*time.Second {
			stall = true
		}
		batches = append(batches, e.ids+":+")
		delivered += strings.Count(e.ids, ",") + 1
		e.gate <- '+'
	}
	for _, e := range inflight {
		e.gate <- '+'
	}
	cl.Close()
	if stall {
		return "STALL"
	}
	if delivered < 2*n {
		return fmt.Sprintf("HARNESS-FAIL only %d of %d messages reached the remote node", delivered, 2*n)
	}
	return fmt.Sprintf("writers=%d inflight=%d | B %s", writers, maxIn, strings.Join(batches, " "))
}

func handle(line string) string {
	f := vlib.Fields(line)
	if len(f) >= 2 && f[0] == "fq" {
		return handleFQ(f)
	}
	if len(f) >= 1 && f[0] == "gc" {
		return handleGC(f)
	}
	if len(f) == 3 && f[0] == "race" {
		ms, err1 := strconv.Atoi(f[1])
		g, err2 := strconv.Atoi(f[2])
		if err1 != nil || err2 != nil || ms < 1 || ms > 60000 || g < 1 || g > 256 {
			return "bad-case"
		}
		_, lost := remoteclient.VerifRaceClose(time.Duration(ms)*time.Millisecond, g, 4)
		return fmt.Sprintf("lost=%d", lost)
	}
	if len(f) < 3 || f[0] != "co" {
		return "bad-case"
	}
	if srvError != "" {
		return "server-error " + srvError
	}
	mb, err1 := strconv.Atoi(f[1])
	if err1 != nil || mb <= 0 {
		return "bad-case"
	}
	c := &ctl{cs: &caseState{entered: make(chan *entered, 64)}, seq: map[int]int{}}
	cur.Store(c.cs)
	opts := []remoteclient.ClientOption{remoteclient.WithSendCoalescing(mb)}
	if f[2] == "1" {
		opts = append(opts, remoteclient.WithCoalescingErrorHandler(func(_ string, msgs []*internalpb.RemoteMessage, _ error) {
			c.hmu.Lock()
			c.handled = append(c.handled, idsOf(msgs))
			c.hmu.Unlock()
		}))
	}
	c.cl = remoteclient.NewClient(opts...)
	c.to = address.New("target", "sys", srvHost, srvPort)
	co, ok := remoteclient.VerifGetCoalescer(c.cl, srvHost, srvPort)
	if !ok {
		return "no-coalescer"
	}
	c.co = co
	capv := co.Cap()
	fail := ""
	for _, op := range f[3:] {
		if fail != "" {
			break
		}
		switch {
		case op[0] == 's' || op[0] == 'b':
			t, err := strconv.Atoi(op[1:])
			if err != nil {
				fail = "bad-op"
			} else if op[0] == 's' {
				fail = c.tell(t)
			} else {
				fail = c.tellBlocking(t)
			}
		case op == "x":
			if c.bl {
				c.blCancel()
				fail = c.resolveBlocked()
			}
		case op[0] == 'r' && len(op) == 2:
			fail = c.doRelease(op[1])
		case op[0] == 'c':
			fail = c.doClose(op[1:])
		default:
			fail = "bad-op"
		}
	}
	if fail == "" {
		fail = c.doClose("")
	} else if !c.closed {
		// best-effort cleanup so the next case starts clean
		c.doClose("")
	}
	if fail != "" {
		return "HARNESS-FAIL " + fail
	}
	if c.stall {
		return "STALL"
	}
	c.hmu.Lock()
	h := strings.Join(c.handled, " ")
	c.hmu.Unlock()
	return fmt.Sprintf("cap=%d | S %s | B %s | H %s | L %s", capv, strings.Join(c.subs, " "), strings.Join(c.batches, " "), h, c.left)
}

func main() {
	startServer()
	vlib.Loop(handle)
}

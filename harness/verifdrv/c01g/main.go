//go:build verif

// C01G harness (engine E3): one real GRAIN under controlled dispatch.
//   <nworkers> <budget> <reentrant 0|1> | prog0 ; prog1 ; … | schedule
// thread programs: t<k> = TellGrain-style receive of user message k ; b<k> = the same, the handler issues a
// blocking (StashNonReentrant) request k ; q<k> = async request envelope k ; k<k> = timer tick k ;
// z<k> = passivation pill ; a<k> = async response of request k ; w<i> = one take-and-run-turn attempt of
// worker i ; p = pause (search only)
// Output: T … | R … | F H=<handled, handler-exit order> O=<max handlers in progress at once> E=<ready entries>
//         S=<sched state> QR=<responses queued> QM=<mailbox queued> LR=<len> LM=<len> B=<blocking count> P=<hasPendingWork>
package main

import (
	"context"
	"fmt"
	"os"
	"strconv"
	"strings"
	"sync"
	"sync/atomic"
	"time"

	"github.com/tochemey/goakt/v4/actor"
	"github.com/tochemey/goakt/v4/internal/verifdrv/vlib"
	"github.com/tochemey/goakt/v4/internal/vsched"
	"github.com/tochemey/goakt/v4/log"
)

type probe struct {
	mu      sync.Mutex
	handled []string
	inside  atomic.Int32
	maxIn   atomic.Int32
	armed   atomic.Bool
}

func (p *probe) OnActivate(context.Context, *actor.GrainProps) error   { return nil }
func (p *probe) OnDeactivate(context.Context, *actor.GrainProps) error { return nil }

// body is the observable part of a handler invocation (OnReceive or a request continuation).
func (p *probe) body(id string, then func()) {
	n := p.inside.Add(1)
	for {
		old := p.maxIn.Load()
		if n <= old || p.maxIn.CompareAndSwap(old, n) {
			break
		}
	}
	vsched.Point("Recv")
	p.mu.Lock()
	p.handled = append(p.handled, id)
	p.mu.Unlock()
	if then != nil {
		then()
	}
	p.inside.Add(-1)
}

func (p *probe) OnReceive(ctx *actor.GrainContext) {
	if !p.armed.Load() {
		return
	}
	m, ok := ctx.Message().(*actor.VerifC01GMsg)
	if !ok {
		p.body(fmt.Sprintf("%T", ctx.Message()), nil)
		return
	}
	id := string(rune(m.Kind)) + strconv.Itoa(m.ID)
	if m.Kind != 'b' {
		p.body(id, nil)
		return
	}
	p.body(id, func() {
		// the continuation runs on a later turn, when the response envelope is dispatched
		_ = actor.VerifC01GBlock(ctx, m.ID, func(res any, err error) {
			rid := "a?"
			if r, ok := res.(*actor.VerifC01GMsg); ok {
				rid = "a" + strconv.Itoa(r.ID)
			}
			p.body(rid, nil)
		})
	})
}

var (
	sys   actor.ActorSystem
	caseN int
)

type rigObj struct {
	rig *actor.VerifC01GRig
	p   *probe
}

func (o *rigObj) FocusObjs() []any { return o.rig.FocusObjs() }

// Boundary: macro steps (schedule entries `tid*`, used by the failing-schedule search only) end right before an
// operation on the dispatch state, a ready-queue operation, a queue linearisation point, a read of the pause
// counter, a read or update of a len counter, or the handler.
func (o *rigObj) Boundary(label string) bool {
	switch label {
	case "Load:v", "CAS:v", "Store:v", "take", "pause", "Call:schedule", "Call:reschedule", "Recv",
		"Load:next", "Swap:tail", "Load:len", "Add:len", "Load:blockingCount", "Load:tail":
		return true
	}
	return false
}

func (o *rigObj) Do(tid int, op string) string {
	if op == "p" {
		vsched.Point("pause")
		return "ok"
	}
	if len(op) < 2 {
		return "badop"
	}
	n, err := strconv.Atoi(op[1:])
	if err != nil {
		return "badop"
	}
	m := &actor.VerifC01GMsg{Kind: op[0], ID: n}
	switch op[0] {
	case 't', 'b':
		if err := o.rig.Tell(m); err != nil {
			return "err"
		}
		return "ok"
	case 'q':
		if err := o.rig.Request(m); err != nil {
			return "err"
		}
		return "ok"
	case 'a':
		if err := o.rig.Respond(m); err != nil {
			return "err"
		}
		return "ok"
	case 'k':
		o.rig.Tick(m)
		return "ok"
	case 'z':
		if !o.rig.Pill() {
			return "err"
		}
		return "ok"
	case 'w':
		if o.rig.TryTurn(n) {
			return "turn"
		}
		return "idle"
	}
	return "badop"
}

func (o *rigObj) Abort() {
	for i := 0; i < 200; i++ {
		o.rig.TryTurn(0)
		time.Sleep(5 * time.Millisecond)
	}
}

func (o *rigObj) Final() string {
	// sequential completion: worker 0 runs turns until nothing is left (bounded)
	for i := 0; i < 2000; i++ {
		if !o.rig.TryTurn(0) {
			break
		}
	}
	o.p.mu.Lock()
	h := strings.Join(o.p.handled, ",")
	o.p.mu.Unlock()
	qr, qm := o.rig.Queued()
	lr, lm := o.rig.Lens()
	res := fmt.Sprintf("H=%s O=%d E=%d S=%d QR=%d QM=%d LR=%d LM=%d B=%d P=%v", h, o.p.maxIn.Load(), o.rig.Entries(), o.rig.SchedState(),
		qr, qm, lr, lm, o.rig.Blocking(), o.rig.PendingWork())
	if !o.rig.Active() {
		res += " DEAD"
	}
	o.p.armed.Store(false)
	o.rig.Retire()
	return res
}

func mk(cfg string, nthreads int) vlib.Obj {
	f := strings.Fields(cfg)
	if len(f) != 3 {
		return nil
	}
	nw, err1 := strconv.Atoi(f[0])
	budget, err2 := strconv.Atoi(f[1])
	if err1 != nil || err2 != nil || nw < 1 || budget < 1 || (f[2] != "0" && f[2] != "1") {
		return nil
	}
	caseN++
	p := &probe{}
	rig, err := actor.VerifC01GNewRig(context.Background(), sys, fmt.Sprintf("probe-%d", caseN), p, nw, budget, f[2] == "1")
	if err != nil {
		fmt.Fprintln(os.Stderr, "rig:", err)
		return nil
	}
	p.armed.Store(true)
	return &rigObj{rig: rig, p: p}
}

func main() {
	var err error
	sys, err = actor.NewActorSystem("verif", actor.WithLogger(log.DiscardLogger))
	if err != nil {
		panic(err)
	}
	if err := sys.Start(context.Background()); err != nil {
		panic(err)
	}
	time.Sleep(50 * time.Millisecond)
	vlib.StepTimeout = 5 * time.Second
	vlib.Loop(func(line string) string { return vlib.RunConc(line, mk) })
	_ = sys.Stop(context.Background())
}

//go:build verif

// C16 harness: a requester actor issuing reentrant requests to a responder actor that replies only when
// the case script says so.  One actor system per process, one requester/responder pair per case.
//
// case line:  mode=<a|s|-> max=<n> [to=<a|g>] | <op> <op> ...   (to=g: the responder is a grain, requests go through RequestGrain; to=n: the actor responder is addressed by name, RequestName)
//
//	mode   actor-level reentrancy: a AllowAll, s StashNonReentrant, - not enabled ; max = MaxInFlight (0 = no limit)
//	ops (k = one digit label):
//	  q<k><m><t>  tell the requester to issue request k from inside its handler; m = per-call mode override
//	              (a AllowAll, s StashNonReentrant, o Off, d none); t = t register Then at once, n do not
//	  m<k>        ordinary user message k
//	  a<k>        another actor sends Request(requester, msg k): an AsyncRequest envelope carrying an ordinary message
//	  r<k>        the responder replies to request k (again = a duplicate reply)
//	  x<k>        the timeout of request k fires (the call the timer goroutine makes)
//	  c<k>        RequestCall.Cancel() of request k
//	  T<k>        RequestCall.Then(callback) of request k, called late from the harness goroutine
//	  H           a user message whose handler blocks until released (lets the script queue several messages)
//	  L           release (or pre-release) one hold
//	  S           shut the requester down
//
// After each op the harness waits (conditions, no sleeps) until the responder is idle and the requester is
// idle or parked inside a hold handler, then prints
//
//	<res>|<inFlight>.<blocking>.<states>.<stashed>.<queued>|<log delta>
//
// log entries, in the order they happened on the requester: m<k> handled, H entered, q<k>=<ok|lim|dis|dead|err>,
// cb<k>:<ok|to|ca|er>:<1 on the requester's turn, 0 otherwise>.
package main

import (
	"context"
	"errors"
	"fmt"
	"os"
	"runtime"
	"sort"
	"strconv"
	"strings"
	"sync"
	"sync/atomic"
	"time"

	"github.com/tochemey/goakt/v4/actor"
	gerrors "github.com/tochemey/goakt/v4/errors"
	"github.com/tochemey/goakt/v4/internal/verifdrv/vlib"
	"github.com/tochemey/goakt/v4/log"
	"github.com/tochemey/goakt/v4/reentrancy"
)

type userMsg struct{ k int }
type holdMsg struct{}
type reqCmd struct {
	k    int
	mode byte
	then bool
}
type reqPayload struct{ K int }
type askPayload struct{ K int }
type askCmd struct{ k int }
type replyPayload struct{ K int }

const waitLimit = 30 * time.Second

var (
	sys     actor.ActorSystem
	mainGID string
	caseNo  int
)

func gid() string {
	buf := make([]byte, 64)
	n := runtime.Stack(buf, false)
	f := strings.Fields(string(buf[:n]))
	if len(f) > 1 {
		return f[1]
	}
	return "?"
}

func spin(what string, cond func() bool) {
	deadline := time.Now().Add(waitLimit)
	for i := 0; !cond(); i++ {
		if i < 200 {
			runtime.Gosched()
		} else {
			time.Sleep(50 * time.Microsecond)
		}
		if i%1024 == 1023 && time.Now().After(deadline) {
			panic("timeout waiting for " + what)
		}
	}
}

// ---- responder -------------------------------------------------------------------

type responder struct {
	mu      sync.Mutex
	replies map[int]func(any) error
}

func (r *responder) PreStart(*actor.Context) error { return nil }
func (r *responder) PostStop(*actor.Context) error { return nil }
func (r *responder) Receive(ctx *actor.ReceiveContext) {
	switch m := ctx.Message().(type) {
	case *reqPayload:
		if f := actor.VerifC16Reply(ctx); f != nil {
			r.mu.Lock()
			r.replies[m.K] = f
			r.mu.Unlock()
		}
	default:
	}
}

// asker: a peer with reentrancy enabled that sends a Request to the requester when told to
type asker struct{ target *actor.PID }

func (a *asker) PreStart(*actor.Context) error { return nil }
func (a *asker) PostStop(*actor.Context) error { return nil }
func (a *asker) Receive(ctx *actor.ReceiveContext) {
	switch m := ctx.Message().(type) {
	case *askCmd:
		ctx.Request(a.target, &askPayload{K: m.k})
		_ = actor.VerifC16TakeErr(ctx) // a dead target is not the asker's failure
	default:
	}
}

// grain responder: defers every reply (GrainContext.DeferResponse) until the script releases it
type grainResponder struct {
	mu      sync.Mutex
	replies map[int]*actor.GrainReply
}

func (g *grainResponder) OnActivate(context.Context, *actor.GrainProps) error   { return nil }
func (g *grainResponder) OnDeactivate(context.Context, *actor.GrainProps) error { return nil }
func (g *grainResponder) OnReceive(ctx *actor.GrainContext) {
	switch m := ctx.Message().(type) {
	case *reqPayload:
		if r := ctx.DeferResponse(); r != nil {
			g.mu.Lock()
			g.replies[m.K] = r
			g.mu.Unlock()
		}
	default:
		ctx.Unhandled()
	}
}

// ---- requester -------------------------------------------------------------------

type requester struct {
	self      *actor.PID
	to        *actor.PID
	toGrain   *actor.GrainIdentity
	byName    bool
	mu        sync.Mutex
	log       []string
	calls     map[int]actor.RequestCall
	holding   atomic.Bool
	permits   atomic.Int64
	releaseCh chan struct{}
}

func (q *requester) add(s string) {
	q.mu.Lock()
	q.log = append(q.log, s)
	q.mu.Unlock()
}

func (q *requester) take() []string {
	q.mu.Lock()
	l := q.log
	q.log = nil
	q.mu.Unlock()
	return l
}

func (q *requester) callback(k int) func(any, error) {
	return func(res any, err error) {
		out := "ok"
		switch {
		case err == nil:
			if p, ok := res.(*replyPayload); !ok || p.K != k {
				out = "er"
			}
		case errors.Is(err, gerrors.ErrRequestTimeout):
			out = "to"
		case errors.Is(err, gerrors.ErrRequestCanceled):
			out = "ca"
		default:
			out = "er"
		}
		turn := 0
		if gid() != mainGID && actor.VerifC16Processing(q.self) {
			turn = 1
		}
		q.add(fmt.Sprintf("cb%d:%s:%d", k, out, turn))
	}
}

func (q *requester) PreStart(*actor.Context) error { return nil }
func (q *requester) PostStop(*actor.Context) error { return nil }
func (q *requester) Receive(ctx *actor.ReceiveContext) {
	switch m := ctx.Message().(type) {
	case *actor.PostStart:
		q.self = ctx.Self()
	case *userMsg:
		q.add(fmt.Sprintf("m%d", m.k))
	case *askPayload:
		q.add(fmt.Sprintf("a%d", m.K))
		ctx.Response(&replyPayload{K: m.K})
	case *holdMsg:
		q.add("H")
		if q.permits.Load() > 0 {
			q.permits.Add(-1)
			return
		}
		q.holding.Store(true)
		<-q.releaseCh
	case *reqCmd:
		var opts []actor.RequestOption
		switch m.mode {
		case 'a':
			opts = append(opts, actor.WithReentrancyMode(reentrancy.AllowAll))
		case 's':
			opts = append(opts, actor.WithReentrancyMode(reentrancy.StashNonReentrant))
		case 'o':
			opts = append(opts, actor.WithReentrancyMode(reentrancy.Off))
		}
		var call actor.RequestCall
		switch {
		case q.toGrain != nil:
			call = ctx.RequestGrain(q.toGrain, &reqPayload{K: m.k}, opts...)
		case q.byName:
			call = ctx.RequestName(q.to.Name(), &reqPayload{K: m.k}, opts...)
		default:
			call = ctx.Request(q.to, &reqPayload{K: m.k}, opts...)
		}
		err := actor.VerifC16TakeErr(ctx)
		res := "ok"
		switch {
		case call != nil && err == nil:
			q.mu.Lock()
			q.calls[m.k] = call
			q.mu.Unlock()
			if m.then {
				call.Then(q.callback(m.k))
			}
		case errors.Is(err, gerrors.ErrReentrancyInFlightLimit):
			res = "lim"
		case errors.Is(err, gerrors.ErrReentrancyDisabled):
			res = "dis"
		case errors.Is(err, gerrors.ErrDead):
			res = "dead"
		default:
			res = "err"
		}
		q.add(fmt.Sprintf("q%d=%s", m.k, res))
	default:
		ctx.Unhandled()
	}
}

func (q *requester) call(k int) actor.RequestCall {
	q.mu.Lock()
	defer q.mu.Unlock()
	return q.calls[k]
}

// ---- case ------------------------------------------------------------------------

func handle(line string) string {
	parts := strings.Split(line, "|")
	if len(parts) != 2 {
		return "bad-case"
	}
	cfg := vlib.Fields(parts[0])
	ops := vlib.Fields(parts[1])
	if len(cfg) > 0 && cfg[0] == "who=g" {
		return handleGrain(cfg[1:], ops)
	}
	grainTarget, byName := false, false
	if len(cfg) == 3 && (cfg[2] == "to=g" || cfg[2] == "to=a" || cfg[2] == "to=n") {
		grainTarget = cfg[2] == "to=g"
		byName = cfg[2] == "to=n"
		cfg = cfg[:2]
	}
	if len(cfg) != 2 || !strings.HasPrefix(cfg[0], "mode=") || !strings.HasPrefix(cfg[1], "max=") {
		return "bad-case"
	}
	mode := cfg[0][5:]
	max, err := strconv.Atoi(cfg[1][4:])
	if err != nil || max < 0 || (mode != "a" && mode != "s" && mode != "-") {
		return "bad-case"
	}
	seenQ := map[byte]bool{}
	for _, op := range ops {
		if !validOp(op) {
			return "bad-case"
		}
		if op[0] == 'q' {
			if seenQ[op[1]] {
				return "bad-case" // a label is a correlation id: never issued twice
			}
			seenQ[op[1]] = true
		}
	}
	ctx := context.Background()
	caseNo++
	resp := &responder{replies: map[int]func(any) error{}}
	rp, err := sys.Spawn(ctx, fmt.Sprintf("resp%d", caseNo), resp, actor.WithLongLived())
	if err != nil {
		return "spawn-error " + err.Error()
	}
	req := &requester{to: rp, byName: byName, calls: map[int]actor.RequestCall{}, releaseCh: make(chan struct{}, 64)}
	gresp := &grainResponder{replies: map[int]*actor.GrainReply{}}
	var gid *actor.GrainIdentity
	if grainTarget {
		gid, err = sys.GrainIdentity(ctx, fmt.Sprintf("gresp%d", caseNo), func(context.Context) (actor.Grain, error) { return gresp, nil })
		if err != nil {
			_ = rp.Shutdown(ctx)
			return "spawn-error " + err.Error()
		}
		req.toGrain = gid
	}
	sopts := []actor.SpawnOption{actor.WithLongLived()}
	switch mode {
	case "a":
		sopts = append(sopts, actor.WithReentrancy(reentrancy.New(reentrancy.WithMode(reentrancy.AllowAll), reentrancy.WithMaxInFlight(max))))
	case "s":
		sopts = append(sopts, actor.WithReentrancy(reentrancy.New(reentrancy.WithMode(reentrancy.StashNonReentrant), reentrancy.WithMaxInFlight(max))))
	}
	qp, err := sys.Spawn(ctx, fmt.Sprintf("req%d", caseNo), req, sopts...)
	if err != nil {
		_ = rp.Shutdown(ctx)
		return "spawn-error " + err.Error()
	}
	ask := &asker{target: qp}
	ap, err := sys.Spawn(ctx, fmt.Sprintf("ask%d", caseNo), ask, actor.WithLongLived(),
		actor.WithReentrancy(reentrancy.New(reentrancy.WithMode(reentrancy.AllowAll))))
	if err != nil {
		_ = qp.Shutdown(ctx)
		_ = rp.Shutdown(ctx)
		return "spawn-error " + err.Error()
	}
	defer func() { _ = ap.Shutdown(ctx) }()
	stopped := false
	defer func() {
		// release a parked handler before tearing down
		for req.holding.Load() {
			req.holding.Store(false)
			req.releaseCh <- struct{}{}
			spin("requester settles", func() bool { return actor.VerifC16Idle(qp) || req.holding.Load() })
		}
		if !stopped {
			_ = qp.Shutdown(ctx)
		}
		_ = rp.Shutdown(ctx)
	}()
	settle := func() {
		spin("settle", func() bool {
			return actor.VerifC16Idle(rp) && actor.VerifC16Idle(ap) && actor.VerifC16GrainIdle(sys, gid) && (actor.VerifC16Idle(qp) || req.holding.Load())
		})
	}
	settle()
	req.take()
	var outs []string
	for _, op := range ops {
		res := "ok"
		k := 0
		if len(op) > 1 {
			k = int(op[1] - '0')
		}
		switch op[0] {
		case 'q':
			if err := actor.Tell(ctx, qp, &reqCmd{k: k, mode: op[2], then: op[3] == 't'}); err != nil {
				res = "dead"
			}
		case 'm':
			if err := actor.Tell(ctx, qp, &userMsg{k: k}); err != nil {
				res = "dead"
			}
		case 'a':
			_ = actor.Tell(ctx, ap, &askCmd{k: k})
		case 'H':
			if err := actor.Tell(ctx, qp, &holdMsg{}); err != nil {
				res = "dead"
			}
		case 'L':
			if req.holding.Load() {
				req.holding.Store(false)
				req.releaseCh <- struct{}{}
			} else {
				req.permits.Add(1)
			}
		case 'r':
			if grainTarget {
				gresp.mu.Lock()
				gr := gresp.replies[k]
				gresp.mu.Unlock()
				if gr == nil {
					res = "none"
				} else {
					// completing a GrainReply twice is a no-op by contract; failures are only logged
					gr.Response(&replyPayload{K: k})
				}
				break
			}
			resp.mu.Lock()
			f := resp.replies[k]
			resp.mu.Unlock()
			if f == nil {
				res = "none"
			} else if err := f(&replyPayload{K: k}); err != nil {
				res = "err"
			}
		case 'x':
			if c := req.call(k); c == nil {
				res = "none"
			} else if stopped {
				res = "gone"
			} else {
				actor.VerifC16FireTimeout(qp, actor.VerifC16CallID(c))
			}
		case 'c':
			if c := req.call(k); c == nil {
				res = "none"
			} else if stopped {
				res = "gone"
			} else if err := c.Cancel(); err != nil {
				res = "err"
			}
		case 'T':
			if c := req.call(k); c == nil {
				res = "none"
			} else {
				c.Then(req.callback(k))
			}
		case 'S':
			if req.holding.Load() {
				res = "held"
			} else if stopped {
				res = "gone"
			} else {
				if err := qp.Shutdown(ctx); err != nil {
					res = "err"
				}
				stopped = true
			}
		}
		settle()
		inF, bl, st, sh := actor.VerifC16Counters(qp)
		outs = append(outs, fmt.Sprintf("%s|%d.%d.%d.%d|%s", res, inF, bl, st, sh, join(req.take())))
	}
	return strings.Join(outs, " ; ")
}

// ---- a grain as the requester ---------------------------------------------------------
//
// case line:  who=g mode=<a|s|-> max=<n> [to=<a|g>] | ops     (same ops)
//
// Differences of the code path (grain_pid.go): a blocking request PAUSES the user mailbox (nothing is
// stashed, arrival order is kept), responses travel in their own queue and go first, admission failures
// come back as an already-completed call whose Then runs at once with the error, S does what the system
// shutdown does to a grain (queue-routed cancellation of what is in flight, then a PoisonPill through the
// user mailbox; whatever is still in flight when the pill is handled is torn down WITH its continuation).
// Counters: inFlight.blocking.states.queuedUser.queuedResponses.

type grainRequester struct {
	id        *actor.GrainIdentity
	to        *actor.PID
	toGrain   *actor.GrainIdentity
	mu        sync.Mutex
	log       []string
	calls     map[int]actor.RequestCall
	holding   atomic.Bool
	permits   atomic.Int64
	releaseCh chan struct{}
	deact     atomic.Int64
}

func (q *grainRequester) add(s string) {
	q.mu.Lock()
	q.log = append(q.log, s)
	q.mu.Unlock()
}

func (q *grainRequester) take() []string {
	q.mu.Lock()
	l := q.log
	q.log = nil
	q.mu.Unlock()
	// the order in which several requests are cancelled by a shutdown follows Go map iteration:
	// sort every maximal run of consecutive cancelled-continuation entries
	for i := 0; i < len(l); {
		j := i
		for j < len(l) && strings.HasPrefix(l[j], "cb") && strings.Contains(l[j], ":ca:") {
			j++
		}
		if j > i+1 {
			sort.Strings(l[i:j])
		}
		if j == i {
			j++
		}
		i = j
	}
	return l
}

func (q *grainRequester) callback(k int) func(any, error) {
	return func(res any, err error) {
		out := "ok"
		switch {
		case err == nil:
			if p, ok := res.(*replyPayload); !ok || p.K != k {
				out = "er"
			}
		case errors.Is(err, gerrors.ErrRequestTimeout):
			out = "to"
		case errors.Is(err, gerrors.ErrRequestCanceled):
			out = "ca"
		case errors.Is(err, gerrors.ErrReentrancyInFlightLimit):
			out = "lim"
		case errors.Is(err, gerrors.ErrReentrancyDisabled):
			out = "dis"
		default:
			out = "er"
		}
		turn := 0
		if gid() != mainGID && actor.VerifC16GrainProcessing(sys, q.id) {
			turn = 1
		}
		q.add(fmt.Sprintf("cb%d:%s:%d", k, out, turn))
	}
}

func (q *grainRequester) OnActivate(context.Context, *actor.GrainProps) error { return nil }
func (q *grainRequester) OnDeactivate(context.Context, *actor.GrainProps) error {
	q.deact.Add(1)
	q.add("D")
	return nil
}
func (q *grainRequester) OnReceive(ctx *actor.GrainContext) {
	switch m := ctx.Message().(type) {
	case *userMsg:
		q.add(fmt.Sprintf("m%d", m.k))
	case *holdMsg:
		q.add("H")
		if q.permits.Load() > 0 {
			q.permits.Add(-1)
			return
		}
		q.holding.Store(true)
		<-q.releaseCh
	case *reqCmd:
		// no real timer: the script fires timeouts itself
		opts := []actor.RequestOption{actor.WithRequestTimeout(-1)}
		switch m.mode {
		case 'a':
			opts = append(opts, actor.WithReentrancyMode(reentrancy.AllowAll))
		case 's':
			opts = append(opts, actor.WithReentrancyMode(reentrancy.StashNonReentrant))
		case 'o':
			opts = append(opts, actor.WithReentrancyMode(reentrancy.Off))
		}
		var call actor.RequestCall
		if q.toGrain != nil {
			call = ctx.RequestGrain(q.toGrain, &reqPayload{K: m.k}, opts...)
		} else {
			call = ctx.RequestActor(q.to.Name(), &reqPayload{K: m.k}, opts...)
		}
		q.mu.Lock()
		q.calls[m.k] = call
		q.mu.Unlock()
		q.add(fmt.Sprintf("q%d", m.k))
		if m.then && call != nil {
			call.Then(q.callback(m.k))
		}
	default:
		ctx.Unhandled()
	}
}

func (q *grainRequester) call(k int) actor.RequestCall {
	q.mu.Lock()
	defer q.mu.Unlock()
	return q.calls[k]
}

func handleGrain(cfg []string, ops []string) string {
	grainTarget := false
	if len(cfg) == 3 && (cfg[2] == "to=g" || cfg[2] == "to=a") {
		grainTarget = cfg[2] == "to=g"
		cfg = cfg[:2]
	}
	if len(cfg) != 2 || !strings.HasPrefix(cfg[0], "mode=") || !strings.HasPrefix(cfg[1], "max=") {
		return "bad-case"
	}
	mode := cfg[0][5:]
	max, err := strconv.Atoi(cfg[1][4:])
	if err != nil || max < 0 || (mode != "a" && mode != "s" && mode != "-") {
		return "bad-case"
	}
	seenQ := map[byte]bool{}
	for _, op := range ops {
		if !validOp(op) || op[0] == 'a' {
			return "bad-case"
		}
		if op[0] == 'q' {
			if seenQ[op[1]] {
				return "bad-case"
			}
			seenQ[op[1]] = true
		}
	}
	ctx := context.Background()
	caseNo++
	resp := &responder{replies: map[int]func(any) error{}}
	rp, err := sys.Spawn(ctx, fmt.Sprintf("resp%d", caseNo), resp, actor.WithLongLived())
	if err != nil {
		return "spawn-error " + err.Error()
	}
	defer func() { _ = rp.Shutdown(ctx) }()
	gresp := &grainResponder{replies: map[int]*actor.GrainReply{}}
	var gtarget *actor.GrainIdentity
	if grainTarget {
		if gtarget, err = sys.GrainIdentity(ctx, fmt.Sprintf("gresp%d", caseNo), func(context.Context) (actor.Grain, error) { return gresp, nil }); err != nil {
			return "spawn-error " + err.Error()
		}
	}
	req := &grainRequester{to: rp, toGrain: gtarget, calls: map[int]actor.RequestCall{}, releaseCh: make(chan struct{}, 64)}
	gopts := []actor.GrainOption{actor.WithLongLivedGrain()}
	switch mode {
	case "a":
		gopts = append(gopts, actor.WithGrainReentrancy(reentrancy.New(reentrancy.WithMode(reentrancy.AllowAll), reentrancy.WithMaxInFlight(max))))
	case "s":
		gopts = append(gopts, actor.WithGrainReentrancy(reentrancy.New(reentrancy.WithMode(reentrancy.StashNonReentrant), reentrancy.WithMaxInFlight(max))))
	}
	qid, err := sys.GrainIdentity(ctx, fmt.Sprintf("greq%d", caseNo), func(context.Context) (actor.Grain, error) { return req, nil }, gopts...)
	if err != nil {
		return "spawn-error " + err.Error()
	}
	req.id = qid
	poisoned := false
	settle := func() {
		spin("settle", func() bool {
			return actor.VerifC16Idle(rp) && actor.VerifC16GrainIdle(sys, gtarget) &&
				(actor.VerifC16GrainSettled(sys, qid) || req.holding.Load())
		})
	}
	defer func() {
		// tear the grain down whatever state the script left it in: release parked handlers, complete what
		// still pauses it, poison it (a reply arriving after a deactivation re-activates the virtual grain,
		// so possibly more than once)
		for round := 0; round < 64; round++ {
			if req.holding.Load() {
				req.holding.Store(false)
				req.releaseCh <- struct{}{}
			} else if !actor.VerifC16GrainActive(sys, qid) {
				return
			} else {
				req.mu.Lock()
				var ids []string
				for _, c := range req.calls {
					if c != nil && actor.VerifC16CallID(c) != "" {
						ids = append(ids, actor.VerifC16CallID(c))
					}
				}
				req.mu.Unlock()
				for _, id := range ids {
					actor.VerifC16GrainFireTimeout(sys, qid, id)
				}
				actor.VerifC16GrainPoison(sys, qid)
			}
			spin("grain teardown", func() bool {
				return req.holding.Load() || !actor.VerifC16GrainActive(sys, qid) || actor.VerifC16GrainSettled(sys, qid)
			})
		}
	}()
	// activate
	if err := actor.VerifC16GrainTell(sys, qid, &userMsg{k: 99}); err != nil {
		return "spawn-error " + err.Error()
	}
	settle()
	req.take()
	var outs []string
	for _, op := range ops {
		res := "ok"
		k := 0
		if len(op) > 1 {
			k = int(op[1] - '0')
		}
		deliver := func(m any) {
			if poisoned {
				res = "gone"
				return
			}
			if err := actor.VerifC16GrainTell(sys, qid, m); err != nil {
				res = "dead"
			}
		}
		switch op[0] {
		case 'q':
			deliver(&reqCmd{k: k, mode: op[2], then: op[3] == 't'})
		case 'm':
			deliver(&userMsg{k: k})
		case 'H':
			deliver(&holdMsg{})
		case 'L':
			if req.holding.Load() {
				req.holding.Store(false)
				req.releaseCh <- struct{}{}
			} else {
				req.permits.Add(1)
			}
		case 'r':
			if grainTarget {
				gresp.mu.Lock()
				gr := gresp.replies[k]
				gresp.mu.Unlock()
				if gr == nil {
					res = "none"
				} else {
					gr.Response(&replyPayload{K: k})
				}
				break
			}
			resp.mu.Lock()
			f := resp.replies[k]
			resp.mu.Unlock()
			if f == nil {
				res = "none"
			} else if err := f(&replyPayload{K: k}); err != nil {
				res = "err"
			}
		case 'x':
			if c := req.call(k); c == nil || actor.VerifC16CallID(c) == "" {
				res = "none"
			} else {
				actor.VerifC16GrainFireTimeout(sys, qid, actor.VerifC16CallID(c))
			}
		case 'c':
			if c := req.call(k); c == nil {
				res = "none"
			} else if err := c.Cancel(); err != nil {
				res = "err"
			}
		case 'T':
			if c := req.call(k); c == nil {
				res = "none"
			} else {
				c.Then(req.callback(k))
			}
		case 'S':
			if poisoned {
				res = "gone"
			} else {
				actor.VerifC16GrainPoison(sys, qid)
				poisoned = true
			}
		}
		settle()
		inF, bl, st, qd, rs := actor.VerifC16GrainCounters(sys, qid)
		cnt := fmt.Sprintf("%d.%d.%d.%d.%d", inF, bl, st, qd, rs)
		if req.deact.Load() > 0 {
			cnt = "x" // deactivated: a later envelope may re-activate the virtual grain, nothing is compared
		}
		outs = append(outs, fmt.Sprintf("%s|%s|%s", res, cnt, join(req.take())))
	}
	return strings.Join(outs, " ; ")
}

func join(l []string) string {
	if len(l) == 0 {
		return "-"
	}
	return strings.Join(l, ",")
}

func validOp(op string) bool {
	dig := func(i int) bool { return len(op) > i && op[i] >= '0' && op[i] <= '9' }
	switch {
	case op == "H" || op == "L" || op == "S":
		return true
	case len(op) == 4 && op[0] == 'q' && dig(1) && strings.ContainsRune("asod", rune(op[2])) && (op[3] == 't' || op[3] == 'n'):
		return true
	case len(op) == 2 && strings.ContainsRune("marxcT", rune(op[0])) && dig(1):
		return true
	}
	return false
}

func main() {
	ctx := context.Background()
	mainGID = gid()
	var err error
	sys, err = actor.NewActorSystem("c16", actor.WithLogger(log.DiscardLogger))
	if err != nil {
		fmt.Fprintln(os.Stderr, err)
		os.Exit(3)
	}
	if err = sys.Start(ctx); err != nil {
		fmt.Fprintln(os.Stderr, err)
		os.Exit(3)
	}
	vlib.Loop(handle)
	_ = sys.Stop(ctx)
}

//go:build verif

// C34 harness: drives the REAL membership-event bookkeeping of internal/cluster (the cluster
// struct built by New, not started) with a notification history.
//
// case line: ops separated by spaces; nodes are letters (s = the local node, a,b,c.. peers),
// epochs one digit; the timestamp of the op at 0-based position k is (k+1) ms.
//   j<N>        node-join notification for N
//   l<N><c>     node-left notification for N; <c> is the ground-truth annotation (first epoch
//               covering this departure) - ignored by the code, used by the oracle
//   SL<e><N>    rebalance-start, reason node-left,  epoch e, node N
//   SJ<e><N>    rebalance-start, reason node-join,  epoch e, node N
//   SO<e><N>    rebalance-start, some other reason
//   C<e>        rebalance-complete epoch e
//   o<N>        the NodeLeft timeout of N fires (emitOverdueNodeLeft)
//
// enum <L> <prefix ops...>   every history prefix++ext with at most L ops, ext over the fixed
//             14-token alphabet (2 peers, 2 epochs), run one by one on the real code; prints
//             `n=<count> h=<sum mod 2^64 of FNV-1a64(history TAB output)>` (order independent)
//
// output: per op `-` or the sorted comma list of emitted events `L<N>@<ms>` / `J<N>@<ms>`,
// then ` | ` and a digest of the bookkeeping state.
package main

import (
	"fmt"
	"hash/fnv"
	"os"
	"runtime/pprof"
	"sort"
	"strconv"
	"strings"
	"sync"
	"sync/atomic"
	"time"

	"github.com/tochemey/goakt/v4/internal/cluster"
	"github.com/tochemey/goakt/v4/internal/verifdrv/vlib"
)

const selfHost = "127.0.0.1"
const selfPort = 4000

func addr(n byte) string {
	if n == 's' {
		return fmt.Sprintf("%s:%d", selfHost, selfPort)
	}
	return fmt.Sprintf("10.0.0.%d:7000", int(n-'a')+1)
}

func letter(a string) string {
	if a == addr('s') {
		return "s"
	}
	var i int
	if _, err := fmt.Sscanf(a, "10.0.0.%d:7000", &i); err == nil && i >= 1 && i <= 25 {
		return string(rune('a' + i - 1))
	}
	return "?" + a
}

func isNode(b byte) bool  { return b >= 'a' && b <= 'z' }
func isDigit(b byte) bool { return b >= '0' && b <= '9' }

var enumAlphabet = []string{"la1", "la2", "lb1", "lb2", "SL1a", "C1", "SL2a", "C2", "oa", "ob", "ja", "jb", "SJ1a", "SJ2a"}

// limiter: every tracked departure arms a 30 s timer that pins its cluster struct, so the
// enumeration admits at most enumWindowCap histories per enumWindow.
const enumWindow = 31 * time.Second
const enumWindowCap = 2500000

var (
	limMu    sync.Mutex
	limSlots []limSlot
)

type limSlot struct {
	at time.Time
	n  int
}

func admit(n int) {
	for {
		limMu.Lock()
		now := time.Now()
		live := 0
		k := 0
		for _, s := range limSlots {
			if now.Sub(s.at) < enumWindow {
				limSlots[k] = s
				k++
				live += s.n
			}
		}
		limSlots = limSlots[:k]
		if live+n <= enumWindowCap || live == 0 {
			limSlots = append(limSlots, limSlot{now, n})
			limMu.Unlock()
			return
		}
		limMu.Unlock()
		time.Sleep(200 * time.Millisecond)
	}
}

func enum(maxLen int, prefix []string) string {
	if len(prefix) > maxLen || maxLen > 8 {
		return "bad-case"
	}
	var total, count uint64
	one := func(h []string) {
		line := strings.Join(h, " ")
		f := fnv.New64a()
		f.Write([]byte(line + "\t" + run(h, cluster.VerifC34Clone(template), true)))
		atomic.AddUint64(&total, f.Sum64())
		atomic.AddUint64(&count, 1)
	}
	var rec func(h []string)
	rec = func(h []string) {
		one(h)
		if len(h) == maxLen {
			return
		}
		for _, t := range enumAlphabet {
			rec(append(h[:len(h):len(h)], t))
		}
	}
	if len(prefix) > 0 {
		one(prefix)
	}
	if rem := maxLen - len(prefix); rem > 0 {
		size := 0 // histories below one first extension
		for i, p := 0, 1; i < rem; i++ {
			size += p
			p *= len(enumAlphabet)
		}
		var wg sync.WaitGroup
		sem := make(chan struct{}, 8)
		for _, t := range enumAlphabet {
			admit(size)
			wg.Add(1)
			sem <- struct{}{}
			go func(t string) {
				defer wg.Done()
				defer func() { <-sem }()
				rec(append(append([]string(nil), prefix...), t))
			}(t)
		}
		wg.Wait()
	}
	return fmt.Sprintf("n=%d h=%016x", count, total)
}

var template = cluster.VerifC34New(selfHost, selfPort)

func handle(line string) string {
	ops := vlib.Fields(line)
	if len(ops) >= 2 && ops[0] == "enum" {
		n, err := strconv.Atoi(ops[1])
		if err != nil {
			return "bad-case"
		}
		return enum(n, ops[2:])
	}
	return run(ops, cluster.VerifC34New(selfHost, selfPort), false)
}

// run drives one history; direct = call the handlers without the JSON round trip (enumeration)
func run(ops []string, v *cluster.VerifC34, direct bool) string {
	defer v.Release()
	var steps []string
	for k, op := range ops {
		ns := int64(k+1) * 1000000
		switch {
		case direct && len(op) == 2 && op[0] == 'j' && isNode(op[1]):
			v.Apply('j', addr(op[1]), "", 0, ns)
		case direct && len(op) == 3 && op[0] == 'l' && isNode(op[1]) && isDigit(op[2]):
			v.Apply('l', addr(op[1]), "", 0, ns)
		case direct && len(op) == 4 && op[0] == 'S' && isDigit(op[2]) && isNode(op[3]) && (op[1] == 'L' || op[1] == 'J'):
			v.Apply('S', addr(op[3]), map[byte]string{'L': "node-left", 'J': "node-join"}[op[1]], uint64(op[2]-'0'), ns)
		case direct && len(op) == 2 && op[0] == 'C' && isDigit(op[1]):
			v.Apply('C', "", "", uint64(op[1]-'0'), ns)
		case len(op) == 2 && op[0] == 'j' && isNode(op[1]):
			if err := v.Feed(fmt.Sprintf(`{"kind":"node-join-event","source":"x","node_join":%q,"node_meta":"","timestamp":%d}`, addr(op[1]), ns)); err != nil {
				return "err " + err.Error()
			}
		case len(op) == 3 && op[0] == 'l' && isNode(op[1]) && isDigit(op[2]):
			if err := v.Feed(fmt.Sprintf(`{"kind":"node-left-event","source":"x","node_left":%q,"node_meta":"","timestamp":%d}`, addr(op[1]), ns)); err != nil {
				return "err " + err.Error()
			}
		case len(op) == 4 && op[0] == 'S' && isDigit(op[2]) && isNode(op[3]) && (op[1] == 'L' || op[1] == 'J' || op[1] == 'O'):
			reason := map[byte]string{'L': "node-left", 'J': "node-join", 'O': "manual"}[op[1]]
			if err := v.Feed(fmt.Sprintf(`{"kind":"rebalance-start-event","source":"x","epoch":%d,"reason":%q,"node":%q,"timestamp":%d}`, int(op[2]-'0'), reason, addr(op[3]), ns)); err != nil {
				return "err " + err.Error()
			}
		case len(op) == 2 && op[0] == 'C' && isDigit(op[1]):
			if err := v.Feed(fmt.Sprintf(`{"kind":"rebalance-complete-event","source":"x","epoch":%d,"timestamp":%d}`, int(op[1]-'0'), ns)); err != nil {
				return "err " + err.Error()
			}
		case len(op) == 2 && op[0] == 'o' && isNode(op[1]):
			v.Overdue(addr(op[1]))
		default:
			return "bad-case"
		}
		evs := v.Drain()
		if len(evs) == 0 {
			steps = append(steps, "-")
			continue
		}
		var es []string
		for _, e := range evs {
			if e.Kind == "X" {
				es = append(es, "X"+e.Addr)
			} else {
				es = append(es, fmt.Sprintf("%s%s@%d", e.Kind, letter(e.Addr), e.Ms))
			}
		}
		sort.Strings(es)
		steps = append(steps, strings.Join(es, ","))
	}
	return strings.Join(steps, " ") + " | " + digest(v.State())
}

func digest(s cluster.VerifC34State) string {
	ts := func(m map[string]int64) string {
		var l []string
		for k, t := range m {
			l = append(l, fmt.Sprintf("%s@%d", letter(k), t/1000000))
		}
		sort.Strings(l)
		return strings.Join(l, ",")
	}
	ep := func(m map[string]uint64) string {
		var l []string
		for k, e := range m {
			l = append(l, fmt.Sprintf("%s%d", letter(k), e))
		}
		sort.Strings(l)
		return strings.Join(l, ",")
	}
	eps := func(l []uint64) string {
		sort.Slice(l, func(i, j int) bool { return l[i] < l[j] })
		var b strings.Builder
		for _, e := range l {
			fmt.Fprintf(&b, "%d", e)
		}
		return b.String()
	}
	ns := func(l []string) string {
		var o []string
		for _, a := range l {
			o = append(o, letter(a))
		}
		sort.Strings(o)
		return strings.Join(o, "")
	}
	return fmt.Sprintf("jt=%s;lt=%s;je=%s;le=%s;jl=%d;ll=%d;ss=%s;cs=%s;jf=%s;lf=%s",
		ts(s.JoinTs), ts(s.LeftTs), ep(s.JoinEp), ep(s.LeftEp), s.JoinLatest, s.LeftLatest, eps(s.StartSeen), eps(s.CompleteSeen), ns(s.JoinF), ns(s.LeftF))
}

func main() {
	if f := os.Getenv("VERIF_C34_PROF"); f != "" {
		w, _ := os.Create(f)
		pprof.StartCPUProfile(w)
		defer pprof.StopCPUProfile()
	}
	vlib.Loop(handle)
}

//go:build verif

// C20 harness.
//
//	q <pooled|fresh> <lifo|fifo|drop> | prog0 ; prog1 ; … | schedule     (engine E3)
//	    one real eventstream subscriber and its real internal/queue.Queue under a controlled schedule
//	    ops: e<k> Enqueue  d Dequeue  len Length  emp IsEmpty  s<k> signal  it Iterator  sh Shutdown
//	st <op> <op> …                                                       (engine E2)
//	    one real EventsStream driven sequentially
//	    ops: add sub:i:t unsub:i:t rm:i pub:t:k bc:k:t1,t2 it:i shut:i close count:t tops:i act:i
package main

import (
	"fmt"
	"runtime"
	"runtime/debug"
	"sort"
	"strconv"
	"strings"
	"time"

	"github.com/tochemey/goakt/v4/eventstream"
	"github.com/tochemey/goakt/v4/internal/queue"
	"github.com/tochemey/goakt/v4/internal/verifdrv/vlib"
	"github.com/tochemey/goakt/v4/internal/vsched"
)

const walkCap = 40

type obj struct {
	sub eventstream.Subscriber
	w   *queue.VerifQ
}

func payload(v any) string {
	if v == nil {
		return "nil"
	}
	if m, ok := v.(*eventstream.Message); ok {
		if m == nil {
			return "nil"
		}
		return fmt.Sprint(m.Payload())
	}
	return "?"
}

func dots(l []string) string {
	if len(l) == 0 {
		return "-"
	}
	return strings.Join(l, ".")
}

func (o *obj) Do(tid int, op string) string {
	q := o.w.Q
	switch {
	case op == "d":
		return payload(q.Dequeue())
	case op == "len":
		return strconv.FormatInt(int64(q.Length()), 10)
	case op == "emp":
		return strconv.FormatBool(q.IsEmpty())
	case op == "sh":
		o.sub.Shutdown()
		return "ok"
	case op == "it":
		return func() (res string) {
			defer func() {
				if r := recover(); r != nil {
					res = "panic"
				}
			}()
			var l []string
			for m := range o.sub.Iterator() {
				l = append(l, payload(m))
			}
			return dots(l)
		}()
	case strings.HasPrefix(op, "e"), strings.HasPrefix(op, "s"):
		k, err := strconv.Atoi(op[1:])
		if err != nil {
			return "bad-op"
		}
		if op[0] == 'e' {
			q.Enqueue(eventstream.NewMessage("t", k))
		} else {
			eventstream.VerifSignal(o.sub, "t", k)
		}
		return "ok"
	}
	return "bad-op"
}

func (o *obj) Final() string {
	q := o.w.Q
	pf := "no"
	if o.w.PoolField() {
		pf = "yes"
	}
	s := "poolfield=" + pf + " len=" + strconv.FormatInt(int64(q.Length()), 10) + " " + o.w.Shape(walkCap, payload) +
		" active=" + strconv.FormatBool(o.sub.Active())
	var dr []string
	for i := 0; i < walkCap; i++ {
		v := q.Dequeue()
		if v == nil {
			break
		}
		dr = append(dr, payload(v))
	}
	return s + " drain=" + dots(dr) + " len2=" + strconv.FormatInt(int64(q.Length()), 10)
}

// runConc is vlib.RunConc plus one hook: after every controlled step (and after every spawn) the node the
// real code may have put into its sync.Pool is moved to the deterministic free list (VerifQ.Settle).
func runConc(line string) string {
	parts := strings.Split(line, "|")
	if len(parts) != 3 {
		return "bad-case"
	}
	cfg := strings.Fields(parts[0])
	if len(cfg) != 3 || (cfg[1] != "pooled" && cfg[1] != "fresh") || (cfg[2] != "lifo" && cfg[2] != "fifo" && cfg[2] != "drop") {
		return "bad-case"
	}
	var progs [][]string
	for _, p := range strings.Split(parts[1], ";") {
		progs = append(progs, strings.Fields(p))
	}
	var sched []int
	for _, s := range strings.Fields(parts[2]) {
		n, err := strconv.Atoi(s)
		if err != nil {
			return "bad-case"
		}
		sched = append(sched, n)
	}
	sub, q := eventstream.VerifNewSubscriber()
	o := &obj{sub: sub, w: queue.VerifWrap(q, cfg[2])}
	s := vsched.New()
	results := make([][]string, len(progs))
	for tid, prog := range progs {
		tid, prog := tid, prog
		s.Go(func() {
			for _, op := range prog {
				r := vlib.Safe(func() string { return o.Do(tid, op) })
				results[tid] = append(results[tid], r)
			}
		})
		o.w.Settle()
	}
	var trace []string
	stuck := false
	step := func(tid int) {
		l := s.Step(tid, vlib.StepTimeout)
		o.w.Settle()
		trace = append(trace, fmt.Sprintf("%d:%s", tid, l))
		if strings.HasSuffix(l, "!stuck") {
			stuck = true
		}
	}
	for _, tid := range sched {
		if tid < 0 || tid >= s.N() {
			trace = append(trace, fmt.Sprintf("%d:!nothread", tid))
			continue
		}
		step(tid)
	}
	n := 0
	for !s.AllDone() && n < vlib.FinishCap && !stuck {
		for tid := 0; tid < s.N() && n < vlib.FinishCap; tid++ {
			if !s.Done(tid) {
				step(tid)
				n++
			}
		}
	}
	if !s.AllDone() {
		trace = append(trace, "cap")
		s.Release(2 * time.Second)
	}
	var rs []string
	for _, r := range results {
		rs = append(rs, strings.Join(r, ","))
	}
	fin := "unfinished"
	if s.AllDone() {
		fin = vlib.Safe(o.Final)
	}
	return "T " + strings.Join(trace, " ") + " | R " + strings.Join(rs, ";") + " | F " + fin
}

// ---------------------------------------------------------------------------------------------

func topicName(t int) string { return "t" + strconv.Itoa(t) }

func runStream(ops []string) string {
	st := eventstream.New()
	var subs []eventstream.Subscriber
	var outs []string
	atoi := func(s string) (int, bool) { n, err := strconv.Atoi(s); return n, err == nil && n >= 0 }
	for _, w := range ops {
		f := strings.Split(w, ":")
		out := "bad-op"
		sub := func(idx string) (eventstream.Subscriber, bool) {
			i, ok := atoi(idx)
			if !ok || i >= len(subs) {
				return nil, false
			}
			return subs[i], true
		}
		switch {
		case w == "add":
			subs = append(subs, st.AddSubscriber())
			out = "#" + strconv.Itoa(len(subs)-1)
		case w == "close":
			st.Close()
			out = "ok"
		case f[0] == "sub" && len(f) == 3:
			t, ok := atoi(f[2])
			if !ok {
				return "bad-case"
			}
			if s, ok := sub(f[1]); ok {
				if s.Active() {
					out = "ok"
				} else {
					out = "noop"
				}
				st.Subscribe(s, topicName(t))
			} else {
				out = "nosub"
			}
		case f[0] == "unsub" && len(f) == 3:
			t, ok := atoi(f[2])
			if !ok {
				return "bad-case"
			}
			if s, ok := sub(f[1]); ok {
				st.Unsubscribe(s, topicName(t))
				out = "ok"
			} else {
				out = "nosub"
			}
		case f[0] == "rm" && len(f) == 2:
			if s, ok := sub(f[1]); ok {
				st.RemoveSubscriber(s)
				out = "ok"
			} else {
				out = "nosub"
			}
		case f[0] == "pub" && len(f) == 3:
			t, ok1 := atoi(f[1])
			k, ok2 := atoi(f[2])
			if !ok1 || !ok2 {
				return "bad-case"
			}
			st.Publish(topicName(t), k)
			out = "ok"
		case f[0] == "bc" && len(f) == 3:
			k, ok := atoi(f[1])
			if !ok {
				return "bad-case"
			}
			var ts []string
			if f[2] != "-" {
				for _, x := range strings.Split(f[2], ",") {
					t, ok := atoi(x)
					if !ok {
						return "bad-case"
					}
					ts = append(ts, topicName(t))
				}
			}
			st.Broadcast(k, ts)
			out = "ok"
		case f[0] == "it" && len(f) == 2:
			if s, ok := sub(f[1]); ok {
				var l []string
				for m := range s.Iterator() {
					l = append(l, strings.TrimPrefix(m.Topic(), "t")+"/"+fmt.Sprint(m.Payload()))
				}
				out = dots(l)
			} else {
				out = "nosub"
			}
		case f[0] == "shut" && len(f) == 2:
			if s, ok := sub(f[1]); ok {
				s.Shutdown()
				out = "ok"
			} else {
				out = "nosub"
			}
		case f[0] == "count" && len(f) == 2:
			t, ok := atoi(f[1])
			if !ok {
				return "bad-case"
			}
			out = strconv.Itoa(st.SubscribersCount(topicName(t)))
		case f[0] == "tops" && len(f) == 2:
			if s, ok := sub(f[1]); ok {
				var ts []int
				for _, t := range s.Topics() {
					n, _ := strconv.Atoi(strings.TrimPrefix(t, "t"))
					ts = append(ts, n)
				}
				sort.Ints(ts)
				var l []string
				for _, t := range ts {
					l = append(l, strconv.Itoa(t))
				}
				out = "-"
				if len(l) > 0 {
					out = strings.Join(l, ",")
				}
			} else {
				out = "nosub"
			}
		case f[0] == "act" && len(f) == 2:
			if s, ok := sub(f[1]); ok {
				out = strconv.FormatBool(s.Active())
			} else {
				out = "nosub"
			}
		default:
			return "bad-case"
		}
		outs = append(outs, out)
	}
	return strings.Join(outs, " ")
}

func main() {
	// one P: whatever the real code Puts into its sync.Pool during a step is visible to Settle
	runtime.GOMAXPROCS(1)
	debug.SetGCPercent(-1)
	n := 0
	vlib.Loop(func(line string) string {
		n++
		if n%100 == 0 {
			runtime.GC()
		}
		f := strings.Fields(line)
		if len(f) == 0 {
			return "bad-case"
		}
		switch f[0] {
		case "q":
			return runConc(line)
		case "st":
			return runStream(f[1:])
		}
		return "bad-case"
	})
}

//go:build verif

// C33 harness: the real relocation worker / relocator / job registry against scripted doubles.
//
// token formats (shared with C32): roles "-"|k,k  peers "."|roles;roles  actors "-"|id.role[.s]
// grains "-"|id[.flags] (d disabled, e eager)   items "a<id>"/"g<id>"
//
//   rl <mode> <leaderRoles> <peers> <loads|-> <actors> <grains> <env>
//        one full relocationWorker.relocate on a snapshot (map order is Go's);
//        mode (det|f1|any) only tells the comparison what is order independent.
//        env: "-" or ";"-separated: L:<items> leader-side failures, R<p>:<items> failures reported by
//        peer p, X<p>:<items> batches to peer p containing one of the items are rejected (peer-level
//        error), PE cluster.Peers fails, SD DeletePeerState fails
//        -> "ok0=.. ok1=.. ... ev=<n> fa=<ids> fg=<ids> job=held|released del=<n>"
//   rs <leaderRoles> <peers> <target> <requests> <env>
//        relocationWorker.relocateShare for the share of peer <target>; requests as in C32
//        -> "ok0=.. ok1=.. ... fa=<ids> fg=<ids>"
//   job <raw|sys> <ops...>   b<a>.<s> begin  e<a> end  j<a> job  w<n>.<a>.<s> track worker  t<n> Terminated
//                  r<a>.<s> Rebalance to the relocator (spawn fails -> abort)  x<a>.<s> worker run (Peers fails)
//        -> per-op results, then "| jobs=.. workers=.. del=<n>"
//
//   lv <s|c> <k> <a>   STARTED system, real relocator actor (real spawnRelocator), real startWorker and
//                  worker actor: s = snapshot path, c = crash-recovery path (real gateCrashRecovery);
//                  k duplicate NodeLefts (real handleNodeLeftEvent) while the worker is blocked in
//                  cluster.Peers; the first a worker runs abort (Peers fails) and the departure is
//                  notified again after each abort
//        -> "runs=<worker runs> started=<RelocationStarted> failed=<RelocationFailed> job=.." | "timeout <wait>"
//   nl <k> <h>     one departure with a snapshot: first NodeLeft, k duplicate NodeLefts (real
//                  handleNodeLeftEvent) while in flight, worker run with h duplicate NodeLefts delivered
//                  from inside DeletePeerState (the worker is still in finish())
//        -> "started=<RelocationStarted events> job=held|released del=<n>"
//
// Cases are independent; they are executed concurrently (the real retry backoffs sleep) in a child
// process and the outputs are printed in input order.
package main

import (
	"bufio"
	"fmt"
	"os"
	"os/exec"
	"sort"
	"strconv"
	"strings"
	"sync"

	"github.com/tochemey/goakt/v4/actor"
	"github.com/tochemey/goakt/v4/internal/address"
	"github.com/tochemey/goakt/v4/internal/cluster"
	"github.com/tochemey/goakt/v4/internal/internalpb"
	"github.com/tochemey/goakt/v4/internal/verifdrv/vlib"
)

func roleName(k int) string {
	if k == 0 {
		return ""
	}
	return "r" + strconv.Itoa(k)
}

func parseRoles(s string) ([]string, bool) {
	if s == "-" {
		return nil, true
	}
	var out []string
	for _, t := range strings.Split(s, ",") {
		k, err := strconv.Atoi(t)
		if err != nil || k < 0 {
			return nil, false
		}
		out = append(out, roleName(k))
	}
	return out, true
}

// peers 2k and 2k+1 share a host, peers of equal parity share the remoting port (distinct endpoints)
func peerOf(i int, roles []string) *cluster.Peer {
	return &cluster.Peer{Host: "10.0.0." + strconv.Itoa(1+i/2), RemotingPort: 7000 + i%2, PeersPort: 8000 + i, Roles: roles}
}

func parsePeers(s string) ([]*cluster.Peer, bool) {
	if s == "." {
		return nil, true
	}
	var out []*cluster.Peer
	for i, t := range strings.Split(s, ";") {
		roles, ok := parseRoles(t)
		if !ok {
			return nil, false
		}
		out = append(out, peerOf(i, roles))
	}
	return out, true
}

func actorAddr(id int) string {
	h, rp, _ := actor.VerifDeparted()
	return address.New("a"+strconv.Itoa(id), "sys", h, rp).String()
}

func grainIdentity(id int) string { return "verif.Grain/g" + strconv.Itoa(id) }

func mkActors(s string) ([]*internalpb.Actor, bool) {
	if s == "-" {
		return nil, true
	}
	var out []*internalpb.Actor
	for _, tok := range strings.Split(s, ",") {
		f := strings.Split(tok, ".")
		if len(f) < 2 {
			return nil, false
		}
		id, e1 := strconv.Atoi(f[0])
		role, e2 := strconv.Atoi(f[1])
		if e1 != nil || e2 != nil || id < 0 || role < 0 {
			return nil, false
		}
		a := &internalpb.Actor{Address: actorAddr(id), Type: actor.VerifActorTypeName(), Relocatable: true}
		if role != 0 {
			rn := roleName(role)
			a.Role = &rn
		}
		if len(f) > 2 && strings.Contains(f[2], "s") {
			a.Singleton = &internalpb.SingletonSpec{}
		}
		out = append(out, a)
	}
	return out, true
}

func mkGrains(s string) ([]*internalpb.Grain, bool) {
	if s == "-" {
		return nil, true
	}
	h, rp, _ := actor.VerifDeparted()
	var out []*internalpb.Grain
	for _, tok := range strings.Split(s, ",") {
		f := strings.Split(tok, ".")
		id, err := strconv.Atoi(f[0])
		if err != nil || id < 0 {
			return nil, false
		}
		flags := ""
		if len(f) > 1 {
			flags = f[1]
		}
		out = append(out, &internalpb.Grain{
			GrainId:           &internalpb.GrainId{Kind: "verif.Grain", Name: "g" + strconv.Itoa(id), Value: grainIdentity(id)},
			Host:              h,
			Port:              int32(rp),
			DisableRelocation: strings.Contains(flags, "d"),
			EagerRelocation:   strings.Contains(flags, "e"),
		})
	}
	return out, true
}

// item "a<id>"/"g<id>" -> trace key
func itemKey(tok string) (string, bool) {
	if len(tok) < 2 {
		return "", false
	}
	id, err := strconv.Atoi(tok[1:])
	if err != nil {
		return "", false
	}
	switch tok[0] {
	case 'a':
		return "a" + actorAddr(id), true
	case 'g':
		return "g" + grainIdentity(id), true
	}
	return "", false
}

func parseEnv(s string, env *actor.VerifEnv) bool {
	env.LocalFail = map[string]bool{}
	env.RemoteFail = map[int]map[string]bool{}
	env.Poison = map[int]map[string]bool{}
	if s == "-" {
		return true
	}
	for _, d := range strings.Split(s, ";") {
		switch {
		case d == "PE":
			env.PeersErr = true
		case d == "SD":
			env.StoreDeleteErr = true
		default:
			kv := strings.SplitN(d, ":", 2)
			if len(kv) != 2 || len(kv[0]) == 0 {
				return false
			}
			var target map[string]bool
			switch kv[0][0] {
			case 'L':
				target = env.LocalFail
			case 'R', 'X':
				p, err := strconv.Atoi(kv[0][1:])
				if err != nil {
					return false
				}
				m := env.RemoteFail
				if kv[0][0] == 'X' {
					m = env.Poison
				}
				if m[p] == nil {
					m[p] = map[string]bool{}
				}
				target = m[p]
			default:
				return false
			}
			for _, it := range strings.Split(kv[1], ",") {
				k, ok := itemKey(it)
				if !ok {
					return false
				}
				target[k] = true
			}
		}
	}
	return true
}

type namer struct {
	byAddr  map[string]int
	byGrain map[string]int
}

func newNamer(actors []*internalpb.Actor, grains []*internalpb.Grain) *namer {
	n := &namer{byAddr: map[string]int{}, byGrain: map[string]int{}}
	for _, a := range actors {
		name := a.GetAddress()
		// a<id> is the actor name inside the address
		i := strings.Index(name, "/a")
		id, _ := strconv.Atoi(name[i+2:])
		n.byAddr[name] = id
	}
	for _, g := range grains {
		id, _ := strconv.Atoi(strings.TrimPrefix(g.GetGrainId().GetName(), "g"))
		n.byGrain[g.GetGrainId().GetValue()] = id
	}
	return n
}

// key ("a<addr>"/"g<identity>") -> "a<id>"/"g<id>"
func (n *namer) item(key string) string {
	if strings.HasPrefix(key, "a") {
		if id, ok := n.byAddr[key[1:]]; ok {
			return "a" + strconv.Itoa(id)
		}
	} else if id, ok := n.byGrain[key[1:]]; ok {
		return "g" + strconv.Itoa(id)
	}
	return "foreign"
}

func itemLess(a, b string) bool {
	if a[0] != b[0] {
		return a[0] < b[0]
	}
	x, e1 := strconv.Atoi(a[1:])
	y, e2 := strconv.Atoi(b[1:])
	if e1 != nil || e2 != nil {
		return a < b
	}
	return x < y
}

func showItems(l []string) string {
	if len(l) == 0 {
		return "-"
	}
	sort.Slice(l, func(i, j int) bool { return itemLess(l[i], l[j]) })
	return strings.Join(l, ",")
}

func showOK(n *namer, tr *actor.VerifTrace, nodes int) string {
	var parts []string
	for node := 0; node < nodes; node++ {
		var items []string
		for _, k := range tr.OK[node] {
			items = append(items, n.item(k))
		}
		parts = append(parts, fmt.Sprintf("ok%d=%s", node, showItems(items)))
	}
	return strings.Join(parts, " ")
}

func sortedIDs(l []string, f func(string) (int, bool)) string {
	var ids []int
	for _, s := range l {
		id, ok := f(s)
		if !ok {
			return "foreign"
		}
		ids = append(ids, id)
	}
	sort.Ints(ids)
	if len(ids) == 0 {
		return "-"
	}
	out := make([]string, len(ids))
	for i, v := range ids {
		out[i] = strconv.Itoa(v)
	}
	return strings.Join(out, ",")
}

func opRL(f []string) string {
	if len(f) != 8 {
		return "bad-case"
	}
	env := &actor.VerifEnv{}
	leader, ok1 := parseRoles(f[2])
	peers, ok2 := parsePeers(f[3])
	actors, ok3 := mkActors(f[5])
	grains, ok4 := mkGrains(f[6])
	if !(ok1 && ok2 && ok3 && ok4) || !parseEnv(f[7], env) {
		return "bad-case"
	}
	env.LeaderRoles = leader
	env.Peers = peers
	if f[4] != "-" {
		vals := strings.Split(f[4], ",")
		if len(vals) != len(peers)+1 {
			return "bad-case"
		}
		env.Loads = map[string]int{}
		for i, v := range vals {
			k, err := strconv.Atoi(v)
			if err != nil {
				return "bad-case"
			}
			if i == 0 {
				// the leader's own host:port as the un-started system reports it
				env.Loads["@leader"] = k
				continue
			}
			env.Loads[address.FormatHostPort(peers[i-1].Host, peers[i-1].RemotingPort)] = k
		}
	}
	h, rp, pp := actor.VerifDeparted()
	st := &internalpb.PeerState{Host: h, PeersPort: int32(pp), RemotingPort: int32(rp)}
	if len(actors) > 0 {
		st.Actors = map[string]*internalpb.Actor{}
		for _, a := range actors {
			if _, dup := st.Actors[a.Address]; dup {
				return "bad-case"
			}
			st.Actors[a.Address] = a
		}
	}
	if len(grains) > 0 {
		st.Grains = map[string]*internalpb.Grain{}
		for _, g := range grains {
			if _, dup := st.Grains[g.GrainId.Value]; dup {
				return "bad-case"
			}
			st.Grains[g.GrainId.Value] = g
		}
	}
	nm := newNamer(actors, grains)
	tr, err := actor.VerifRelocate(env, st)
	if err != nil {
		return "rig-error " + vlib.Canon(err.Error())
	}
	var fa, fg []string
	for _, ev := range tr.EventActors {
		fa = append(fa, ev...)
	}
	for _, ev := range tr.EventGrains {
		fg = append(fg, ev...)
	}
	job := "released"
	if tr.JobHeld {
		job = "held"
	}
	return fmt.Sprintf("%s ev=%d fa=%s fg=%s job=%s del=%d", showOK(nm, tr, len(peers)+1), len(tr.EventActors),
		sortedIDs(fa, func(s string) (int, bool) { id, ok := nm.byAddr[s]; return id, ok }),
		sortedIDs(fg, func(s string) (int, bool) { id, ok := nm.byGrain[s]; return id, ok }), job, tr.StoreDelete)
}

func parseRequests(s string) ([]*internalpb.RelocateBatchRequest, []*internalpb.Actor, []*internalpb.Grain, bool) {
	if s == "-" {
		return nil, nil, nil, true
	}
	h, rp, _ := actor.VerifDeparted()
	var out []*internalpb.RelocateBatchRequest
	var allA []*internalpb.Actor
	var allG []*internalpb.Grain
	for _, t := range strings.Split(s, "/") {
		parts := strings.Split(t, "+")
		if len(parts) != 2 || !strings.HasPrefix(parts[0], "A") || !strings.HasPrefix(parts[1], "G") {
			return nil, nil, nil, false
		}
		as, ok1 := mkActors(parts[0][1:])
		gs, ok2 := mkGrains(parts[1][1:])
		if !ok1 || !ok2 {
			return nil, nil, nil, false
		}
		allA = append(allA, as...)
		allG = append(allG, gs...)
		out = append(out, &internalpb.RelocateBatchRequest{DepartedNode: address.FormatHostPort(h, rp), Actors: as, Grains: gs})
	}
	return out, allA, allG, true
}

func opRS(f []string) string {
	if len(f) != 6 {
		return "bad-case"
	}
	env := &actor.VerifEnv{}
	leader, ok1 := parseRoles(f[1])
	peers, ok2 := parsePeers(f[2])
	target, err := strconv.Atoi(f[3])
	reqs, actors, grains, ok3 := parseRequests(f[4])
	if !(ok1 && ok2 && ok3) || err != nil || target < 0 || target >= len(peers) || !parseEnv(f[5], env) {
		return "bad-case"
	}
	env.LeaderRoles = leader
	env.Peers = peers
	nm := newNamer(actors, grains)
	tr, fails, rerr := actor.VerifRelocateShare(env, reqs, target)
	if rerr != nil {
		return "rig-error " + vlib.Canon(rerr.Error())
	}
	var fa, fg []string
	for _, fl := range fails {
		if fl.GetGrain() {
			fg = append(fg, fl.GetId())
		} else {
			fa = append(fa, fl.GetId())
		}
	}
	return fmt.Sprintf("%s fa=%s fg=%s", showOK(nm, tr, len(peers)+1),
		sortedIDs(fa, func(s string) (int, bool) { id, ok := nm.byAddr[s]; return id, ok }),
		sortedIDs(fg, func(s string) (int, bool) { id, ok := nm.byGrain[s]; return id, ok }))
}

func ints(s string, n int) ([]int, bool) {
	parts := strings.Split(s, ".")
	if len(parts) != n {
		return nil, false
	}
	out := make([]int, n)
	for i, p := range parts {
		v, err := strconv.Atoi(p)
		if err != nil || v < 0 || v > 99 {
			return nil, false
		}
		out[i] = v
	}
	return out, true
}

func opJob(f []string) string {
	rig, err := actor.NewVerifJobRig()
	if err != nil {
		return "rig-error"
	}
	evs := func() string {
		e := rig.Events()
		for i := range e {
			e[i] = strings.TrimPrefix(e[i], "snap-")
		}
		return "ev[" + strings.Join(e, ",") + "]"
	}
	var out []string
	addrs := map[int]bool{}
	if len(f) < 2 {
		return "bad-case"
	}
	for _, op := range f[2:] { // f[1] is the script kind (raw|sys), only used by the judge
		if len(op) < 2 {
			return "bad-case"
		}
		switch op[0] {
		case 'b':
			v, ok := ints(op[1:], 2)
			if !ok {
				return "bad-case"
			}
			addrs[v[0]] = true
			if rig.Begin(v[0], v[1]) {
				out = append(out, "T")
			} else {
				out = append(out, "F")
			}
		case 'e':
			v, ok := ints(op[1:], 1)
			if !ok {
				return "bad-case"
			}
			addrs[v[0]] = true
			rig.End(v[0])
			out = append(out, "-")
		case 'j':
			v, ok := ints(op[1:], 1)
			if !ok {
				return "bad-case"
			}
			addrs[v[0]] = true
			if id := rig.Job(v[0]); id >= 0 {
				out = append(out, strconv.Itoa(id))
			} else if id == -1 {
				out = append(out, "none")
			} else {
				out = append(out, "foreign")
			}
		case 'w':
			v, ok := ints(op[1:], 3)
			if !ok {
				return "bad-case"
			}
			addrs[v[1]] = true
			rig.Track(v[0], v[1], v[2])
			out = append(out, "-")
		case 't':
			v, ok := ints(op[1:], 1)
			if !ok {
				return "bad-case"
			}
			rig.Terminated(v[0])
			out = append(out, evs())
		case 'r':
			v, ok := ints(op[1:], 2)
			if !ok {
				return "bad-case"
			}
			addrs[v[0]] = true
			rig.Rebalance(v[0], v[1])
			out = append(out, evs())
		case 'x':
			v, ok := ints(op[1:], 2)
			if !ok {
				return "bad-case"
			}
			addrs[v[0]] = true
			rig.RunWorker(v[0], v[1])
			out = append(out, evs())
		default:
			return "bad-case"
		}
	}
	var as []int
	for a := range addrs {
		as = append(as, a)
	}
	sort.Ints(as)
	var jobs []string
	for _, a := range as {
		if id := rig.Job(a); id != -1 {
			jobs = append(jobs, fmt.Sprintf("%d:%d", a, id))
		}
	}
	js := "-"
	if len(jobs) > 0 {
		js = strings.Join(jobs, ",")
	}
	ws := rig.Workers()
	for i := range ws {
		ws[i] = ws[i][strings.LastIndex(ws[i], "-")+1:]
	}
	sort.Slice(ws, func(i, j int) bool { a, _ := strconv.Atoi(ws[i]); b, _ := strconv.Atoi(ws[j]); return a < b })
	wss := "-"
	if len(ws) > 0 {
		wss = strings.Join(ws, ",")
	}
	return strings.Join(out, " ") + fmt.Sprintf(" | jobs=%s workers=%s del=%d", js, wss, rig.StoreDeletes())
}

func handle(line string) string {
	f := vlib.Fields(line)
	if len(f) == 0 {
		return "bad-case"
	}
	switch f[0] {
	case "rl":
		return opRL(f)
	case "rs":
		return opRS(f)
	case "job":
		return opJob(f)
	case "lv":
		if len(f) != 4 || (f[1] != "s" && f[1] != "c") {
			return "bad-case"
		}
		k, e1 := strconv.Atoi(f[2])
		a, e2 := strconv.Atoi(f[3])
		if e1 != nil || e2 != nil || k < 0 || a < 0 || k > 10 || a > 5 {
			return "bad-case"
		}
		res, err := actor.VerifLiveScript(f[1] == "s", k, a)
		if err != nil {
			return "rig-error " + vlib.Canon(err.Error())
		}
		if res.Timeout != "" {
			return "timeout " + res.Timeout
		}
		return fmt.Sprintf("runs=%d started=%d failed=%d job=%s", res.Runs, res.Started, res.Failed, res.Job)
	case "nl":
		if len(f) != 3 {
			return "bad-case"
		}
		k, e1 := strconv.Atoi(f[1])
		h, e2 := strconv.Atoi(f[2])
		if e1 != nil || e2 != nil || k < 0 || h < 0 || k > 20 || h > 20 {
			return "bad-case"
		}
		started, held, dels, err := actor.VerifNodeLeftScript(k, h)
		if err != nil {
			return "rig-error " + vlib.Canon(err.Error())
		}
		job := "released"
		if held {
			job = "held"
		}
		return fmt.Sprintf("started=%d job=%s del=%d", started, job, dels)
	}
	return "bad-case"
}

// The cases are run by a CHILD process (this binary with VERIF_CHILD set) which prints
// "<index>\t<output>" as each case completes. A panic in a goroutine started by the code under test
// (errgroup workers) kills the whole child; the supervisor then re-runs only the cases without an
// output, first with low concurrency and finally one child per case, so that one crashing case (or a
// rare global race between concurrently built actor systems) cannot take the other cases with it.
func child(conc int) {
	in := bufio.NewScanner(os.Stdin)
	in.Buffer(make([]byte, 1<<20), 1<<28)
	type job struct {
		idx  string
		line string
	}
	var jobs []job
	for in.Scan() {
		t := in.Text()
		i := strings.Index(t, "\t")
		if i < 0 {
			continue
		}
		jobs = append(jobs, job{t[:i], t[i+1:]})
	}
	var mu sync.Mutex
	w := bufio.NewWriter(os.Stdout)
	sem := make(chan struct{}, conc)
	var wg sync.WaitGroup
	for _, j := range jobs {
		wg.Add(1)
		sem <- struct{}{}
		go func() {
			defer wg.Done()
			defer func() { <-sem }()
			out := strings.ReplaceAll(vlib.Safe(func() string { return handle(j.line) }), "\n", "\\n")
			mu.Lock()
			fmt.Fprintf(w, "%s\t%s\n", j.idx, out)
			w.Flush()
			mu.Unlock()
		}()
	}
	wg.Wait()
}

func runChild(lines []string, idxs []int, conc int, outs []string, done []bool) string {
	var in strings.Builder
	for _, i := range idxs {
		fmt.Fprintf(&in, "%d\t%s\n", i, lines[i])
	}
	cmd := exec.Command(os.Args[0])
	cmd.Env = append(os.Environ(), "VERIF_CHILD="+strconv.Itoa(conc))
	cmd.Stdin = strings.NewReader(in.String())
	var stderr strings.Builder
	cmd.Stderr = &stderr
	stdout, _ := cmd.Output()
	for _, l := range strings.Split(string(stdout), "\n") {
		k := strings.Index(l, "\t")
		if k < 0 {
			continue
		}
		i, err := strconv.Atoi(l[:k])
		if err != nil || i < 0 || i >= len(outs) || done[i] {
			continue
		}
		outs[i] = l[k+1:]
		done[i] = true
	}
	for _, l := range strings.Split(stderr.String(), "\n") {
		if strings.HasPrefix(l, "panic:") || strings.HasPrefix(l, "fatal error:") {
			return vlib.Canon(l)
		}
	}
	return ""
}

func main() {
	if c := os.Getenv("VERIF_CHILD"); c != "" {
		n, _ := strconv.Atoi(c)
		if n < 1 {
			n = 1
		}
		child(n)
		return
	}
	in := bufio.NewScanner(os.Stdin)
	in.Buffer(make([]byte, 1<<20), 1<<28)
	var lines []string
	for in.Scan() {
		lines = append(lines, in.Text())
	}
	outs := make([]string, len(lines))
	done := make([]bool, len(lines))
	pending := func() []int {
		var p []int
		for i := range lines {
			if !done[i] {
				p = append(p, i)
			}
		}
		return p
	}
	for _, conc := range []int{48, 8} {
		if p := pending(); len(p) > 0 {
			runChild(lines, p, conc, outs, done)
		}
	}
	for _, i := range pending() {
		why := runChild(lines, []int{i}, 1, outs, done)
		if !done[i] {
			why2 := runChild(lines, []int{i}, 1, outs, done)
			if !done[i] {
				outs[i] = "panic: child process died: " + why + " / " + why2
			}
		}
	}
	w := bufio.NewWriterSize(os.Stdout, 1<<16)
	defer w.Flush()
	for _, o := range outs {
		fmt.Fprintln(w, o)
	}
}

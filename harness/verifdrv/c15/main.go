//go:build verif

// C15 harness (engine E3): the REAL PID.Ask (actor/pid.go), ReceiveContext.build / Response
// (actor/receive_context.go), the package-level receive-context and response-channel pools
// (actor/pools.go) and UnboundedMailbox.Dequeue's recycling of the previous sentinel, under a
// controlled schedule.
//
//	ask <asis|fixed> | prog0 ; prog1 ; … | schedule
//
// `asis`: PID.Ask has an atomic site after its select (the late responseClosed.Store(true)), so an Ask is three
// steps; `fixed`: it has none (fixes/C15-ask-no-late-store.diff), an Ask is two steps.
//
// A program is either a caller (ops a<k> = PID.Ask, b<k> = actor.Ask, c<k> = actorSystem.handleRemoteAsk, each with
// request id k; replies carry the id the target found
// in the message) or the target's worker (ops h: dequeue one message and Response to it).
// With N programs, schedule entry t < N steps thread t; entry N+i is the deadline of caller i
// ("Timeout"): the caller's select takes the timeout branch when it is next stepped with an empty
// response channel (implemented by cancelling the Ask's context at that moment, never by wall clock).
// A caller parked before its select with neither a reply nor a deadline is not runnable (`!blocked`).
package main

import (
	"context"
	"runtime"
	"fmt"
	"strconv"
	"strings"
	"time"

	"github.com/tochemey/goakt/v4/actor"
	"github.com/tochemey/goakt/v4/internal/verifdrv/vlib"
	"github.com/tochemey/goakt/v4/internal/vsched"
)

type caller struct {
	isCaller bool
	inAsk    bool // the build step of the current Ask has been executed
	selected bool // the select of the current Ask has been executed (a late store may still follow)
	ch       chan any
	cancel   context.CancelFunc
	deadline bool
}

// hangs counts cases in which a logical thread blocked outside every schedule point (a code change made an Ask
// wait on something the harness cannot see). Each such case costs a step timeout, so after maxHangs the remaining
// cases of this process are answered `HANG-skipped` at once: the check is already a violation by then.
var hangs int

const maxHangs = 12

func run(line string) string {
	if hangs >= maxHangs {
		return "HANG-skipped"
	}
	parts := strings.Split(line, "|")
	cfg := strings.Fields(parts[0])
	if len(parts) != 3 || len(cfg) != 2 || (cfg[0] != "ask" && cfg[0] != "gask") || (cfg[1] != "asis" && cfg[1] != "fixed") {
		return "bad-case"
	}
	// gask: the grain path (actorSystem.localSend, grainMailbox, GrainContext); the caller's select is in the step of the
	// last atomic site of grainMailbox.tryEnqueue (`Add:len`) instead of `Call:Get`
	grain := cfg[0] == "gask"
	selLabel := "Call:Get"
	if grain {
		selLabel = "Add:len"
	}
	// the mode word only selects the Lean model variant; the harness follows the labels of the real code:
	// `Store:responseClosed` before the select is build, `Call:Get` is the select, a `Store:responseClosed` after
	// the select (code before fix d1a16fa) is the late store; an Ask is over when its Do() has returned
	var progs [][]string
	for _, p := range strings.Split(parts[1], ";") {
		progs = append(progs, strings.Fields(p))
	}
	var sched []int
	for _, s := range strings.Fields(parts[2]) {
		n, err := strconv.Atoi(s)
		if err != nil {
			return "bad-case"
		}
		sched = append(sched, n)
	}
	n := len(progs)
	target := actor.VerifC15Target()
	self := actor.VerifC15Caller()
	actor.VerifC15DrainPools()
	actor.VerifC15TimerPool()
	var rig *actor.VerifGrainRig
	if grain {
		rig = actor.VerifC15NewGrainRig()
		actor.VerifC15GrainDrainPools()
	}
	cs := make([]*caller, n)
	for i, p := range progs {
		cs[i] = &caller{}
		for _, op := range p {
			if strings.HasPrefix(op, "a") || strings.HasPrefix(op, "b") || strings.HasPrefix(op, "c") {
				cs[i].isCaller = true
			} else if op != "h" {
				return "bad-case"
			}
		}
	}
	s := vsched.New()
	results := make([][]string, n)
	for tid, prog := range progs {
		tid, prog := tid, prog
		s.Go(func() {
			for _, op := range prog {
				r := vlib.Safe(func() string {
					if op == "h" && grain {
						vsched.Point("Deq")
						gc := rig.Dequeue()
						if gc == nil {
							return "empty"
						}
						id := fmt.Sprint(gc.Message())
						gc.Response(gc.Message())
						return "h" + id
					}
					if op == "h" {
						vsched.Point("Deq")
						rc := actor.VerifC15Dequeue(target)
						if rc == nil {
							return "empty"
						}
						id := fmt.Sprint(rc.Message())
						rc.Response(rc.Message())
						return "h" + id
					}
					k, err := strconv.Atoi(op[1:])
					if err != nil {
						return "bad-op"
					}
					ctx, cancel := context.WithCancel(context.Background())
					cs[tid].cancel = cancel
					defer cancel()
					var res any
					switch {
					case grain: // AskGrain's local path
						res, err = rig.Ask(ctx, k, time.Hour)
					default:
					}
					switch op[0] {
					case 'b': // package-level actor.Ask (api.go)
						res, err = actor.Ask(ctx, target, k, time.Hour)
					case 'c': // actorSystem.handleRemoteAsk (actor_system.go)
						res, err = actor.VerifC15SystemAsk(ctx, target, k, time.Hour)
					default: // PID.Ask (pid.go)
						if !grain {
							res, err = self.Ask(ctx, target, k, time.Hour)
						}
					}
					if err != nil {
						return "timeout"
					}
					return "r" + fmt.Sprint(res)
				})
				results[tid] = append(results[tid], r)
			}
		})
	}
	var trace []string
	stuck := false
	step := func(t int) {
		if t >= n {
			i := t - n
			c := cs[i]
			if i < n && c.isCaller && !s.Done(i) && !c.selected {
				c.deadline = true
			}
			trace = append(trace, fmt.Sprintf("%d:Timeout", t))
			return
		}
		c := cs[t]
		at := s.At(t)
		if !c.isCaller && grain && !s.Done(t) && at == "Deq" && rig.WouldSpin() {
			// grainMailbox.Dequeue would busy-wait for a producer parked between its tail swap and its link
			trace = append(trace, fmt.Sprintf("%d:%s!blocked", t, at))
			return
		}
		if c.isCaller && !s.Done(t) && at == selLabel {
			if len(c.ch) == 0 {
				if !c.deadline {
					trace = append(trace, fmt.Sprintf("%d:%s!blocked", t, at))
					return
				}
				c.cancel()
			}
		}
		before := len(results[t])
		l := s.Step(t, vlib.StepTimeout)
		trace = append(trace, fmt.Sprintf("%d:%s", t, l))
		if strings.HasSuffix(l, "!stuck") {
			stuck = true
			return
		}
		if c.isCaller && !strings.HasPrefix(l, "!") {
			if !grain && !c.inAsk && at != selLabel {
				// build step: the context has just been enqueued
				c.inAsk = true
				c.ch = actor.VerifC15Chan(actor.VerifC15LastEnqueued(target))
			}
			if grain && at == "Swap:tail" {
				// the caller's context is the mailbox tail right after its swap
				c.ch = rig.TailChan()
			}
			if at == selLabel {
				c.selected = true
			}
			if len(results[t]) > before {
				c.inAsk = false
				c.selected = false
				c.deadline = false
				c.ch = nil
			}
		}
	}
	done := func(t int) bool {
		if t < n {
			return s.Done(t)
		}
		return s.Done(t - n)
	}
	for _, t := range sched {
		if t < 0 || t >= 2*n {
			trace = append(trace, fmt.Sprintf("%d:!nothread", t))
			continue
		}
		if done(t) {
			trace = append(trace, fmt.Sprintf("%d:!done", t))
			continue
		}
		step(t)
	}
	k := 0
	for !s.AllDone() && k < vlib.FinishCap && !stuck {
		for t := 0; t < 2*n && k < vlib.FinishCap; t++ {
			if !done(t) {
				step(t)
				k++
			}
		}
	}
	if stuck {
		// unblock whatever can be unblocked, leave the rest parked, and report the schedule
		hangs++
		for _, c := range cs {
			if c.cancel != nil {
				c.cancel()
			}
		}
		s.Release(time.Second)
		return "HANG " + strings.Join(trace, " ")
	}
	if !s.AllDone() {
		trace = append(trace, "cap")
		for _, c := range cs {
			if c.cancel != nil {
				c.cancel()
			}
		}
		s.Release(2 * time.Second)
	}
	var rs []string
	for _, r := range results {
		rs = append(rs, strings.Join(r, ","))
	}
	fin := "unfinished"
	// timer-pool integrity: every Ask takes a timer from the pool and must give it back exactly once
	timers := "ok"
	if _, dup := actor.VerifC15TimerPool(); dup {
		timers = "dup"
	}
	if s.AllDone() {
		if grain {
			closed, nresp := actor.VerifC15GrainPools()
			var sb strings.Builder
			for _, x := range closed {
				if x {
					sb.WriteByte('t')
				} else {
					sb.WriteByte('f')
				}
			}
			cp := sb.String()
			if cp == "" {
				cp = "-"
			}
			fin = fmt.Sprintf("ctxpool=%s chanpool=%d mbox=%d timers=%s", cp, nresp, rig.Linked(), timers)
			return "T " + strings.Join(trace, " ") + " | R " + strings.Join(rs, ";") + " | F " + fin
		}
		closed, stale := actor.VerifC15Pools()
		b := func(l []bool) string {
			if len(l) == 0 {
				return "-"
			}
			var sb strings.Builder
			for _, x := range l {
				if x {
					sb.WriteByte('t')
				} else {
					sb.WriteByte('f')
				}
			}
			return sb.String()
		}
		fin = fmt.Sprintf("ctxpool=%s chanpool=%s mbox=%d timers=%s", b(closed), b(stale), actor.VerifC15MailboxLen(target), timers)
	}
	return "T " + strings.Join(trace, " ") + " | R " + strings.Join(rs, ";") + " | F " + fin
}

func main() {
	// a step of this harness is a few atomic operations; a thread that has not reached its next point after
	// a second is blocked for good
	// one P: whatever the Asks Put into the timer pool is visible to VerifC15TimerPool
	runtime.GOMAXPROCS(1)
	vlib.StepTimeout = time.Second
	vlib.Loop(run)
}

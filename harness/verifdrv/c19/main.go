//go:build verif

// C19 harness: the real scheduler (go-quartz), claimClusterFire against a fake NX/TTL cluster,
// cronClaimTTL, and one-sided timing checks.  The driver lives in-package
// (harness/inpkg/actor/zz_verif_c19.go).
package main

import (
	"github.com/tochemey/goakt/v4/actor"
	"github.com/tochemey/goakt/v4/internal/verifdrv/vlib"
)

func main() { vlib.Loop(actor.VerifC19Run) }

//go:build verif

// C45 harness: linear stream pipelines on the REAL goakt stream package.
//
//	pl <fusion 0|1>[u] <sink c|b> <stage;stage;...|-> <v,v,...|->
//	    (u = every stage gets an UnboundedMailbox instead of the default BoundedMailbox)
//	    builds Of(values) -> stages -> counting sink with the public API, runs it in a real actor
//	    system to completion (10 s timeout => "timeout", never hangs) and prints
//	    `<done|err=ID|timeout> n=<completion-hook calls> | e1 e2 ...`
//	    sink b = the sink's consume function blocks until every upstream stage actor has stopped
//	    (a slow consumer, made deterministic), then drains.
//	pl2 …  same fields as pl: ONE RunnableGraph value run twice in a row -> `<run 1> ## <run 2>`
//	st <stage> <initialDemand> <refillThreshold> | ev ev ...
//	    drives ONE real stage actor between probe actors, one protocol message at a time:
//	    rN request(N) from downstream, eV element from upstream, c complete, xID error, k cancel,
//	    f batch-flush timer, gV release the parallel worker holding value V.
//	    prints per event `<emitted msgs>{state}`.
//
// stage table: map:k  try:k:bad  fil:m:r  fm:r  flat  scan  dd  bat:n  buf:s  opm:w:k[:bad]  pm:w:k[:bad]  sum
//	st only: src:v,v,..  sink  fused:<stage+stage+...>
package main

import (
	"context"
	"errors"
	"fmt"
	"os"
	"runtime"
	"strconv"
	"strings"
	"sync"
	"sync/atomic"
	"time"

	"github.com/tochemey/goakt/v4/actor"
	"github.com/tochemey/goakt/v4/internal/verifdrv/vlib"
	"github.com/tochemey/goakt/v4/log"
	"github.com/tochemey/goakt/v4/stream"
)

var (
	sys actor.ActorSystem
	ctx = context.Background()
)

func emod(x, m int) int {
	r := x % m
	if r < 0 {
		r += m
	}
	return r
}

func atoi(s string) int {
	n, err := strconv.Atoi(s)
	if err != nil {
		panic("bad-int " + s)
	}
	return n
}

func parseVal(s string) any {
	if strings.HasPrefix(s, "[") {
		body := strings.TrimSuffix(strings.TrimPrefix(s, "["), "]")
		out := []int{}
		if body != "" {
			for _, p := range strings.Split(body, ",") {
				out = append(out, atoi(p))
			}
		}
		return out
	}
	return atoi(s)
}

// gates let the st mode decide when a parallel worker finishes.
type gates struct {
	mu sync.Mutex
	m  map[int]chan struct{}
	on bool
}

func (g *gates) get(v int) chan struct{} {
	g.mu.Lock()
	defer g.mu.Unlock()
	if g.m == nil {
		g.m = map[int]chan struct{}{}
	}
	c, ok := g.m[v]
	if !ok {
		c = make(chan struct{})
		g.m[v] = c
	}
	return c
}

// pipe is a source under construction: exactly one of i / l is set.
type pipe struct {
	isList bool
	i      stream.Source[int]
	l      stream.Source[[]int]
}

func pmFn(f []string, idx int, g *gates) func(int) int {
	k := atoi(f[2])
	bad, hasBad := 0, false
	if len(f) > 3 {
		bad, hasBad = atoi(f[3]), true
	}
	return func(x int) int {
		if g != nil && g.on {
			<-g.get(x)
		}
		if hasBad && x == bad {
			panic(fmt.Errorf("P%d", idx))
		}
		return x + k
	}
}

// intFlow builds the flow for an int-input stage; ok=false when the stage needs list input.
func intFlow(spec string, idx int, g *gates) (fi *stream.Flow[int, int], fl *stream.Flow[int, []int]) {
	f := strings.Split(spec, ":")
	switch f[0] {
	case "map":
		k := atoi(f[1])
		x := stream.Map(func(v int) int { return v + k })
		return &x, nil
	case "try":
		k, bad := atoi(f[1]), atoi(f[2])
		x := stream.TryMap(func(v int) (int, error) {
			if v == bad {
				return 0, fmt.Errorf("E%d", idx)
			}
			return v + k, nil
		})
		return &x, nil
	case "fil":
		m, r := atoi(f[1]), atoi(f[2])
		x := stream.Filter(func(v int) bool { return emod(v, m) != r })
		return &x, nil
	case "fm":
		r := atoi(f[1])
		x := stream.FlatMap(func(v int) []int {
			n := emod(v, r)
			out := make([]int, n)
			for i := range out {
				out[i] = v
			}
			return out
		})
		return &x, nil
	case "scan":
		x := stream.Scan(0, func(acc, v int) int { return acc + v })
		return &x, nil
	case "dd":
		x := stream.Deduplicate[int]()
		return &x, nil
	case "buf":
		x := stream.Buffer[int](atoi(f[1]), stream.DropTail)
		return &x, nil
	case "opm":
		x := stream.OrderedParallelMap(atoi(f[1]), pmFn(f, idx, g))
		return &x, nil
	case "pm":
		x := stream.ParallelMap(atoi(f[1]), pmFn(f, idx, g))
		return &x, nil
	case "bat":
		x := stream.Batch[int](atoi(f[1]), time.Hour)
		return nil, &x
	}
	panic("bad-stage " + spec)
}

func listFlow(spec string) (fl *stream.Flow[[]int, []int], fi *stream.Flow[[]int, int]) {
	f := strings.Split(spec, ":")
	switch f[0] {
	case "buf":
		x := stream.Buffer[[]int](atoi(f[1]), stream.DropTail)
		return &x, nil
	case "flat":
		x := stream.Flatten[int]()
		return nil, &x
	case "sum":
		x := stream.Map(func(l []int) int {
			s := 0
			for _, e := range l {
				s += e
			}
			return s
		})
		return nil, &x
	}
	panic("bad-stage " + spec)
}

func build(stages []string, vals []int) pipe {
	p := pipe{i: stream.Of(vals...)}
	for idx, spec := range stages {
		if !p.isList {
			fi, fl := intFlow(spec, idx, nil)
			if fi != nil {
				p.i = stream.Via(p.i, *fi)
			} else {
				p = pipe{isList: true, l: stream.Via(p.i, *fl)}
			}
		} else {
			fl, fi := listFlow(spec)
			if fl != nil {
				p.l = stream.Via(p.l, *fl)
			} else {
				p = pipe{i: stream.Via(p.l, *fi)}
			}
		}
	}
	return p
}

func splitList(s string) []string {
	if s == "-" || s == "" {
		return nil
	}
	return strings.Split(s, ";")
}

func parseInts(s string) []int {
	if s == "-" || s == "" {
		return nil
	}
	var out []int
	for _, p := range strings.Split(s, ",") {
		out = append(out, atoi(p))
	}
	return out
}

func errID(err error) string {
	if err == nil {
		return ""
	}
	s := err.Error()
	// worker panics with non-error values are wrapped; ours are plain IDs
	if i := strings.LastIndex(s, " "); i >= 0 {
		s = s[i+1:]
	}
	return s
}

// newSystem starts an actor system.
func newSystem(name string) actor.ActorSystem {
	s, err := actor.NewActorSystem(name, actor.WithLogger(log.DiscardLogger))
	if err != nil {
		panic(err)
	}
	if err = s.Start(ctx); err != nil {
		panic(err)
	}
	return s
}

func runPipeline(f []string) string {
	fusion, sinkMode := f[1], f[2]
	stages := splitList(f[3])
	vals := parseInts(f[4])
	p := build(stages, vals)

	var mu sync.Mutex
	var got []string
	var hooks atomic.Int64
	gate := make(chan struct{})
	var gateOnce sync.Once
	openGate := func() { gateOnce.Do(func() { close(gate) }) }
	if sinkMode != "b" {
		openGate()
	}
	rec := func(v any) error {
		<-gate
		mu.Lock()
		got = append(got, stream.VerifFmt(v))
		mu.Unlock()
		return nil
	}
	onComplete := func() { hooks.Add(1) }
	var g stream.RunnableGraph
	if p.isList {
		g = p.l.To(stream.VerifCountingSink(func(v []int) error { return rec(v) }, onComplete))
	} else {
		g = p.i.To(stream.VerifCountingSink(func(v int) error { return rec(v) }, onComplete))
	}
	if strings.HasPrefix(fusion, "0") {
		g = g.WithFusion(stream.FuseNone)
	}
	// unbounded mailboxes: a Mailbox VALUE in a stage's config is one mailbox instance, so it is attached per
	// run (pl2 runs the same graph twice; sharing one mailbox instance between two runs' actors would be a
	// harness artifact, not the graph's doing)
	unbounded := strings.HasSuffix(fusion, "u")
	if unbounded && f[0] != "pl2" {
		g = stream.VerifUnboundedMailboxes(g)
	}
	// pl2: the SAME RunnableGraph value is materialised twice, one run after the other ("the same graph may
	// be Run() multiple times to produce independent stream instances"); each run must give the list semantics
	if f[0] == "pl2" {
		var res []string
		for run := 0; run < 2; run++ {
			mu.Lock()
			got = nil
			mu.Unlock()
			hooks.Store(0)
			gr := g
			if unbounded {
				gr = stream.VerifUnboundedMailboxes(g)
			}
			h, err := gr.Run(ctx, sys)
			if err != nil {
				return "run-error " + err.Error()
			}
			status := "done"
			select {
			case <-h.Done():
				if e := h.Err(); e != nil {
					status = "err=" + errID(e)
				}
			case <-time.After(10 * time.Second):
				status = "timeout"
				h.Abort()
			}
			mu.Lock()
			res = append(res, fmt.Sprintf("%s n=%d | %s", status, hooks.Load(), strings.Join(got, " ")))
			mu.Unlock()
		}
		return strings.Join(res, " ## ")
	}
	h, err := g.Run(ctx, sys)
	if err != nil {
		return "run-error " + err.Error()
	}
	if sinkMode == "b" {
		// slow consumer: hold the sink until every upstream stage actor has stopped (bounded wait)
		deadline := time.Now().Add(1500 * time.Millisecond)
		for stream.VerifStagesRunning(h) > 0 && time.Now().Before(deadline) {
			time.Sleep(2 * time.Millisecond)
		}
		openGate()
	}
	status := "done"
	select {
	case <-h.Done():
		if e := h.Err(); e != nil {
			status = "err=" + errID(e)
		}
	case <-time.After(10 * time.Second):
		status = "timeout"
		openGate()
		h.Abort()
	}
	mu.Lock()
	defer mu.Unlock()
	return fmt.Sprintf("%s n=%d | %s", status, hooks.Load(), strings.Join(got, " "))
}

// ---------------------------------------------------------------------------------------------
// st mode
// ---------------------------------------------------------------------------------------------

func stageActor(spec string, init, refill int64, g *gates, hooks *atomic.Int64) (a actor.Actor, hasUp, hasDown bool) {
	f := strings.Split(spec, ":")
	switch f[0] {
	case "src":
		vals := parseInts(strings.Join(f[1:], ":"))
		return stream.VerifSourceActor(stream.Of(vals...), sys), false, true
	case "sink":
		s := stream.VerifCountingSink(func(v int) error { return nil }, func() { hooks.Add(1) })
		return stream.VerifSinkActor(s, init, refill), true, false
	case "fused":
		parts := strings.Split(strings.Join(f[1:], ":"), "+")
		src := stream.Of[int]()
		for i, ps := range parts {
			fi, _ := intFlow(ps, i, nil)
			if fi == nil {
				panic("bad-fused " + ps)
			}
			src = stream.Via(src, *fi)
		}
		return stream.VerifFusedActor(src, init, refill), true, true
	case "flat", "sum":
		fl, fi := listFlow(spec)
		_ = fl
		return stream.VerifFlowActor(*fi, init, refill), true, true
	case "lbuf":
		x := stream.Buffer[[]int](atoi(f[1]), stream.DropTail)
		return stream.VerifFlowActor(x, init, refill), true, true
	}
	fi, fl := intFlow(spec, 0, g)
	if fi != nil {
		return stream.VerifFlowActor(*fi, init, refill), true, true
	}
	return stream.VerifFlowActor(*fl, init, refill), true, true
}

func runStage(line string) string {
	halves := strings.SplitN(line, "|", 2)
	f := vlib.Fields(halves[0])
	evs := []string{}
	if len(halves) > 1 {
		evs = vlib.Fields(halves[1])
	}
	spec := f[1]
	init, refill := int64(atoi(f[2])), int64(atoi(f[3]))
	g := &gates{on: true}
	var hooks atomic.Int64
	lateWire := strings.HasPrefix(spec, "~")
	spec = strings.TrimPrefix(spec, "~")
	a, hasUp, hasDown := stageActor(spec, init, refill, g, &hooks)
	rig, out0, err := stream.VerifNewRigWire(ctx, sys, a, hasUp, hasDown, !lateWire)
	if err != nil {
		return "rig-error " + err.Error()
	}
	defer func() {
		// release every blocked worker before closing
		g.mu.Lock()
		for _, c := range g.m {
			select {
			case <-c:
			default:
				close(c)
			}
		}
		g.on = false
		g.mu.Unlock()
		rig.Close(ctx)
	}()
	isSink := strings.HasPrefix(spec, "sink")
	panicked := false
	render := func(out []string) string {
		s := strings.Join(out, ";")
		if s == "" {
			s = "-"
		}
		if panicked || strings.Contains(s, "PANIC") {
			// what the supervisor does after the panic (suspend, stop, PostStop hook) is asynchronous: not printed
			panicked = true
			if strings.Contains(s, "PANIC") {
				return "PANIC{-}"
			}
			return "dead{-}"
		}
		st := rig.State()
		if isSink {
			st += fmt.Sprintf(",hk=%d", hooks.Load())
		}
		return s + "{" + st + "}"
	}
	res := []string{render(out0)}
	for _, ev := range evs {
		var out []string
		var err error
		switch ev[0] {
		case 'r':
			out, err = rig.Request(ctx, int64(atoi(ev[1:])))
		case 'e':
			out, err = rig.Element(ctx, parseVal(ev[1:]))
		case 'c':
			out, err = rig.Complete(ctx)
		case 'x':
			out, err = rig.Error(ctx, errors.New(ev[1:]))
		case 'k':
			out, err = rig.Cancel(ctx)
		case 'f':
			out, err = rig.BatchFlush(ctx)
		case 'w':
			out, err = rig.Wire(ctx)
		case 'g':
			if !rig.Alive() {
				out = []string{"dead"}
				break
			}
			c := g.get(atoi(ev[1:]))
			close(c)
			out, err = rig.Await(ctx, 1)
		default:
			return "bad-case"
		}
		if err != nil {
			return "step-error " + err.Error() + " after " + strings.Join(res, " ")
		}
		res = append(res, render(out))
	}
	return strings.Join(res, " ")
}

func handle(line string) string {
	f := vlib.Fields(line)
	if len(f) == 0 {
		return "bad-case"
	}
	switch f[0] {
	case "pl", "pl2":
		if len(f) != 5 {
			return "bad-case"
		}
		// A stalled run is repeated (twice at most): a stage that starts pulling on its own stageWire can
		// reach its downstream neighbour before the materializer has wired it (finding C45-F2), which under
		// heavy machine load is a rare but real stall; a deterministic stall shows up in all three runs.
		res := runPipeline(f)
		for i := 0; i < 2 && (strings.HasPrefix(res, "timeout") || strings.HasPrefix(res, "run-error stream: wire stage")); i++ {
			res = runPipeline(f)
		}
		return res
	case "st":
		return runStage(line)
	}
	return "bad-case"
}

func main() {
	defer func() {
		if r := recover(); r != nil {
			fmt.Fprintln(os.Stderr, r)
			os.Exit(2)
		}
	}()
	sys = newSystem("verifc45")
	vlib.Loop(guarded)
	// bounded shutdown: every result line is out already; a stage actor still blocked in a user callback must not
	// keep the process (and the check) waiting
	done := make(chan struct{})
	go func() { _ = sys.Stop(ctx); close(done) }()
	select {
	case <-done:
	case <-time.After(5 * time.Second):
	}
}

// guarded runs one case under a watchdog: a case that neither finishes nor times out by itself within 3 minutes is
// reported as HANG (with all goroutine stacks on stderr) and the process ends, so the check resumes after it.
func guarded(line string) string {
	out := make(chan string, 1)
	go func() { out <- vlib.Safe(func() string { return handle(line) }) }()
	select {
	case r := <-out:
		return r
	case <-time.After(3 * time.Minute):
		buf := make([]byte, 1<<22)
		n := runtime.Stack(buf, true)
		fmt.Fprintf(os.Stderr, "%s\nHANG in case: %s\n", buf[:n], line)
		fmt.Println("HANG")
		os.Exit(3)
		return "HANG"
	}
}

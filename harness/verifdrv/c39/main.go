//go:build verif

// C39 harness: REAL replicatorActor instances (2..3) with every CRDT type, wired to the same in-memory
// network as the C41 harness (collector actor as topic actor, message log, scripted delivery in any order /
// duplicated / never).  Updates go through the real handleUpdate (apply, Delta(), ResetDelta(), store,
// publish -> EncodeCRDT); deliveries through handleProtoDelta -> DecodeCRDT -> handleDelta (store-or-merge);
// anti-entropy through buildDigest / handleDigest / handleFullState.
//
// case line:  n=<N> <op> <op> ...        keys are named after their type: gc pn fl lw mv os om
//   u:r:K:mut    Update of key K at replica r (node id = crdt.VerifNodeName(r+1)); mut by type:
//                gc i.N | pn i.N d.N | fl e | lw s.V.TS | mv s.V | os a.E r.E | om s.K.N r.K
//   s:r:i        deliver logged message i (delta | full state) to r
//   a:r:q        anti-entropy: digest of r handled by q; q's full-state reply is LOGGED
//   g:r:K        Get (local)            p:r   prune tick (compacts ORSet / ORMap)
// output: one token per op `result!K=dump;K=dump..` with the complete store of the replica the op touched
// (dump = crdt.VerifDump: full internal state ~ public value).
package main

import (
	"context"
	"fmt"
	"sort"
	"strconv"
	"strings"
	"time"

	"github.com/tochemey/goakt/v4/actor"
	"github.com/tochemey/goakt/v4/crdt"
	"github.com/tochemey/goakt/v4/internal/ddata"
	"github.com/tochemey/goakt/v4/internal/internalpb"
	"github.com/tochemey/goakt/v4/internal/verifdrv/vlib"
	"github.com/tochemey/goakt/v4/log"
)

const askTimeout = 2 * time.Minute

// ---- collector actor (stands in for the topic actor and for the digest sender) ----

type drain struct{}

type collector struct{ got []any }

func (c *collector) PreStart(*actor.Context) error { return nil }
func (c *collector) PostStop(*actor.Context) error { return nil }
func (c *collector) Receive(ctx *actor.ReceiveContext) {
	switch m := ctx.Message().(type) {
	case *drain:
		out := c.got
		c.got = nil
		ctx.Response(out)
	case *actor.Publish:
		c.got = append(c.got, m.Message())
	case *internalpb.CRDTFullState:
		c.got = append(c.got, m)
	}
}

type world struct {
	sys   actor.ActorSystem
	reps  []*actor.PID
	ids   map[string]int
	coll  *actor.PID
	log   []any
	casen int
}

var ctx = context.Background()
var ser = ddata.NewCRDTValueSerializer()

var keyOf = map[string]crdt.Key{
	"gc": crdt.GCounterKey("gc"), "pn": crdt.PNCounterKey("pn"), "fl": crdt.FlagKey("fl"), "lw": crdt.LWWRegisterKey("lw"),
	"mv": crdt.MVRegisterKey("mv"), "os": crdt.ORSetKey("os"), "om": crdt.ORMapKey("om"),
}

func (w *world) barrier(r int) {
	if _, err := actor.Ask(ctx, w.reps[r], &crdt.Get{Key: crdt.GCounterKey("__barrier")}, askTimeout); err != nil {
		panic("barrier: " + err.Error())
	}
}

func (w *world) node(id string) string {
	if i, ok := w.ids[id]; ok {
		return strconv.Itoa(i)
	}
	return "?" + id
}

func pbDump(d *internalpb.CRDTData) string {
	if d == nil {
		return "nil"
	}
	v, err := ddata.DecodeCRDT(d, ser)
	if err != nil {
		return "undecodable"
	}
	return crdt.VerifDump(v)
}

func (w *world) render(m any) string {
	switch v := m.(type) {
	case *internalpb.CRDTDelta:
		return "D(" + v.GetKey().GetId() + "," + w.node(v.GetOriginNode()) + "," + pbDump(v.GetData()) + ")"
	case *internalpb.CRDTFullState:
		var parts []string
		for _, e := range v.GetEntries() {
			parts = append(parts, e.GetKey().GetId()+"="+pbDump(e.GetData()))
		}
		sort.Strings(parts)
		return "F(" + strings.Join(parts, ";") + ")"
	}
	return fmt.Sprintf("?%T", m)
}

func (w *world) drainInto() string {
	resp, err := actor.Ask(ctx, w.coll, &drain{}, askTimeout)
	if err != nil {
		panic("drain: " + err.Error())
	}
	var sb strings.Builder
	for _, m := range resp.([]any) {
		w.log = append(w.log, m)
		sb.WriteString("+" + w.render(m))
	}
	return sb.String()
}

func (w *world) dump(r int) string {
	st := actor.VerifReplSnapshot(w.reps[r])
	var s []string
	for _, k := range st.Keys {
		s = append(s, k+"="+crdt.VerifDump(st.Store[k])+"^"+strconv.FormatUint(st.Versions[k], 10))
	}
	return strings.Join(s, ";")
}

func atoi(s string) int { n, _ := strconv.Atoi(s); return n }

func initial(k string) crdt.ReplicatedData {
	switch k {
	case "gc":
		return crdt.NewGCounter()
	case "pn":
		return crdt.NewPNCounter()
	case "fl":
		return crdt.NewFlag()
	case "lw":
		return crdt.NewLWWRegister()
	case "mv":
		return crdt.NewMVRegister()
	case "os":
		return crdt.NewORSet()
	case "om":
		return crdt.NewORMap()
	}
	return nil
}

// modify builds the user's Modify closure for `mut` (nil = malformed)
func modify(k, mut, me string) func(crdt.ReplicatedData) crdt.ReplicatedData {
	a := strings.Split(mut, ".")
	n := func(i int) int {
		if i < len(a) {
			return atoi(a[i])
		}
		return 0
	}
	switch k + ":" + a[0] {
	case "gc:i":
		return func(c crdt.ReplicatedData) crdt.ReplicatedData { return c.(*crdt.GCounter).Increment(me, uint64(n(1))) }
	case "pn:i":
		return func(c crdt.ReplicatedData) crdt.ReplicatedData { return c.(*crdt.PNCounter).Increment(me, uint64(n(1))) }
	case "pn:d":
		return func(c crdt.ReplicatedData) crdt.ReplicatedData { return c.(*crdt.PNCounter).Decrement(me, uint64(n(1))) }
	case "fl:e":
		return func(c crdt.ReplicatedData) crdt.ReplicatedData { return c.(*crdt.Flag).Enable() }
	case "lw:s":
		return func(c crdt.ReplicatedData) crdt.ReplicatedData {
			return c.(*crdt.LWWRegister).Set(n(1), time.Unix(0, int64(n(2))), me)
		}
	case "mv:s":
		return func(c crdt.ReplicatedData) crdt.ReplicatedData { return c.(*crdt.MVRegister).Set(me, n(1)) }
	case "os:a":
		return func(c crdt.ReplicatedData) crdt.ReplicatedData { return c.(*crdt.ORSet).Add(me, n(1)) }
	case "os:r":
		return func(c crdt.ReplicatedData) crdt.ReplicatedData { return c.(*crdt.ORSet).Remove(n(1)) }
	case "om:s":
		return func(c crdt.ReplicatedData) crdt.ReplicatedData {
			return c.(*crdt.ORMap).Set(me, n(1), crdt.NewGCounter().Increment(me, uint64(n(2))))
		}
	case "om:r":
		return func(c crdt.ReplicatedData) crdt.ReplicatedData { return c.(*crdt.ORMap).Remove(n(1)) }
	}
	return nil
}

func (w *world) op(tok string) string {
	f := strings.Split(tok, ":")
	bad := "bad-op"
	if len(f) < 2 {
		return bad
	}
	r := atoi(f[1])
	if r < 0 || r >= len(w.reps) {
		return bad
	}
	pid := w.reps[r]
	res := ""
	switch f[0] {
	case "u":
		if len(f) != 4 || initial(f[2]) == nil {
			return bad
		}
		m := modify(f[2], f[3], crdt.VerifNodeName(r+1))
		if m == nil {
			return bad
		}
		if _, err := actor.Ask(ctx, pid, &crdt.Update{Key: keyOf[f[2]], Initial: initial(f[2]), Modify: m}, askTimeout); err != nil {
			return "err:" + err.Error()
		}
		res = "ok"
	case "g":
		if len(f) != 3 || initial(f[2]) == nil {
			return bad
		}
		resp, err := actor.Ask(ctx, pid, &crdt.Get{Key: keyOf[f[2]]}, askTimeout)
		if err != nil {
			return "err:" + err.Error()
		}
		res = crdt.VerifDump(resp.(*crdt.GetResponse).Data)
	case "s":
		i := atoi(f[2])
		if i < 0 || i >= len(w.log) {
			res = "noop"
			break
		}
		if err := actor.Tell(ctx, pid, w.log[i]); err != nil {
			return "err:" + err.Error()
		}
		w.barrier(r)
		res = "ok"
	case "a":
		q := atoi(f[2])
		if q < 0 || q >= len(w.reps) {
			return bad
		}
		dg := actor.VerifReplDigest(pid)
		if err := w.coll.Tell(ctx, w.reps[q], dg); err != nil {
			return "err:" + err.Error()
		}
		w.barrier(q)
		res = "ok"
		r = q
	case "p":
		if err := actor.Tell(ctx, pid, actor.VerifPruneTick()); err != nil {
			return "err:" + err.Error()
		}
		w.barrier(r)
		res = "ok"
	default:
		return bad
	}
	res += w.drainInto()
	return res + "!" + w.dump(r)
}

var theWorld *world

func setup() *world {
	if theWorld != nil {
		return theWorld
	}
	sys, err := actor.NewActorSystem("verif", actor.WithLogger(log.DiscardLogger))
	if err != nil {
		panic(err)
	}
	if err := sys.Start(ctx); err != nil {
		panic(err)
	}
	coll, err := sys.Spawn(ctx, "collector", &collector{}, actor.WithLongLived())
	if err != nil {
		panic(err)
	}
	theWorld = &world{sys: sys, coll: coll}
	return theWorld
}

func handle(line string) string {
	f := vlib.Fields(line)
	if len(f) < 1 || !strings.HasPrefix(f[0], "n=") {
		return "bad-case"
	}
	n := atoi(f[0][2:])
	if n < 1 || n > 4 {
		return "bad-case"
	}
	w := setup()
	w.casen++
	for _, p := range w.reps {
		_ = p.Shutdown(ctx)
	}
	w.reps, w.ids, w.log = nil, map[string]int{}, nil
	cfg := crdt.NewConfig(crdt.WithAntiEntropyInterval(0), crdt.WithPruneInterval(0), crdt.WithSnapshotInterval(0))
	for i := 0; i < n; i++ {
		p, err := actor.VerifSpawnReplicator(ctx, w.sys, fmt.Sprintf("repl-%d-%d", w.casen, i), cfg)
		if err != nil {
			return "spawn-failed " + err.Error()
		}
		w.reps = append(w.reps, p)
	}
	for i, p := range w.reps {
		w.barrier(i) // PostStart has been handled
		actor.VerifReplWire(p, w.coll, nil, nil)
		w.ids[actor.VerifReplNodeID(p)] = i
	}
	w.drainInto()
	w.log = nil
	var out []string
	for _, tok := range f[1:] {
		out = append(out, w.op(tok))
	}
	return strings.Join(out, " ")
}

func main() { vlib.Loop(handle) }

//go:build verif

// C36 harness: SpawnSingleton from several in-process nodes that share a fake cluster registry, with
// scripted (possibly stale) leader views; the race window between the registry precondition read and
// the registry publication is held open deterministically by a gate inside the singleton's PreStart.
//
//	case := <nnodes> | op op …
//	X.n        SpawnSingleton issued on node n
//	bX.n eX.n  the same, held inside PreStart on whichever node executes the local spawn / released
//	L.n.k      from now on node n believes node k is the cluster coordinator
//	K.n        Shutdown of the singleton instance hosted by node n, wait for the death watch
//	xX.n       cancel the context of the call HELD for node n (the winner of the flight): the caller returns at once, the
//	           singleton's PreStart (which honours its context) fails when the hold is released, the flight ends with the
//	           winner's context error and its followers retry once, coalesced again
//	fX.n       SpawnSingleton issued on node n (own cancellable context) while the spawn it must join is held: a FOLLOWER
//	           of the single flight; prints `wait` when it is still waiting after the grace period (always, in the code as it is)
//	cX.n       cancel the follower issued on node n and collect its result
//	jX.n       collect the result of the follower issued on node n after the flight it joined has ended
//
// output: one token per op, then `| <digest>`
package main

import (
	"context"
	"errors"
	"fmt"
	"sort"
	"strconv"
	"strings"
	"sync"
	"time"

	"github.com/tochemey/goakt/v4/actor"
	gerrors "github.com/tochemey/goakt/v4/errors"
	"github.com/tochemey/goakt/v4/internal/cluster"
	"github.com/tochemey/goakt/v4/internal/remoteclient"
	"github.com/tochemey/goakt/v4/internal/verifdrv/vlib"
	"github.com/tochemey/goakt/v4/remote"
)

const (
	settle   = 20 * time.Second
	name     = "single"
	basePort = 15000
)

type world struct {
	mu      sync.Mutex
	nodes   []*actor.VerifSingletonNode
	reg     *cluster.VerifRegistry
	bySys   map[actor.ActorSystem]int
	live    map[int]int // node -> running instances
	cur     int
	max     int
	started int
	preGate map[int]chan struct{} // executing node -> gate of the next PreStart there
	events  chan string
}

type single struct{ w *world }

func (s *single) PreStart(ctx *actor.Context) error {
	w := s.w
	w.mu.Lock()
	n := w.bySys[ctx.ActorSystem()]
	g := w.preGate[n]
	delete(w.preGate, n)
	w.mu.Unlock()
	if g != nil {
		w.events <- "pre:" + strconv.Itoa(n)
		<-g
	}
	// a PreStart that honours its context (I/O under the spawn context): the caller gave up, initialisation fails
	if err := ctx.Context().Err(); err != nil {
		return err
	}
	w.mu.Lock()
	w.live[n]++
	w.cur++
	w.started++
	if w.cur > w.max {
		w.max = w.cur
	}
	w.mu.Unlock()
	return nil
}
func (s *single) Receive(*actor.ReceiveContext) {}
func (s *single) PostStop(ctx *actor.Context) error {
	w := s.w
	w.mu.Lock()
	n := w.bySys[ctx.ActorSystem()]
	w.live[n]--
	w.cur--
	w.mu.Unlock()
	return nil
}

type hopKey struct{}

// remoting delivers RemoteSpawn in process: the request handler of the target node runs SpawnSingleton there.
type remoting struct {
	remoteclient.Client // nil: only RemoteSpawn is used
	w                   *world
}

func (r *remoting) RemoteSpawn(ctx context.Context, _ string, port int, req *remote.SpawnRequest) (*string, error) {
	idx := port - basePort
	if idx < 0 || idx >= len(r.w.nodes) || req.Singleton == nil {
		return nil, gerrors.ErrRemoteSendFailure
	}
	hops, _ := ctx.Value(hopKey{}).(int)
	if hops >= len(r.w.nodes) {
		// a cycle of stale views: the real call chain ends by a deadline; here by a hop budget
		return nil, gerrors.ErrRemoteSendFailure
	}
	ctx = context.WithValue(ctx, hopKey{}, hops+1)
	pid, err := r.w.spawn(ctx, idx)
	if err != nil {
		return nil, err
	}
	id := pid.ID()
	return &id, nil
}

func (w *world) spawn(ctx context.Context, n int) (*actor.PID, error) {
	return w.nodes[n].Sys.SpawnSingleton(ctx, name, &single{w: w},
		actor.WithSingletonSpawnRetries(1), actor.WithSingletonSpawnWaitInterval(time.Millisecond), actor.WithSingletonSpawnTimeout(15*time.Second))
}

func nodeOf(pid *actor.PID) string {
	id := pid.ID() // goakt://c36@127.0.0.1:<port>/single
	if i := strings.Index(id, "@"); i >= 0 {
		rest := id[i+1:]
		if j := strings.Index(rest, "/"); j >= 0 {
			rest = rest[:j]
		}
		if k := strings.LastIndex(rest, ":"); k >= 0 {
			if p, err := strconv.Atoi(rest[k+1:]); err == nil {
				return strconv.Itoa(p - basePort)
			}
		}
	}
	return "?"
}

func showRes(pid *actor.PID, err error) string {
	if err != nil {
		switch {
		case errors.Is(err, context.Canceled) || strings.Contains(err.Error(), context.Canceled.Error()):
			return "cancelled"
		case strings.Contains(err.Error(), gerrors.ErrRemoteSendFailure.Error()):
			return "eloop"
		default:
			return "err:" + vlib.Canon(err.Error())
		}
	}
	if pid == nil {
		return "nil"
	}
	return "ok:" + nodeOf(pid)
}

type pending struct {
	done      chan struct{}
	pid       *actor.PID
	err       error
	gate      chan struct{}
	exec      int
	cancel    context.CancelFunc
	cancelled bool
	retry     bool // the entry stands for the followers' retry held inside its PreStart
}

type run struct {
	w     *world
	views []int
	held  map[int]*pending // caller node -> held spawn
	fol   map[int]*pending // caller node -> follower of a held flight
}

// grace: how long a follower is given to (wrongly) finish before it is reported as waiting.
const grace = 300 * time.Millisecond

// hopsTo counts the membership reads a call issued on n performs before it reaches its executing node.
func (r *run) hopsTo(n int) int {
	cur, k := n, 0
	for hops := 0; ; hops++ {
		k++
		l := r.views[cur]
		if l == cur || hops >= len(r.views) {
			return k
		}
		cur = l
	}
}

// execNode follows the leader views from node n; -1 when the hop budget is exhausted
func (r *run) execNode(n int) int {
	cur := n
	for hops := 0; ; hops++ {
		l := r.views[cur]
		if l == cur {
			return cur
		}
		if hops >= len(r.views) {
			return -1
		}
		cur = l
	}
}

func (r *run) busyOn(m int) bool {
	for _, pd := range r.held {
		if pd.exec == m {
			return true
		}
	}
	return false
}

func (r *run) regWait(pred func() bool) bool {
	deadline := time.Now().Add(settle)
	for !pred() {
		if time.Now().After(deadline) {
			return false
		}
		time.Sleep(200 * time.Microsecond)
	}
	return true
}

func (r *run) op(tok string) string {
	f := strings.Split(tok, ".")
	arg := func(i int) (int, bool) {
		if i >= len(f) {
			return 0, false
		}
		v, err := strconv.Atoi(f[i])
		return v, err == nil && v >= 0 && v < len(r.views)
	}
	ctx := context.Background()
	switch f[0] {
	case "L":
		n, ok1 := arg(1)
		k, ok2 := arg(2)
		if !ok1 || !ok2 || len(f) != 3 {
			return "bad-op"
		}
		r.views[n] = k
		r.w.reg.SetLeaderView(n, k)
		return "ok"
	case "X", "bX":
		n, ok := arg(1)
		if !ok || len(f) != 2 {
			return "bad-op"
		}
		if _, open := r.held[n]; open {
			return "busy"
		}
		if _, open := r.fol[n]; open {
			return "busy"
		}
		m := r.execNode(n)
		if m >= 0 && r.busyOn(m) {
			return "busy" // the call would join the single flight held open on node m and block
		}
		if f[0] == "X" {
			return showRes(r.w.spawn(ctx, n))
		}
		hctx, hcancel := context.WithCancel(ctx)
		pd := &pending{done: make(chan struct{}), gate: make(chan struct{}), exec: m, cancel: hcancel}
		if m >= 0 {
			r.w.mu.Lock()
			r.w.preGate[m] = pd.gate
			r.w.mu.Unlock()
		}
		go func() {
			pd.pid, pd.err = r.w.spawn(hctx, n)
			close(pd.done)
		}()
		select {
		case <-pd.done:
			if m >= 0 {
				r.w.mu.Lock()
				delete(r.w.preGate, m)
				r.w.mu.Unlock()
			}
			hcancel()
			return showRes(pd.pid, pd.err)
		case ev := <-r.w.events:
			if ev != "pre:"+strconv.Itoa(m) {
				return "unexpected-event:" + ev
			}
			r.held[n] = pd
			return "pre" + strconv.Itoa(m)
		case <-time.After(settle):
			return "timeout"
		}
	case "fX":
		n, ok := arg(1)
		if !ok || len(f) != 2 {
			return "bad-op"
		}
		if _, open := r.held[n]; open {
			return "busy"
		}
		if _, open := r.fol[n]; open {
			return "busy"
		}
		m := r.execNode(n)
		if m < 0 || !r.busyOn(m) {
			return "none"
		}
		fctx, cancel := context.WithCancel(ctx)
		pd := &pending{done: make(chan struct{}), exec: m, cancel: cancel}
		before := strings.Count(r.w.reg.Log(), "m")
		want := r.hopsTo(n)
		go func() {
			pd.pid, pd.err = r.w.spawn(fctx, n)
			close(pd.done)
		}()
		// deterministic part: the call has performed all its membership reads (then it reaches the flight)
		if !r.regWait(func() bool { return strings.Count(r.w.reg.Log(), "m") >= before+want }) {
			return "timeout"
		}
		r.fol[n] = pd
		select {
		case <-pd.done:
			delete(r.fol, n)
			cancel()
			return showRes(pd.pid, pd.err) // a follower that did not wait for the flight it should have joined
		case <-time.After(grace):
			return "wait"
		}
	case "cX":
		n, ok := arg(1)
		if !ok || len(f) != 2 {
			return "bad-op"
		}
		pd, open := r.fol[n]
		if !open {
			return "none"
		}
		delete(r.fol, n)
		pd.cancel()
		select {
		case <-pd.done:
			return showRes(pd.pid, pd.err)
		case <-time.After(settle):
			return "timeout"
		}
	case "jX":
		n, ok := arg(1)
		if !ok || len(f) != 2 {
			return "bad-op"
		}
		pd, open := r.fol[n]
		if !open {
			return "none"
		}
		if r.busyOn(pd.exec) {
			return "busy"
		}
		delete(r.fol, n)
		defer pd.cancel()
		select {
		case <-pd.done:
			return showRes(pd.pid, pd.err)
		case <-time.After(settle):
			return "timeout"
		}
	case "xX":
		n, ok := arg(1)
		if !ok || len(f) != 2 {
			return "bad-op"
		}
		pd, open := r.held[n]
		if !open || pd.cancelled || pd.retry {
			return "none"
		}
		pd.cancelled = true
		pd.cancel()
		select {
		case <-pd.done:
			return showRes(pd.pid, pd.err) // the caller gives up at once; its spawn is still inside PreStart
		case <-time.After(settle):
			return "timeout"
		}
	case "eX":
		n, ok := arg(1)
		if !ok || len(f) != 2 {
			return "bad-op"
		}
		pd, open := r.held[n]
		if !open {
			return "none"
		}
		delete(r.held, n)
		if pd.retry {
			// second release: the followers' retry leaves PreStart, runs and publishes; every follower finishes
			close(pd.gate)
			for _, fl := range r.fol {
				if fl.exec == pd.exec {
					select {
					case <-fl.done:
					case <-time.After(settle):
						return "timeout"
					}
				}
			}
			return "ok"
		}
		if pd.cancelled {
			// PreStart now fails with the winner's context error and the flight ends with it. Its followers (healthy
			// contexts) retry once; the retry is held inside ITS PreStart so that every follower is back on one flight.
			var waiting []*pending
			for _, fl := range r.fol {
				if fl.exec == pd.exec {
					waiting = append(waiting, fl)
				}
			}
			if len(waiting) == 0 {
				close(pd.gate)
				return "failed"
			}
			gate2 := make(chan struct{})
			r.w.mu.Lock()
			r.w.preGate[pd.exec] = gate2
			r.w.mu.Unlock()
			close(pd.gate)
			alldone := make(chan struct{})
			go func() {
				for _, fl := range waiting {
					<-fl.done
				}
				close(alldone)
			}()
			select {
			case ev := <-r.w.events:
				if ev != "pre:"+strconv.Itoa(pd.exec) {
					return "unexpected-event:" + ev
				}
				r.held[n] = &pending{gate: gate2, exec: pd.exec, retry: true, cancel: func() {}, done: alldone}
				// give the other followers time to come back to the gate while the retry is held (they must find its
				// flight open and wait on it; nothing observable tells when they have, hence a pause)
				time.Sleep(grace)
				return "retry"
			case <-alldone:
				// the retry ended without creating an actor (the name had been published meanwhile)
				r.w.mu.Lock()
				delete(r.w.preGate, pd.exec)
				r.w.mu.Unlock()
				return "failed"
			case <-time.After(settle):
				return "timeout"
			}
		}
		close(pd.gate)
		defer pd.cancel()
		select {
		case <-pd.done:
			return showRes(pd.pid, pd.err)
		case <-time.After(settle):
			return "timeout"
		}
	case "K":
		n, ok := arg(1)
		if !ok || len(f) != 2 {
			return "bad-op"
		}
		pid, found := r.w.nodes[n].LocalSingleton(name)
		if !found {
			return "nf"
		}
		before := strings.Count(r.w.reg.Log(), fmt.Sprintf("%dd", n))
		if err := pid.Shutdown(ctx); err != nil {
			return "err:" + vlib.Canon(err.Error())
		}
		// the death watch removes the tree node and then the registry record, asynchronously
		if !r.regWait(func() bool {
			_, still := r.w.nodes[n].LocalSingleton(name)
			return !still && strings.Count(r.w.reg.Log(), fmt.Sprintf("%dd", n)) > before
		}) {
			return "timeout"
		}
		return "ok"
	}
	return "bad-op"
}

func (r *run) digest() string {
	owner := "none"
	if b, ok := r.w.reg.Raw(cluster.VerifActorKey(name)); ok {
		addr := cluster.VerifDecodeActorOwner(b)
		owner = "?"
		if i := strings.Index(addr, "@"); i >= 0 {
			rest := addr[i+1:]
			if j := strings.Index(rest, "/"); j >= 0 {
				rest = rest[:j]
			}
			if k := strings.LastIndex(rest, ":"); k >= 0 {
				if p, err := strconv.Atoi(rest[k+1:]); err == nil {
					owner = strconv.Itoa(p - basePort)
				}
			}
		}
	}
	r.w.mu.Lock()
	var live []string
	for i := range r.w.nodes {
		live = append(live, strconv.Itoa(r.w.live[i]))
	}
	mx, started := r.w.max, r.w.started
	r.w.mu.Unlock()
	var held, fol []string
	for n := range r.held {
		held = append(held, strconv.Itoa(n))
	}
	for n := range r.fol {
		fol = append(fol, strconv.Itoa(n))
	}
	sort.Strings(held)
	sort.Strings(fol)
	return fmt.Sprintf("R=%s live=%s max=%d started=%d held=%s fol=%s log=%s", owner, strings.Join(live, ","), mx, started,
		strings.Join(held, ","), strings.Join(fol, ","), strings.ReplaceAll(r.w.reg.Log(), " ", ","))
}

func runCase(line string) string {
	parts := strings.SplitN(line, "|", 2)
	if len(parts) != 2 {
		return "bad-case"
	}
	nn, err := strconv.Atoi(strings.TrimSpace(parts[0]))
	if err != nil || nn < 1 || nn > 5 {
		return "bad-case"
	}
	ctx := context.Background()
	w := &world{reg: cluster.VerifNewRegistry(nn), bySys: map[actor.ActorSystem]int{}, live: map[int]int{}, preGate: map[int]chan struct{}{}, events: make(chan string, 64)}
	rem := &remoting{w: w}
	defer func() {
		for _, n := range w.nodes {
			sctx, cancel := context.WithTimeout(ctx, 10*time.Second)
			n.Close(sctx)
			cancel()
		}
	}()
	for i := 0; i < nn; i++ {
		dn := actor.VerifDiscoveryNode(i)
		cl := cluster.VerifNewCluster(w.reg, i, dn)
		n, err := actor.VerifNewSingletonNode(ctx, i, cl, dn, rem)
		if err != nil {
			return "err:node:" + vlib.Canon(err.Error())
		}
		w.nodes = append(w.nodes, n)
		w.bySys[n.Sys] = i
	}
	r := &run{w: w, views: make([]int, nn), held: map[int]*pending{}, fol: map[int]*pending{}}
	var out []string
	for _, t := range strings.Fields(parts[1]) {
		out = append(out, vlib.Safe(func() string { return r.op(t) }))
	}
	d := r.digest()
	for n, pd := range r.held {
		close(pd.gate)
		<-pd.done
		pd.cancel()
		delete(r.held, n)
	}
	for n, pd := range r.fol {
		select {
		case <-pd.done:
		case <-time.After(settle):
		}
		pd.cancel()
		delete(r.fol, n)
	}
	return strings.Join(out, " ") + " | " + d
}

func main() { vlib.Loop(runCase) }

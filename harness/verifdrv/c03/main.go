//go:build verif

// C03 harness: per-sender FIFO of the FIFO mailboxes, BatchTell, stash order.
//
//	mb <kind> [cap] [pre <enq> <deq>] | prog0 ; prog1 ; … | schedule
//	    engine E3: the real mailbox under a controlled schedule. kind: unbounded | segmented | ring <cap> |
//	    fair | bounded <cap> (third-party ring buffer: whole operations are the atomic steps).
//	    `pre e d`: before the threads start, sender 0 enqueues e messages and d of them are dequeued
//	    (moves the write/read positions next to a segment / ring boundary).
//	    ops: e = Enqueue(next message of this thread: sender tid+1, seq 0,1,…) · d = Dequeue
//	    results: ok | full | nil | <sender>.<seq>; final = the sequential drain
//	    schedule entries: `<tid>` one atomic step · `<tid>*` run the thread to the start of its next operation ·
//	    `pct <seed> <depth> <k>` (vlib's online PCT scheduler)
//	script <kind> [cap] | tokens
//	    engine E2 through a real actor system, ONE sender goroutine, the actor is gated until everything is
//	    sent, so the mailbox content is exactly the script: t<id> Tell · b<id>,<id>,… BatchTell · S enter
//	    stashing mode · U UnstashAll (leave the mode) · u Unstash one (leave the mode) · via=pid|api first token
//	    output: ids in the order the actor handled them (not stashed)
//	conc <kind> [cap] <senders> <msgs> <style>
//	    free-running goroutines Tell/BatchTell to one actor; style: api | pid | batch | mixed
//	    output: <sender>.<seq> in handling order, or TIMEOUT (inconclusive)
package main

import (
	"context"
	"fmt"
	"strconv"
	"strings"
	"sync"
	"time"

	"github.com/tochemey/goakt/v4/actor"
	"github.com/tochemey/goakt/v4/internal/verifdrv/vlib"
	"github.com/tochemey/goakt/v4/internal/vsched"
	"github.com/tochemey/goakt/v4/log"
)

// ---------------------------------------------------------------------------
// mailbox construction
// ---------------------------------------------------------------------------

func newMailbox(kind string, capacity int) actor.Mailbox {
	switch kind {
	case "unbounded":
		return actor.NewUnboundedMailbox()
	case "segmented":
		return actor.NewUnboundedSegmentedMailbox()
	case "ring":
		return actor.NewNonBlockingBoundedMailbox(capacity)
	case "fair":
		return actor.NewUnboundedFairMailbox()
	case "bounded":
		return actor.NewBoundedMailbox(capacity)
	}
	return nil
}

// parseKind reads `<kind> [cap]` from f, returns the remaining fields.
func parseKind(f []string) (kind string, capacity int, rest []string, ok bool) {
	if len(f) == 0 {
		return
	}
	kind = f[0]
	rest = f[1:]
	switch kind {
	case "ring", "bounded":
		if len(rest) == 0 {
			return
		}
		c, err := strconv.Atoi(rest[0])
		if err != nil || c < 1 || c > 4096 {
			return
		}
		capacity = c
		rest = rest[1:]
	case "unbounded", "segmented", "fair":
	default:
		return
	}
	ok = true
	return
}

// ---------------------------------------------------------------------------
// E3
// ---------------------------------------------------------------------------

type mbObj struct {
	m        actor.Mailbox
	kind     string
	capacity int
	next     []int
}

func show(rc *actor.ReceiveContext) string {
	s, q, ok := actor.VerifC03Decode(rc)
	if !ok {
		return "nil"
	}
	return strconv.Itoa(s) + "." + strconv.Itoa(q)
}

func (o *mbObj) enqueue(sender, seq int) string {
	if o.kind == "bounded" && o.m.Len() >= int64(o.capacity) {
		return "full" // the blocking Put is never entered on a full buffer
	}
	if err := o.m.Enqueue(actor.VerifC03Context(sender, seq)); err != nil {
		return "full"
	}
	return "ok"
}

func (o *mbObj) Do(tid int, op string) string {
	// every operation starts at a point of its own: it is the macro-step boundary (`<tid>*` in a schedule
	// runs the thread to its next operation), and for the uninstrumented third-party buffer behind
	// BoundedMailbox it makes a whole operation one step
	vsched.Point("op")
	switch op {
	case "e":
		seq := o.next[tid]
		o.next[tid]++
		return o.enqueue(tid+1, seq)
	case "d":
		return show(o.m.Dequeue())
	}
	return "bad-op"
}

// Boundary: macro steps end where the next operation begins.
func (o *mbObj) Boundary(label string) bool { return label == "op" }

func (o *mbObj) Final() string {
	var out []string
	for i := 0; i < 100000; i++ {
		rc := o.m.Dequeue()
		if rc == nil {
			break
		}
		out = append(out, show(rc))
	}
	return strings.Join(out, " ")
}

func mkMb(cfg string, nthreads int) vlib.Obj {
	f := strings.Fields(cfg)
	if len(f) < 2 || f[0] != "mb" {
		return nil
	}
	kind, capacity, rest, ok := parseKind(f[1:])
	if !ok {
		return nil
	}
	o := &mbObj{m: newMailbox(kind, capacity), kind: kind, capacity: capacity, next: make([]int, nthreads)}
	if len(rest) == 3 && rest[0] == "pre" {
		e, err1 := strconv.Atoi(rest[1])
		d, err2 := strconv.Atoi(rest[2])
		if err1 != nil || err2 != nil || e < 0 || d < 0 || d > e || e > 4000 {
			return nil
		}
		// interleave so that a bounded buffer never overflows: at most max(1, e-d) messages in flight
		enq, deq := 0, 0
		for enq < e {
			if in := enq - deq; in > 0 && in >= e-d && deq < d {
				o.m.Dequeue()
				deq++
			}
			if o.enqueue(0, enq) != "ok" {
				return nil
			}
			enq++
		}
		for deq < d {
			o.m.Dequeue()
			deq++
		}
	} else if len(rest) != 0 {
		return nil
	}
	return o
}

// ---------------------------------------------------------------------------
// E2E through a real actor system
// ---------------------------------------------------------------------------

type ctl struct{ code byte } // 'G' gate, 'S', 'U', 'u'

type recorder struct {
	mu       sync.Mutex
	handled  []string
	stashing bool
	entered  chan struct{}
	release  chan struct{}
	count    int
	done     chan struct{}
	want     int
}

func (a *recorder) PreStart(*actor.Context) error { return nil }
func (a *recorder) PostStop(*actor.Context) error { return nil }

func (a *recorder) note(s string) {
	a.mu.Lock()
	a.handled = append(a.handled, s)
	a.count++
	if a.count == a.want {
		close(a.done)
	}
	a.mu.Unlock()
}

func (a *recorder) Receive(rc *actor.ReceiveContext) {
	switch m := rc.Message().(type) {
	case *ctl:
		switch m.code {
		case 'G':
			a.entered <- struct{}{}
			<-a.release
		case 'S':
			a.stashing = true
		case 'U':
			a.stashing = false
			rc.UnstashAll()
			rc.Err(nil)
		case 'u':
			a.stashing = false
			rc.Unstash()
			rc.Err(nil)
		case 'E':
			a.note("end")
		}
	case *actor.VerifC03Msg:
		if a.stashing {
			rc.Stash()
			rc.Err(nil)
			return
		}
		a.note(strconv.Itoa(m.Sender) + "." + strconv.Itoa(m.Seq))
	}
}

var (
	sys     actor.ActorSystem
	counter int
)

type nop struct{}

func (nop) PreStart(*actor.Context) error { return nil }
func (nop) PostStop(*actor.Context) error { return nil }
func (nop) Receive(*actor.ReceiveContext) {}

func spawnRecorder(kind string, capacity, want int) (*recorder, *actor.PID, error) {
	a := &recorder{entered: make(chan struct{}, 1), release: make(chan struct{}, 1), done: make(chan struct{}), want: want}
	counter++
	opts := []actor.SpawnOption{actor.WithMailbox(newMailbox(kind, capacity)), actor.WithLongLived(), actor.WithStashing()}
	pid, err := sys.Spawn(context.Background(), "c03-"+strconv.Itoa(counter), a, opts...)
	return a, pid, err
}

func runScript(cfg []string, tokens []string) string {
	kind, capacity, rest, ok := parseKind(cfg)
	if !ok || len(rest) != 0 {
		return "bad-case"
	}
	ctx := context.Background()
	via := "api"
	type send struct {
		batch []any
		one   any
	}
	var sends []send
	nmsgs := 0
	for i, t := range tokens {
		switch {
		case i == 0 && strings.HasPrefix(t, "via="):
			via = t[4:]
			if via != "api" && via != "pid" {
				return "bad-case"
			}
		case t == "S" || t == "U" || t == "u":
			sends = append(sends, send{one: &ctl{code: t[0]}})
		case strings.HasPrefix(t, "t"):
			id, err := strconv.Atoi(t[1:])
			if err != nil || id < 0 {
				return "bad-case"
			}
			sends = append(sends, send{one: &actor.VerifC03Msg{Sender: 1, Seq: id}})
			nmsgs++
		case strings.HasPrefix(t, "b"):
			var batch []any
			for _, s := range strings.Split(t[1:], ",") {
				id, err := strconv.Atoi(s)
				if err != nil || id < 0 {
					return "bad-case"
				}
				batch = append(batch, &actor.VerifC03Msg{Sender: 1, Seq: id})
				nmsgs++
			}
			sends = append(sends, send{batch: batch})
		default:
			return "bad-case"
		}
	}
	if kind == "ring" || kind == "bounded" {
		if nmsgs+len(sends)+4 > capacity {
			return "bad-case" // the script must fit: a full mailbox is not what this case is about
		}
	}
	a, pid, err := spawnRecorder(kind, capacity, -1)
	if err != nil {
		return "spawn-error " + vlib.Canon(err.Error())
	}
	defer func() { _ = pid.Shutdown(ctx) }()
	var from *actor.PID
	if via == "pid" {
		counter++
		from, err = sys.Spawn(ctx, "c03-sender-"+strconv.Itoa(counter), nop{}, actor.WithLongLived())
		if err != nil {
			return "spawn-error " + vlib.Canon(err.Error())
		}
		defer func() { _ = from.Shutdown(ctx) }()
	}
	tell := func(m any) error {
		if from != nil {
			return from.Tell(ctx, pid, m)
		}
		return actor.Tell(ctx, pid, m)
	}
	batchTell := func(ms []any) error {
		if from != nil {
			return from.BatchTell(ctx, pid, ms...)
		}
		return actor.BatchTell(ctx, pid, ms...)
	}
	if err := tell(&ctl{code: 'G'}); err != nil {
		return "tell-error " + vlib.Canon(err.Error())
	}
	select {
	case <-a.entered:
	case <-time.After(20 * time.Second):
		return "TIMEOUT gate"
	}
	for _, s := range sends {
		var err error
		if s.batch != nil {
			err = batchTell(s.batch)
		} else {
			err = tell(s.one)
		}
		if err != nil {
			a.release <- struct{}{}
			return "tell-error " + vlib.Canon(err.Error())
		}
	}
	a.release <- struct{}{}
	// quiescence: an end marker is told last, and told again after it was handled until nothing new
	// is handled in between (unstashed messages are re-enqueued BEHIND the first marker)
	for round := 0; round < 1000; round++ {
		a.mu.Lock()
		before := a.count
		a.want = before + 1
		a.done = make(chan struct{})
		done := a.done
		a.mu.Unlock()
		_ = before
		if err := tell(&ctl{code: 'E'}); err != nil {
			return "tell-error " + vlib.Canon(err.Error())
		}
		select {
		case <-done:
		case <-time.After(20 * time.Second):
			return "TIMEOUT end"
		}
		a.mu.Lock()
		n := len(a.handled)
		quiet := n >= 2 && a.handled[n-1] == "end" && a.handled[n-2] == "end"
		a.mu.Unlock()
		if quiet {
			break
		}
	}
	a.mu.Lock()
	defer a.mu.Unlock()
	var out []string
	for _, h := range a.handled {
		if h != "end" {
			out = append(out, strings.TrimPrefix(h, "1."))
		}
	}
	return strings.Join(out, " ")
}

func runConc(cfg []string) string {
	kind, capacity, rest, ok := parseKind(cfg)
	if !ok || len(rest) != 3 {
		return "bad-case"
	}
	ns, err1 := strconv.Atoi(rest[0])
	nm, err2 := strconv.Atoi(rest[1])
	style := rest[2]
	if err1 != nil || err2 != nil || ns < 1 || ns > 16 || nm < 1 || nm > 5000 {
		return "bad-case"
	}
	if (kind == "ring" || kind == "bounded") && ns*nm+8 > capacity {
		return "bad-case"
	}
	ctx := context.Background()
	a, pid, err := spawnRecorder(kind, capacity, ns*nm)
	if err != nil {
		return "spawn-error " + vlib.Canon(err.Error())
	}
	defer func() { _ = pid.Shutdown(ctx) }()
	froms := make([]*actor.PID, ns)
	for i := range froms {
		if style == "pid" || style == "batch" || (style == "mixed" && i%2 == 0) {
			counter++
			p, err := sys.Spawn(ctx, "c03-sender-"+strconv.Itoa(counter), nop{}, actor.WithLongLived())
			if err != nil {
				return "spawn-error " + vlib.Canon(err.Error())
			}
			froms[i] = p
			defer func() { _ = p.Shutdown(ctx) }()
		}
	}
	var wg sync.WaitGroup
	errs := make([]error, ns)
	start := make(chan struct{})
	for g := 0; g < ns; g++ {
		wg.Add(1)
		go func(g int) {
			defer wg.Done()
			<-start
			from := froms[g]
			seq := 0
			for seq < nm {
				k := 1
				if style == "batch" || (style == "mixed" && seq%3 == 0) {
					k = 1 + (seq+g)%4
				}
				if seq+k > nm {
					k = nm - seq
				}
				ms := make([]any, k)
				for j := 0; j < k; j++ {
					ms[j] = &actor.VerifC03Msg{Sender: g + 1, Seq: seq + j}
				}
				var err error
				switch {
				case k == 1 && from != nil:
					err = from.Tell(ctx, pid, ms[0])
				case k == 1:
					err = actor.Tell(ctx, pid, ms[0])
				case from != nil:
					err = from.BatchTell(ctx, pid, ms...)
				default:
					err = actor.BatchTell(ctx, pid, ms...)
				}
				if err != nil {
					errs[g] = err
					return
				}
				seq += k
			}
		}(g)
	}
	close(start)
	wg.Wait()
	for _, e := range errs {
		if e != nil {
			return "tell-error " + vlib.Canon(e.Error())
		}
	}
	select {
	case <-a.done:
	case <-time.After(15 * time.Second):
		a.mu.Lock()
		n := a.count
		a.mu.Unlock()
		return fmt.Sprintf("TIMEOUT handled=%d of %d", n, ns*nm)
	}
	a.mu.Lock()
	defer a.mu.Unlock()
	return strings.Join(a.handled, " ")
}

func main() {
	ctx := context.Background()
	var err error
	sys, err = actor.NewActorSystem("verifc03", actor.WithLogger(log.DiscardLogger))
	if err != nil {
		panic(err)
	}
	if err = sys.Start(ctx); err != nil {
		panic(err)
	}
	vlib.Loop(func(line string) string {
		// watchdog: a broken mailbox may livelock inside an uninstrumented loop (sequential drain, prefill);
		// the case is reported as HANG instead of stalling the whole run (the spinning goroutine is abandoned)
		f := strings.Fields(line)
		kind := ""
		if len(f) > 1 {
			kind = f[1]
		}
		if hangs[kind] >= 2 {
			return "HANG-skipped" // this mailbox already livelocked twice in this run: do not burn more time on it
		}
		done := make(chan string, 1)
		go func() { done <- vlib.Safe(func() string { return runCase(line) }) }()
		select {
		case r := <-done:
			return r
		case <-time.After(12 * time.Second):
			hangs[kind]++
			return "HANG"
		}
	})
	_ = sys.Stop(ctx)
}

var hangs = map[string]int{}

func runCase(line string) string {
	{
		parts := strings.Split(line, "|")
		head := strings.Fields(parts[0])
		if len(head) == 0 {
			return "bad-case"
		}
		switch head[0] {
		case "mb":
			return vlib.RunConc(line, mkMb)
		case "script":
			if len(parts) != 2 {
				return "bad-case"
			}
			return runScript(head[1:], strings.Fields(parts[1]))
		case "conc":
			if len(parts) != 1 {
				return "bad-case"
			}
			return runConc(head[1:])
		}
		return "bad-case"
	}
}

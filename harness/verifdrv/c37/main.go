//go:build verif

// C37 harness: spawn configuration through the real encode -> wire -> decode path.
//
//	sup <optlist>      codec level: s := build(optlist); spec := EncodeSupervisor(s) through proto
//	                   Marshal/Unmarshal; s' := DecodeSupervisor(spec)  ->  B{dump s} W{dump spec} A{dump s'}
//	cfg sup=<optlist|-> pas=<t:ns|m:n|l|-> re=<mode:limit|-> stash=<0|1> role=<r|%|-> deps=<id:payload,..|-> init=<ns|->
//	                   relocation path inside one local actor system: Spawn(opts) -> pid.toSerialize() -> proto
//	                   Marshal/Unmarshal -> wireSpawnOptions -> Spawn  ->  B{dump pid} W{dump record} A{dump pid'}
//	rsp <same as cfg>  remote spawn for real: local Spawn(opts) for reference; then Spawn(opts, WithHostAndPort) on a second
//	                   system with remoting on a loop-back port: remoting client -> TCP -> remoteSpawnHandler -> Spawn
//	re <mode> <limit>  codec level for reentrancy -> B{mode:limit} W{mode:limit} A{mode:limit}
//	pas <t:ns|m:n|l>   codec level for the passivation strategy
//	fields             field names of the wire messages the model mirrors
//
// optlist: comma separated, applied in order; N = nothing, S<n> WithStrategy, R<max>:<ns> WithRetry,
// B<i>:<m>:<r> WithExponentialBackoff, D<e>=<d> WithDirective(errTable[e], d), A<d> WithAnyErrorDirective;
// after construction: X = Reset(), T<key>=<d> = SetDirectiveByType(key, d).
package main

import (
	"errors"
	"fmt"
	"runtime"
	"strconv"
	"strings"
	"time"

	"google.golang.org/protobuf/proto"
	"google.golang.org/protobuf/reflect/protoreflect"

	"github.com/tochemey/goakt/v4/actor"
	gerrors "github.com/tochemey/goakt/v4/errors"
	"github.com/tochemey/goakt/v4/extension"
	"github.com/tochemey/goakt/v4/internal/codec"
	"github.com/tochemey/goakt/v4/internal/internalpb"
	"github.com/tochemey/goakt/v4/internal/verifdrv/vlib"
	"github.com/tochemey/goakt/v4/passivation"
	"github.com/tochemey/goakt/v4/reentrancy"
	"github.com/tochemey/goakt/v4/supervisor"
)

var errTable = []error{
	&gerrors.PanicError{},
	&runtime.PanicNilError{},
	&gerrors.AnyError{},
	&gerrors.InternalError{},
	actor.VerifC37ErrA{},
	&actor.VerifC37ErrB{},
	errors.New("x"),
	nil,
	fmt.Errorf("w: %w", errors.New("x")),
}

func i64(s string) int64 { v, _ := strconv.ParseInt(s, 10, 64); return v }

func buildSup(spec string) (*supervisor.Supervisor, error) {
	var opts []supervisor.SupervisorOption
	var post []func(*supervisor.Supervisor)
	for _, it := range strings.Split(spec, ",") {
		if it == "" || it == "N" {
			continue
		}
		arg := it[1:]
		switch it[0] {
		case 'S':
			opts = append(opts, supervisor.WithStrategy(supervisor.Strategy(i64(arg))))
		case 'R':
			p := strings.Split(arg, ":")
			if len(p) != 2 {
				return nil, fmt.Errorf("bad R")
			}
			opts = append(opts, supervisor.WithRetry(uint32(i64(p[0])), time.Duration(i64(p[1]))))
		case 'B':
			p := strings.Split(arg, ":")
			if len(p) != 3 {
				return nil, fmt.Errorf("bad B")
			}
			opts = append(opts, supervisor.WithExponentialBackoff(time.Duration(i64(p[0])), time.Duration(i64(p[1])), time.Duration(i64(p[2]))))
		case 'D':
			p := strings.Split(arg, "=")
			if len(p) != 2 || int(i64(p[0])) >= len(errTable) {
				return nil, fmt.Errorf("bad D")
			}
			opts = append(opts, supervisor.WithDirective(errTable[i64(p[0])], supervisor.Directive(i64(p[1]))))
		case 'A':
			opts = append(opts, supervisor.WithAnyErrorDirective(supervisor.Directive(i64(arg))))
		case 'X':
			post = append(post, func(s *supervisor.Supervisor) { s.Reset() })
		case 'T':
			p := strings.Split(arg, "=")
			if len(p) != 2 {
				return nil, fmt.Errorf("bad T")
			}
			k, d := p[0], supervisor.Directive(i64(p[1]))
			post = append(post, func(s *supervisor.Supervisor) { s.SetDirectiveByType(k, d) })
		default:
			return nil, fmt.Errorf("bad item")
		}
	}
	s := supervisor.NewSupervisor(opts...)
	for _, f := range post {
		f(s)
	}
	return s, nil
}

func throughWire[M proto.Message](m M, fresh M) (M, error) {
	raw, err := proto.Marshal(m)
	if err != nil {
		return fresh, err
	}
	if err := proto.Unmarshal(raw, fresh); err != nil {
		return fresh, err
	}
	return fresh, nil
}

func fieldNames(m proto.Message) string {
	fs := m.ProtoReflect().Descriptor().Fields()
	var out []string
	for i := 0; i < fs.Len(); i++ {
		f := fs.Get(i)
		out = append(out, string(f.Name())+"#"+strconv.Itoa(int(f.Number())))
	}
	return string(m.ProtoReflect().Descriptor().Name()) + "(" + strings.Join(out, ",") + ")"
}

var _ protoreflect.Message

var env *actor.VerifC37Env

func handle(line string) string {
	f := vlib.Fields(line)
	if len(f) == 0 {
		return "bad-case"
	}
	switch f[0] {
	case "fields":
		return fieldNames(&internalpb.SupervisorSpec{}) + " " + fieldNames(&internalpb.SupervisorDirectiveRule{}) + " " +
			fieldNames(&internalpb.ReentrancyConfig{}) + " " + fieldNames(&internalpb.Actor{})
	case "sup":
		if len(f) != 2 {
			return "bad-case"
		}
		s, err := buildSup(f[1])
		if err != nil {
			return "bad-case"
		}
		spec, err := throughWire(codec.EncodeSupervisor(s), &internalpb.SupervisorSpec{})
		if err != nil {
			return "err:wire"
		}
		return "B{" + actor.VerifC37DumpSupervisor(s) + "} W{" + actor.VerifC37DumpSupervisorSpec(spec) + "} A{" +
			actor.VerifC37DumpSupervisor(codec.DecodeSupervisor(spec)) + "}"
	case "re":
		if len(f) != 3 {
			return "bad-case"
		}
		r := reentrancy.New(reentrancy.WithMode(reentrancy.Mode(i64(f[1]))), reentrancy.WithMaxInFlight(int(i64(f[2]))))
		w, err := throughWire(codec.EncodeReentrancy(r), &internalpb.ReentrancyConfig{})
		if err != nil {
			return "err:wire"
		}
		r2 := codec.DecodeReentrancy(w)
		return fmt.Sprintf("B{%d:%d} W{%d:%d} A{%d:%d}", int(r.Mode()), r.MaxInFlight(), int(w.GetMode()), w.GetMaxInFlight(), int(r2.Mode()), r2.MaxInFlight())
	case "pas":
		if len(f) != 2 {
			return "bad-case"
		}
		var st passivation.Strategy
		switch {
		case f[1] == "l":
			st = passivation.NewLongLivedStrategy()
		case strings.HasPrefix(f[1], "t:"):
			st = passivation.NewTimeBasedStrategy(time.Duration(i64(f[1][2:])))
		case strings.HasPrefix(f[1], "m:"):
			st = passivation.NewMessageCountBasedStrategy(int(i64(f[1][2:])))
		default:
			return "bad-case"
		}
		w, err := throughWire(codec.EncodePassivationStrategy(st), &internalpb.PassivationStrategy{})
		if err != nil {
			return "err:wire"
		}
		return "B{" + actor.VerifC37DumpPassivation(st) + "} W{" + actor.VerifC37DumpWirePassivation(w) + "} A{" +
			actor.VerifC37DumpPassivation(codec.DecodePassivationStrategy(w)) + "}"
	case "cfg", "rsp":
		var opts []actor.SpawnOption
		for _, kv := range f[1:] {
			k, v, ok := strings.Cut(kv, "=")
			if !ok {
				return "bad-case"
			}
			if v == "-" {
				continue
			}
			switch k {
			case "sup":
				s, err := buildSup(v)
				if err != nil {
					return "bad-case"
				}
				opts = append(opts, actor.WithSupervisor(s))
			case "pas":
				switch {
				case v == "l":
					opts = append(opts, actor.WithPassivationStrategy(passivation.NewLongLivedStrategy()))
				case strings.HasPrefix(v, "t:"):
					opts = append(opts, actor.WithPassivationStrategy(passivation.NewTimeBasedStrategy(time.Duration(i64(v[2:])))))
				case strings.HasPrefix(v, "m:"):
					opts = append(opts, actor.WithPassivationStrategy(passivation.NewMessageCountBasedStrategy(int(i64(v[2:])))))
				default:
					return "bad-case"
				}
			case "re":
				m, l, ok := strings.Cut(v, ":")
				if !ok {
					return "bad-case"
				}
				opts = append(opts, actor.WithReentrancy(reentrancy.New(reentrancy.WithMode(reentrancy.Mode(i64(m))), reentrancy.WithMaxInFlight(int(i64(l))))))
			case "stash":
				if v == "1" {
					opts = append(opts, actor.WithStashing())
				}
			case "role":
				if v == "%" {
					v = ""
				}
				opts = append(opts, actor.WithRole(v))
			case "deps":
				var deps []extension.Dependency
				for _, d := range strings.Split(v, ",") {
					id, payload, _ := strings.Cut(d, ":")
					deps = append(deps, &actor.VerifC37Dep{Id: id, Payload: payload})
				}
				opts = append(opts, actor.WithDependencies(deps...))
			case "init":
				opts = append(opts, actor.WithInitTimeout(time.Duration(i64(v))))
			default:
				return "bad-case"
			}
		}
		if env == nil {
			e, err := actor.VerifC37Start()
			if err != nil {
				return "err:start " + vlib.Canon(err.Error())
			}
			env = e
		}
		rt := env.Roundtrip
		if f[0] == "rsp" {
			rt = env.RemoteSpawn
		}
		b, w, a, err := rt(opts)
		if err != nil {
			return "err:" + strings.ReplaceAll(vlib.Canon(err.Error()), " ", "_")
		}
		return "B{" + b + "} W{" + w + "} A{" + a + "}"
	}
	return "bad-case"
}

func main() { vlib.Loop(handle) }

//go:build verif

package client

// VerifSetRRCursor presets the round-robin cursor (any uint32 bit pattern).
func VerifSetRRCursor(x *RoundRobin, v uint32) {
	x.locker.Lock()
	x.next = v
	x.locker.Unlock()
}

//go:build verif

package stream

// In-package accessors for the C46 harness (junction actors). Uses the VerifRig of zz_verif_c45.go.

import (
	"context"
	"fmt"
	"strings"

	"github.com/tochemey/goakt/v4/actor"
)

// VerifJunctionSource builds the real source actor of Merge / Concat / Zip over n sub-sources WITHOUT
// materializing sub-pipelines (the sub-stage lists are empty, so spawnSubPipeline's validation rejects them
// and nothing is spawned): the harness plays the sub-pipelines' internal sinks itself by sending
// mergeSubValue / mergeSubDone.
func VerifJunctionSource(kind string, n int, sys actor.ActorSystem) actor.Actor {
	cfg := defaultStageConfig()
	cfg.System = sys
	subs := make([][]*stage, n)
	switch kind {
	case "merge":
		return newMergeSourceActor[int](subs, cfg)
	case "concat":
		return newConcatSourceActor[int](subs, cfg)
	case "zip":
		return newZipNSourceActor(subs, func(s []int) []int {
			out := make([]int, len(s))
			copy(out, s)
			return out
		}, cfg)
	}
	panic("verif: unknown junction " + kind)
}

// VerifNewHubRig builds the real hub actor of Broadcast / Balance / Partition over n slots, with n probe
// actors standing for the slot actors and one for the hub's upstream, and wires it.
// sel is the partition selector (ignored otherwise).
func VerifNewHubRig(ctx context.Context, sys actor.ActorSystem, kind string, n int, sel func(int) int) (*VerifRig, []string, error) {
	verifRigMu.Lock()
	verifRigSeq++
	id := verifRigSeq
	verifRigMu.Unlock()
	r := &VerifRig{sys: sys, subID: fmt.Sprintf("v%d", id)}
	var err error
	r.up = &verifProbe{tag: "u"}
	if r.upPID, err = sys.Spawn(ctx, fmt.Sprintf("verif-up-%d", id), r.up, actor.WithLongLived()); err != nil {
		return nil, nil, err
	}
	ids := make([]string, n)
	for i := 0; i < n; i++ {
		p := &verifProbe{tag: fmt.Sprintf("d%d", i)}
		pid, err := sys.Spawn(ctx, fmt.Sprintf("verif-slot-%d-%d", id, i), p, actor.WithLongLived())
		if err != nil {
			return nil, nil, err
		}
		r.down = append(r.down, p)
		r.dnPID = append(r.dnPID, pid)
		ids[i] = fmt.Sprintf("s%d", i)
	}
	var a actor.Actor
	switch kind {
	case "bchub":
		h := newSharedBroadcast[int](n, nil).hub
		copy(h.slots, r.dnPID)
		copy(h.slotSubIDs, ids)
		a = h
	case "blhub":
		h := newSharedBalance[int](n, nil).hub
		copy(h.slots, r.dnPID)
		copy(h.slotSubIDs, ids)
		a = h
	case "pthub":
		h := newSharedPartition[int](n, nil, func(v any) int {
			t, ok := v.(int)
			if !ok {
				return -1
			}
			return sel(t)
		}).hub
		copy(h.slots, r.dnPID)
		copy(h.slotSubIDs, ids)
		a = h
	default:
		panic("verif: unknown hub " + kind)
	}
	r.inner = a
	r.wrap = &verifWrap{inner: a, ack: make(chan struct{}, 1024)}
	if r.stage, err = sys.Spawn(ctx, fmt.Sprintf("verif-stage-%d", id), r.wrap, actor.WithLongLived()); err != nil {
		return nil, nil, err
	}
	out, err := r.deliver(ctx, &stageWire{subID: r.subID, upstream: r.upPID}, 1)
	return r, out, err
}

// VerifSlotActor builds one slot actor of a 2-branch Broadcast / Balance / Partition; only this slot is ever
// registered, so the shared upstream sub-pipeline is never spawned and the harness plays the hub.
func VerifSlotActor(kind string) actor.Actor {
	switch kind {
	case "bcslot":
		return &broadcastSlotActor[int]{shared: newSharedBroadcast[int](2, nil), slot: 0, config: defaultStageConfig()}
	case "blslot":
		return &balanceSlotActor[int]{shared: newSharedBalance[int](2, nil), slot: 0, config: defaultStageConfig()}
	case "ptslot":
		return &partitionSlotActor[int]{shared: newSharedPartition[int](2, nil, func(any) int { return 0 }), slot: 0, config: defaultStageConfig()}
	}
	panic("verif: unknown slot " + kind)
}

// HubReady tells a slot actor that its hub is the rig's upstream probe.
func (r *VerifRig) HubReady(ctx context.Context) ([]string, error) {
	return r.deliver(ctx, &hubReady{hub: r.upPID}, 1)
}

func fmtInts(xs []int64) string {
	parts := make([]string, len(xs))
	for i, x := range xs {
		parts[i] = fmt.Sprint(x)
	}
	return strings.Join(parts, "|")
}

func fmtLive(slots []*actor.PID) string {
	var b strings.Builder
	for _, s := range slots {
		if s == nil {
			b.WriteByte('0')
		} else {
			b.WriteByte('1')
		}
	}
	return b.String()
}

func (a *broadcastHubActor[T]) verifState() string {
	return fmt.Sprintf("dm=%s,pd=%d,sl=%s", fmtInts(a.demand), a.pending, fmtLive(a.slots))
}

func (a *balanceHubActor[T]) verifState() string {
	return fmt.Sprintf("dm=%s,pd=%d,sl=%s,nx=%d,bf=%s,ud=%s", fmtInts(a.demand), a.pending, fmtLive(a.slots), a.nextSlot, verifQueueLen(a, "buf"), verifBool(a, "upstreamDone"))
}

func (a *partitionHubActor[T]) verifState() string {
	return fmt.Sprintf("dm=%s,pd=%d,sl=%s", fmtInts(a.demand), a.pending, fmtLive(a.slots))
}

func (a *broadcastSlotActor[T]) verifState() string {
	return fmt.Sprintf("pd=%d,hb=%t", a.pendingDemand, a.hub != nil)
}

func (a *balanceSlotActor[T]) verifState() string {
	return fmt.Sprintf("pd=%d,hb=%t", a.pendingDemand, a.hub != nil)
}

func (a *partitionSlotActor[T]) verifState() string {
	return fmt.Sprintf("pd=%d,hb=%t", a.pendingDemand, a.hub != nil)
}

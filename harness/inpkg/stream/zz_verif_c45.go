//go:build verif

package stream

// In-package accessors for the C45/C46 verification harness (add-only, overlay-only).
//
// VerifRig drives ONE real stage actor deterministically: the actor is built by the stage
// descriptor's own actorFn (the code path the materializer uses), spawned in a real actor
// system, wired (stageWire) to two probe actors standing for its upstream and downstream
// neighbours, and then fed one protocol message at a time.  After every message the rig waits
// until the stage's Receive has returned (wrapper ack) and until both probes have drained
// their mailboxes (Ask barrier), so the recorded output of each step is exact and free of timing.

import (
	"context"
	"errors"
	"fmt"
	"reflect"
	"sort"
	"strconv"
	"strings"
	"sync"
	"sync/atomic"
	"time"

	"github.com/tochemey/goakt/v4/actor"
)

// verifBool reads an unexported bool field by name ("-" when the actor has no such field, so that the
// harness still builds and runs against a tree where the field was removed).
func verifBool(a any, name string) string {
	v := reflect.ValueOf(a)
	if v.Kind() == reflect.Ptr {
		v = v.Elem()
	}
	f := v.FieldByName(name)
	if !f.IsValid() || f.Kind() != reflect.Bool {
		return "-"
	}
	if f.Bool() {
		return "1"
	}
	return "0"
}

// verifQueueLen reads the length of an unexported `queue` field by name ("-" when absent).
func verifQueueLen(a any, name string) string {
	v := reflect.ValueOf(a)
	if v.Kind() == reflect.Ptr {
		v = v.Elem()
	}
	f := v.FieldByName(name)
	if !f.IsValid() || f.Kind() != reflect.Struct {
		return "-"
	}
	d, h := f.FieldByName("data"), f.FieldByName("head")
	if !d.IsValid() || !h.IsValid() {
		return "-"
	}
	return strconv.Itoa(d.Len() - int(h.Int()))
}

// VerifFmt renders a stream element canonically: ints as decimal, slices as [a,b,c].
func VerifFmt(v any) string {
	switch x := v.(type) {
	case int:
		return strconv.Itoa(x)
	case int64:
		return strconv.FormatInt(x, 10)
	case []int:
		parts := make([]string, len(x))
		for i, e := range x {
			parts[i] = strconv.Itoa(e)
		}
		return "[" + strings.Join(parts, ",") + "]"
	case []any:
		parts := make([]string, len(x))
		for i, e := range x {
			parts[i] = VerifFmt(e)
		}
		return "[" + strings.Join(parts, ",") + "]"
	default:
		return fmt.Sprintf("?%T", v)
	}
}

type verifSync struct{}

// verifProbe records every protocol message it receives.
type verifProbe struct {
	tag string
	mu  sync.Mutex
	log []string
}

func (p *verifProbe) PreStart(*actor.Context) error { return nil }
func (p *verifProbe) PostStop(*actor.Context) error { return nil }
func (p *verifProbe) Receive(rctx *actor.ReceiveContext) {
	var s string
	switch m := rctx.Message().(type) {
	case *verifSync:
		rctx.Response(&verifSync{})
		return
	case *streamRequest:
		s = "r" + strconv.FormatInt(m.n, 10)
	case *streamCancel:
		s = "k"
	case *streamElement:
		s = "e" + VerifFmt(m.value)
	case *streamComplete:
		s = "c"
	case *streamError:
		s = "x" + m.err.Error()
	case *slotDemand:
		s = "sd" + strconv.Itoa(m.slot) + ":" + strconv.FormatInt(m.n, 10)
	case *slotCancel:
		s = "sk" + strconv.Itoa(m.slot)
	case *hubReady:
		s = "hr"
	default:
		return // PostStart and other system messages
	}
	p.mu.Lock()
	p.log = append(p.log, p.tag+":"+s)
	p.mu.Unlock()
}

func (p *verifProbe) take() []string {
	p.mu.Lock()
	defer p.mu.Unlock()
	out := p.log
	p.log = nil
	return out
}

// verifWrap delegates to the real stage actor and acknowledges every handled message.
type verifWrap struct {
	inner  actor.Actor
	ack    chan struct{}
	panics atomic.Int64
}

func (w *verifWrap) PreStart(ctx *actor.Context) error { return w.inner.PreStart(ctx) }
func (w *verifWrap) PostStop(ctx *actor.Context) error { return w.inner.PostStop(ctx) }
func (w *verifWrap) Receive(rctx *actor.ReceiveContext) {
	switch rctx.Message().(type) {
	case *stageWire, *streamRequest, *streamElement, *streamComplete, *streamError, *streamCancel,
		*parallelResult, *batchFlush, *slotDemand, *slotCancel, *hubReady, *mergeSubValue, *mergeSubDone:
		defer func() {
			// a panicking handler is acknowledged too (and re-raised, so the runtime supervises it as usual)
			if r := recover(); r != nil {
				w.panics.Add(1)
				w.ack <- struct{}{}
				panic(r)
			}
		}()
		w.inner.Receive(rctx)
		w.ack <- struct{}{}
	default:
		w.inner.Receive(rctx)
	}
}

// VerifRig is one stage actor under test between probes.
type VerifRig struct {
	sys    actor.ActorSystem
	stage  *actor.PID
	inner  actor.Actor
	wrap   *verifWrap
	up     *verifProbe
	down   []*verifProbe
	upPID  *actor.PID
	dnPID  []*actor.PID
	subID  string
	closed bool
	// a handler panicked: the supervisor stops the actor asynchronously
	panicked bool
}

var verifRigSeq int
var verifRigMu sync.Mutex

const verifStepTimeout = 20 * time.Second

// VerifStageOf exposes a flow's stage descriptor pieces.
func VerifFlowActor[In, Out any](f Flow[In, Out], initialDemand, refill int64) actor.Actor {
	cfg := f.stage.config
	if initialDemand > 0 {
		cfg.InitialDemand = initialDemand
		cfg.RefillThreshold = refill
	}
	return f.stage.actorFn(cfg)
}

// VerifFlowConfig returns the (InitialDemand, RefillThreshold) a flow's descriptor carries.
func VerifFlowConfig[In, Out any](f Flow[In, Out]) (int64, int64) {
	return f.stage.config.InitialDemand, f.stage.config.RefillThreshold
}

// VerifSourceActor builds the head actor of a source (pull source, merge, ...) with its own config.
func VerifSourceActor[T any](s Source[T], sys actor.ActorSystem) actor.Actor {
	cfg := s.stages[0].config
	cfg.System = sys
	return s.stages[0].actorFn(cfg)
}

// VerifSinkActor builds a sink's actor (with optional config override).
func VerifSinkActor[T any](s Sink[T], initialDemand, refill int64) actor.Actor {
	cfg := s.desc.config
	if initialDemand > 0 {
		cfg.InitialDemand = initialDemand
		cfg.RefillThreshold = refill
	}
	return s.desc.actorFn(cfg)
}

// VerifNewRig spawns the probes and the wrapped stage actor and sends the stageWire.
// hasUp/hasDown say which neighbours the stage gets (a source has no upstream, a sink no downstream).
func VerifNewRig(ctx context.Context, sys actor.ActorSystem, a actor.Actor, hasUp, hasDown bool) (*VerifRig, []string, error) {
	return VerifNewRigWire(ctx, sys, a, hasUp, hasDown, true)
}

// VerifNewRigWire is VerifNewRig with the stageWire optionally withheld (sent later by Wire):
// the materializer wires the stages one after the other, so a stage that starts pulling on its own
// wire (fused, parallel) can reach its downstream neighbour before that neighbour's stageWire.
func VerifNewRigWire(ctx context.Context, sys actor.ActorSystem, a actor.Actor, hasUp, hasDown, wireNow bool) (*VerifRig, []string, error) {
	verifRigMu.Lock()
	verifRigSeq++
	id := verifRigSeq
	verifRigMu.Unlock()
	r := &VerifRig{sys: sys, inner: a, subID: "v" + strconv.Itoa(id)}
	r.wrap = &verifWrap{inner: a, ack: make(chan struct{}, 1024)}
	var err error
	if hasUp {
		r.up = &verifProbe{tag: "u"}
		if r.upPID, err = sys.Spawn(ctx, fmt.Sprintf("verif-up-%d", id), r.up, actor.WithLongLived()); err != nil {
			return nil, nil, err
		}
	}
	if hasDown {
		p := &verifProbe{tag: "d"}
		pid, err := sys.Spawn(ctx, fmt.Sprintf("verif-down-%d", id), p, actor.WithLongLived())
		if err != nil {
			return nil, nil, err
		}
		r.down = append(r.down, p)
		r.dnPID = append(r.dnPID, pid)
	}
	if r.stage, err = sys.Spawn(ctx, fmt.Sprintf("verif-stage-%d", id), r.wrap, actor.WithLongLived()); err != nil {
		return nil, nil, err
	}
	if !wireNow {
		return r, nil, nil
	}
	out, err := r.Wire(ctx)
	return r, out, err
}

// Wire delivers the stageWire.
func (r *VerifRig) Wire(ctx context.Context) ([]string, error) {
	var dn *actor.PID
	if len(r.dnPID) > 0 {
		dn = r.dnPID[0]
	}
	return r.deliver(ctx, &stageWire{subID: r.subID, upstream: r.upPID, downstream: dn}, 1)
}

// Alive reports whether the stage actor is still running.
func (r *VerifRig) Alive() bool { return r.stage != nil && !r.panicked && r.stage.IsRunning() }

func (r *VerifRig) deliver(ctx context.Context, msg any, acks int) ([]string, error) {
	if !r.Alive() {
		return []string{"dead"}, nil
	}
	if err := actor.Tell(ctx, r.stage, msg); err != nil {
		return []string{"dead"}, nil
	}
	before := r.wrap.panics.Load()
	out, err := r.await(ctx, acks)
	if err == nil && r.wrap.panics.Load() != before {
		// the supervisor suspends and then stops the actor; from here on the rig treats it as dead
		r.panicked = true
		out = append(out, "PANIC")
	}
	return out, err
}

// await waits for `acks` handled messages and then drains the probes.
func (r *VerifRig) await(ctx context.Context, acks int) ([]string, error) {
	for i := 0; i < acks; i++ {
		select {
		case <-r.wrap.ack:
		case <-time.After(verifStepTimeout):
			return nil, errors.New("timeout waiting for the stage to handle a message")
		}
	}
	var out []string
	if r.up != nil {
		if _, err := actor.Ask(ctx, r.upPID, &verifSync{}, verifStepTimeout); err != nil {
			return nil, err
		}
		out = append(out, r.up.take()...)
	}
	for i, p := range r.down {
		if _, err := actor.Ask(ctx, r.dnPID[i], &verifSync{}, verifStepTimeout); err != nil {
			return nil, err
		}
		out = append(out, p.take()...)
	}
	return out, nil
}

// Await waits for n spontaneous Receive calls (e.g. parallel results) and returns what was emitted.
func (r *VerifRig) Await(ctx context.Context, n int) ([]string, error) { return r.await(ctx, n) }

// Request / Element / Complete / Error / Cancel deliver one protocol message and return what the stage emitted.
func (r *VerifRig) Request(ctx context.Context, n int64) ([]string, error) {
	return r.deliver(ctx, &streamRequest{subID: r.subID, n: n}, 1)
}
func (r *VerifRig) Element(ctx context.Context, v any) ([]string, error) {
	return r.deliver(ctx, &streamElement{subID: r.subID, value: v}, 1)
}

// ElementNoWait delivers an element whose handling triggers `extra` further Receive calls.
func (r *VerifRig) ElementAcks(ctx context.Context, v any, acks int) ([]string, error) {
	return r.deliver(ctx, &streamElement{subID: r.subID, value: v}, acks)
}
func (r *VerifRig) Complete(ctx context.Context) ([]string, error) {
	return r.deliver(ctx, &streamComplete{subID: r.subID}, 1)
}
func (r *VerifRig) Error(ctx context.Context, e error) ([]string, error) {
	return r.deliver(ctx, &streamError{subID: r.subID, err: e}, 1)
}
func (r *VerifRig) Cancel(ctx context.Context) ([]string, error) {
	return r.deliver(ctx, &streamCancel{subID: r.subID}, 1)
}
func (r *VerifRig) BatchFlush(ctx context.Context) ([]string, error) {
	return r.deliver(ctx, &batchFlush{}, 1)
}
func (r *VerifRig) SubValue(ctx context.Context, slot int, v any) ([]string, error) {
	return r.deliver(ctx, &mergeSubValue{slot: slot, value: v}, 1)
}
func (r *VerifRig) SubDone(ctx context.Context, slot int) ([]string, error) {
	return r.deliver(ctx, &mergeSubDone{slot: slot}, 1)
}
func (r *VerifRig) SlotDemand(ctx context.Context, slot int, n int64) ([]string, error) {
	return r.deliver(ctx, &slotDemand{slot: slot, n: n}, 1)
}
func (r *VerifRig) SlotCancel(ctx context.Context, slot int) ([]string, error) {
	return r.deliver(ctx, &slotCancel{slot: slot}, 1)
}

// State renders the protocol-relevant fields of the stage actor (read after the ack, so race-free).
func (r *VerifRig) State() string {
	b := func(x bool) int {
		if x {
			return 1
		}
		return 0
	}
	alive := b(r.Alive())
	switch a := r.inner.(type) {
	case *flowActor:
		return fmt.Sprintf("cr=%d,dm=%d,bf=%d,cp=%d,al=%d", a.upstreamCredit, a.downstreamDemand, a.outputBuf.len(), b(a.completing), alive)
	case *fusedFlowActor:
		return fmt.Sprintf("cr=%d,st=%s,al=%d", a.credit, verifBool(a, "started"), alive)
	case *pullSourceActor:
		return fmt.Sprintf("al=%d", alive)
	case *sinkActor:
		return fmt.Sprintf("cr=%d,al=%d", a.credit, alive)
	}
	if s, ok := r.inner.(interface{ verifState() string }); ok {
		return s.verifState() + fmt.Sprintf(",al=%d", alive)
	}
	return fmt.Sprintf("al=%d", alive)
}

func (a *batchFlowActor[T]) verifState() string {
	return fmt.Sprintf("cr=%d,dm=%d,wn=%d,fd=%s,cp=%s", a.upstreamCredit, a.downstreamDemand, len(a.window), verifBool(a, "flushDue"), verifBool(a, "completing"))
}

func (a *parallelMapActor[In, Out]) verifState() string {
	d := 0
	if a.upstreamDone {
		d = 1
	}
	return fmt.Sprintf("if=%d,pn=%d,ne=%d,ud=%d,st=%s", a.inFlight, len(a.pending), a.nextEmit, d, verifBool(a, "started"))
}

func (a *mergeSourceActor[T]) verifState() string {
	return fmt.Sprintf("dm=%d,bf=%d,dn=%d", a.demand, a.buf.len(), a.doneCount)
}

func (a *concatSourceActor[T]) verifState() string {
	d := 0
	if a.done {
		d = 1
	}
	return fmt.Sprintf("dm=%d,bf=%d,cu=%d,dn=%d", a.demand, a.buf.len(), a.current, d)
}

func (a *zipNSourceActor[T, V]) verifState() string {
	var ls []string
	for i := range a.bufs {
		dd := 0
		if a.done[i] {
			dd = 1
		}
		ls = append(ls, fmt.Sprintf("%d/%d", a.bufs[i].len(), dd))
	}
	return fmt.Sprintf("dm=%d,sl=%s", a.demand, strings.Join(ls, "|"))
}

// Close stops the rig's actors.
func (r *VerifRig) Close(ctx context.Context) {
	if r.closed {
		return
	}
	r.closed = true
	if r.stage != nil && r.stage.IsRunning() {
		_ = r.stage.Shutdown(ctx)
	}
	if r.upPID != nil {
		_ = r.upPID.Shutdown(ctx)
	}
	for _, p := range r.dnPID {
		_ = p.Shutdown(ctx)
	}
}

// VerifCountingSink is the real sinkActor with an element callback and a completion hook supplied
// by the harness, so the harness can COUNT how often the sink's completion hook runs.
func VerifCountingSink[T any](onElem func(T) error, onComplete func()) Sink[T] {
	config := defaultStageConfig()
	desc := &stage{
		id:   newStageID(),
		kind: sinkKind,
		actorFn: func(cfg StageConfig) actor.Actor {
			return newSinkActor(func(v any) error {
				elem, ok := v.(T)
				if !ok {
					return fmt.Errorf("stream: verif sink got unexpected type %T", v)
				}
				return onElem(elem)
			}, onComplete, cfg)
		},
		config: config,
	}
	return Sink[T]{desc: desc}
}

// VerifStagesRunning reports how many stage actors of a materialized linear stream (sink excluded) still run.
func VerifStagesRunning(h StreamHandle) int {
	hi, ok := h.(*streamHandleImpl)
	if !ok {
		return -1
	}
	n := 0
	for i, p := range hi.stageActors {
		if i == len(hi.stageActors)-1 {
			continue
		}
		if p != nil && p.IsRunning() {
			n++
		}
	}
	return n
}

// VerifSortStrings is a tiny helper so the harness does not need its own sort import in hot paths.
func VerifSortStrings(s []string) { sort.Strings(s) }

// VerifFusedActor applies the materializer's own fusion pass to the flows attached to src and
// returns the fused stage's actor (the flows must form one fusable run of length >= 2).
func VerifFusedActor[T any](src Source[T], initialDemand, refill int64) actor.Actor {
	_, sink := Collect[T]()
	g := src.To(sink)
	fused := applyFusion(g.stages, FuseStateless)
	if len(fused) != 3 {
		panic(fmt.Sprintf("verif: expected one fused stage, got %d stages", len(fused)))
	}
	cfg := fused[1].config
	if initialDemand > 0 {
		cfg.InitialDemand = initialDemand
		cfg.RefillThreshold = refill
	}
	return fused[1].actorFn(cfg)
}

// VerifUnboundedMailboxes returns the graph with every stage given its own UnboundedMailbox (the public
// WithMailbox option, applied to all stages including the source).  The protocol logic is unchanged;
// only the mailbox implementation differs from the default BoundedMailbox(BufferSize*2).
func VerifUnboundedMailboxes(g RunnableGraph) RunnableGraph {
	out := make([]*stage, len(g.stages))
	for i, s := range g.stages {
		ns := *s
		ns.config.Mailbox = actor.NewUnboundedMailbox()
		out[i] = &ns
	}
	g.stages = out
	return g
}

//go:build verif

package eventstream

import "github.com/tochemey/goakt/v4/internal/queue"

// VerifNewSubscriber creates a real subscriber and exposes its message queue.
func VerifNewSubscriber() (Subscriber, *queue.Queue) {
	s := newSubscriber()
	return s, s.messages
}

// VerifQueueOf exposes the message queue of a subscriber created by a stream.
func VerifQueueOf(s Subscriber) *queue.Queue {
	if x, ok := s.(*subscriber); ok {
		return x.messages
	}
	return nil
}

// VerifSignal calls the unexported subscriber.signal.
func VerifSignal(s Subscriber, topic string, payload any) { s.signal(NewMessage(topic, payload)) }

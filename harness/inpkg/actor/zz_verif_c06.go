//go:build verif

package actor

import "context"

// In-package accessors for the lifecycle checks C06 / C17 / C31 (add-only, overlay-only).

// VerifC06Sched returns the dispatch state of pid (0 Idle, 1 Scheduled, 2 Processing).
func VerifC06Sched(pid *PID) uint32 { return pid.schedState.Load() }

// VerifC06Empty reports whether both mailboxes of pid are empty (racy snapshot; used while polling for quiescence).
func VerifC06Empty(pid *PID) bool {
	return pid.mailbox.IsEmpty() && pid.systemMailbox.IsEmpty()
}

// VerifC06Flags renders the lifecycle flags: r(unning) s(topping) u(suspended) p(assivating), 1/0 each.
func VerifC06Flags(pid *PID) string {
	b := func(s pidState) byte {
		if pid.isStateSet(s) {
			return '1'
		}
		return '0'
	}
	return string([]byte{'r', b(runningState), 's', b(stoppingState), 'u', b(suspendedState), 'p', b(passivatingState)})
}

// VerifC06Passivate performs exactly the call the passivation manager goroutine makes once it has
// popped the actor's entry (passivationManager.passivate -> target.passivationTry).
func VerifC06Passivate(pid *PID) bool { return pid.passivationTry("verif") }

// VerifC06Behavior reports whether the behaviour stack currently has a top element.
func VerifC06Behavior(pid *PID) bool { return pid.behaviorStack.Peek() != nil }

// ---- grains (C31, C17) ----

// VerifGrainRef is an opaque handle on one grain process (what the passivation manager's entry targets).
type VerifGrainRef struct{ pid *grainPID }

// VerifGrainLookup returns the process currently registered for identity in the local grain map.
func VerifGrainLookup(sys ActorSystem, identity *GrainIdentity) (VerifGrainRef, bool) {
	x, ok := sys.(*actorSystem)
	if !ok {
		return VerifGrainRef{}, false
	}
	p, ok := x.grains.Get(identity.String())
	if !ok || p == nil {
		return VerifGrainRef{}, false
	}
	return VerifGrainRef{pid: p}, true
}

// Valid reports whether the handle refers to a process.
func (r VerifGrainRef) Valid() bool { return r.pid != nil }

// Same reports whether two handles refer to the same process object.
func (r VerifGrainRef) Same(o VerifGrainRef) bool { return r.pid == o.pid }

// State renders a(ctive) o(nPoisonPill) d(ispatch state) and the mailbox length of the process.
func (r VerifGrainRef) State() (active, onPill bool, sched uint32, qlen int64) {
	return r.pid.activated.Load(), r.pid.onPoisonPill.Load(), r.pid.schedState.Load(), r.pid.mailbox.Len()
}

// Passivate performs exactly the call the passivation manager goroutine makes for this process.
func (r VerifGrainRef) Passivate() bool { return r.pid.passivationTry("verif") }

// Reentrant reports whether the process carries a reentrancy state (passivation then goes through the mailbox).
func (r VerifGrainRef) Reentrant() bool { return r.pid.reentrancy.Load() != nil }

// VerifGrainTell is the Tell half of actorSystem.localSend, split at the point where the message
// has been handed to the grain process: it resolves / activates the process (ensureGrainProcess),
// builds the context and calls receive — the same calls, in the same order, as localSend — then
// returns; `wait` blocks until the handler answered (or ctx is done), as localSend's select does.
// `enqueued` is called right after receive returned.
func VerifGrainTell(ctx context.Context, sys ActorSystem, id *GrainIdentity, message any, enqueued func()) error {
	x := sys.(*actorSystem)
	pid, err := x.ensureGrainProcess(ctx, id)
	if err != nil {
		enqueued()
		return err
	}
	grainContext := getGrainContext()
	grainContext.build(ctx, pid, x, id, message, grainTell)
	errCh := grainContext.err
	pid.receive(grainContext)
	enqueued()
	select {
	case err := <-errCh:
		return err
	case <-ctx.Done():
		return ctx.Err()
	}
}

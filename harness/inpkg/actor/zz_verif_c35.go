//go:build verif

package actor

import (
	"context"
	"errors"
	"fmt"
	"sync"
	"time"

	gerrors "github.com/tochemey/goakt/v4/errors"
	"github.com/tochemey/goakt/v4/internal/address"
)

// verifC35System is a scripted stand-in for the actor system as seen by the relocation
// handoff code: only the five methods that code calls are implemented (any other call
// panics on the nil embedded interface and is reported by the harness).
type verifC35System struct {
	ActorSystem
	mu        sync.Mutex
	script    string
	inCluster bool
	t0        time.Time
	cur       byte    // letter of the latest resolution
	lookups   []int64 // return time of every ActorOf call, ns since t0
	tIn       int64   // time of the InCluster call
	tHi       int64   // first call observed after `start := time.Now()`
	recorded  int
	pinned    *PID
	liveR     *PID
	local     *PID
}

var errVerifC35Terminal = errors.New("verif: terminal resolution failure")

func (s *verifC35System) since() int64 { return int64(time.Since(s.t0)) }

func (s *verifC35System) markHi() {
	if s.tHi == 0 {
		s.tHi = s.since()
	}
}

func (s *verifC35System) ActorOf(_ context.Context, _ string) (*PID, error) {
	s.mu.Lock()
	defer s.mu.Unlock()
	i := len(s.lookups)
	c := s.script[len(s.script)-1]
	if i < len(s.script) {
		c = s.script[i]
	}
	s.cur = c
	var pid *PID
	var err error
	switch c {
	case 'P':
		pid = s.pinned
	case 'L':
		pid = s.liveR
	case 'l':
		pid = s.local
	case 'N', 'n':
		err = gerrors.NewErrAddressNotFound("verif")
	case 'A':
		err = gerrors.ErrActorNotFound
	default:
		err = errVerifC35Terminal
	}
	s.lookups = append(s.lookups, s.since())
	return pid, err
}

func (s *verifC35System) InCluster() bool {
	s.mu.Lock()
	defer s.mu.Unlock()
	s.tIn = s.since()
	return s.inCluster
}

func (s *verifC35System) isEndpointRelocating(addr *address.Address) bool {
	s.mu.Lock()
	defer s.mu.Unlock()
	s.markHi()
	return addr != nil && addr.Equals(s.pinned.getAddress())
}

func (s *verifC35System) relocationInFlight() bool {
	s.mu.Lock()
	defer s.mu.Unlock()
	s.markHi()
	return s.cur == 'N' || s.cur == 'A'
}

func (s *verifC35System) recordRelocationHandoff(context.Context) {
	s.mu.Lock()
	defer s.mu.Unlock()
	s.recorded++
}

// VerifC35Trace is what one scripted send looked like from the outside.
type VerifC35Trace struct {
	Lookups   []int64
	TIn, THi  int64
	Recorded  int
	Delivered bool
	HasDl     bool
	Dl        int64 // deliver's ctx deadline, ns since t0
	Ret       int64
	Out       string
}

func verifC35Kind(err error) string {
	switch {
	case err == nil:
		return "delivered"
	case errors.Is(err, gerrors.ErrRelocationInProgress):
		return "relocating"
	case errors.Is(err, gerrors.ErrAddressNotFound):
		if isHandoffRetryable(err) {
			return "err:addrnotfound"
		}
		return "failed:addrnotfound"
	case errors.Is(err, gerrors.ErrActorNotFound):
		if isHandoffRetryable(err) {
			return "err:actornotfound"
		}
		return "failed:actornotfound"
	case errors.Is(err, errVerifC35Terminal):
		return "failed:terminal"
	}
	return "other:" + err.Error()
}

func verifC35New(script string, inCluster bool) (*verifC35System, *PID) {
	s := &verifC35System{script: script, inCluster: inCluster}
	s.pinned = newRemotePID(address.New("target", "sys", "10.9.9.1", 9001), nil)
	s.liveR = newRemotePID(address.New("target", "sys", "10.9.9.2", 9002), nil)
	s.local = &PID{address: address.New("target", "sys", "127.0.0.1", 9000)}
	pid := &PID{actorSystem: s, address: address.New("sender", "sys", "127.0.0.1", 9000)}
	pid.setState(runningState, true)
	return s, pid
}

// VerifC35Run drives the real handoff code.  mode: "sync" deliverAcrossHandoff, "async"
// deliverBypassingHandoff, "sendsync" PID.SendSync, "sendasync" PID.SendAsync (the last two only
// with scripts that never resolve to a live target).
func VerifC35Run(mode, script string, inCluster bool, maxWait time.Duration, ctxDone bool) VerifC35Trace {
	s, pid := verifC35New(script, inCluster)
	ctx := context.Background()
	if ctxDone {
		c, cancel := context.WithCancel(ctx)
		cancel()
		ctx = c
	}
	var tr VerifC35Trace
	deliver := func(dctx context.Context, to *PID) (any, error) {
		s.mu.Lock()
		s.markHi()
		tr.Delivered = true
		if dl, ok := dctx.Deadline(); ok {
			tr.HasDl = true
			tr.Dl = int64(dl.Sub(s.t0))
		}
		s.mu.Unlock()
		return "ok", nil
	}
	var err error
	s.t0 = time.Now()
	switch mode {
	case "sync":
		_, err = pid.deliverAcrossHandoff(ctx, "target", maxWait, deliver)
	case "async":
		_, err = pid.deliverBypassingHandoff(ctx, "target", deliver)
	case "sendsync":
		_, err = pid.SendSync(ctx, "target", "msg", maxWait)
	case "sendasync":
		err = pid.SendAsync(ctx, "target", "msg")
	default:
		err = fmt.Errorf("bad mode")
	}
	tr.Ret = s.since()
	s.mu.Lock()
	tr.Lookups = append([]int64(nil), s.lookups...)
	tr.TIn, tr.THi, tr.Recorded = s.tIn, s.tHi, s.recorded
	s.mu.Unlock()
	tr.Out = verifC35Kind(err)
	return tr
}

// VerifC35Consts returns the four constants of relocation_handoff.go in nanoseconds.
func VerifC35Consts() [4]int64 {
	return [4]int64{int64(relocationHandoffWindow), int64(relocationHandoffMinBackoff), int64(relocationHandoffMaxBackoff), int64(relocationNotFoundMaskWindow)}
}

//go:build verif

package actor

import (
	"context"
	"time"

	"github.com/tochemey/goakt/v4/internal/timer"
)

// C15 hooks: a bare target PID (real mailbox, real state flags, no actor system, no dispatcher) so that the
// verification harness can run the REAL PID.Ask on caller threads and play the target's worker itself
// (real UnboundedMailbox.Dequeue, which recycles the previous sentinel into contextCh, then the real
// ReceiveContext.Response).  No background goroutine touches the package-level pools.

// VerifC15Target returns a running, local PID with an unbounded mailbox whose dispatch state is already
// `scheduled`, so doReceive only enqueues (it never reaches the nil dispatcher).
func VerifC15Target() *PID {
	pid := &PID{mailbox: NewUnboundedMailbox(), systemMailbox: NewUnboundedMailbox()}
	pid.setState(runningState, true)
	pid.schedState.v.Store(dispatchScheduled)
	// a zero actor system with a NoSender is all that actor.Ask and handleRemoteAsk read
	pid.actorSystem = &actorSystem{noSender: VerifC15Caller()}
	return pid
}

// VerifC15SystemAsk runs actorSystem.handleRemoteAsk's local Ask (actor_system.go) of the target's system.
func VerifC15SystemAsk(ctx context.Context, to *PID, message any, timeout time.Duration) (any, error) {
	return to.actorSystem.(*actorSystem).handleRemoteAsk(ctx, to, message, timeout)
}

// VerifC15Caller returns a bare PID used as the receiver of PID.Ask.
func VerifC15Caller() *PID {
	pid := &PID{mailbox: NewUnboundedMailbox(), systemMailbox: NewUnboundedMailbox()}
	pid.setState(runningState, true)
	return pid
}

// VerifC15Dequeue is one dequeue of the target's worker.
func VerifC15Dequeue(pid *PID) *ReceiveContext { return pid.mailbox.Dequeue() }

// VerifC15MailboxLen is the number of messages waiting in the target's mailbox.
func VerifC15MailboxLen(pid *PID) int64 { return pid.mailbox.Len() }

// VerifC15DrainPools empties the package-level receive-context and response-channel pools.
func VerifC15DrainPools() {
	for {
		select {
		case <-contextCh:
			continue
		default:
		}
		break
	}
	for {
		select {
		case <-responseCh:
			continue
		default:
		}
		break
	}
}

// VerifC15Pools reports, without changing them, the pooled receive contexts (their responseClosed flags, in pool
// order) and the pooled response channels (true = a value is buffered).
func VerifC15Pools() (closed []bool, stale []bool) {
	n := len(contextCh)
	for i := 0; i < n; i++ {
		c := <-contextCh
		closed = append(closed, c.responseClosed.Load())
		contextCh <- c
	}
	m := len(responseCh)
	for i := 0; i < m; i++ {
		c := <-responseCh
		stale = append(stale, len(c) > 0)
		responseCh <- c
	}
	return
}

// VerifC15ReplyReady reports whether a reply is buffered in the response channel of rc.
func VerifC15ReplyReady(rc *ReceiveContext) bool { return rc.response != nil && len(rc.response) > 0 }

// VerifC15LastEnqueued returns the receive context most recently enqueued into the target's mailbox
// (the mailbox tail) and its response channel's readiness probe.
func VerifC15LastEnqueued(pid *PID) *ReceiveContext {
	if m, ok := pid.mailbox.(*UnboundedMailbox); ok {
		return (*ReceiveContext)(m.tail)
	}
	return nil
}

// VerifC15Chan captures the response channel currently installed in rc.
func VerifC15Chan(rc *ReceiveContext) chan any { return rc.response }

// VerifC15TimerPool empties the package-level Ask timer pool; dup = some timer was pooled twice.
func VerifC15TimerPool() (n int, dup bool) { return timer.VerifDrain(timers) }

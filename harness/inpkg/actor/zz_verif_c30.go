//go:build verif

// Verification hook for C30 (overlay-only, add-only): a minimal cluster-ready
// actorSystem per node (the same construction goakt's own tests use in
// MockSimpleClusterReadyActorSystem) whose cluster engine is goakt's real
// *cluster wired to the shared fake registry, plus a grain type whose
// activation hooks are schedule points and report to a per-case "world".
package actor

import (
	"context"
	"errors"
	"fmt"
	"sync"

	"github.com/flowchartsman/retry"

	"github.com/tochemey/goakt/v4/discovery"
	gerrors "github.com/tochemey/goakt/v4/errors"
	"github.com/tochemey/goakt/v4/internal/address"
	"github.com/tochemey/goakt/v4/internal/cluster"
	"github.com/tochemey/goakt/v4/internal/types"
	"github.com/tochemey/goakt/v4/internal/vsched"
	"github.com/tochemey/goakt/v4/internal/xsync"
	"github.com/tochemey/goakt/v4/log"
	"github.com/tochemey/goakt/v4/remote"
)

// VerifGrainWorld observes the grain instances of one case.  An instance is
// ACTIVE from the successful return of OnActivate until OnDeactivate is entered.
type VerifGrainWorld struct {
	mu      sync.Mutex
	nodes   map[ActorSystem]int
	failAct map[int]int // node -> number of upcoming OnActivate calls that fail
	active  map[int]int // node -> number of active instances
	cur     int
	max     int
	events  []string
}

var (
	verifWorldMu sync.Mutex
	verifWorld   *VerifGrainWorld
)

// VerifNewGrainWorld creates the world of a case and makes it current.
func VerifNewGrainWorld() *VerifGrainWorld {
	w := &VerifGrainWorld{nodes: map[ActorSystem]int{}, failAct: map[int]int{}, active: map[int]int{}}
	verifWorldMu.Lock()
	verifWorld = w
	verifWorldMu.Unlock()
	return w
}

func verifCurrentWorld() *VerifGrainWorld {
	verifWorldMu.Lock()
	defer verifWorldMu.Unlock()
	return verifWorld
}

// FailNextActivate makes the next OnActivate executed on node fail.
func (w *VerifGrainWorld) FailNextActivate(node int) {
	w.mu.Lock()
	w.failAct[node]++
	w.mu.Unlock()
}

// ClearFail drops pending activation failures of node.
func (w *VerifGrainWorld) ClearFail(node int) {
	w.mu.Lock()
	delete(w.failAct, node)
	w.mu.Unlock()
}

// Max is the largest number of simultaneously active instances seen.
func (w *VerifGrainWorld) Max() int { w.mu.Lock(); defer w.mu.Unlock(); return w.max }

// Active lists, per node index < n, the number of active instances.
func (w *VerifGrainWorld) Active(n int) []int {
	w.mu.Lock()
	defer w.mu.Unlock()
	out := make([]int, n)
	for i := range out {
		out[i] = w.active[i]
	}
	return out
}

// Events is the hook history: a<node> activated, f<node> activation failed, d<node> deactivated an active instance, e<node> OnDeactivate on an instance that was not active.
func (w *VerifGrainWorld) Events() []string {
	w.mu.Lock()
	defer w.mu.Unlock()
	return append([]string(nil), w.events...)
}

// VerifGrain is the grain under study. It is instantiated by goakt (zero value).
type VerifGrain struct {
	active bool
}

var _ Grain = (*VerifGrain)(nil)

func (g *VerifGrain) OnActivate(_ context.Context, props *GrainProps) error {
	vsched.Point("grain:OnActivate")
	w := verifCurrentWorld()
	if w == nil {
		return nil
	}
	w.mu.Lock()
	defer w.mu.Unlock()
	node, ok := w.nodes[props.ActorSystem()]
	if !ok {
		return nil
	}
	if w.failAct[node] > 0 {
		w.failAct[node]--
		w.events = append(w.events, fmt.Sprintf("f%d", node))
		// retry.Stop ends the activation retrier at once (no back-off sleeps)
		return retry.Stop(errors.New("verif: injected activation failure"))
	}
	g.active = true
	w.active[node]++
	w.cur++
	if w.cur > w.max {
		w.max = w.cur
	}
	w.events = append(w.events, fmt.Sprintf("a%d", node))
	return nil
}

func (g *VerifGrain) OnReceive(ctx *GrainContext) { ctx.NoErr() }

func (g *VerifGrain) OnDeactivate(_ context.Context, props *GrainProps) error {
	vsched.Point("grain:OnDeactivate")
	w := verifCurrentWorld()
	if w == nil {
		return nil
	}
	w.mu.Lock()
	defer w.mu.Unlock()
	node, ok := w.nodes[props.ActorSystem()]
	if !ok {
		return nil
	}
	if g.active {
		g.active = false
		w.active[node]--
		w.cur--
		w.events = append(w.events, fmt.Sprintf("d%d", node))
	} else {
		w.events = append(w.events, fmt.Sprintf("e%d", node))
	}
	return nil
}

// VerifGrainNode is one node of the fake cluster.
type VerifGrainNode struct {
	sys   *actorSystem
	idx   int
	id    *GrainIdentity
	world *VerifGrainWorld
}

// VerifGrainBasePort: node i advertises remoting port VerifGrainBasePort+i (nothing listens).
const VerifGrainBasePort = 15000

// VerifDiscoveryNode is the discovery identity of node i.
func VerifDiscoveryNode(i int) *discovery.Node {
	return &discovery.Node{Name: fmt.Sprintf("n%d", i), Host: "127.0.0.1", PeersPort: 14000 + i, RemotingPort: VerifGrainBasePort + i}
}

var (
	verifDispatcherOnce sync.Once
	verifDispatcher     *dispatcher
)

// VerifNewGrainNode builds node idx over the given cluster engine.
func VerifNewGrainNode(w *VerifGrainWorld, idx int, cl cluster.Cluster, grainName string) *VerifGrainNode {
	verifDispatcherOnce.Do(func() {
		verifDispatcher = newDispatcher(2, dispatcherThroughput)
		verifDispatcher.start()
	})
	node := VerifDiscoveryNode(idx)
	sys := &actorSystem{
		name:         "verif",
		logger:       log.DiscardLogger,
		cluster:      cl,
		clusterNode:  node,
		remoteConfig: remote.NewConfig(node.Host, node.RemotingPort),
		dispatcher:   verifDispatcher,
	}
	sys.started.Store(true)
	sys.clusterEnabled.Store(true)
	sys.shuttingDown.Store(false)
	sys.grains = xsync.NewMap[string, *grainPID]()
	sys.remoteSenderAddresses = xsync.NewMap[string, *address.Address]()
	sys.registry = types.NewRegistry()
	sys.reflection = newReflection(sys.registry)
	proto := &VerifGrain{}
	sys.registry.Register(proto)
	w.mu.Lock()
	w.nodes[sys] = idx
	w.mu.Unlock()
	return &VerifGrainNode{sys: sys, idx: idx, id: newGrainIdentity(proto, grainName), world: w}
}

// Key is the registry identity of the grain.
func (n *VerifGrainNode) Key() string { return n.id.String() }

func verifGrainErr(err error) string {
	var own *grainOwnerMismatchError
	switch {
	case err == nil:
		return "ok"
	case errors.As(err, &own):
		if own.owner == nil {
			return "own?"
		}
		return fmt.Sprintf("own%d", int(own.owner.GetPort())-VerifGrainBasePort)
	case errors.Is(err, cluster.ErrVerifInjected):
		return "ereg"
	case errors.Is(err, gerrors.ErrGrainActivationFailure):
		return "eact"
	default:
		return "err"
	}
}

// Send runs what every local delivery runs first: ensureGrainProcess.
// ok = a local active process was returned; own<k> = the grain is owned by node k.
func (n *VerifGrainNode) Send(ctx context.Context) string {
	pid, err := n.sys.ensureGrainProcess(ctx, n.id)
	if err != nil {
		return verifGrainErr(err)
	}
	if pid == nil {
		return "nil"
	}
	return "ok"
}

// Deactivate runs grainPID.deactivate on the process currently in the local table.
func (n *VerifGrainNode) Deactivate(ctx context.Context) string {
	pid, ok := n.sys.grains.Get(n.id.String())
	if !ok {
		return "none"
	}
	if err := pid.deactivate(ctx); err != nil {
		if errors.Is(err, cluster.ErrVerifInjected) {
			return "ereg"
		}
		return "err"
	}
	return "ok"
}

// Local describes the local grains table: "-" no entry, "a" entry with activated flag, "i" entry without.
func (n *VerifGrainNode) Local() string {
	pid, ok := n.sys.grains.Get(n.id.String())
	if !ok {
		return "-"
	}
	if pid.isActive() {
		return "a"
	}
	return "i"
}

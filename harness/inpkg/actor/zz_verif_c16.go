//go:build verif

package actor

import (
	"context"

	gerrors "github.com/tochemey/goakt/v4/errors"
)

// In-package accessors of the C16 (reentrant requests) harness. Add-only.

// VerifC16Counters returns inFlightCount, blockingCount, the number of tracked request states and
// the number of stashed messages (all -1 when reentrancy was never installed).
func VerifC16Counters(pid *PID) (inFlight, blocking int64, states int, stashed int64) {
	r := pid.reentrancy.Load()
	if r == nil {
		return -1, -1, -1, -1
	}
	if pid.stashState != nil && pid.stashState.box != nil {
		stashed = pid.stashState.box.Len()
	}
	return r.inFlightCount.Load(), r.blockingCount.Load(), r.requestStates.Len(), stashed
}

// VerifC16Reply captures, inside the responder's handler, what ReceiveContext.Response would use, and
// returns a function that sends the reply later through the same routing call.
func VerifC16Reply(rctx *ReceiveContext) func(resp any) error {
	id, replyTo, self := rctx.requestID, rctx.requestReplyTo, rctx.self
	if id == "" {
		return nil
	}
	system := self.ActorSystem()
	return func(resp any) error {
		return system.routeAsyncReply(context.Background(), self, replyTo, id, resp, nil)
	}
}

// VerifC16CallID returns the correlation id behind a RequestCall.
func VerifC16CallID(call RequestCall) string {
	if h, ok := call.(*requestHandle); ok && h != nil && h.state != nil {
		return h.state.id
	}
	return ""
}

// VerifC16FireTimeout does what the request's timer goroutine does when the timer fires.
func VerifC16FireTimeout(pid *PID, id string) {
	_ = pid.enqueueAsyncError(context.Background(), id, gerrors.ErrRequestTimeout)
}

// VerifC16TakeErr returns and clears the error recorded on the context (Request reports failures there).
func VerifC16TakeErr(rctx *ReceiveContext) error {
	err := rctx.err
	rctx.err = nil
	return err
}

// VerifC16Processing reports whether a worker currently owns pid's turn.
func VerifC16Processing(pid *PID) bool { return pid.schedState.Load() == dispatchProcessing }

// VerifC16Idle: no turn in progress and nothing queued.
func VerifC16Idle(pid *PID) bool {
	return pid.schedState.Load() == dispatchIdle && pid.mailbox.IsEmpty() && pid.systemMailbox.IsEmpty()
}

// VerifC16GrainIdle: the grain process of id (if any) has no turn in progress and nothing queued.
func VerifC16GrainIdle(sys ActorSystem, id *GrainIdentity) bool {
	x, ok := sys.(*actorSystem)
	if !ok || id == nil {
		return true
	}
	p, ok := x.grains.Get(id.String())
	if !ok || p == nil {
		return true
	}
	return p.schedState.Load() == dispatchIdle && p.mailbox.IsEmpty() && (p.responses == nil || p.responses.IsEmpty())
}

// ---- a grain as the requester ----------------------------------------------------

func verifC16Grain(sys ActorSystem, id *GrainIdentity) *grainPID {
	x, ok := sys.(*actorSystem)
	if !ok || id == nil {
		return nil
	}
	p, _ := x.grains.Get(id.String())
	return p
}

// VerifC16GrainTell enqueues message into the grain's user mailbox the way TellGrain does, without
// waiting for the grain's acknowledgement (TellGrain blocks until the handler acks or 5s pass, which a
// paused or parked grain never does).
func VerifC16GrainTell(sys ActorSystem, id *GrainIdentity, message any) error {
	x := sys.(*actorSystem)
	pid, err := x.ensureGrainProcess(context.Background(), id)
	if err != nil {
		return err
	}
	gctx := getGrainContext()
	gctx.build(context.Background(), pid, x, id, message, grainTell)
	pid.receive(gctx)
	return nil
}

// VerifC16GrainCounters: inFlight, blocking, tracked states, queued user messages, queued responses.
func VerifC16GrainCounters(sys ActorSystem, id *GrainIdentity) (inFlight, blocking int64, states int, queued, responses int64) {
	p := verifC16Grain(sys, id)
	if p == nil {
		return -1, -1, -1, -1, -1
	}
	queued = p.mailbox.Len()
	if p.responses != nil {
		responses = p.responses.Len()
	}
	r := p.reentrancy.Load()
	if r == nil {
		return -1, -1, -1, queued, responses
	}
	return r.inFlightCount.Load(), r.blockingCount.Load(), r.requestStates.Len(), queued, responses
}

// VerifC16GrainFireTimeout does what the request's timer goroutine does when the timer fires.
func VerifC16GrainFireTimeout(sys ActorSystem, id *GrainIdentity, corr string) {
	if p := verifC16Grain(sys, id); p != nil {
		_ = p.enqueueAsyncError(context.Background(), corr, gerrors.ErrRequestTimeout)
	}
}

// VerifC16GrainPoison does for one grain what the system shutdown does for all: queue-routed
// cancellation of the in-flight requests, then a PoisonPill through the user mailbox.
func VerifC16GrainPoison(sys ActorSystem, id *GrainIdentity) {
	x := sys.(*actorSystem)
	p := verifC16Grain(sys, id)
	if p == nil {
		return
	}
	p.enqueueInFlightCancellations()
	gctx := getGrainContext()
	gctx.build(context.Background(), p, x, p.getIdentity(), new(PoisonPill), grainTell)
	p.receive(gctx)
}

// VerifC16GrainProcessing reports whether a worker owns the grain's turn.
func VerifC16GrainProcessing(sys ActorSystem, id *GrainIdentity) bool {
	p := verifC16Grain(sys, id)
	return p != nil && p.schedState.Load() == dispatchProcessing
}

// VerifC16GrainSettled: no turn in progress and nothing the grain could process now
// (a paused grain keeps its user mailbox; that counts as settled).
func VerifC16GrainSettled(sys ActorSystem, id *GrainIdentity) bool {
	p := verifC16Grain(sys, id)
	if p == nil {
		return true
	}
	return p.schedState.Load() == dispatchIdle && !p.hasPendingWork()
}

// VerifC16GrainActive reports whether the grain is activated.
func VerifC16GrainActive(sys ActorSystem, id *GrainIdentity) bool {
	p := verifC16Grain(sys, id)
	return p != nil && p.isActive()
}

//go:build verif

package actor

// VerifSegmentSize is the segment size constant of the segmented mailbox.
func VerifSegmentSize() int { return segmentSize }

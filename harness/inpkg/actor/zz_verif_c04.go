//go:build verif

package actor

import "sync"

// VerifResetSegmentPool gives the segmented mailbox an empty segment pool, so that what a
// case observes of segment recycling depends on that case alone.
func VerifResetSegmentPool() {
	segmentPool = sync.Pool{New: func() any { return new(segment) }}
}

// VerifSegmentSize is the segment size constant of the segmented mailbox.
func VerifSegmentSize() int { return segmentSize }

//go:build verif

package actor

import "sync/atomic"

// VerifC14StackLen returns the behaviour stack's length counter (behaviorStack.Len()).
func VerifC14StackLen(pid *PID) int {
	return pid.behaviorStack.Len()
}

// VerifC14StackDepth walks the linked nodes from the top and counts them (independent of the
// length counter), so the harness can report both.
func VerifC14StackDepth(pid *PID) int {
	n := 0
	for p := atomic.LoadPointer(&pid.behaviorStack.top); p != nil; p = atomic.LoadPointer(&(*bnode)(p).next) {
		n++
	}
	return n
}

// VerifBStack exposes a bare behaviorStack to the E3 harness (controlled schedules on the real
// Push/Pop/Peek/Len/Reset of actor/behavior_stack.go).
type VerifBStack struct{ s *behaviorStack }

func VerifNewBStack() *VerifBStack          { return &VerifBStack{s: newBehaviorStack()} }
func (v *VerifBStack) Obj() any             { return v.s }
func (v *VerifBStack) Push(b Behavior)      { v.s.Push(b) }
func (v *VerifBStack) Pop() Behavior        { return v.s.Pop() }
func (v *VerifBStack) Peek() Behavior       { return v.s.Peek() }
func (v *VerifBStack) Len() int             { return v.s.Len() }
func (v *VerifBStack) Reset()               { v.s.Reset() }

// Chain returns the behaviours linked from the top (sequential use only), at most max of them.
func (v *VerifBStack) Chain(max int) []Behavior {
	var out []Behavior
	for p := atomic.LoadPointer(&v.s.top); p != nil && len(out) < max; p = atomic.LoadPointer(&(*bnode)(p).next) {
		out = append(out, (*bnode)(p).value)
	}
	return out
}

//go:build verif

package actor

import "sync/atomic"

// VerifC14StackLen returns the behaviour stack's length counter (behaviorStack.Len()).
func VerifC14StackLen(pid *PID) int {
	return pid.behaviorStack.Len()
}

// VerifC14StackDepth walks the linked nodes from the top and counts them (independent of the
// length counter), so the harness can report both.
func VerifC14StackDepth(pid *PID) int {
	n := 0
	for p := atomic.LoadPointer(&pid.behaviorStack.top); p != nil; p = atomic.LoadPointer(&(*bnode)(p).next) {
		n++
	}
	return n
}

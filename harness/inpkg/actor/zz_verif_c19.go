//go:build verif

package actor

// C19 in-package driver.
//
//   refs | op ; op ; …        the REAL scheduler of a real actor system (go-quartz started), long
//                             delays so nothing fires by itself; ops: once R | every R | cron R |
//                             fired R (one-shot with 1ms delay, waits for its delivery) |
//                             cancel R | pause R | resume R | list        -> error enum per op
//   claim <ttl> | att ; …     the REAL scheduler.claimClusterFire against a fake cluster whose
//                             ClaimScheduleFire is a put-if-absent-with-TTL map on a virtual store
//                             clock; att: a <tick> <lagSec> <storeSec> | nometa | nocluster <lag> |
//                             storeerr <tick> <lagSec>
//   claimz <ttl> | z <tick> <utcOffsetHours> <storeSec> ; …   the same job function, the fake store keyed on
//                             the RAW key string, each attempt under its own process-local time zone
//   ttl <periodNs|err1|err2>  the REAL cronClaimTTL on a fake trigger with that period
//   t-once <ms> / t-oncepr <ms> / t-every <ms> <k> / t-pause <ms> <k>   real quartz, short delays, one-sided checks
//   const                     the compiled claim-TTL bounds

import (
	"context"
	stderrors "errors"
	"fmt"
	"sort"
	"strconv"
	"strings"
	"sync"
	"time"

	"github.com/reugn/go-quartz/quartz"

	gerrors "github.com/tochemey/goakt/v4/errors"
	"github.com/tochemey/goakt/v4/internal/cluster"
	"github.com/tochemey/goakt/v4/log"
	"github.com/tochemey/goakt/v4/passivation"
)

type verifC19Msg struct{ ref string }

type verifC19Sink struct {
	mu   sync.Mutex
	got  map[string][]time.Time
	wake chan struct{}
}

func (a *verifC19Sink) PreStart(*Context) error { return nil }
func (a *verifC19Sink) PostStop(*Context) error { return nil }
func (a *verifC19Sink) Receive(ctx *ReceiveContext) {
	if m, ok := ctx.Message().(*verifC19Msg); ok {
		a.mu.Lock()
		a.got[m.ref] = append(a.got[m.ref], time.Now())
		a.mu.Unlock()
		select {
		case a.wake <- struct{}{}:
		default:
		}
	}
}

func (a *verifC19Sink) count(ref string) int {
	a.mu.Lock()
	defer a.mu.Unlock()
	return len(a.got[ref])
}

func (a *verifC19Sink) first(ref string) (time.Time, bool) {
	a.mu.Lock()
	defer a.mu.Unlock()
	if len(a.got[ref]) == 0 {
		return time.Time{}, false
	}
	return a.got[ref][0], true
}

// waitCount waits (bounded) until at least n deliveries of ref were seen.
func (a *verifC19Sink) waitCount(ref string, n int, max time.Duration) bool {
	dl := time.Now().Add(max)
	for a.count(ref) < n {
		if time.Now().After(dl) {
			return false
		}
		select {
		case <-a.wake:
		case <-time.After(2 * time.Millisecond):
		}
	}
	return true
}

var (
	verifC19Once sync.Once
	verifC19Sys  *actorSystem
	verifC19Pid  *PID
	verifC19Act  *verifC19Sink
	verifC19Err  error
	verifC19Seq  int
)

func verifC19System() error {
	verifC19Once.Do(func() {
		sys, err := NewActorSystem("verifc19", WithLogger(log.DiscardLogger))
		if err != nil {
			verifC19Err = err
			return
		}
		if err := sys.Start(context.Background()); err != nil {
			verifC19Err = err
			return
		}
		verifC19Sys = sys.(*actorSystem)
		verifC19Act = &verifC19Sink{got: map[string][]time.Time{}, wake: make(chan struct{}, 1)}
		verifC19Pid, verifC19Err = sys.Spawn(context.Background(), "sink", verifC19Act, WithPassivationStrategy(passivation.NewLongLivedStrategy()))
	})
	return verifC19Err
}

func verifC19ErrName(err error) string {
	switch {
	case err == nil:
		return "ok"
	case stderrors.Is(err, gerrors.ErrSchedulerNotStarted):
		return "notstarted"
	case stderrors.Is(err, gerrors.ErrScheduledReferenceNotFound):
		return "noref"
	case stderrors.Is(err, quartz.ErrJobNotFound):
		return "nojob"
	case stderrors.Is(err, quartz.ErrJobAlreadyExists):
		return "exists"
	case stderrors.Is(err, quartz.ErrJobIsSuspended):
		return "suspended"
	case stderrors.Is(err, quartz.ErrJobIsActive):
		return "active"
	case stderrors.Is(err, quartz.ErrTriggerExpired):
		return "expired"
	case stderrors.Is(err, gerrors.ErrClusterDisabled):
		return "nocluster"
	}
	return "other:" + err.Error()
}

func verifC19Refs(ops []string, started bool) string {
	if err := verifC19System(); err != nil {
		return "CRASH system: " + err.Error()
	}
	verifC19Seq++
	pre := fmt.Sprintf("v%d-", verifC19Seq)
	sch := verifC19Sys.scheduler
	if !started {
		sch = newScheduler(log.DiscardLogger, time.Second, verifC19Sys) // never started
	}
	used := map[string]bool{}
	defer func() {
		for r := range used {
			_ = sch.CancelSchedule(pre + r)
		}
	}()
	var out []string
	for _, op := range ops {
		f := strings.Fields(op)
		if len(f) == 0 {
			continue
		}
		if f[0] == "list" {
			var l []string
			for _, i := range sch.ListSchedules() {
				if strings.HasPrefix(i.Reference, pre) {
					l = append(l, strings.TrimPrefix(i.Reference, pre))
				}
			}
			sort.Strings(l)
			out = append(out, "["+strings.Join(l, ",")+"]")
			continue
		}
		if len(f) != 2 {
			return "bad-case"
		}
		ref := pre + f[1]
		used[f[1]] = true
		msg := &verifC19Msg{ref: ref}
		var err error
		switch f[0] {
		case "once":
			err = sch.ScheduleOnce(msg, verifC19Pid, time.Hour, WithReference(ref))
		case "every":
			err = sch.Schedule(msg, verifC19Pid, time.Hour, WithReference(ref))
		case "cron":
			err = sch.ScheduleWithCron(msg, verifC19Pid, "0 0 0 1 1 *", WithReference(ref))
		case "fired":
			before := verifC19Act.count(ref)
			err = sch.ScheduleOnce(msg, verifC19Pid, time.Millisecond, WithReference(ref))
			if err == nil {
				if !verifC19Act.waitCount(ref, before+1, 10*time.Second) {
					out = append(out, "?")
					return strings.Join(out, " ")
				}
			}
		case "cancel":
			err = sch.CancelSchedule(ref)
		case "pause":
			err = sch.PauseSchedule(ref)
		case "resume":
			err = sch.ResumeSchedule(ref)
		default:
			return "bad-case"
		}
		out = append(out, verifC19ErrName(err))
	}
	return strings.Join(out, " ")
}

// ---- cluster claim -------------------------------------------------------------------------

type verifC19Cluster struct {
	cluster.Cluster // nil: any other method would panic (none is called)
	now             int64
	entries         map[string]int64
	canon           map[int64]string
	fail            bool
	last            string
	granted         bool
}

func (c *verifC19Cluster) ClaimScheduleFire(_ context.Context, key string, ttl time.Duration) error {
	i := strings.LastIndex(key, "@")
	if i < 0 {
		c.last = "badkey"
		return stderrors.New("bad key")
	}
	rt, err := strconv.ParseInt(key[i+1:], 10, 64)
	tick, ok := c.canon[rt]
	if err != nil || !ok || key[:i] != "ref" {
		c.last = "badkey"
		return stderrors.New("bad key")
	}
	c.last = fmt.Sprintf("t%d", int64(ttl/time.Second))
	if c.fail {
		return stderrors.New("store failure")
	}
	k := key[:i] + "#" + tick
	if exp, found := c.entries[k]; found && c.now < exp {
		return cluster.ErrScheduleFireClaimed
	}
	c.entries[k] = c.now + int64(ttl/time.Second)
	c.granted = true
	return nil
}

type verifC19SysWrap struct {
	*actorSystem
	cl cluster.Cluster
}

func (s *verifC19SysWrap) getCluster() cluster.Cluster { return s.cl }

func verifC19Claim(ttlS string, atts []string) string {
	if err := verifC19System(); err != nil {
		return "CRASH system: " + err.Error()
	}
	ttl, err := strconv.ParseInt(ttlS, 10, 64)
	if err != nil {
		return "bad-case"
	}
	fake := &verifC19Cluster{entries: map[string]int64{}, canon: map[int64]string{}}
	wrap := &verifC19SysWrap{actorSystem: verifC19Sys, cl: fake}
	sch := newScheduler(log.DiscardLogger, time.Second, wrap)
	claim := &scheduleFireClaim{reference: "ref", ttl: time.Duration(ttl) * time.Second}
	// the job function the scheduler registers with quartz for a cluster cron schedule: claim, then deliver
	verifC19Seq++
	mref := fmt.Sprintf("claim%d", verifC19Seq)
	jobFn := sch.makeJobFn(verifC19Pid, &verifC19Msg{ref: mref}, newScheduleConfig(WithReference("ref")), claim)
	expected := 0
	var out []string
	for _, a := range atts {
		f := strings.Fields(a)
		if len(f) == 0 {
			continue
		}
		ctx := context.Background()
		fake.fail, fake.last, fake.granted = false, "", false
		wrap.cl = fake
		withMeta := func(tick, lag string) bool {
			l, err := strconv.ParseInt(lag, 10, 64)
			if err != nil {
				return false
			}
			rt := time.Now().Add(-time.Duration(l) * time.Second).UnixNano()
			fake.canon[rt] = tick
			ctx = context.WithValue(ctx, quartz.JobMetadataContextKey, quartz.JobMetadata{RunTime: rt})
			return true
		}
		switch {
		case f[0] == "a" && len(f) == 4:
			st, err := strconv.ParseInt(f[3], 10, 64)
			if err != nil || !withMeta(f[1], f[2]) {
				return "bad-case"
			}
			fake.now = st
		case f[0] == "nometa" && len(f) == 1:
		case f[0] == "nocluster" && len(f) == 2:
			if !withMeta("x", f[1]) {
				return "bad-case"
			}
			wrap.cl = nil
		case f[0] == "storeerr" && len(f) == 3:
			if !withMeta(f[1], f[2]) {
				return "bad-case"
			}
			fake.fail = true
		default:
			return "bad-case"
		}
		done, err := jobFn(ctx)
		r := ""
		switch {
		case err != nil:
			r = "err:" + verifC19ErrName(err)
			if strings.HasPrefix(r, "err:other:") {
				r = "err:other"
			}
			if done {
				r += "!done"
			}
		case !done:
			r = "notdone"
		case fake.last == "" && f[0] == "nometa":
			r = "open" // no tick metadata: fails open and delivers
			expected++
		case fake.granted:
			r = "win"
			expected++
		case fake.last == "":
			r = "skip"
		default:
			r = "lose"
		}
		if fake.last != "" {
			r += "," + fake.last
		}
		out = append(out, r)
	}
	// deliveries: exactly one per winning (or fail-open) attempt.  Too few within the bounded wait is
	// reported as `?` (no claim); one too many is a definite observation.
	if !verifC19Act.waitCount(mref, expected, 5*time.Second) {
		out = append(out, "?")
	} else {
		time.Sleep(20 * time.Millisecond)
		if n := verifC19Act.count(mref); n > expected {
			out = append(out, fmt.Sprintf("extra-delivery=%d", n-expected))
		}
	}
	return strings.Join(out, " ")
}

// ---- cluster claim across time zones: the store keys on the RAW key string the code builds -----

// verifC19RawCluster is a put-if-absent-with-TTL map keyed by exactly the string handed to
// ClaimScheduleFire (no interpretation): two nodes arbitrate the same tick only if they build the
// same key for it.
type verifC19RawCluster struct {
	cluster.Cluster
	now     int64
	entries map[string]int64
	keys    map[string]bool
	granted bool
	ttl     string
}

func (c *verifC19RawCluster) ClaimScheduleFire(_ context.Context, key string, ttl time.Duration) error {
	c.keys[key] = true
	c.ttl = fmt.Sprintf("t%d", int64(ttl/time.Second))
	if exp, found := c.entries[key]; found && c.now < exp {
		return cluster.ErrScheduleFireClaimed
	}
	c.entries[key] = c.now + int64(ttl/time.Second)
	c.granted = true
	return nil
}

// verifC19ClaimZones: `claimz <ttl> | z <tick> <utcOffsetHours> <storeSec> ; …` — every attempt is one
// node handling tick <tick> (same scheduled instant for the same tick id, a whole second, a few
// seconds old) with its process-local time zone set to the given UTC offset.
func verifC19ClaimZones(ttlS string, atts []string) string {
	if err := verifC19System(); err != nil {
		return "CRASH system: " + err.Error()
	}
	ttl, err := strconv.ParseInt(ttlS, 10, 64)
	if err != nil {
		return "bad-case"
	}
	fake := &verifC19RawCluster{entries: map[string]int64{}, keys: map[string]bool{}}
	wrap := &verifC19SysWrap{actorSystem: verifC19Sys, cl: fake}
	sch := newScheduler(log.DiscardLogger, time.Second, wrap)
	claim := &scheduleFireClaim{reference: "ref", ttl: time.Duration(ttl) * time.Second}
	verifC19Seq++
	mref := fmt.Sprintf("claimz%d", verifC19Seq)
	jobFn := sch.makeJobFn(verifC19Pid, &verifC19Msg{ref: mref}, newScheduleConfig(WithReference("ref")), claim)
	saved := time.Local
	defer func() { time.Local = saved }()
	base := time.Now().Truncate(time.Second)
	ticks := map[string]bool{}
	expected := 0
	var out []string
	for _, a := range atts {
		f := strings.Fields(a)
		if len(f) != 4 || f[0] != "z" {
			return "bad-case"
		}
		tick, e1 := strconv.ParseInt(f[1], 10, 64)
		off, e2 := strconv.ParseInt(f[2], 10, 64)
		st, e3 := strconv.ParseInt(f[3], 10, 64)
		if e1 != nil || e2 != nil || e3 != nil || tick < 0 || tick > 5 {
			return "bad-case"
		}
		ticks[f[1]] = true
		rt := base.Add(-time.Duration(tick) * time.Second).UnixNano()
		ctx := context.WithValue(context.Background(), quartz.JobMetadataContextKey, quartz.JobMetadata{RunTime: rt})
		fake.now, fake.granted, fake.ttl = st, false, ""
		time.Local = time.FixedZone(fmt.Sprintf("Z%d", off), int(off)*3600)
		done, err := jobFn(ctx)
		time.Local = saved
		r := ""
		switch {
		case err != nil:
			r = "err:" + verifC19ErrName(err)
		case !done:
			r = "notdone"
		case fake.granted:
			r = "win"
			expected++
		case fake.ttl == "":
			r = "skip"
		default:
			r = "lose"
		}
		if fake.ttl != "" {
			r += "," + fake.ttl
		}
		out = append(out, r)
	}
	// equal instants must give equal keys: one distinct key per tick
	out = append(out, fmt.Sprintf("keys=%d/%d", len(fake.keys), len(ticks)))
	if !verifC19Act.waitCount(mref, expected, 5*time.Second) {
		out = append(out, "?")
	} else {
		time.Sleep(20 * time.Millisecond)
		if n := verifC19Act.count(mref); n > expected {
			out = append(out, fmt.Sprintf("extra-delivery=%d", n-expected))
		}
	}
	return strings.Join(out, " ")
}

// ---- cronClaimTTL ----------------------------------------------------------------------------

type verifC19Trigger struct {
	period int64
	failAt int // 1: first NextFireTime fails, 2: second fails
	calls  int
}

func (t *verifC19Trigger) NextFireTime(prev int64) (int64, error) {
	t.calls++
	if t.failAt == t.calls {
		return 0, quartz.ErrTriggerExpired
	}
	return prev + t.period, nil
}
func (t *verifC19Trigger) Description() string { return "verif" }

func verifC19TTL(arg string) string {
	tr := &verifC19Trigger{}
	switch arg {
	case "err1":
		tr.failAt = 1
	case "err2":
		tr.failAt = 2
	default:
		p, err := strconv.ParseInt(arg, 10, 64)
		if err != nil {
			return "bad-case"
		}
		tr.period = p
	}
	return strconv.FormatInt(int64(cronClaimTTL(tr)), 10)
}

// ---- one-sided timing on the real quartz -----------------------------------------------------

func verifC19Timing(f []string) string {
	if err := verifC19System(); err != nil {
		return "CRASH system: " + err.Error()
	}
	verifC19Seq++
	ref := fmt.Sprintf("t%d", verifC19Seq)
	sch := verifC19Sys.scheduler
	msg := &verifC19Msg{ref: ref}
	ms, err := strconv.ParseInt(f[1], 10, 64)
	if err != nil {
		return "bad-case"
	}
	d := time.Duration(ms) * time.Millisecond
	switch f[0] {
	case "t-once":
		t0 := time.Now()
		if err := sch.ScheduleOnce(msg, verifC19Pid, d, WithReference(ref)); err != nil {
			return "err:" + verifC19ErrName(err)
		}
		if !verifC19Act.waitCount(ref, 1, d+10*time.Second) {
			return "late"
		}
		at, _ := verifC19Act.first(ref)
		early := at.Sub(t0) < d
		time.Sleep(3*d + 60*time.Millisecond)
		n := verifC19Act.count(ref)
		cerr := sch.CancelSchedule(ref) // a delivered one-shot is gone: cancelling reports an error
		return fmt.Sprintf("early=%v n=%d cancel-after=%s", early, n, map[bool]string{true: "ok", false: "error"}[cerr == nil])
	case "t-oncepr":
		// a one-shot paused before its delay elapses and resumed AFTER its fire instant has passed: it must
		// then be delivered exactly once (a second delivery is a positive observation; none within the
		// bounded wait is `late`)
		if err := sch.ScheduleOnce(msg, verifC19Pid, d, WithReference(ref)); err != nil {
			return "err:" + verifC19ErrName(err)
		}
		defer func() { _ = sch.CancelSchedule(ref) }()
		if err := sch.PauseSchedule(ref); err != nil {
			return "raced" // the one-shot fired before it could be paused (slow machine): no claim
		}
		time.Sleep(d + 50*time.Millisecond)
		if verifC19Act.count(ref) != 0 {
			return fmt.Sprintf("delivered-while-paused=%d", verifC19Act.count(ref))
		}
		if err := sch.ResumeSchedule(ref); err != nil {
			return "resume:" + verifC19ErrName(err)
		}
		if !verifC19Act.waitCount(ref, 1, 10*time.Second) {
			return "late"
		}
		time.Sleep(3*d + 100*time.Millisecond)
		n := verifC19Act.count(ref)
		if n > 1 {
			n = 2 // "more than once": the exact number depends on the machine
		}
		listed := false
		for _, i := range sch.ListSchedules() {
			if i.Reference == ref {
				listed = true
			}
		}
		return fmt.Sprintf("n=%d listed=%v", n, listed)
	case "t-every", "t-pause":
		if len(f) != 3 {
			return "bad-case"
		}
		k, err := strconv.Atoi(f[2])
		if err != nil {
			return "bad-case"
		}
		t0 := time.Now()
		if err := sch.Schedule(msg, verifC19Pid, d, WithReference(ref)); err != nil {
			return "err:" + verifC19ErrName(err)
		}
		defer func() { _ = sch.CancelSchedule(ref) }()
		if !verifC19Act.waitCount(ref, k, time.Duration(k)*d+10*time.Second) {
			return "late"
		}
		at, _ := verifC19Act.first(ref)
		early := at.Sub(t0) < d
		var serr error
		if f[0] == "t-every" {
			serr = sch.CancelSchedule(ref)
		} else {
			serr = sch.PauseSchedule(ref)
		}
		c0 := verifC19Act.count(ref)
		if serr != nil {
			return "err:" + verifC19ErrName(serr)
		}
		time.Sleep(5*d + 100*time.Millisecond)
		extra := verifC19Act.count(ref) - c0
		res := fmt.Sprintf("early=%v extra<=1:%v", early, extra <= 1)
		if extra > 1 {
			res += fmt.Sprintf(" extra=%d", extra)
		}
		if f[0] == "t-pause" {
			c1 := verifC19Act.count(ref)
			if err := sch.ResumeSchedule(ref); err != nil {
				return res + " resume:" + verifC19ErrName(err)
			}
			if verifC19Act.waitCount(ref, c1+1, d+10*time.Second) {
				res += " resumed"
			} else {
				res += " late"
			}
		}
		return res
	}
	return "bad-case"
}

// VerifC19Run executes one case line.
func VerifC19Run(line string) string {
	line = strings.TrimSpace(line)
	if line == "const" {
		return fmt.Sprintf("min=%d max=%d", int64(minScheduleFireClaimTTL), int64(maxScheduleFireClaimTTL))
	}
	f := strings.Fields(line)
	if len(f) == 0 {
		return "bad-case"
	}
	split := func(s string) []string {
		var r []string
		for _, x := range strings.Split(s, ";") {
			if x = strings.TrimSpace(x); x != "" {
				r = append(r, x)
			}
		}
		return r
	}
	switch f[0] {
	case "refs":
		p := strings.SplitN(line, "|", 2)
		if len(p) != 2 {
			return "bad-case"
		}
		return verifC19Refs(split(p[1]), true)
	case "refs0":
		p := strings.SplitN(line, "|", 2)
		if len(p) != 2 {
			return "bad-case"
		}
		return verifC19Refs(split(p[1]), false)
	case "claim":
		p := strings.SplitN(line, "|", 2)
		if len(p) != 2 || len(f) < 2 {
			return "bad-case"
		}
		return verifC19Claim(f[1], split(p[1]))
	case "claimz":
		p := strings.SplitN(line, "|", 2)
		if len(p) != 2 || len(f) < 2 {
			return "bad-case"
		}
		return verifC19ClaimZones(f[1], split(p[1]))
	case "ttl":
		if len(f) != 2 {
			return "bad-case"
		}
		return verifC19TTL(f[1])
	case "t-once", "t-oncepr", "t-every", "t-pause":
		if len(f) < 2 {
			return "bad-case"
		}
		return verifC19Timing(f)
	}
	return "bad-case"
}

//go:build verif

package actor

import (
	"context"
	"errors"
	"time"

	"github.com/tochemey/goakt/v4/internal/vsched"
)

// VerifRig puts ONE real actor of a real actor system under a private,
// un-started dispatcher, so that the verification harness (engine E3) plays
// the dispatcher workers itself, as logical threads of the cooperative
// scheduler.  Everything else (spawn, PreStart, tree, death watch, restart,
// doReceive, runTurn, finishOrReclaim, the mailboxes) is the unmodified code.
type VerifRig struct {
	PID     *PID
	disp    *dispatcher
	workers []*worker
}

// VerifNewRig spawns actor `name` normally, waits until its start-up messages are
// processed by the system's own dispatcher, then swaps in a private dispatcher
// with nworkers (never started) and the given throughput budget.
func VerifNewRig(ctx context.Context, sys ActorSystem, name string, a Actor, nworkers, throughput int, opts ...SpawnOption) (*VerifRig, error) {
	pid, err := sys.Spawn(ctx, name, a, opts...)
	if err != nil {
		return nil, err
	}
	deadline := time.Now().Add(5 * time.Second)
	for {
		if pid.schedState.Load() == dispatchIdle && pid.mailbox.IsEmpty() && pid.systemMailbox.IsEmpty() {
			// stable twice in a row
			time.Sleep(2 * time.Millisecond)
			if pid.schedState.Load() == dispatchIdle && pid.mailbox.IsEmpty() && pid.systemMailbox.IsEmpty() {
				break
			}
		}
		if time.Now().After(deadline) {
			return nil, errors.New("verif rig: actor did not become idle")
		}
		time.Sleep(time.Millisecond)
	}
	d := newDispatcher(nworkers, throughput)
	pid.dispatcher = d
	return &VerifRig{PID: pid, disp: d, workers: d.workers}, nil
}

// FocusObjs lists the objects whose instrumented operations are schedule points.
func (r *VerifRig) FocusObjs() []any {
	objs := []any{&r.PID.schedState, r.PID.mailbox, r.PID.systemMailbox, r.disp}
	for _, w := range r.workers {
		objs = append(objs, w)
	}
	return objs
}

// TryTurn is one non-blocking iteration of worker.run for worker w: a `take`
// schedule point, then own local ring -> global ring -> steal (no parking), and
// the actor's real runTurn when something was taken.
func (r *VerifRig) TryTurn(w int) bool {
	vsched.Point("take")
	rq := r.disp.readyQueue
	var s schedulable
	if s = rq.locals[w].popFront(); s == nil {
		if s = rq.popGlobal(); s == nil {
			s = rq.trySteal(w)
		}
	}
	if s == nil {
		return false
	}
	s.runTurn(r.workers[w])
	return true
}

// Entries is the number of ready-queue entries (all rings).
func (r *VerifRig) Entries() int {
	n := r.disp.readyQueue.globalLen()
	for _, l := range r.disp.readyQueue.locals {
		n += l.length()
	}
	return n
}

// SchedState is the raw dispatch state (0 idle, 1 scheduled, 2 processing).
func (r *VerifRig) SchedState() uint32 { return r.PID.schedState.Load() }

// Pending reports whether a mailbox still holds a published message.
func (r *VerifRig) Pending() bool { return !r.PID.mailbox.IsEmpty() || !r.PID.systemMailbox.IsEmpty() }

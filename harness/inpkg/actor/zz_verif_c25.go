//go:build verif

package actor

import (
	"time"

	"github.com/tochemey/goakt/v4/internal/address"
	"github.com/tochemey/goakt/v4/remote"
)

// VerifC25TerminatedSerializer / VerifC25PoisonPillSerializer expose the two unexported envelope serializers.
func VerifC25TerminatedSerializer() remote.Serializer { return &terminatedSerializer{} }
func VerifC25PoisonPillSerializer() remote.Serializer { return &poisonPillSerializer{} }

// VerifC25NewTerminated builds a Terminated with the given path text ("" = nil path) and UnixNano.
func VerifC25NewTerminated(path string, nanos int64) (*Terminated, error) {
	var p Path
	if path != "" {
		addr, err := address.Parse(path)
		if err != nil {
			return nil, err
		}
		p = newPath(addr)
	}
	return &Terminated{actorPath: p, terminatedAt: time.Unix(0, nanos).UTC()}, nil
}

// VerifC25TerminatedFields returns (path text, UnixNano).
func VerifC25TerminatedFields(t *Terminated) (string, int64) {
	s := ""
	if t.actorPath != nil {
		s = t.actorPath.String()
	}
	return s, t.terminatedAt.UnixNano()
}

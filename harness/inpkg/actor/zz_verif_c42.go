//go:build verif

package actor

// Verification hook for C42/C43 (reliable point-to-point delivery), overlay-only, add-only.
//
// VerifC42Run drives the REAL producerController and consumerController with a scripted sequence of
// deliveries, duplications, drops, ticks and endpoint reactions, and prints what each handler sent plus a
// digest of the handled controller's fields.
//
// Wiring (the same stand-in technique the package's own controller tests use):
//   * the producer controller is spawned as a real actor bound to a real local producer endpoint; its
//     configured consumer endpoint owns a STAND-IN consumer companion (valid companion spec, capturing
//     mailbox), so `resolveReliableCompanion` authenticates the stand-in and everything the producer
//     controller sends toward "the consumer controller" is captured instead of being handled;
//   * symmetrically the consumer controller's configured producer endpoint owns a stand-in producer companion;
//   * both endpoints have capturing mailboxes as well.
// The script then moves captured messages by hand: it calls the real controller's Receive with a real
// ReceiveContext whose sender is the stand-in companion (or the endpoint).  Both controllers use an
// interval of one hour, so no timer fires during a case; ticks are injected explicitly with the
// controller's current generation.  Handlers run on the harness goroutine one at a time, so every step is
// deterministic and needs no waiting.

import (
	"context"
	"fmt"
	"strconv"
	"strings"
	"sync"
	"time"

	"google.golang.org/protobuf/types/known/wrapperspb"

	"github.com/tochemey/goakt/v4/internal/commands"
	"github.com/tochemey/goakt/v4/log"
)

// verifCapture is a Mailbox that records user messages at Enqueue time and never hands them to its actor.
type verifCapture struct {
	mu   sync.Mutex
	msgs []any
}

func (m *verifCapture) Enqueue(rc *ReceiveContext) error {
	switch rc.Message().(type) {
	case *PostStart:
	default:
		m.mu.Lock()
		m.msgs = append(m.msgs, rc.Message())
		m.mu.Unlock()
	}
	return nil
}
func (m *verifCapture) Dequeue() *ReceiveContext { return nil }
func (m *verifCapture) IsEmpty() bool            { return true }
func (m *verifCapture) Len() int64               { return 0 }
func (m *verifCapture) Dispose()                 {}

// take removes and returns everything captured since the last call.
func (m *verifCapture) take() []any {
	m.mu.Lock()
	defer m.mu.Unlock()
	out := m.msgs
	m.msgs = nil
	return out
}

type verifNop struct{}

func (verifNop) PreStart(*Context) error { return nil }
func (verifNop) PostStop(*Context) error { return nil }
func (verifNop) Receive(*ReceiveContext) {}

var (
	verifSysOnce sync.Once
	verifSys     *actorSystem
	verifSysErr  error
	verifCaseNo  int
)

func verifSystem() (*actorSystem, error) {
	verifSysOnce.Do(func() {
		sys, err := NewActorSystem("verifrd", WithLogger(log.DiscardLogger))
		if err != nil {
			verifSysErr = err
			return
		}
		if err := sys.Start(context.Background()); err != nil {
			verifSysErr = err
			return
		}
		verifSys = sys.(*actorSystem)
	})
	return verifSys, verifSysErr
}

// verifWaitStarted waits until the controller actor has finished handling PostStart: a second, inert
// message (a tick of generation 0, which every controller ignores) is dequeued only after the first
// handler returned, and processedCount is bumped when a message is dequeued.
func verifWaitStarted(ctx context.Context, pid *PID, inert any) error {
	if err := Tell(ctx, pid, inert); err != nil {
		return err
	}
	deadline := time.Now().Add(60 * time.Second)
	for pid.ProcessedCount() < 2 {
		if time.Now().After(deadline) {
			return fmt.Errorf("controller %s did not start", pid.Name())
		}
		time.Sleep(50 * time.Microsecond)
	}
	return nil
}

// verifIDs numbers opaque identifiers (nonces, tokens) in order of first appearance; "" is 0.
type verifIDs struct{ m map[string]int }

func (v *verifIDs) of(s string) int {
	if s == "" {
		return 0
	}
	if v.m == nil {
		v.m = map[string]int{}
	}
	if n, ok := v.m[s]; ok {
		return n
	}
	n := len(v.m) + 1
	v.m[s] = n
	return n
}

type verifC42 struct {
	ctx    context.Context
	sys    *actorSystem
	prod   *PID // producer endpoint
	cons   *PID // consumer endpoint
	lc     *PID // stand-in consumer companion (what the producer controller talks to)
	lp     *PID // stand-in producer companion (what the consumer controller talks to)
	pcPID  *PID
	ccPID  *PID
	pc     *producerController
	cc     *consumerController
	capPC  *verifCapture // producer controller -> consumer controller
	capCP  *verifCapture // consumer controller -> producer controller
	capPU  *verifCapture // producer controller -> producer endpoint
	capCU  *verifCapture // consumer controller -> consumer endpoint
	netPC  []any
	netCP  []any
	inboxP []any
	inboxC []any
	nonces verifIDs
	tokens verifIDs
	// producer endpoint (documented contract)
	answeredTok string
	answered    *Produced
	jobs        int
	all         []*PID
	chunkMode   bool
	frameLens   []int
}

// verifJobPayload builds the payload of job k. Without chunking it is Int64Value(payloadOf k); with chunking it is
// a StringValue "j<k>|padding" padded so that its ENCODED frame is exactly the length the case asks for.
func (h *verifC42) verifJobPayload(k int) (any, error) {
	if !h.chunkMode {
		return wrapperspb.Int64(verifPayloadOf(k)), nil
	}
	want := 1
	if len(h.frameLens) > 0 {
		want = h.frameLens[(k-1)%len(h.frameLens)]
	}
	prefix := "j" + strconv.Itoa(k) + "|"
	pad := 0
	for try := 0; try < 6; try++ {
		msg := wrapperspb.String(prefix + strings.Repeat("x", pad))
		frame, err := h.sys.getRemoting().Serializer(msg).Serialize(msg)
		if err != nil {
			return nil, err
		}
		if len(frame) == want {
			return msg, nil
		}
		pad += want - len(frame)
		if pad < 0 {
			return nil, fmt.Errorf("frame length %d is below the minimum %d", want, len(frame)-(pad-(want-len(frame))))
		}
	}
	return nil, fmt.Errorf("cannot realise frame length %d", want)
}

func verifPayloadOf(k int) int64 { return int64(1000 + 7*k) }

func (h *verifC42) spawnStandIn(role ReliableControllerRole, endpointName string, box *verifCapture) (*PID, error) {
	endpoint, err := h.sys.Spawn(h.ctx, endpointName, verifNop{})
	if err != nil {
		return nil, err
	}
	h.all = append(h.all, endpoint)
	spec, err := newReliableCompanionSpec(role, endpointName, endpoint.IncarnationID())
	if err != nil {
		return nil, err
	}
	pid, err := h.sys.Spawn(h.ctx, reliableCompanionName(role, endpoint.IncarnationID()), verifNop{}, asSystem(), asReliableCompanion(spec), WithMailbox(box))
	if err != nil {
		return nil, err
	}
	h.all = append(h.all, pid)
	return pid, nil
}

func verifC42Setup(window int, deliveryConfirmation bool, maxChunk int) (*verifC42, error) {
	sys, err := verifSystem()
	if err != nil {
		return nil, err
	}
	verifCaseNo++
	k := strconv.Itoa(verifCaseNo)
	h := &verifC42{ctx: context.Background(), sys: sys,
		capPC: &verifCapture{}, capCP: &verifCapture{}, capPU: &verifCapture{}, capCU: &verifCapture{}}
	if h.prod, err = sys.Spawn(h.ctx, "vprod-"+k, verifNop{}, WithMailbox(h.capPU)); err != nil {
		return nil, err
	}
	if h.cons, err = sys.Spawn(h.ctx, "vcons-"+k, verifNop{}, WithMailbox(h.capCU)); err != nil {
		return nil, err
	}
	h.all = append(h.all, h.prod, h.cons)
	if h.lc, err = h.spawnStandIn(ReliableControllerRoleConsumer, "vconsfake-"+k, h.capPC); err != nil {
		return nil, err
	}
	if h.lp, err = h.spawnStandIn(ReliableControllerRoleProducer, "vprodfake-"+k, h.capCP); err != nil {
		return nil, err
	}
	pcfg := &reliableProducerConfig{
		consumerName:         "vconsfake-" + k,
		retryInterval:        time.Hour,
		deliveryConfirmation: deliveryConfirmation,
		queueRetry:           &reliableQueueRetryConfig{maxAttempts: 1, initialBackoff: time.Millisecond},
		maxChunkBytes:        uint32(maxChunk),
	}
	h.pc = newProducerController(h.prod, pcfg, nil)
	if h.pcPID, err = sys.Spawn(h.ctx, "vpc-"+k, h.pc); err != nil {
		return nil, err
	}
	ccfg := &reliableConsumerConfig{producerName: "vprodfake-" + k, flowControlWindow: window, resendInterval: time.Hour}
	h.cc = newConsumerController(h.cons, ccfg)
	if h.ccPID, err = sys.Spawn(h.ctx, "vcc-"+k, h.cc); err != nil {
		return nil, err
	}
	h.all = append(h.all, h.pcPID, h.ccPID)
	if err = verifWaitStarted(h.ctx, h.pcPID, &producerControllerTick{generation: 0}); err != nil {
		return nil, err
	}
	if err = verifWaitStarted(h.ctx, h.ccPID, &consumerControllerTick{generation: 0}); err != nil {
		return nil, err
	}
	h.collect()
	return h, nil
}

func (h *verifC42) teardown() {
	for i := len(h.all) - 1; i >= 0; i-- {
		if h.all[i].IsRunning() {
			_ = h.all[i].Shutdown(h.ctx)
		}
	}
}

// collect moves freshly captured messages onto the four links and returns them for the trace.
func (h *verifC42) collect() (pc, cp, pu, cu []any) {
	pc, cp, pu, cu = h.capPC.take(), h.capCP.take(), h.capPU.take(), h.capCU.take()
	h.netPC = append(h.netPC, pc...)
	h.netCP = append(h.netCP, cp...)
	h.inboxP = append(h.inboxP, pu...)
	h.inboxC = append(h.inboxC, cu...)
	return
}

func (h *verifC42) sess(s string) int {
	switch s {
	case "":
		return 0
	case h.pc.sessionID:
		return 1
	default:
		return 9
	}
}

func verifMsgID(s string) int {
	if strings.HasPrefix(s, "m") {
		if n, err := strconv.Atoi(s[1:]); err == nil {
			return n
		}
	}
	if s == "" {
		return 0
	}
	return -1
}

func verifB(b bool) int {
	if b {
		return 1
	}
	return 0
}

func (h *verifC42) payloadOfFrame(frame []byte) int64 {
	msg, err := h.sys.getRemoting().Serializer(nil).Deserialize(frame)
	if err != nil {
		return -1
	}
	return verifPayloadOfAny(msg)
}

// verifPayloadOfAny decodes the two payload shapes the harness produces: Int64Value(payloadOf k) and, for
// flows with chunking, StringValue("j<k>|padding") standing for payloadOf k.
func verifPayloadOfAny(p any) int64 {
	if v, ok := p.(*wrapperspb.Int64Value); ok {
		return v.GetValue()
	}
	if v, ok := p.(*wrapperspb.StringValue); ok {
		s := v.GetValue()
		if i := strings.IndexByte(s, '|'); i > 1 && s[0] == 'j' {
			if k, err := strconv.Atoi(s[1:i]); err == nil {
				return verifPayloadOf(k)
			}
		}
		return -3
	}
	return -2
}

// verifShowEntry prints one stored / buffered entry: whole `id:seq:value`, chunk `id:seq:c<len>/<first><last>`.
func (h *verifC42) verifShowEntry(id string, seq int64, payload []byte, chunked, first, last bool) string {
	if chunked {
		return fmt.Sprintf("%d:%d:c%d/%d%d", verifMsgID(id), seq, len(payload), verifB(first), verifB(last))
	}
	return fmt.Sprintf("%d:%d:%d", verifMsgID(id), seq, h.payloadOfFrame(payload))
}

func (h *verifC42) show(m any) string {
	switch x := m.(type) {
	case *commands.RegisterConsumer:
		return fmt.Sprintf("G(%d)", h.nonces.of(x.Nonce()))
	case *commands.Request:
		return fmt.Sprintf("Q(%d,%d,%d,%d,%d)", h.sess(x.SessionID()), h.nonces.of(x.RegistrationNonce()), x.ConfirmedSeq(), x.RequestUpToSeq(), verifB(x.ViaTimeout()))
	case *commands.Ack:
		return fmt.Sprintf("K(%d,%d,%d)", h.sess(x.SessionID()), h.nonces.of(x.RegistrationNonce()), x.ConfirmedSeq())
	case *commands.RegistrationAck:
		return fmt.Sprintf("A(%d,%d,%d)", h.sess(x.SessionID()), x.NextSeq(), h.nonces.of(x.Nonce()))
	case *commands.SequencedMessage:
		if x.Chunked() {
			return fmt.Sprintf("SC(%d,%d,%d,%d,%d,%d)", h.sess(x.SessionID()), verifMsgID(x.MessageID()), x.Seq(), x.PayloadSize(), verifB(x.FirstChunk()), verifB(x.LastChunk()))
		}
		return fmt.Sprintf("S(%d,%d,%d,%d)", h.sess(x.SessionID()), verifMsgID(x.MessageID()), x.Seq(), h.payloadOfFrame(x.Payload()))
	case *RequestNext:
		return fmt.Sprintf("N(%d,%d)", h.sess(x.SessionID()), h.tokens.of(x.Token()))
	case *Stored:
		return fmt.Sprintf("T(%d,%d,%d,%d)", h.sess(x.SessionID()), h.tokens.of(x.Token()), verifMsgID(x.MessageID()), x.Seq())
	case *DeliveryConfirmed:
		return fmt.Sprintf("F(%d,%d,%d)", h.sess(x.SessionID()), verifMsgID(x.MessageID()), x.Seq())
	case *Delivery:
		return fmt.Sprintf("D(%d,%d,%d,%d)", h.sess(x.SessionID()), verifMsgID(x.MessageID()), x.Seq(), verifPayloadOfAny(x.Payload()))
	default:
		return fmt.Sprintf("?%T", m)
	}
}

func (h *verifC42) showAll(ms []any) string {
	parts := make([]string, len(ms))
	for i, m := range ms {
		parts[i] = h.show(m)
	}
	return strings.Join(parts, "")
}

func (h *verifC42) digestP() string {
	x := h.pc
	unc := make([]string, len(x.unconfirmed))
	for i, u := range x.unconfirmed {
		unc[i] = h.verifShowEntry(u.id(), u.Seq(), u.Payload().rawBytes(), u.chunk.chunked, u.chunk.first, u.chunk.last)
	}
	st := "-"
	if x.storedMessage != nil {
		st = h.show(x.storedMessage)
	}
	pend := int64(0)
	if len(x.pendingPayload.rawBytes()) > 0 {
		pend = h.payloadOfFrame(x.pendingPayload.rawBytes())
	}
	return fmt.Sprintf("P{cur=%d conf=%d pers=%d unc=[%s] reg=%d n=%d dem=%d span=%d hs=%d tok=%d pid=%d pseq=%d ppl=%d st=%s pch=%d lt=%d lid=%d f=%d}",
		x.currentSeq, x.confirmedSeq, x.persistedConfirmedSeq, strings.Join(unc, ","), verifB(x.consumerController != nil), h.nonces.of(x.registrationNonce),
		x.demandUpTo, x.windowSpan, x.handshake, h.tokens.of(x.token), verifMsgID(x.pendingMessageID), x.pendingSeq, pend, st, len(x.pendingChunks),
		h.tokens.of(x.lastCompletedToken), verifMsgID(x.lastCompletedMessageID), verifB(x.failed))
}

func (h *verifC42) digestC() string {
	x := h.cc
	buf := make([]string, len(x.buffer))
	for i, b := range x.buffer {
		buf[i] = h.verifShowEntry(b.MessageID(), b.Seq(), b.Payload(), b.Chunked(), b.FirstChunk(), b.LastChunk())
	}
	inf := "-"
	if x.inFlight != nil {
		inf = h.show(x.inFlight)
	}
	return fmt.Sprintf("C{w=%d hp=%d s=%d n=%d exp=%d conf=%d upto=%d buf=[%s] inf=%s rl=%d saw=%d gap=%d f=%d}",
		x.window, verifB(x.producerController != nil), h.sess(x.sessionID), h.nonces.of(x.registrationNonce), x.expectedSeq, x.confirmedSeq,
		x.requestUpToSeq, strings.Join(buf, ","), inf, x.runLastSeq, verifB(x.sawValidTraffic), verifB(!x.lastGapRequest.IsZero()), verifB(x.failed))
}

// toP / toC run one real handler on the harness goroutine. A controller that terminated itself
// (failed flag set, actor stopped) handles nothing, like a stopped actor.
func (h *verifC42) toP(sender *PID, m any) {
	if h.pc.failed || !h.pcPID.IsRunning() {
		return
	}
	h.pc.Receive(newReceiveContext(h.ctx, sender, h.pcPID, m))
}

func (h *verifC42) toC(sender *PID, m any) {
	if h.cc.failed || !h.ccPID.IsRunning() {
		return
	}
	h.cc.Receive(newReceiveContext(h.ctx, sender, h.ccPID, m))
}

func (h *verifC42) trace(who byte) string {
	pc, cp, pu, cu := h.collect()
	var sb strings.Builder
	if len(pc) > 0 {
		sb.WriteString("pc:" + h.showAll(pc) + " ")
	}
	if len(cp) > 0 {
		sb.WriteString("cp:" + h.showAll(cp) + " ")
	}
	if len(pu) > 0 {
		sb.WriteString("pu:" + h.showAll(pu) + " ")
	}
	if len(cu) > 0 {
		sb.WriteString("cu:" + h.showAll(cu) + " ")
	}
	switch who {
	case 'P':
		sb.WriteString(h.digestP())
	case 'C':
		sb.WriteString(h.digestC())
	default:
		sb.WriteString("-")
	}
	return sb.String()
}

func verifIdx(s string) int {
	n, err := strconv.Atoi(s)
	if err != nil {
		return -1
	}
	return n
}

func verifRemove(l []any, i int) []any {
	out := make([]any, 0, len(l))
	out = append(out, l[:i]...)
	return append(out, l[i+1:]...)
}

func (h *verifC42) op(op string) string {
	switch {
	case strings.HasPrefix(op, "dpc"), strings.HasPrefix(op, "upc"), strings.HasPrefix(op, "xpc"):
		i := verifIdx(op[3:])
		if op[3:] == "L" { // the newest message on the link
			i = len(h.netPC) - 1
		}
		if i < 0 || i >= len(h.netPC) {
			return "-"
		}
		m := h.netPC[i]
		if op[0] != 'u' {
			h.netPC = verifRemove(h.netPC, i)
		}
		if op[0] == 'x' {
			return "-"
		}
		h.toC(h.lp, m)
		return h.trace('C')
	case strings.HasPrefix(op, "dcp"), strings.HasPrefix(op, "ucp"), strings.HasPrefix(op, "xcp"):
		i := verifIdx(op[3:])
		if op[3:] == "L" {
			i = len(h.netCP) - 1
		}
		if i < 0 || i >= len(h.netCP) {
			return "-"
		}
		m := h.netCP[i]
		if op[0] != 'u' {
			h.netCP = verifRemove(h.netCP, i)
		}
		if op[0] == 'x' {
			return "-"
		}
		h.toP(h.lc, m)
		return h.trace('P')
	case h.chunkMode && (strings.HasPrefix(op, "fw") || strings.HasPrefix(op, "ff")):
		// forged SequencedMessage under the current session (differential only; see Driver/C42c.lean)
		seq := verifIdx(op[2:])
		if seq < 1 {
			return "bad-op"
		}
		var m *commands.SequencedMessage
		var err error
		if op[1] == 'w' {
			msg := wrapperspb.String("j99|")
			frame, serr := h.sys.getRemoting().Serializer(msg).Serialize(msg)
			if serr != nil {
				return "err-forge"
			}
			m, err = commands.NewSequencedMessage(h.pc.sessionID, "m99", int64(seq), frame)
		} else {
			m, err = commands.NewChunkedSequencedMessage(h.pc.sessionID, "m98", int64(seq), []byte("zz"), true, false)
		}
		if err != nil {
			return "err-forge"
		}
		h.toC(h.lp, m)
		return h.trace('C')
	case op == "tp":
		h.toP(h.sys.NoSender(), &producerControllerTick{generation: h.pc.generation})
		return h.trace('P')
	case op == "tc":
		h.toC(h.sys.NoSender(), &consumerControllerTick{generation: h.cc.generation})
		return h.trace('C')
	case op == "up":
		if len(h.inboxP) == 0 {
			return "-"
		}
		m := h.inboxP[0]
		h.inboxP = h.inboxP[1:]
		switch x := m.(type) {
		case *RequestNext:
			if h.answered == nil || h.answeredTok != x.Token() {
				h.jobs++
				payload, perr := h.verifJobPayload(h.jobs)
				if perr != nil {
					return "err-payload: " + perr.Error()
				}
				p, err := NewProduced(x, "m"+strconv.Itoa(h.jobs), payload)
				if err != nil {
					return "err-produced"
				}
				h.answered, h.answeredTok = p, x.Token()
			}
			h.toP(h.prod, h.answered)
			return h.trace('P')
		case *Stored:
			a, err := NewStoredAck(x)
			if err != nil {
				return "err-storedack"
			}
			h.toP(h.prod, a)
			return h.trace('P')
		default:
			return "-"
		}
	case op == "xp":
		if len(h.inboxP) > 0 {
			h.inboxP = h.inboxP[1:]
		}
		return "-"
	case op == "uc1", op == "uc0":
		if len(h.inboxC) == 0 {
			return "-"
		}
		d, _ := h.inboxC[0].(*Delivery)
		h.inboxC = h.inboxC[1:]
		if op == "uc0" || d == nil {
			return "-"
		}
		c, err := NewConfirmed(d)
		if err != nil {
			return "err-confirmed"
		}
		h.toC(h.cons, c)
		return h.trace('C')
	case op == "xc":
		if len(h.inboxC) > 0 {
			h.inboxC = h.inboxC[1:]
		}
		return "-"
	}
	return "bad-op"
}

// VerifC42Run executes one case: `<window> <deliveryConfirmation 0|1> op op ...`.
// Output: `init <trace>;<trace per op>;...`.
func VerifC42Run(line string) string {
	f := strings.Fields(line)
	if len(f) < 2 {
		return "bad-case"
	}
	w, err := strconv.Atoi(f[0])
	if err != nil || w < 1 || w > MaxReliableFlowControlWindow {
		return "bad-case"
	}
	// optional chunk configuration: m<maxChunkBytes> L<len,len,...>
	ops := f[2:]
	maxChunk, chunkMode := 0, false
	var lens []int
	if len(ops) >= 2 && strings.HasPrefix(ops[0], "m") && strings.HasPrefix(ops[1], "L") {
		mc, err1 := strconv.Atoi(ops[0][1:])
		ok := err1 == nil
		if ops[1] != "L" && ops[1] != "L-" {
			for _, x := range strings.Split(ops[1][1:], ",") {
				n, err2 := strconv.Atoi(x)
				ok = ok && err2 == nil
				lens = append(lens, n)
			}
		}
		if ok {
			maxChunk, chunkMode, ops = mc, true, ops[2:]
		}
	}
	h, err := verifC42Setup(w, f[1] == "1", maxChunk)
	if h != nil {
		defer h.teardown()
	}
	if err != nil {
		return "setup-error: " + err.Error()
	}
	h.chunkMode, h.frameLens = chunkMode, lens
	out := []string{"init cp:" + h.showAll(h.netCP) + " " + h.digestP() + " " + h.digestC()}
	for _, op := range ops {
		out = append(out, h.op(op))
	}
	return strings.Join(out, ";")
}

//go:build verif

package actor

import (
	"context"
	"errors"
	"fmt"
	"time"

	"github.com/tochemey/goakt/v4/internal/commands"
	"github.com/tochemey/goakt/v4/internal/vsched"
	"github.com/tochemey/goakt/v4/reentrancy"
)

// C01G: ONE real grain of a real actor system under a private, un-started
// dispatcher, so that the verification harness (engine E3) plays the dispatcher
// workers itself, as logical threads of the cooperative scheduler. Activation,
// the registry, the passivation manager, receive / enqueueEnvelope /
// deliverTimerTick / enqueuePassivationPill, runTurn, finishOrReclaim,
// hasPendingWork, paused, dispatchOne and the two grain mailboxes are the
// unmodified code. Add-only.

// VerifC01GMsg is the payload of the harness messages. Kind: 't' user, 'b' user
// message whose handler issues a blocking request, 'q' async request envelope,
// 'k' timer tick, 'a' async response.
type VerifC01GMsg struct {
	Kind byte
	ID   int
}

type VerifC01GRig struct {
	sys     *actorSystem
	id      *GrainIdentity
	pid     *grainPID
	disp    *dispatcher
	workers []*worker
}

// VerifC01GNewRig activates grain `name` normally (on the system's own
// dispatcher), waits until it is idle, then swaps in a private dispatcher with
// nworkers (never started) and the given throughput budget.
func VerifC01GNewRig(ctx context.Context, sys ActorSystem, name string, g Grain, nworkers, throughput int, reentrant bool) (*VerifC01GRig, error) {
	x, ok := sys.(*actorSystem)
	if !ok {
		return nil, errors.New("verif rig: not the built-in actor system")
	}
	// an hour of idle time: a passivation pill handled by the grain re-registers instead of deactivating
	opts := []GrainOption{WithGrainDeactivateAfter(time.Hour)}
	if reentrant {
		opts = append(opts, WithGrainReentrancy(reentrancy.New(reentrancy.WithMode(reentrancy.StashNonReentrant))))
	}
	id, err := sys.GrainIdentity(ctx, name, func(context.Context) (Grain, error) { return g, nil }, opts...)
	if err != nil {
		return nil, err
	}
	pid, ok := x.grains.Get(id.String())
	if !ok || pid == nil {
		return nil, errors.New("verif rig: grain process not found")
	}
	idle := func() bool {
		return pid.isActive() && pid.schedState.Load() == dispatchIdle && pid.mailbox.IsEmpty() && pid.responses.IsEmpty()
	}
	deadline := time.Now().Add(5 * time.Second)
	for {
		if idle() {
			time.Sleep(2 * time.Millisecond)
			if idle() {
				break
			}
		}
		if time.Now().After(deadline) {
			return nil, errors.New("verif rig: grain did not become idle")
		}
		time.Sleep(time.Millisecond)
	}
	if (pid.reentrancy.Load() != nil) != reentrant || pid.mailbox.Capacity() > 0 {
		return nil, errors.New("verif rig: unexpected grain configuration")
	}
	d := newDispatcher(nworkers, throughput)
	pid.dispatcher = d
	return &VerifC01GRig{sys: x, id: id, pid: pid, disp: d, workers: d.workers}, nil
}

// FocusObjs lists the objects whose instrumented operations are schedule points.
func (r *VerifC01GRig) FocusObjs() []any {
	objs := []any{&r.pid.schedState, r.pid, r.pid.mailbox, r.pid.responses, r.disp}
	for _, w := range r.workers {
		objs = append(objs, w)
	}
	return objs
}

// Tell is TellGrain's local path (actorSystem.localSend, asynchronous case) without the wait for the
// handler's acknowledgement: ensureGrainProcess (fast path), a pooled context, grainPID.receive.
func (r *VerifC01GRig) Tell(m *VerifC01GMsg) error {
	pid, err := r.sys.ensureGrainProcess(context.Background(), r.id)
	if err != nil {
		return err
	}
	if pid != r.pid {
		return errors.New("verif rig: grain process was replaced")
	}
	gctx := getGrainContext()
	gctx.build(context.Background(), pid, r.sys, r.id, m, grainTell)
	pid.receive(gctx)
	return nil
}

// Request delivers an async request envelope (what deliverAsyncEnvelope does at its last local hop).
func (r *VerifC01GRig) Request(m *VerifC01GMsg) error {
	return r.pid.enqueueEnvelope(context.Background(), &commands.AsyncRequest{
		CorrelationID: fmt.Sprintf("in-%d", m.ID), Message: m,
	})
}

// Respond delivers the async response of the blocking request issued by message `id`
// (what routeAsyncReply / a request timeout does at its last local hop).
func (r *VerifC01GRig) Respond(m *VerifC01GMsg) error {
	return r.pid.enqueueEnvelope(context.Background(), &commands.AsyncResponse{
		CorrelationID: verifC01GCorrelation(m.ID), Message: m,
	})
}

// Tick does what the grain's timer goroutine does when a timer is due.
func (r *VerifC01GRig) Tick(m *VerifC01GMsg) {
	entry := &grainTimerEntry{reference: fmt.Sprintf("verif-%d", m.ID), message: m}
	entry.tick = &grainTimerTick{entry: entry}
	r.pid.deliverTimerTick(entry)
}

// Pill does what the passivation manager does for a reentrancy-capable grain whose idle deadline passed.
func (r *VerifC01GRig) Pill() bool { return r.pid.enqueuePassivationPill() }

func verifC01GCorrelation(id int) string { return fmt.Sprintf("verif-req-%d", id) }

// VerifC01GBlock is called by the probe grain inside OnReceive: it registers a StashNonReentrant request with
// a deterministic correlation id and installs its continuation — admitRequest + RequestCall.Then without the
// outbound envelope and the timeout (the harness delivers the response itself).
func VerifC01GBlock(gctx *GrainContext, id int, continuation func(any, error)) error {
	pid := gctx.pid
	state := newRequestState(verifC01GCorrelation(id), reentrancy.StashNonReentrant, pid)
	if err := pid.registerRequestState(state); err != nil {
		return err
	}
	pid.markActivity(time.Now())
	state.setCallback(continuation)
	return nil
}

// TryTurn is one non-blocking iteration of worker.run for worker w: a `take`
// schedule point, then own local ring -> global ring -> steal (no parking), and
// the grain's real runTurn when something was taken.
func (r *VerifC01GRig) TryTurn(w int) bool {
	vsched.Point("take")
	rq := r.disp.readyQueue
	var s schedulable
	if s = rq.locals[w].popFront(); s == nil {
		if s = rq.popGlobal(); s == nil {
			s = rq.trySteal(w)
		}
	}
	if s == nil {
		return false
	}
	s.runTurn(r.workers[w])
	return true
}

// Entries is the number of ready-queue entries (all rings).
func (r *VerifC01GRig) Entries() int {
	n := r.disp.readyQueue.globalLen()
	for _, l := range r.disp.readyQueue.locals {
		n += l.length()
	}
	return n
}

// SchedState is the raw dispatch state (0 idle, 1 scheduled, 2 processing).
func (r *VerifC01GRig) SchedState() uint32 { return r.pid.schedState.Load() }

// Queued: messages linked in the responses queue and in the user mailbox (walks the lists; quiescent use only).
func (r *VerifC01GRig) Queued() (responses, mailbox int) {
	count := func(m *grainMailbox) int {
		n := 0
		for c := m.head.Load().next.Load(); c != nil && n < 100000; c = c.next.Load() {
			n++
		}
		return n
	}
	return count(r.pid.responses), count(r.pid.mailbox)
}

// Lens: the len counters of the two queues.
func (r *VerifC01GRig) Lens() (responses, mailbox int64) { return r.pid.responses.Len(), r.pid.mailbox.Len() }

// Blocking is the reentrancy blocking counter (0 when reentrancy is not installed).
func (r *VerifC01GRig) Blocking() int64 {
	if st := r.pid.reentrancy.Load(); st != nil {
		return st.blockingCount.Load()
	}
	return 0
}

// PendingWork is the grain's own hasPendingWork.
func (r *VerifC01GRig) PendingWork() bool { return r.pid.hasPendingWork() }

// Active reports whether the grain is still activated.
func (r *VerifC01GRig) Active() bool { return r.pid.isActive() }

// Retire hands the grain back to the system's dispatcher and poisons it (queue-routed cancellation of the
// in-flight requests first, as the system shutdown does), so that finished cases do not accumulate.
func (r *VerifC01GRig) Retire() {
	r.pid.dispatcher = r.sys.getDispatcher()
	r.pid.enqueueInFlightCancellations()
	gctx := getGrainContext()
	gctx.build(context.Background(), r.pid, r.sys, r.id, new(PoisonPill), grainTell)
	r.pid.receive(gctx)
}

//go:build verif

package actor

import (
	"context"
	"time"

	"github.com/tochemey/goakt/v4/internal/xsync"
)

// C15 (grain path): a bare, already activated grainPID registered in a zero actor system, so that the REAL
// actorSystem.localSend (grain_engine.go) runs on caller threads — ensureGrainProcess takes its fast path — while
// the harness plays the grain's single worker (real grainMailbox.Dequeue, which recycles the previous sentinel
// into grainContextCh, then the real GrainContext.Response).
type VerifGrainRig struct {
	sys *actorSystem
	id  *GrainIdentity
	pid *grainPID
}

func VerifC15NewGrainRig() *VerifGrainRig {
	id := &GrainIdentity{kind: "verif.grain", name: "g"}
	pid := &grainPID{identity: id, mailbox: newGrainMailbox(0), responses: newGrainMailbox(0)}
	pid.activated.Store(true)
	pid.schedState.v.Store(dispatchScheduled)
	sys := &actorSystem{grains: xsync.NewMap[string, *grainPID]()}
	sys.grains.Set(id.String(), pid)
	pid.actorSystem = sys
	return &VerifGrainRig{sys: sys, id: id, pid: pid}
}

// Ask is AskGrain's local path: actorSystem.localSend(..., synchronous = true).
func (r *VerifGrainRig) Ask(ctx context.Context, message any, timeout time.Duration) (any, error) {
	return r.sys.localSend(ctx, r.id, message, timeout, true)
}

// WouldSpin reports the state in which grainMailbox.Dequeue busy-waits: a producer has swapped the tail but not
// linked its node yet and nothing else is linked behind the sentinel.
func (r *VerifGrainRig) WouldSpin() bool {
	h := r.pid.mailbox.head.Load()
	return h.next.Load() == nil && h != r.pid.mailbox.tail.Load()
}

func (r *VerifGrainRig) Dequeue() *GrainContext { return r.pid.mailbox.Dequeue() }

// Linked counts the contexts linked behind the sentinel.
func (r *VerifGrainRig) Linked() int {
	n := 0
	for c := r.pid.mailbox.head.Load().next.Load(); c != nil && n < 1000; c = c.next.Load() {
		n++
	}
	return n
}

// TailChan is the response channel of the context that is currently the mailbox tail.
func (r *VerifGrainRig) TailChan() chan any { return r.pid.mailbox.tail.Load().response }

func VerifC15GrainDrainPools() {
	for {
		select {
		case <-grainContextCh:
			continue
		default:
		}
		break
	}
	for {
		select {
		case <-responseCh:
			continue
		default:
		}
		break
	}
	for {
		select {
		case <-errorCh:
			continue
		default:
		}
		break
	}
}

// VerifC15GrainPools: responseClosed flags of the pooled grain contexts (pool order), number of pooled response channels.
func VerifC15GrainPools() (closed []bool, nresp int) {
	n := len(grainContextCh)
	for i := 0; i < n; i++ {
		c := <-grainContextCh
		closed = append(closed, c.responseClosed.Load())
		grainContextCh <- c
	}
	return closed, len(responseCh)
}

//go:build verif

package actor

import (
	"fmt"
	"sort"
	"strings"
	"unsafe"
)

// verifSched is a dummy schedulable carrying an id; runTurn records the run on the owning VerifDisp.
type verifSched struct {
	id int
	d  *VerifDisp
}

func (v *verifSched) runTurn(w *worker) {
	v.d.ran[w.id] = append(v.d.ran[w.id], v.id)
}

// VerifDisp wraps a real (unstarted) dispatcher: its readyQueue and workers are the code under test.
// The local rings are sorted by address once, while empty, so that stealHalf's address-derived
// lock order is the index order (deterministic for the model).
type VerifDisp struct {
	d   *dispatcher
	ran [][]int // per worker: ids run by worker.run since the last TakeRan
}

func VerifNewDisp(workers int) *VerifDisp {
	d := newDispatcher(workers, dispatcherThroughput)
	ls := d.readyQueue.locals
	sort.Slice(ls, func(i, j int) bool {
		return uintptr(unsafe.Pointer(ls[i])) < uintptr(unsafe.Pointer(ls[j]))
	})
	return &VerifDisp{d: d, ran: make([][]int, workers)}
}

func (v *VerifDisp) item(id int) schedulable { return &verifSched{id: id, d: v} }

func verifID(s schedulable) int {
	if s == nil {
		return 0
	}
	return s.(*verifSched).id
}

func (v *VerifDisp) Workers() int { return len(v.d.workers) }

// Schedule = dispatcher.schedule (global push).
func (v *VerifDisp) Schedule(id int) { v.d.schedule(v.item(id)) }

// Reschedule = worker.reschedule on worker w (local push, spilling to global).
func (v *VerifDisp) Reschedule(w, id int) { v.d.workers[w].reschedule(v.item(id)) }

// Take = readyQueue.take(w).
func (v *VerifDisp) Take(w int) (int, bool) {
	s, ok := v.d.readyQueue.take(w)
	return verifID(s), ok
}

// Run = worker.run() on worker w; returns the ids it ran, in order.
func (v *VerifDisp) Run(w int) []int {
	v.ran[w] = nil
	v.d.workers[w].run()
	r := v.ran[w]
	v.ran[w] = nil
	return r
}

// Stop = dispatcher.signalStop.
func (v *VerifDisp) Stop() { v.d.signalStop() }

// raw entry points for the sequential differential
func (v *VerifDisp) Close()               { v.d.readyQueue.close() }
func (v *VerifDisp) Push(id int)          { v.d.readyQueue.push(v.item(id)) }
func (v *VerifDisp) PushLocal(w, id int)  { v.d.readyQueue.pushLocal(w, v.item(id)) }
func (v *VerifDisp) PopFront(w int) int   { return verifID(v.d.readyQueue.locals[w].popFront()) }
func (v *VerifDisp) PopGlobal() int       { return verifID(v.d.readyQueue.popGlobal()) }
func (v *VerifDisp) TrySteal(w int) int   { return verifID(v.d.readyQueue.trySteal(w)) }
func (v *VerifDisp) StealHalf(a, b int) int {
	return verifID(v.d.readyQueue.locals[a].stealHalf(v.d.readyQueue.locals[b]))
}

// WouldPark: parkAndTake would wait (single-goroutine use only).
func (v *VerifDisp) WouldPark() bool {
	rq := v.d.readyQueue
	return !rq.closed && rq.global.size == 0
}

// AllEmpty: every ring is empty (single-goroutine use only).
func (v *VerifDisp) AllEmpty() bool {
	rq := v.d.readyQueue
	if rq.global.size != 0 {
		return false
	}
	for _, l := range rq.locals {
		if l.size != 0 {
			return false
		}
	}
	return true
}

func (v *VerifDisp) Closed() bool { return v.d.readyQueue.closed }

// ParkAndTake = readyQueue.parkAndTake (call only when !WouldPark()).
func (v *VerifDisp) ParkAndTake() (int, bool) {
	s, ok := v.d.readyQueue.parkAndTake()
	return verifID(s), ok
}

// Dump prints the whole queue state (sequential use only):
//   L<i> sizeAtomic head tail size nonNil [live items] / … / G cap globalCount head tail size nonNil [items] / P parked closed
func (v *VerifDisp) Dump() string {
	rq := v.d.readyQueue
	var segs []string
	for i, l := range rq.locals {
		var items []string
		for k := 0; k < l.size; k++ {
			items = append(items, fmt.Sprint(verifID(l.buf[(l.head+k)%len(l.buf)])))
		}
		nn := 0
		for _, s := range l.buf {
			if s != nil {
				nn++
			}
		}
		segs = append(segs, fmt.Sprintf("L%d %d %d %d %d %d [%s]", i, l.sizeAtomic.Load(), l.head, l.tail, l.size, nn, strings.Join(items, " ")))
	}
	g := &rq.global
	var items []string
	for k := 0; k < g.size; k++ {
		items = append(items, fmt.Sprint(verifID(g.buf[(g.head+k)%len(g.buf)])))
	}
	nn := 0
	for _, s := range g.buf {
		if s != nil {
			nn++
		}
	}
	segs = append(segs, fmt.Sprintf("G %d %d %d %d %d %d [%s]", len(g.buf), rq.globalCount.Load(), g.head, g.tail, g.size, nn, strings.Join(items, " ")))
	segs = append(segs, fmt.Sprintf("P %d %t", rq.parked, rq.closed))
	return strings.Join(segs, " / ")
}

//go:build verif

package actor

import (
	"context"
	"errors"
	"sort"
	"strconv"
	"sync"
	"time"

	"github.com/tochemey/goakt/v4/eventstream"
	"github.com/tochemey/goakt/v4/internal/address"
	"github.com/tochemey/goakt/v4/internal/cluster"
	"github.com/tochemey/goakt/v4/internal/internalpb"
	"github.com/tochemey/goakt/v4/internal/remoteclient"
	"github.com/tochemey/goakt/v4/internal/types"
	"github.com/tochemey/goakt/v4/log"
	"google.golang.org/protobuf/proto"
)

// C33 drivers: the REAL relocationWorker.relocate / relocateShare, relocator.Receive,
// beginRelocation / endRelocation / relocationJob run against scripted doubles of the things the
// model treats as parameters: cluster membership + registry, the peer-state store, the remoting
// client (peers) and the per-item respawn outcome on the leader.

var errVerifScripted = errors.New("verif-scripted-failure")

// VerifEnv scripts the environment of one relocation.
type VerifEnv struct {
	LeaderRoles []string
	Peers       []*cluster.Peer
	Loads       map[string]int // CountActorsByHost result; nil = scan fails
	PeersErr    bool           // cluster.Peers fails
	// LocalFail: item keys ("a<addr>" / "g<identity>") whose leader-side recreation/release fails
	LocalFail map[string]bool
	// RemoteFail[p]: item keys that the peer p (index into Peers) reports as failed
	RemoteFail map[int]map[string]bool
	// Poison[p]: a batch sent to peer p that contains one of these item keys is rejected (peer-level error)
	Poison map[int]map[string]bool
	// StoreDeleteErr: DeletePeerState fails
	StoreDeleteErr bool
}

func actorKey(a *internalpb.Actor) string { return "a" + a.GetAddress() }
func grainKey(g *internalpb.Grain) string { return "g" + g.GetGrainId().GetValue() }

// VerifTrace is everything observable about one run.
type VerifTrace struct {
	mu sync.Mutex
	// OK[node] = item keys handled successfully by node (0 = leader, p+1 = peer p)
	OK map[int][]string
	// Events = the RelocationFailed events published (actors, grains)
	EventActors [][]string
	EventGrains [][]string
	JobHeld     bool
	StoreDelete int
	Started     int
}

func (t *VerifTrace) ok(node int, key string) {
	t.mu.Lock()
	if t.OK == nil {
		t.OK = map[int][]string{}
	}
	t.OK[node] = append(t.OK[node], key)
	t.mu.Unlock()
}

// ---- doubles ------------------------------------------------------------------------------

type verifCluster struct {
	cluster.Cluster
	env   *VerifEnv
	trace *VerifTrace
	sys   *actorSystem
}

func (c *verifCluster) Peers(context.Context) ([]*cluster.Peer, error) {
	if c.env.PeersErr {
		return nil, errVerifScripted
	}
	return c.env.Peers, nil
}

func (c *verifCluster) CountActorsByHost(context.Context, time.Duration) (map[string]int, error) {
	if c.env.Loads == nil {
		return nil, errVerifScripted
	}
	// "@leader" stands for the leader's own host:port, whatever the un-started system reports
	out := make(map[string]int, len(c.env.Loads))
	for k, v := range c.env.Loads {
		if k == "@leader" {
			k = address.FormatHostPort(c.sys.Host(), c.sys.Port())
		}
		out[k] = v
	}
	return out, nil
}

func (c *verifCluster) IsLeader(context.Context) bool { return true }

// registry of actors: nothing is registered (the departed entry is "missing", respawn proceeds)
func (c *verifCluster) GetActor(context.Context, string) (*internalpb.Actor, error) {
	return nil, cluster.ErrActorNotFound
}
func (c *verifCluster) RemoveActor(context.Context, string) error { return nil }

// grain directory: the lazy release (real releaseGrainForLazyRelocation) looks the grain up;
// a scripted failure makes the lookup fail, otherwise the entry is reported missing (= released)
func (c *verifCluster) GetGrain(_ context.Context, identity string) (*internalpb.Grain, error) {
	if c.env.LocalFail["g"+identity] {
		return nil, errVerifScripted
	}
	c.trace.ok(0, "g"+identity)
	return nil, cluster.ErrGrainNotFound
}
func (c *verifCluster) RemoveGrain(context.Context, string) error { return nil }

type verifStore struct {
	env   *VerifEnv
	trace *VerifTrace
}

func (s *verifStore) PersistPeerState(context.Context, *internalpb.PeerState) error { return nil }
func (s *verifStore) GetPeerState(context.Context, string) (*internalpb.PeerState, bool) {
	return nil, false
}
func (s *verifStore) DeletePeerState(context.Context, string) error {
	s.trace.mu.Lock()
	s.trace.StoreDelete++
	s.trace.mu.Unlock()
	if s.env.StoreDeleteErr {
		return errVerifScripted
	}
	return nil
}
func (s *verifStore) Close() error { return nil }

type verifRemoting struct {
	remoteclient.Client
	env   *VerifEnv
	trace *VerifTrace
	mu    sync.Mutex
	seen  map[*internalpb.RelocateBatchRequest]bool
}

func (r *verifRemoting) peerIndex(host string, port int) int {
	for i, p := range r.env.Peers {
		if p.Host == host && p.RemotingPort == port {
			return i
		}
	}
	return -1
}

// RelocateBatch plays the target peer: a poisoned batch is a peer-level error (on every attempt);
// otherwise every item is handled and the scripted per-item failures are reported back.
func (r *verifRemoting) RelocateBatch(_ context.Context, host string, port int, request *internalpb.RelocateBatchRequest) (*internalpb.RelocateBatchResponse, error) {
	p := r.peerIndex(host, port)
	if p < 0 {
		return nil, errVerifScripted
	}
	for _, a := range request.GetActors() {
		if r.env.Poison[p][actorKey(a)] {
			return nil, errVerifScripted
		}
	}
	for _, g := range request.GetGrains() {
		if r.env.Poison[p][grainKey(g)] {
			return nil, errVerifScripted
		}
	}
	r.mu.Lock()
	if r.seen == nil {
		r.seen = map[*internalpb.RelocateBatchRequest]bool{}
	}
	dup := r.seen[request]
	r.seen[request] = true
	r.mu.Unlock()
	resp := &internalpb.RelocateBatchResponse{}
	for _, a := range request.GetActors() {
		if r.env.RemoteFail[p][actorKey(a)] {
			resp.Failures = append(resp.Failures, &internalpb.RelocationFailure{Id: a.GetAddress(), Grain: false, Message: "scripted"})
		} else if !dup {
			r.trace.ok(p+1, actorKey(a))
		}
	}
	for _, g := range request.GetGrains() {
		if r.env.RemoteFail[p][grainKey(g)] {
			resp.Failures = append(resp.Failures, &internalpb.RelocationFailure{Id: g.GetGrainId().GetValue(), Grain: true, Message: "scripted"})
		} else if !dup {
			r.trace.ok(p+1, grainKey(g))
		}
	}
	return resp, nil
}

// verifActor is the type instantiated for singleton respawns.
type verifActor struct{}

func (verifActor) PreStart(*Context) error { return nil }
func (verifActor) Receive(*ReceiveContext) {}
func (verifActor) PostStop(*Context) error { return nil }

// VerifActorTypeName is the wire type name of verifActor.
func VerifActorTypeName() string { return types.Name(new(verifActor)) }

// verifSystem is the leader: the real actorSystem with the per-item respawn outcome scripted.
type verifSystem struct {
	*actorSystem
	env   *VerifEnv
	trace *VerifTrace
}

func (s *verifSystem) getNodeRoles() []string { return s.env.LeaderRoles }

func (s *verifSystem) recreateActorFromWire(_ context.Context, props *internalpb.Actor, _ string) error {
	if s.env.LocalFail[actorKey(props)] {
		return errVerifScripted
	}
	s.trace.ok(0, actorKey(props))
	return nil
}

func (s *verifSystem) recreateGrainFromWire(_ context.Context, grain *internalpb.Grain, _ string) error {
	if s.env.LocalFail[grainKey(grain)] {
		return errVerifScripted
	}
	s.trace.ok(0, grainKey(grain))
	return nil
}

func (s *verifSystem) SpawnSingleton(_ context.Context, name string, _ Actor, _ ...ClusterSingletonOption) (*PID, error) {
	key := "a" + address.New(name, "sys", verifDepartedHost, verifDepartedRemoting).String()
	if s.env.LocalFail[key] {
		return nil, errVerifScripted
	}
	s.trace.ok(0, key)
	return nil, nil
}

const (
	verifDepartedHost     = "10.9.9.9"
	verifDepartedRemoting = 9000
	verifDepartedPeers    = 9500
)

// VerifDeparted returns host, remoting port, peers port of the departed node used by the drivers.
func VerifDeparted() (string, int, int) {
	return verifDepartedHost, verifDepartedRemoting, verifDepartedPeers
}

type verifRig struct {
	sys    *actorSystem
	wrap   *verifSystem
	stream eventstream.Stream
	sub    eventstream.Subscriber
	remote *verifRemoting
	trace  *VerifTrace
}

func newVerifRig(env *VerifEnv) (*verifRig, error) {
	system, err := NewActorSystem("verif", WithLogger(log.DiscardLogger))
	if err != nil {
		return nil, err
	}
	sys := system.(*actorSystem)
	trace := &VerifTrace{}
	sys.cluster = &verifCluster{env: env, trace: trace, sys: sys}
	sys.clusterStore = &verifStore{env: env, trace: trace}
	sys.relocationEnabled.Store(true)
	sys.registry.Register(new(verifActor))
	stream := eventstream.New()
	sub := stream.AddSubscriber()
	stream.Subscribe(sub, eventsTopic)
	return &verifRig{
		sys:    sys,
		wrap:   &verifSystem{actorSystem: sys, env: env, trace: trace},
		stream: stream,
		sub:    sub,
		remote: &verifRemoting{env: env, trace: trace},
		trace:  trace,
	}, nil
}

func (r *verifRig) pid() *PID {
	return &PID{actorSystem: r.wrap, logger: log.DiscardLogger, eventsStream: r.stream}
}

func (r *verifRig) drainEvents() {
	for message := range r.sub.Iterator() {
		switch ev := message.Payload().(type) {
		case *RelocationFailed:
			r.trace.EventActors = append(r.trace.EventActors, append([]string(nil), ev.Actors()...))
			r.trace.EventGrains = append(r.trace.EventGrains, append([]string(nil), ev.Grains()...))
		case *RelocationStarted:
			r.trace.Started++
		}
	}
}

// VerifRelocate registers the job and runs the real relocationWorker.relocate on the snapshot.
func VerifRelocate(env *VerifEnv, state *internalpb.PeerState) (*VerifTrace, error) {
	rig, err := newVerifRig(env)
	if err != nil {
		return nil, err
	}
	peersAddress := state.GetHost() + ":" + strconv.Itoa(int(state.GetPeersPort()))
	if !rig.sys.beginRelocation(peersAddress, state) {
		return nil, errors.New("job already registered")
	}
	worker := &relocationWorker{remoting: rig.remote, pid: rig.pid(), logger: log.DiscardLogger}
	rctx := newReceiveContext(context.Background(), nil, worker.pid, &internalpb.Rebalance{PeerState: state})
	worker.relocate(rctx, state)
	_, rig.trace.JobHeld = rig.sys.relocationJob(peersAddress)
	rig.drainEvents()
	return rig.trace, nil
}

// VerifRelocateShare runs the real relocationWorker.relocateShare for the share of peer `target`
// and returns the trace plus the recorded failures (id, grain).
func VerifRelocateShare(env *VerifEnv, requests []*internalpb.RelocateBatchRequest, target int) (*VerifTrace, []*internalpb.RelocationFailure, error) {
	rig, err := newVerifRig(env)
	if err != nil {
		return nil, nil, err
	}
	worker := &relocationWorker{remoting: rig.remote, pid: rig.pid(), logger: log.DiscardLogger}
	failures := &relocationFailures{}
	worker.relocateShare(context.Background(), requests, env.Peers[target], env.Peers, failures)
	return rig.trace, failures.items(), nil
}

// ---- job registry / relocator op scripts -----------------------------------------------------

// VerifJobRig drives beginRelocation / endRelocation / relocationJob and the relocator's message
// handler on one real actor system. Snapshots are identified by small integers.
type VerifJobRig struct {
	rig       *verifRig
	relocator *relocator
	snaps     map[int]*internalpb.PeerState
	ids       map[*internalpb.PeerState]int
}

func NewVerifJobRig() (*VerifJobRig, error) {
	env := &VerifEnv{PeersErr: true}
	rig, err := newVerifRig(env)
	if err != nil {
		return nil, err
	}
	return &VerifJobRig{
		rig: rig,
		relocator: &relocator{
			remoting: rig.remote,
			pid:      &PID{actorSystem: rig.sys, logger: log.DiscardLogger, eventsStream: rig.stream},
			logger:   log.DiscardLogger,
			workers:  make(map[string]workerJob),
		},
		snaps: map[int]*internalpb.PeerState{},
		ids:   map[*internalpb.PeerState]int{},
	}, nil
}

func verifJobAddr(addr int) (string, int32) { return "10.1.0." + strconv.Itoa(addr), 9500 }

func verifJobKey(addr int) string {
	h, p := verifJobAddr(addr)
	return h + ":" + strconv.Itoa(int(p))
}

// Snap returns the snapshot object with the given id for the departed address (one actor "a<id>").
func (j *VerifJobRig) Snap(addr, id int) *internalpb.PeerState {
	if s, ok := j.snaps[id]; ok {
		return s
	}
	h, p := verifJobAddr(addr)
	s := &internalpb.PeerState{
		Host: h, PeersPort: p, RemotingPort: 9000,
		Actors: map[string]*internalpb.Actor{"x": {Address: "snap-" + strconv.Itoa(id), Relocatable: true}},
	}
	j.snaps[id] = s
	j.ids[s] = id
	return s
}

func (j *VerifJobRig) Begin(addr, id int) bool {
	return j.rig.sys.beginRelocation(verifJobKey(addr), j.Snap(addr, id))
}

func (j *VerifJobRig) End(addr int) { j.rig.sys.endRelocation(verifJobKey(addr)) }

// Job returns the registered snapshot id, or -1.
func (j *VerifJobRig) Job(addr int) int {
	s, ok := j.rig.sys.relocationJob(verifJobKey(addr))
	if !ok {
		return -1
	}
	if id, ok := j.ids[s]; ok {
		return id
	}
	return -2
}

// Track records a live worker the way startWorker does after a successful spawn.
func (j *VerifJobRig) Track(worker, addr, id int) {
	j.relocator.workers[verifWorkerName(worker)] = workerJob{address: verifJobKey(addr), peerState: j.Snap(addr, id)}
}

func verifWorkerName(worker int) string {
	return reservedName(relocationWorkerType) + "-" + strconv.Itoa(worker)
}

// Terminated delivers a Terminated message for the worker to the real relocator handler.
func (j *VerifJobRig) Terminated(worker int) {
	msg := &Terminated{actorPath: newPath(address.New(verifWorkerName(worker), "verif", "127.0.0.1", 9000))}
	j.relocator.Receive(newReceiveContext(context.Background(), nil, j.relocator.pid, msg))
}

// Rebalance delivers a Rebalance order to the real relocator handler. The relocator pid is not part
// of a running actor tree, so the worker spawn fails and the relocation is aborted (real abort path).
func (j *VerifJobRig) Rebalance(addr, id int) {
	msg := &internalpb.Rebalance{PeerState: j.Snap(addr, id)}
	j.relocator.Receive(newReceiveContext(context.Background(), nil, j.relocator.pid, msg))
}

// RunWorker runs the real relocationWorker.relocate for the snapshot (cluster.Peers is scripted to
// fail, so it takes the abort accounting path: one event, snapshot removed, job released).
func (j *VerifJobRig) RunWorker(addr, id int) {
	worker := &relocationWorker{remoting: j.rig.remote, pid: &PID{actorSystem: j.rig.sys, logger: log.DiscardLogger, eventsStream: j.rig.stream}, logger: log.DiscardLogger}
	st := j.Snap(addr, id)
	worker.relocate(newReceiveContext(context.Background(), nil, worker.pid, &internalpb.Rebalance{PeerState: st}), st)
}

// Workers returns the tracked worker numbers, sorted.
func (j *VerifJobRig) Workers() []string {
	var out []string
	for name := range j.relocator.workers {
		out = append(out, name)
	}
	sort.Strings(out)
	return out
}

// Events drains the event stream: the snapshot ids named by the RelocationFailed events published
// since the last call (each event of these scripts lists the single actor "snap-<id>").
func (j *VerifJobRig) Events() []string {
	before := len(j.rig.trace.EventActors)
	j.rig.drainEvents()
	var out []string
	for _, ev := range j.rig.trace.EventActors[before:] {
		if len(ev) == 1 {
			out = append(out, ev[0])
		} else {
			out = append(out, "malformed")
		}
	}
	return out
}

// StoreDeletes returns the number of DeletePeerState calls so far.
func (j *VerifJobRig) StoreDeletes() int { return j.rig.trace.StoreDelete }

// ---- NodeLeft delivered while the worker is finishing --------------------------------------------

// verifHookStore holds one graceful-shutdown snapshot; DeletePeerState runs a hook BEFORE the
// snapshot is removed (the store round trip is "in progress").
type verifHookStore struct {
	mu       sync.Mutex
	states   map[string]*internalpb.PeerState
	onDelete func()
	deletes  int
}

func (s *verifHookStore) PersistPeerState(context.Context, *internalpb.PeerState) error { return nil }
func (s *verifHookStore) GetPeerState(_ context.Context, addr string) (*internalpb.PeerState, bool) {
	s.mu.Lock()
	defer s.mu.Unlock()
	st, ok := s.states[addr]
	if !ok {
		return nil, false
	}
	// like the shipped stores: a fresh object per call
	return proto.Clone(st).(*internalpb.PeerState), true
}
func (s *verifHookStore) DeletePeerState(_ context.Context, addr string) error {
	if s.onDelete != nil {
		hook := s.onDelete
		s.onDelete = nil
		hook()
	}
	s.mu.Lock()
	s.deletes++
	delete(s.states, addr)
	s.mu.Unlock()
	return nil
}
func (s *verifHookStore) Close() error { return nil }

// VerifNodeLeftScript drives the REAL actorSystem.handleNodeLeftEvent (this node is the leader, the
// departed node left a snapshot) and the REAL relocationWorker.relocate for one departed address:
//   1 first NodeLeft, then `dupsBefore` duplicate NodeLefts while the relocation is in flight,
//   then the worker runs; `dupsInDelete` duplicate NodeLefts are delivered from inside the store's
//   DeletePeerState, i.e. while the worker is still inside finish().
// It returns the number of RelocationStarted events (= relocations started for this departure),
// whether a job is still registered afterwards, and the number of DeletePeerState calls.
func VerifNodeLeftScript(dupsBefore, dupsInDelete int) (started int, jobHeld bool, deletes int, err error) {
	system, nerr := NewActorSystem("verifnl", WithLogger(log.DiscardLogger))
	if nerr != nil {
		return 0, false, 0, nerr
	}
	sys := system.(*actorSystem)
	env := &VerifEnv{LocalFail: map[string]bool{}}
	trace := &VerifTrace{}
	const departed = "10.9.9.9:9500"
	snapshot := &internalpb.PeerState{
		Host: verifDepartedHost, PeersPort: verifDepartedPeers, RemotingPort: verifDepartedRemoting,
		Grains: map[string]*internalpb.Grain{
			"lazy": {GrainId: &internalpb.GrainId{Kind: "kind", Name: "lazy", Value: "kind/lazy"}},
		},
	}
	store := &verifHookStore{states: map[string]*internalpb.PeerState{departed: snapshot}}
	sys.cluster = &verifCluster{env: env, trace: trace, sys: sys}
	sys.clusterStore = store
	sys.started.Store(true)
	sys.clusterEnabled.Store(true)
	sys.relocationEnabled.Store(true)
	// a relocator that only has to accept the Rebalance order
	sys.systemGuardian = &PID{actorSystem: system, logger: log.DiscardLogger}
	sys.relocator = &PID{actorSystem: system, logger: log.DiscardLogger}
	stream := eventstream.New()
	sys.eventsStream = stream
	sub := stream.AddSubscriber()
	stream.Subscribe(sub, eventsTopic)

	nodeLeft := &cluster.Event{Type: cluster.NodeLeft, Payload: &cluster.NodeLeftEvent{Address: departed, Timestamp: time.Now()}}

	// first notification: the leader registers the job and announces the relocation. The
	// dispatch to the (unreachable) relocator is replaced by what a reachable relocator does
	// not undo: the job stays registered until the worker finishes.
	registered, ok := store.GetPeerState(context.Background(), departed)
	if !ok || !sys.beginRelocation(departed, registered) {
		return 0, false, 0, errors.New("first NodeLeft could not register the job")
	}
	sys.publishRelocationStarted(departed, registered, false)
	for i := 0; i < dupsBefore; i++ {
		sys.handleNodeLeftEvent(nodeLeft)
	}
	if dupsInDelete > 0 {
		store.onDelete = func() {
			for i := 0; i < dupsInDelete; i++ {
				sys.handleNodeLeftEvent(nodeLeft)
			}
		}
	}
	worker := &relocationWorker{remoting: &verifRemoting{env: env, trace: trace}, pid: &PID{actorSystem: system, logger: log.DiscardLogger, eventsStream: stream}, logger: log.DiscardLogger}
	worker.relocate(newReceiveContext(context.Background(), nil, worker.pid, &internalpb.Rebalance{PeerState: registered}), registered)

	for message := range sub.Iterator() {
		if _, ok := message.Payload().(*RelocationStarted); ok {
			started++
		}
	}
	_, jobHeld = sys.relocationJob(departed)
	return started, jobHeld, store.deletes, nil
}

//go:build verif

package actor

import (
	"context"
	"errors"
	"os"
	"runtime/debug"
	"sort"
	"strconv"
	"sync"
	"time"

	"github.com/tochemey/goakt/v4/eventstream"
	"github.com/tochemey/goakt/v4/internal/address"
	"github.com/tochemey/goakt/v4/internal/cluster"
	"github.com/tochemey/goakt/v4/internal/internalpb"
	"github.com/tochemey/goakt/v4/internal/remoteclient"
	"github.com/tochemey/goakt/v4/internal/types"
	"github.com/tochemey/goakt/v4/log"
	"google.golang.org/protobuf/proto"
)

// C33 drivers: the REAL relocationWorker.relocate / relocateShare, relocator.Receive,
// beginRelocation / endRelocation / relocationJob run against scripted doubles of the things the
// model treats as parameters: cluster membership + registry, the peer-state store, the remoting
// client (peers) and the per-item respawn outcome on the leader.

var errVerifScripted = errors.New("verif-scripted-failure")

// VerifEnv scripts the environment of one relocation.
type VerifEnv struct {
	LeaderRoles []string
	Peers       []*cluster.Peer
	Loads       map[string]int // CountActorsByHost result; nil = scan fails
	PeersErr    bool           // cluster.Peers fails
	// LocalFail: item keys ("a<addr>" / "g<identity>") whose leader-side recreation/release fails
	LocalFail map[string]bool
	// RemoteFail[p]: item keys that the peer p (index into Peers) reports as failed
	RemoteFail map[int]map[string]bool
	// Poison[p]: a batch sent to peer p that contains one of these item keys is rejected (peer-level error)
	Poison map[int]map[string]bool
	// StoreDeleteErr: DeletePeerState fails
	StoreDeleteErr bool
}

func actorKey(a *internalpb.Actor) string { return "a" + a.GetAddress() }
func grainKey(g *internalpb.Grain) string { return "g" + g.GetGrainId().GetValue() }

// VerifTrace is everything observable about one run.
type VerifTrace struct {
	mu sync.Mutex
	// OK[node] = item keys handled successfully by node (0 = leader, p+1 = peer p)
	OK map[int][]string
	// Events = the RelocationFailed events published (actors, grains)
	EventActors [][]string
	EventGrains [][]string
	JobHeld     bool
	StoreDelete int
	Started     int
}

func (t *VerifTrace) ok(node int, key string) {
	t.mu.Lock()
	if t.OK == nil {
		t.OK = map[int][]string{}
	}
	t.OK[node] = append(t.OK[node], key)
	t.mu.Unlock()
}

// ---- doubles ------------------------------------------------------------------------------

type verifCluster struct {
	cluster.Cluster
	env   *VerifEnv
	trace *VerifTrace
	sys   *actorSystem
}

func (c *verifCluster) Peers(context.Context) ([]*cluster.Peer, error) {
	if c.env.PeersErr {
		return nil, errVerifScripted
	}
	return c.env.Peers, nil
}

func (c *verifCluster) CountActorsByHost(context.Context, time.Duration) (map[string]int, error) {
	if c.env.Loads == nil {
		return nil, errVerifScripted
	}
	// "@leader" stands for the leader's own host:port, whatever the un-started system reports
	out := make(map[string]int, len(c.env.Loads))
	for k, v := range c.env.Loads {
		if k == "@leader" {
			k = address.FormatHostPort(c.sys.Host(), c.sys.Port())
		}
		out[k] = v
	}
	return out, nil
}

func (c *verifCluster) IsLeader(context.Context) bool { return true }

// registry of actors: nothing is registered (the departed entry is "missing", respawn proceeds)
func (c *verifCluster) GetActor(context.Context, string) (*internalpb.Actor, error) {
	return nil, cluster.ErrActorNotFound
}
func (c *verifCluster) RemoveActor(context.Context, string) error { return nil }

// grain directory: the lazy release (real releaseGrainForLazyRelocation) looks the grain up;
// a scripted failure makes the lookup fail, otherwise the entry is reported missing (= released)
func (c *verifCluster) GetGrain(_ context.Context, identity string) (*internalpb.Grain, error) {
	if c.env.LocalFail["g"+identity] {
		return nil, errVerifScripted
	}
	c.trace.ok(0, "g"+identity)
	return nil, cluster.ErrGrainNotFound
}
func (c *verifCluster) RemoveGrain(context.Context, string) error { return nil }

type verifStore struct {
	env   *VerifEnv
	trace *VerifTrace
}

func (s *verifStore) PersistPeerState(context.Context, *internalpb.PeerState) error { return nil }
func (s *verifStore) GetPeerState(context.Context, string) (*internalpb.PeerState, bool) {
	return nil, false
}
func (s *verifStore) DeletePeerState(context.Context, string) error {
	s.trace.mu.Lock()
	s.trace.StoreDelete++
	s.trace.mu.Unlock()
	if s.env.StoreDeleteErr {
		return errVerifScripted
	}
	return nil
}
func (s *verifStore) Close() error { return nil }

type verifRemoting struct {
	remoteclient.Client
	env   *VerifEnv
	trace *VerifTrace
	mu    sync.Mutex
	seen  map[*internalpb.RelocateBatchRequest]bool
}

func (r *verifRemoting) peerIndex(host string, port int) int {
	for i, p := range r.env.Peers {
		if p.Host == host && p.RemotingPort == port {
			return i
		}
	}
	return -1
}

// RelocateBatch plays the target peer: a poisoned batch is a peer-level error (on every attempt);
// otherwise every item is handled and the scripted per-item failures are reported back.
func (r *verifRemoting) RelocateBatch(_ context.Context, host string, port int, request *internalpb.RelocateBatchRequest) (*internalpb.RelocateBatchResponse, error) {
	p := r.peerIndex(host, port)
	if p < 0 {
		return nil, errVerifScripted
	}
	for _, a := range request.GetActors() {
		if r.env.Poison[p][actorKey(a)] {
			return nil, errVerifScripted
		}
	}
	for _, g := range request.GetGrains() {
		if r.env.Poison[p][grainKey(g)] {
			return nil, errVerifScripted
		}
	}
	r.mu.Lock()
	if r.seen == nil {
		r.seen = map[*internalpb.RelocateBatchRequest]bool{}
	}
	dup := r.seen[request]
	r.seen[request] = true
	r.mu.Unlock()
	resp := &internalpb.RelocateBatchResponse{}
	for _, a := range request.GetActors() {
		if r.env.RemoteFail[p][actorKey(a)] {
			resp.Failures = append(resp.Failures, &internalpb.RelocationFailure{Id: a.GetAddress(), Grain: false, Message: "scripted"})
		} else if !dup {
			r.trace.ok(p+1, actorKey(a))
		}
	}
	for _, g := range request.GetGrains() {
		if r.env.RemoteFail[p][grainKey(g)] {
			resp.Failures = append(resp.Failures, &internalpb.RelocationFailure{Id: g.GetGrainId().GetValue(), Grain: true, Message: "scripted"})
		} else if !dup {
			r.trace.ok(p+1, grainKey(g))
		}
	}
	return resp, nil
}

// verifActor is the type instantiated for singleton respawns.
type verifActor struct{}

func (verifActor) PreStart(*Context) error { return nil }
func (verifActor) Receive(*ReceiveContext) {}
func (verifActor) PostStop(*Context) error { return nil }

// VerifActorTypeName is the wire type name of verifActor.
func VerifActorTypeName() string { return types.Name(new(verifActor)) }

// verifSystem is the leader: the real actorSystem with the per-item respawn outcome scripted.
type verifSystem struct {
	*actorSystem
	env   *VerifEnv
	trace *VerifTrace
}

func (s *verifSystem) getNodeRoles() []string { return s.env.LeaderRoles }

func (s *verifSystem) recreateActorFromWire(_ context.Context, props *internalpb.Actor, _ string) error {
	if s.env.LocalFail[actorKey(props)] {
		return errVerifScripted
	}
	s.trace.ok(0, actorKey(props))
	return nil
}

func (s *verifSystem) recreateGrainFromWire(_ context.Context, grain *internalpb.Grain, _ string) error {
	if s.env.LocalFail[grainKey(grain)] {
		return errVerifScripted
	}
	s.trace.ok(0, grainKey(grain))
	return nil
}

func (s *verifSystem) SpawnSingleton(_ context.Context, name string, _ Actor, _ ...ClusterSingletonOption) (*PID, error) {
	key := "a" + address.New(name, "sys", verifDepartedHost, verifDepartedRemoting).String()
	if s.env.LocalFail[key] {
		return nil, errVerifScripted
	}
	s.trace.ok(0, key)
	return nil, nil
}

const (
	verifDepartedHost     = "10.9.9.9"
	verifDepartedRemoting = 9000
	verifDepartedPeers    = 9500
)

// VerifDeparted returns host, remoting port, peers port of the departed node used by the drivers.
func VerifDeparted() (string, int, int) {
	return verifDepartedHost, verifDepartedRemoting, verifDepartedPeers
}

type verifRig struct {
	sys    *actorSystem
	wrap   *verifSystem
	stream eventstream.Stream
	sub    eventstream.Subscriber
	remote *verifRemoting
	trace  *VerifTrace
}

func newVerifRig(env *VerifEnv) (*verifRig, error) {
	system, err := NewActorSystem("verif", WithLogger(log.DiscardLogger))
	if err != nil {
		return nil, err
	}
	sys := system.(*actorSystem)
	trace := &VerifTrace{}
	sys.cluster = &verifCluster{env: env, trace: trace, sys: sys}
	sys.clusterStore = &verifStore{env: env, trace: trace}
	sys.relocationEnabled.Store(true)
	sys.registry.Register(new(verifActor))
	stream := eventstream.New()
	sub := stream.AddSubscriber()
	stream.Subscribe(sub, eventsTopic)
	return &verifRig{
		sys:    sys,
		wrap:   &verifSystem{actorSystem: sys, env: env, trace: trace},
		stream: stream,
		sub:    sub,
		remote: &verifRemoting{env: env, trace: trace},
		trace:  trace,
	}, nil
}

func (r *verifRig) pid() *PID {
	return &PID{actorSystem: r.wrap, logger: log.DiscardLogger, eventsStream: r.stream}
}

func (r *verifRig) drainEvents() {
	for message := range r.sub.Iterator() {
		switch ev := message.Payload().(type) {
		case *RelocationFailed:
			r.trace.EventActors = append(r.trace.EventActors, append([]string(nil), ev.Actors()...))
			r.trace.EventGrains = append(r.trace.EventGrains, append([]string(nil), ev.Grains()...))
		case *RelocationStarted:
			r.trace.Started++
		}
	}
}

// VerifRelocate registers the job and runs the real relocationWorker.relocate on the snapshot.
func VerifRelocate(env *VerifEnv, state *internalpb.PeerState) (*VerifTrace, error) {
	rig, err := newVerifRig(env)
	if err != nil {
		return nil, err
	}
	peersAddress := state.GetHost() + ":" + strconv.Itoa(int(state.GetPeersPort()))
	if !rig.sys.beginRelocation(peersAddress, state) {
		return nil, errors.New("job already registered")
	}
	worker := &relocationWorker{remoting: rig.remote, pid: rig.pid(), logger: log.DiscardLogger}
	rctx := newReceiveContext(context.Background(), nil, worker.pid, &internalpb.Rebalance{PeerState: state})
	worker.relocate(rctx, state)
	_, rig.trace.JobHeld = rig.sys.relocationJob(peersAddress)
	rig.drainEvents()
	return rig.trace, nil
}

// VerifRelocateShare runs the real relocationWorker.relocateShare for the share of peer `target`
// and returns the trace plus the recorded failures (id, grain).
func VerifRelocateShare(env *VerifEnv, requests []*internalpb.RelocateBatchRequest, target int) (*VerifTrace, []*internalpb.RelocationFailure, error) {
	rig, err := newVerifRig(env)
	if err != nil {
		return nil, nil, err
	}
	worker := &relocationWorker{remoting: rig.remote, pid: rig.pid(), logger: log.DiscardLogger}
	failures := &relocationFailures{}
	worker.relocateShare(context.Background(), requests, env.Peers[target], env.Peers, failures)
	return rig.trace, failures.items(), nil
}

// ---- job registry / relocator op scripts -----------------------------------------------------

// VerifJobRig drives beginRelocation / endRelocation / relocationJob and the relocator's message
// handler on one real actor system. Snapshots are identified by small integers.
type VerifJobRig struct {
	rig       *verifRig
	relocator *relocator
	snaps     map[int]*internalpb.PeerState
	ids       map[*internalpb.PeerState]int
}

func NewVerifJobRig() (*VerifJobRig, error) {
	env := &VerifEnv{PeersErr: true}
	rig, err := newVerifRig(env)
	if err != nil {
		return nil, err
	}
	return &VerifJobRig{
		rig: rig,
		relocator: &relocator{
			remoting: rig.remote,
			pid:      &PID{actorSystem: rig.sys, logger: log.DiscardLogger, eventsStream: rig.stream},
			logger:   log.DiscardLogger,
			workers:  make(map[string]workerJob),
		},
		snaps: map[int]*internalpb.PeerState{},
		ids:   map[*internalpb.PeerState]int{},
	}, nil
}

func verifJobAddr(addr int) (string, int32) { return "10.1.0." + strconv.Itoa(addr), 9500 }

func verifJobKey(addr int) string {
	h, p := verifJobAddr(addr)
	return h + ":" + strconv.Itoa(int(p))
}

// Snap returns the snapshot object with the given id for the departed address (one actor "a<id>").
func (j *VerifJobRig) Snap(addr, id int) *internalpb.PeerState {
	if s, ok := j.snaps[id]; ok {
		return s
	}
	h, p := verifJobAddr(addr)
	s := &internalpb.PeerState{
		Host: h, PeersPort: p, RemotingPort: 9000,
		Actors: map[string]*internalpb.Actor{"x": {Address: "snap-" + strconv.Itoa(id), Relocatable: true}},
	}
	j.snaps[id] = s
	j.ids[s] = id
	return s
}

func (j *VerifJobRig) Begin(addr, id int) bool {
	return j.rig.sys.beginRelocation(verifJobKey(addr), j.Snap(addr, id))
}

func (j *VerifJobRig) End(addr int) { j.rig.sys.endRelocation(verifJobKey(addr)) }

// Job returns the registered snapshot id, or -1.
func (j *VerifJobRig) Job(addr int) int {
	s, ok := j.rig.sys.relocationJob(verifJobKey(addr))
	if !ok {
		return -1
	}
	if id, ok := j.ids[s]; ok {
		return id
	}
	return -2
}

// Track records a live worker the way startWorker does after a successful spawn.
func (j *VerifJobRig) Track(worker, addr, id int) {
	j.relocator.workers[verifWorkerName(worker)] = workerJob{address: verifJobKey(addr), peerState: j.Snap(addr, id)}
}

func verifWorkerName(worker int) string {
	return reservedName(relocationWorkerType) + "-" + strconv.Itoa(worker)
}

// Terminated delivers a Terminated message for the worker to the real relocator handler.
func (j *VerifJobRig) Terminated(worker int) {
	msg := &Terminated{actorPath: newPath(address.New(verifWorkerName(worker), "verif", "127.0.0.1", 9000))}
	j.relocator.Receive(newReceiveContext(context.Background(), nil, j.relocator.pid, msg))
}

// Rebalance delivers a Rebalance order to the real relocator handler. The relocator pid is not part
// of a running actor tree, so the worker spawn fails and the relocation is aborted (real abort path).
func (j *VerifJobRig) Rebalance(addr, id int) {
	msg := &internalpb.Rebalance{PeerState: j.Snap(addr, id)}
	j.relocator.Receive(newReceiveContext(context.Background(), nil, j.relocator.pid, msg))
}

// RunWorker runs the real relocationWorker.relocate for the snapshot (cluster.Peers is scripted to
// fail, so it takes the abort accounting path: one event, snapshot removed, job released).
func (j *VerifJobRig) RunWorker(addr, id int) {
	worker := &relocationWorker{remoting: j.rig.remote, pid: &PID{actorSystem: j.rig.sys, logger: log.DiscardLogger, eventsStream: j.rig.stream}, logger: log.DiscardLogger}
	st := j.Snap(addr, id)
	worker.relocate(newReceiveContext(context.Background(), nil, worker.pid, &internalpb.Rebalance{PeerState: st}), st)
}

// Workers returns the tracked worker numbers, sorted.
func (j *VerifJobRig) Workers() []string {
	var out []string
	for name := range j.relocator.workers {
		out = append(out, name)
	}
	sort.Strings(out)
	return out
}

// Events drains the event stream: the snapshot ids named by the RelocationFailed events published
// since the last call (each event of these scripts lists the single actor "snap-<id>").
func (j *VerifJobRig) Events() []string {
	before := len(j.rig.trace.EventActors)
	j.rig.drainEvents()
	var out []string
	for _, ev := range j.rig.trace.EventActors[before:] {
		if len(ev) == 1 {
			out = append(out, ev[0])
		} else {
			out = append(out, "malformed")
		}
	}
	return out
}

// StoreDeletes returns the number of DeletePeerState calls so far.
func (j *VerifJobRig) StoreDeletes() int { return j.rig.trace.StoreDelete }

// ---- NodeLeft delivered while the worker is finishing --------------------------------------------

// verifHookStore holds one graceful-shutdown snapshot; DeletePeerState runs a hook BEFORE the
// snapshot is removed (the store round trip is "in progress").
type verifHookStore struct {
	mu       sync.Mutex
	states   map[string]*internalpb.PeerState
	onDelete func()
	deletes  int
}

func (s *verifHookStore) PersistPeerState(context.Context, *internalpb.PeerState) error { return nil }
func (s *verifHookStore) GetPeerState(_ context.Context, addr string) (*internalpb.PeerState, bool) {
	s.mu.Lock()
	defer s.mu.Unlock()
	st, ok := s.states[addr]
	if !ok {
		return nil, false
	}
	// like the shipped stores: a fresh object per call
	return proto.Clone(st).(*internalpb.PeerState), true
}
func (s *verifHookStore) DeletePeerState(_ context.Context, addr string) error {
	if s.onDelete != nil {
		hook := s.onDelete
		s.onDelete = nil
		hook()
	}
	s.mu.Lock()
	s.deletes++
	delete(s.states, addr)
	s.mu.Unlock()
	return nil
}
func (s *verifHookStore) Close() error { return nil }

// VerifNodeLeftScript drives the REAL actorSystem.handleNodeLeftEvent (this node is the leader, the
// departed node left a snapshot) and the REAL relocationWorker.relocate for one departed address:
//   1 first NodeLeft, then `dupsBefore` duplicate NodeLefts while the relocation is in flight,
//   then the worker runs; `dupsInDelete` duplicate NodeLefts are delivered from inside the store's
//   DeletePeerState, i.e. while the worker is still inside finish().
// It returns the number of RelocationStarted events (= relocations started for this departure),
// whether a job is still registered afterwards, and the number of DeletePeerState calls.
func VerifNodeLeftScript(dupsBefore, dupsInDelete int) (started int, jobHeld bool, deletes int, err error) {
	system, nerr := NewActorSystem("verifnl", WithLogger(log.DiscardLogger))
	if nerr != nil {
		return 0, false, 0, nerr
	}
	sys := system.(*actorSystem)
	env := &VerifEnv{LocalFail: map[string]bool{}}
	trace := &VerifTrace{}
	const departed = "10.9.9.9:9500"
	snapshot := &internalpb.PeerState{
		Host: verifDepartedHost, PeersPort: verifDepartedPeers, RemotingPort: verifDepartedRemoting,
		Grains: map[string]*internalpb.Grain{
			"lazy": {GrainId: &internalpb.GrainId{Kind: "kind", Name: "lazy", Value: "kind/lazy"}},
		},
	}
	store := &verifHookStore{states: map[string]*internalpb.PeerState{departed: snapshot}}
	sys.cluster = &verifCluster{env: env, trace: trace, sys: sys}
	sys.clusterStore = store
	sys.started.Store(true)
	sys.clusterEnabled.Store(true)
	sys.relocationEnabled.Store(true)
	// a relocator that only has to accept the Rebalance order
	sys.systemGuardian = &PID{actorSystem: system, logger: log.DiscardLogger}
	sys.relocator = &PID{actorSystem: system, logger: log.DiscardLogger}
	stream := eventstream.New()
	sys.eventsStream = stream
	sub := stream.AddSubscriber()
	stream.Subscribe(sub, eventsTopic)

	nodeLeft := &cluster.Event{Type: cluster.NodeLeft, Payload: &cluster.NodeLeftEvent{Address: departed, Timestamp: time.Now()}}

	// first notification: the leader registers the job and announces the relocation. The
	// dispatch to the (unreachable) relocator is replaced by what a reachable relocator does
	// not undo: the job stays registered until the worker finishes.
	registered, ok := store.GetPeerState(context.Background(), departed)
	if !ok || !sys.beginRelocation(departed, registered) {
		return 0, false, 0, errors.New("first NodeLeft could not register the job")
	}
	sys.publishRelocationStarted(departed, registered, false)
	for i := 0; i < dupsBefore; i++ {
		sys.handleNodeLeftEvent(nodeLeft)
	}
	if dupsInDelete > 0 {
		store.onDelete = func() {
			for i := 0; i < dupsInDelete; i++ {
				sys.handleNodeLeftEvent(nodeLeft)
			}
		}
	}
	worker := &relocationWorker{remoting: &verifRemoting{env: env, trace: trace}, pid: &PID{actorSystem: system, logger: log.DiscardLogger, eventsStream: stream}, logger: log.DiscardLogger}
	worker.relocate(newReceiveContext(context.Background(), nil, worker.pid, &internalpb.Rebalance{PeerState: registered}), registered)

	for message := range sub.Iterator() {
		if _, ok := message.Payload().(*RelocationStarted); ok {
			started++
		}
	}
	_, jobHeld = sys.relocationJob(departed)
	return started, jobHeld, store.deletes, nil
}

// ---- live rig: started system, REAL relocator actor, REAL startWorker / worker actor ---------------

type verifLiveCluster struct {
	cluster.Cluster
	mu        sync.Mutex
	peersCall int
	failRuns  int           // the first failRuns worker runs see cluster.Peers fail
	gate      chan struct{} // closed = workers may proceed past cluster.Peers
	atGate    chan struct{} // one token per worker that reached cluster.Peers
	records   bool          // the registry still holds the departed node's grain record
	withActor bool          // the departed node also hosted an actor whose type no survivor knows
}

func (c *verifLiveCluster) IsLeader(context.Context) bool       { return true }
func (c *verifLiveCluster) LastRebalanceEvent() time.Time        { return time.Time{} }
func (c *verifLiveCluster) Peers(context.Context) ([]*cluster.Peer, error) {
	c.mu.Lock()
	c.peersCall++
	n := c.peersCall
	c.mu.Unlock()
	c.atGate <- struct{}{}
	<-c.gate
	if n <= c.failRuns {
		return nil, errVerifScripted
	}
	return nil, nil
}
func (c *verifLiveCluster) CountActorsByHost(context.Context, time.Duration) (map[string]int, error) {
	return map[string]int{}, nil
}
func (c *verifLiveCluster) ActorsByHost(context.Context, string, int, time.Duration) ([]*internalpb.Actor, error) {
	if c.withActor {
		return []*internalpb.Actor{verifLiveActor()}, nil
	}
	return nil, nil
}
func (c *verifLiveCluster) GetActor(context.Context, string) (*internalpb.Actor, error) {
	return nil, cluster.ErrActorNotFound
}
func (c *verifLiveCluster) RemoveActor(context.Context, string) error          { return nil }
func (c *verifLiveCluster) PutActor(context.Context, *internalpb.Actor) error { return nil }
func (c *verifLiveCluster) GrainsByHost(context.Context, string, int, time.Duration) ([]*internalpb.Grain, error) {
	c.mu.Lock()
	defer c.mu.Unlock()
	if !c.records {
		return nil, nil
	}
	return []*internalpb.Grain{verifLiveGrain()}, nil
}
func (c *verifLiveCluster) GetGrain(context.Context, string) (*internalpb.Grain, error) {
	// the lazy release: the record is dropped from the registry
	c.mu.Lock()
	c.records = false
	c.mu.Unlock()
	return nil, cluster.ErrGrainNotFound
}
func (c *verifLiveCluster) RemoveGrain(context.Context, string) error { return nil }

func verifLiveGrain() *internalpb.Grain {
	return &internalpb.Grain{GrainId: &internalpb.GrainId{Kind: "kind", Name: "lazy", Value: "kind/lazy"},
		Host: verifDepartedHost, Port: verifDepartedRemoting}
}

// verifLiveActor is a relocatable actor of a type that is not registered anywhere: an aborted run lists
// it as failed and leaves its registry record, a completed run fails to respawn it (listed as failed)
func verifLiveActor() *internalpb.Actor {
	return &internalpb.Actor{Address: address.New("live1", "sys", verifDepartedHost, verifDepartedRemoting).String(),
		Type: "verif.NotRegistered", Relocatable: true}
}

// VerifLiveResult is what one live script observed.
type VerifLiveResult struct {
	Runs, Started, Failed int
	Job                   string // released | held
	Timeout               string // which wait timed out ("" = none)
}

// VerifLiveScript: a STARTED actor system whose relocator is the real relocator actor (spawned by the
// real spawnRelocator). Every NodeLeft goes through the real handleNodeLeftEvent; the relocator's
// real startWorker spawns the real worker actor, which blocks inside cluster.Peers until the script
// lets it go.
//   snapshot : the departed node left a graceful-shutdown snapshot (else: crash-recovery path,
//              the relocation set is derived from the registry by the real gateCrashRecovery)
//   dups     : duplicate NodeLefts delivered while the worker is blocked (relocation in flight)
//   failRuns : the first failRuns worker runs abort (cluster.Peers fails); after each abort the
//              departure is notified again (re-request)
func VerifLiveScript(snapshot bool, dups, failRuns int) (res VerifLiveResult, err error) {
	if os.Getenv("VERIF_DEBUG") != "" {
		defer func() {
			if r := recover(); r != nil {
				os.Stderr.Write(debug.Stack())
				panic(r)
			}
		}()
	}
	ctx := context.Background()
	system, nerr := NewActorSystem("veriflive", WithLogger(log.DiscardLogger))
	if nerr != nil {
		return res, nerr
	}
	if serr := system.Start(ctx); serr != nil {
		return res, serr
	}
	sys := system.(*actorSystem)
	defer func() {
		// back to the non-clustered system that was started, then stop it
		sys.relocationEnabled.Store(false)
		sys.clusterEnabled.Store(false)
		sys.locker.Lock()
		sys.cluster = nil
		sys.clusterStore = nil
		sys.locker.Unlock()
		_ = system.Stop(ctx)
	}()
	const departed = "10.9.9.9:9500"
	cl := &verifLiveCluster{gate: make(chan struct{}), atGate: make(chan struct{}, 64), failRuns: failRuns, records: true, withActor: failRuns > 0}
	store := &verifHookStore{states: map[string]*internalpb.PeerState{}}
	if snapshot {
		store.states[departed] = &internalpb.PeerState{
			Host: verifDepartedHost, PeersPort: verifDepartedPeers, RemotingPort: verifDepartedRemoting,
			Grains: map[string]*internalpb.Grain{"lazy": verifLiveGrain()},
		}
		if failRuns > 0 {
			store.states[departed].Actors = map[string]*internalpb.Actor{"live1": verifLiveActor()}
		}
	}
	sys.locker.Lock()
	sys.cluster = cl
	sys.clusterStore = store
	sys.locker.Unlock()
	sys.clusterEnabled.Store(true)
	sys.relocationEnabled.Store(true)
	if rerr := sys.spawnRelocator(ctx); rerr != nil {
		return res, rerr
	}
	sub := sys.eventsStream.AddSubscriber()
	sys.eventsStream.Subscribe(sub, eventsTopic)

	nodeLeft := func() {
		// the crash path resolves the remoting port from this cache and prunes it afterwards
		sys.peerRemotingPorts.Set(departed, verifDepartedRemoting)
		sys.handleNodeLeftEvent(&cluster.Event{Type: cluster.NodeLeft, Payload: &cluster.NodeLeftEvent{Address: departed, Timestamp: time.Now()}})
	}
	waitFor := func(what string, cond func() bool) bool {
		deadline := time.Now().Add(30 * time.Second)
		for !cond() {
			if time.Now().After(deadline) {
				res.Timeout = what
				return false
			}
			time.Sleep(2 * time.Millisecond)
		}
		return true
	}
	atGate := func() bool {
		select {
		case <-cl.atGate:
			return true
		case <-time.After(30 * time.Second):
			res.Timeout = "worker-at-gate"
			return false
		}
	}
	registered := func() bool { _, ok := sys.relocationJob(departed); return ok }

	collect := func() {
		cl.mu.Lock()
		res.Runs = cl.peersCall
		cl.mu.Unlock()
		res.Job = "released"
		if registered() {
			res.Job = "held"
		}
		for message := range sub.Iterator() {
			switch message.Payload().(type) {
			case *RelocationStarted:
				res.Started++
			case *RelocationFailed:
				res.Failed++
			}
		}
	}

	// a NodeLeft is fully handled once the remoting-port cache entry is pruned again: synchronously on
	// the snapshot path, at the end of the gateCrashRecovery goroutine on the crash path
	handled := func() bool {
		return waitFor("nodeleft-handled", func() bool { return sys.peerRemotingPortsLenForVerif() == 0 })
	}
	for run := 0; run <= failRuns; run++ {
		nodeLeft()
		if !handled() || !atGate() { // real relocator -> real startWorker -> real worker reached cluster.Peers
			collect()
			return res, nil
		}
		for i := 0; i < dups; i++ {
			nodeLeft()
			if !handled() {
				collect()
				return res, nil
			}
		}
		cl.gate <- struct{}{} // let this worker proceed
		if !waitFor("job-release", func() bool {
			// a second worker for the same departure must not exist; if one does, let it run so
			// that it is counted instead of blocking the teardown
			select {
			case cl.gate <- struct{}{}:
			default:
			}
			return !registered()
		}) {
			collect()
			return res, nil
		}
	}
	// no further worker may appear
	time.Sleep(20 * time.Millisecond)
	close(cl.gate)
	time.Sleep(5 * time.Millisecond)
	collect()
	return res, nil
}

func (x *actorSystem) peerRemotingPortsLenForVerif() int { return x.peerRemotingPorts.Len() }

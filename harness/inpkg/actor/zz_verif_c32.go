//go:build verif

package actor

import (
	"context"
	"errors"
	"net"
	"strconv"
	"sync"
	"time"

	"golang.org/x/sync/errgroup"

	"github.com/tochemey/goakt/v4/discovery"
	"github.com/tochemey/goakt/v4/internal/address"
	"github.com/tochemey/goakt/v4/internal/chunk"
	"github.com/tochemey/goakt/v4/internal/cluster"
	"github.com/tochemey/goakt/v4/internal/internalpb"
	"github.com/tochemey/goakt/v4/log"
)

// Thin pass-through accessors for the unexported relocation planning functions (C32).
// No logic lives here: every wrapper calls the real function with the caller's arguments.

// VerifSystemNamePrefix is the reserved prefix isSystemName looks for.
func VerifSystemNamePrefix() string { return reservedNamesPrefix }

func VerifAllocateActors(leaderRoles []string, peers []*cluster.Peer, st *internalpb.PeerState, baseLoads []int) ([]*internalpb.Actor, [][]*internalpb.Actor, []*internalpb.Actor) {
	return allocateActors(leaderRoles, peers, st, baseLoads)
}

func VerifRelocatableGrains(grains map[string]*internalpb.Grain) []*internalpb.Grain {
	return relocatableGrains(grains)
}

func VerifAllocateGrains(totalPeers int, grains []*internalpb.Grain) ([]*internalpb.Grain, [][]*internalpb.Grain) {
	return allocateGrains(totalPeers, grains)
}

func VerifEligibleForRole(targetRoles []string, role string) bool {
	return eligibleForRole(targetRoles, role)
}

func VerifLeastLoadedEligibleSurvivor(survivors []*cluster.Peer, shares [][]*internalpb.Actor, role string) int {
	return leastLoadedEligibleSurvivor(survivors, shares, role)
}

// VerifReassignByRole returns the shares, the leader share, the flattened grains and the
// recorded failures (id, grain flag) in recording order.
func VerifReassignByRole(requests []*internalpb.RelocateBatchRequest, survivors []*cluster.Peer, leaderRoles []string) ([][]*internalpb.Actor, []*internalpb.Actor, []*internalpb.Grain, []*internalpb.RelocationFailure) {
	failures := &relocationFailures{}
	shares, leader, grains := reassignByRole(requests, survivors, leaderRoles, failures)
	return shares, leader, grains, failures.items()
}

func VerifSurvivingPeersExcept(peers []*cluster.Peer, target *cluster.Peer) []*cluster.Peer {
	return survivingPeersExcept(peers, target)
}

func VerifBuildRelocateBatchRequests(departed string, actors []*internalpb.Actor, grains []*internalpb.Grain) []*internalpb.RelocateBatchRequest {
	return buildRelocateBatchRequests(departed, actors, grains)
}

func VerifRelocationBatchSize() int { return defaultRelocationBatchSize }

func VerifChunkLens(n, size int) []int {
	s := make([]int, n)
	for i := range s {
		s[i] = i
	}
	var out []int
	next := 0
	for _, c := range chunk.Chunkify(s, size) {
		// also check the chunks are the consecutive windows of the input
		for _, v := range c {
			if v != next {
				return []int{-1}
			}
			next++
		}
		out = append(out, len(c))
	}
	if next != n {
		return []int{-2}
	}
	return out
}

// verifGateCluster is a cluster double that records whether the recreate path reached the
// registry (= the item passed the skip gate) and then fails the lookup so nothing is spawned.
type verifGateCluster struct {
	cluster.Cluster
	touched bool
}

var errVerifGate = errors.New("verif-gate")

func (c *verifGateCluster) GetActor(context.Context, string) (*internalpb.Actor, error) {
	c.touched = true
	return nil, errVerifGate
}

func (c *verifGateCluster) RemoveActor(context.Context, string) error {
	c.touched = true
	return errVerifGate
}

var verifGateSys *actorSystem

// VerifRecreateGate pushes one wire actor through the real enqueueRelocation dispatch
// (singleton -> recreateSingletonFromWire, else recreateActorFromWire) against a registry
// double. Result: "skip" when the item is dropped before any registry access and without a
// recorded failure, "proceed" when the registry is consulted (the respawn path was entered),
// "err" when a failure is recorded without reaching the registry.
// The context is already cancelled so retryRelocationItem gives up after its first attempt
// instead of sleeping through its backoff.
func VerifRecreateGate(props *internalpb.Actor, departed string) string {
	if verifGateSys == nil {
		sys, err := NewActorSystem("verifgate", WithLogger(log.DiscardLogger))
		if err != nil {
			return "err-newsystem"
		}
		verifGateSys = sys.(*actorSystem)
	}
	cl := &verifGateCluster{}
	verifGateSys.cluster = cl
	ctx, cancel := context.WithCancel(context.Background())
	cancel()
	recorded := 0
	var mu sync.Mutex
	eg := new(errgroup.Group)
	enqueueRelocation(ctx, eg, verifGateSys, log.DiscardLogger, departed, []*internalpb.Actor{props}, nil, func(string, bool, error) {
		mu.Lock()
		recorded++
		mu.Unlock()
	})
	_ = eg.Wait()
	switch {
	case cl.touched:
		return "proceed"
	case recorded == 0:
		return "skip"
	default:
		return "err"
	}
}

// ---- snapshot builders (the upstream end of the relocatable/system filter) --------------------------

type verifScanCluster struct {
	cluster.Cluster
	actors []*internalpb.Actor
	grains []*internalpb.Grain
}

func (c *verifScanCluster) ActorsByHost(context.Context, string, int, time.Duration) ([]*internalpb.Actor, error) {
	return c.actors, nil
}
func (c *verifScanCluster) GrainsByHost(context.Context, string, int, time.Duration) ([]*internalpb.Grain, error) {
	return c.grains, nil
}

// VerifDeriveRelocationSet runs the real deriveRelocationSetFromRegistry (crash recovery) over the
// given registry records of the departed node and returns the derived snapshot.
func VerifDeriveRelocationSet(host string, peersPort, remotingPort int, actors []*internalpb.Actor, grains []*internalpb.Grain) (*internalpb.PeerState, bool) {
	sys, err := NewActorSystem("verifderive", WithLogger(log.DiscardLogger))
	if err != nil {
		return nil, false
	}
	x := sys.(*actorSystem)
	x.cluster = &verifScanCluster{actors: actors, grains: grains}
	addr := net.JoinHostPort(host, strconv.Itoa(peersPort))
	x.peerRemotingPorts.Set(addr, remotingPort)
	return x.deriveRelocationSetFromRegistry(context.Background(), addr)
}

// VerifLiveActorSpec describes an actor to spawn on the node that will build its shutdown snapshot.
type VerifLiveActorSpec struct {
	Name        string
	Role        string
	Relocatable bool
	System      bool // spawned as a system actor under a reserved name
}

type verifPlainActor struct{}

func (verifPlainActor) PreStart(*Context) error { return nil }
func (verifPlainActor) Receive(*ReceiveContext) {}
func (verifPlainActor) PostStop(*Context) error { return nil }

// VerifPreShutdownSnapshot starts a real actor system, spawns the given actors, and runs the real
// preShutdown (the graceful-shutdown snapshot builder). It returns the actor names found in the
// snapshot with their wire records.
func VerifPreShutdownSnapshot(specs []VerifLiveActorSpec) (map[string]*internalpb.Actor, error) {
	ctx := context.Background()
	system, err := NewActorSystem("verifsnap", WithLogger(log.DiscardLogger))
	if err != nil {
		return nil, err
	}
	if err := system.Start(ctx); err != nil {
		return nil, err
	}
	x := system.(*actorSystem)
	defer func() {
		x.relocationEnabled.Store(false)
		x.clusterEnabled.Store(false)
		x.locker.Lock()
		x.cluster = nil
		x.locker.Unlock()
		_ = system.Stop(ctx)
	}()
	for _, sp := range specs {
		var opts []SpawnOption
		if !sp.Relocatable {
			opts = append(opts, WithRelocationDisabled())
		}
		if sp.Role != "" {
			opts = append(opts, WithRole(sp.Role))
		}
		if sp.System {
			opts = append(opts, asSystem())
		}
		if _, err := system.Spawn(ctx, sp.Name, new(verifPlainActor), opts...); err != nil {
			return nil, err
		}
	}
	x.locker.Lock()
	x.cluster = &verifScanCluster{}
	x.clusterNode = &discovery.Node{Host: "127.0.0.1", PeersPort: 9500}
	x.locker.Unlock()
	x.clusterEnabled.Store(true)
	x.relocationEnabled.Store(true)
	st, err := x.preShutdown()
	if err != nil {
		return nil, err
	}
	out := map[string]*internalpb.Actor{}
	for _, a := range st.GetActors() {
		addr, perr := address.Parse(a.GetAddress())
		if perr != nil {
			out["unparsable:"+a.GetAddress()] = a
			continue
		}
		out[addr.Name()] = a
	}
	return out, nil
}

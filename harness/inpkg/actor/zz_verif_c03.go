//go:build verif

package actor

import (
	"strconv"
	"sync"
)

// VerifC03Msg is the payload of the C03 mailbox harness: message Seq of sender Sender.
type VerifC03Msg struct{ Sender, Seq int }

var (
	verifC03Mu      sync.Mutex
	verifC03Senders = map[int]*PID{}
)

// verifC03Sender returns a bare PID whose ID() is "c03s<key>" (the fair mailbox keys sub-queues by Sender().ID()).
func verifC03Sender(key int) *PID {
	verifC03Mu.Lock()
	defer verifC03Mu.Unlock()
	if p, ok := verifC03Senders[key]; ok {
		return p
	}
	s := "c03s" + strconv.Itoa(key)
	p := &PID{path: &path{name: s, cachedStr: s}}
	verifC03Senders[key] = p
	return p
}

// VerifC03Context builds a bare ReceiveContext (no pooling) carrying (sender, seq).
func VerifC03Context(sender, seq int) *ReceiveContext {
	return &ReceiveContext{message: &VerifC03Msg{Sender: sender, Seq: seq}, sender: verifC03Sender(sender)}
}

// VerifC03Decode returns (sender, seq) of rc, ok=false when rc carries no harness message.
func VerifC03Decode(rc *ReceiveContext) (int, int, bool) {
	if rc == nil {
		return 0, 0, false
	}
	if m, ok := rc.message.(*VerifC03Msg); ok && m != nil {
		return m.Sender, m.Seq, true
	}
	return 0, 0, false
}

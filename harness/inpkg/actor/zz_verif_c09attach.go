//go:build verif

package actor

import (
	"context"
	"fmt"
	"strconv"
	"strings"
	"sync"
	"sync/atomic"
	"time"
)

// ---------------------------------------------------------------------------------------------------------
// `attach top|child <wait_ms>` — an actor whose PostStart handler spawns a child, while the goroutine that
// spawns the actor itself is held between "actor started" and "actor attached to the tree".
//
// The hold is a gate the C09 build inserts (check.py REWRITE, build-time only, nothing in /repo) in front of
// completeSpawn in actorSystem.Spawn (variant top) and PID.spawnChildLocal (variant child). The gate waits
// until the PostStart handler has spawned its child, or for <wait_ms>: on code that lets the handler run
// before the attachment the child is then inserted under a parent the tree does not know ("parent pid does
// not exist", ignored by attachAndPublish) and lives outside the tree: not resolvable, not a child of its
// parent, not stopped with it. On code that processes PostStart only once the actor is attached the gate just
// times out. Everything after the gate is awaited positively, so the outcome does not depend on timing.
// (The unforced race was hit once by the C21 harness on a loaded machine; see design/C09.md.)
// ---------------------------------------------------------------------------------------------------------

var verifAttachGateFn atomic.Pointer[func(*PID)]

// verifAttachGate is the call the rewritten spawn paths make right before completeSpawn.
func verifAttachGate(pid *PID) {
	if f := verifAttachGateFn.Load(); f != nil {
		(*f)(pid)
	}
}

type verifAttachLog struct {
	mu    sync.Mutex
	stops []string
}

func (l *verifAttachLog) stop(name string) {
	l.mu.Lock()
	l.stops = append(l.stops, name)
	l.mu.Unlock()
}

func (l *verifAttachLog) order() string {
	l.mu.Lock()
	defer l.mu.Unlock()
	return strings.Join(l.stops, ",")
}

// verifAttachLeaf does nothing.
type verifAttachLeaf struct {
	name string
	log  *verifAttachLog
}

func (a *verifAttachLeaf) PreStart(*Context) error { return nil }
func (a *verifAttachLeaf) Receive(ctx *ReceiveContext) {
	switch ctx.Message().(type) {
	case *PostStart:
	default:
		ctx.Unhandled()
	}
}
func (a *verifAttachLeaf) PostStop(*Context) error { a.log.stop(a.name); return nil }

// verifAttachParent spawns the child K from its PostStart handler.
type verifAttachParent struct {
	log     *verifAttachLog
	kid     atomic.Pointer[PID]
	spawned chan struct{}
}

func (a *verifAttachParent) PreStart(*Context) error { return nil }
func (a *verifAttachParent) Receive(ctx *ReceiveContext) {
	switch ctx.Message().(type) {
	case *PostStart:
		if kid := ctx.Spawn("K", &verifAttachLeaf{name: "K", log: a.log}, WithLongLived()); kid != nil {
			a.kid.Store(kid)
		}
		close(a.spawned)
	default:
		ctx.Unhandled()
	}
}
func (a *verifAttachParent) PostStop(*Context) error { a.log.stop("P"); return nil }

func verifB(b bool) int {
	if b {
		return 1
	}
	return 0
}

// VerifC09AttachCase runs one `attach` case. Output:
//
//	reg=<K resolves by name to the PID the handler got>;par=<the tree's parent of K is P>;chi=<P.Children() has K>
//	|krun=<K still running after the stop returned>;kps=<K's PostStop ran>;order=<PostStop order>;early=<handler ran before the attachment>
func VerifC09AttachCase(fields []string) string {
	if len(fields) != 3 || (fields[1] != "top" && fields[1] != "child") {
		return "bad-case"
	}
	waitMs, err := strconv.Atoi(fields[2])
	if err != nil || waitMs < 1 || waitMs > 5000 {
		return "bad-case"
	}
	ctx := context.Background()
	sysI, err := NewActorSystem(fmt.Sprintf("va%d", verifSysSeq.Add(1)), WithLoggingDisabled())
	if err != nil {
		return "CRASH system: " + err.Error()
	}
	if err := sysI.Start(ctx); err != nil {
		return "CRASH start: " + err.Error()
	}
	sys := sysI.(*actorSystem)
	defer func() { _ = sys.Stop(ctx) }()
	for _, g := range []*PID{sys.rootGuardian, sys.systemGuardian, sys.userGuardian, sys.deathWatch, sys.deadletter, sys.noSender} {
		if g != nil {
			verifQuiesce(g)
		}
	}

	lg := &verifAttachLog{}
	parent := &verifAttachParent{log: lg, spawned: make(chan struct{})}
	var early atomic.Bool
	gate := func(pid *PID) {
		if pid.Name() != "P" {
			return
		}
		select {
		case <-parent.spawned:
			early.Store(true)
		case <-time.After(time.Duration(waitMs) * time.Millisecond):
		}
	}
	verifAttachGateFn.Store(&gate)
	defer verifAttachGateFn.Store(nil)

	var top, p *PID // top is what the case stops at the end
	if fields[1] == "top" {
		p, err = sys.Spawn(ctx, "P", parent, WithLongLived())
		top = p
	} else {
		var g *PID
		g, err = sys.Spawn(ctx, "G", &verifAttachLeaf{name: "G", log: lg}, WithLongLived())
		if err != nil {
			return "CRASH spawn G: " + err.Error()
		}
		top = g
		p, err = g.SpawnChild(ctx, "P", parent, WithLongLived())
	}
	if err != nil {
		return "CRASH spawn P: " + err.Error()
	}
	select {
	case <-parent.spawned:
	case <-time.After(60 * time.Second):
		return "CRASH the PostStart handler of P did not run"
	}
	verifQuiesce(p)
	kid := parent.kid.Load()
	if kid == nil {
		return "nokid;early=" + strconv.Itoa(verifB(early.Load()))
	}
	verifQuiesce(kid)

	reg, par, chi := false, false, false
	if got, err := sys.ActorOf(ctx, "K"); err == nil && got == kid {
		reg = true
	}
	if n, ok := sys.actors.node(kid.ID()); ok && n.value() == kid {
		if pp, ok := sys.actors.parent(kid); ok && pp == p {
			par = true
		}
	}
	for _, c := range p.Children() {
		if c == kid {
			chi = true
		}
	}
	out := fmt.Sprintf("reg=%d;par=%d;chi=%d", verifB(reg), verifB(par), verifB(chi))

	if err := top.Shutdown(ctx); err != nil {
		return out + "|CRASH shutdown: " + err.Error()
	}
	krun := kid.IsRunning()
	order := lg.order()
	kps := false
	for _, s := range strings.Split(order, ",") {
		if s == "K" {
			kps = true
		}
	}
	out += fmt.Sprintf("|krun=%d;kps=%d;order=%s;early=%d", verifB(krun), verifB(kps), order, verifB(early.Load()))
	if krun {
		// do not leave the orphan behind
		_ = kid.Shutdown(ctx)
	}
	return out
}

//go:build verif

package actor

// C09/C10 in-package scenario runner: scripted spawn / watch / unwatch / stop / restart sequences on a
// REAL started actor system, issued from one goroutine with explicit quiescence points
// (an actor is quiescent when its mailbox is empty and its dispatch state is idle).
//
//   sys <op>...
//     S:x       system.Spawn(x)                C:p:x   p.SpawnChild(x)
//     W:a:b     a.Watch(b)                     U:a:b   a.UnWatch(b)
//     K:x       x.Shutdown()                   P:x     Tell(x, PoisonPill), wait until x is offline
//     T:p:x     p.Stop(x)                      Q:x     system.Kill(name of x)
//     R:x       x.Restart()                    Z       system.Stop()
//     H:x:p:y   hook: when PostStop of x runs, call p.SpawnChild(y) from inside it (p = x or an ancestor of x that the
//               next stop takes down: a spawn that lands while p is in the middle of its stop). The stop op then
//               prints hook=<y>:ok|err; a child that was accepted is tracked like any other actor of the subtree.
//     F:x       x fails (its Receive panics on a verifFail message) under a supervisor WITHOUT any directive:
//               notifyParent finds no directive and SUSPENDS x (alive, IsSuspended, not IsRunning); waits for that
//
// Output: one segment per op joined by '#'.  Stop-like ops print
//   <op>:order=<PostStop order>;run=<subtree actors still running when the call returned>;
//        res=<0|1 ActorOf still resolves x at return>;reg=<0|1 x still registered at return>;
//        left=<stopped actors still registered once death watch is quiescent>;late=<0|1 ActorOf resolves x then>
// and the last segment is  end:term=<watcher>><about>=<n>,...;tree=<registered user actors>
// Only order/run/left/late/term/tree are compared or judged; res/reg are diagnostics of the named race.

import (
	"context"
	"fmt"
	"os"
	"runtime"
	"sort"
	"strings"
	"sync"
	"sync/atomic"
	"time"

	"github.com/tochemey/goakt/v4/log"
	"github.com/tochemey/goakt/v4/supervisor"
)

type verifScenario struct {
	mu    sync.Mutex
	order []string
	term  map[string]int
	// hooks[x] runs inside PostStop of actor x (i.e. while x and, if x is stopped as part of a subtree, its
	// ancestors are in the middle of their stop); hookRes collects what the hooks report
	hooks   map[string]func() string
	hookRes []string
}

func (sc *verifScenario) postStop(name string) {
	sc.mu.Lock()
	sc.order = append(sc.order, name)
	sc.mu.Unlock()
}

func (sc *verifScenario) terminated(watcher, about string) {
	sc.mu.Lock()
	sc.term[watcher+">"+about]++
	sc.mu.Unlock()
}

type verifSysActor struct {
	sc   *verifScenario
	name string
}

func (a *verifSysActor) PreStart(*Context) error { return nil }
type verifFail struct{}

// verifBareSupervisor has no directive at all: a failure leaves the actor suspended.
func verifBareSupervisor() *supervisor.Supervisor {
	sup := supervisor.NewSupervisor()
	sup.Reset()
	return sup
}

func (a *verifSysActor) Receive(ctx *ReceiveContext) {
	switch m := ctx.Message().(type) {
	case *verifFail:
		panic("verif scripted failure")
	case *Terminated:
		a.sc.terminated(a.name, m.ActorPath().Name())
	default:
		_ = m
	}
}
func (a *verifSysActor) PostStop(*Context) error {
	a.sc.postStop(a.name)
	a.sc.mu.Lock()
	h := a.sc.hooks[a.name]
	delete(a.sc.hooks, a.name)
	a.sc.mu.Unlock()
	if h != nil {
		res := h()
		a.sc.mu.Lock()
		a.sc.hookRes = append(a.sc.hookRes, res)
		a.sc.mu.Unlock()
	}
	return nil
}

var verifSysSeq atomic.Int64

const verifWait = 60 * time.Second

// verifQuiesce waits until pid has empty mailboxes (regular and system/control) and an idle dispatch state.
func verifQuiesce(pid *PID) bool {
	deadline := time.Now().Add(verifWait)
	for {
		if pid.mailbox == nil || (pid.mailbox.IsEmpty() && (pid.systemMailbox == nil || pid.systemMailbox.IsEmpty()) &&
			pid.schedState.Load() == dispatchIdle) {
			return true
		}
		if time.Now().After(deadline) {
			return false
		}
		runtime.Gosched()
		time.Sleep(50 * time.Microsecond)
	}
}

type verifSysRun struct {
	sys      *actorSystem
	sc       *verifScenario
	pids     map[string]*PID
	parent   map[string]string
	children map[string][]string
}

func (r *verifSysRun) subtree(x string) []string {
	out := []string{x}
	for _, c := range r.children[x] {
		out = append(out, r.subtree(c)...)
	}
	return out
}

func (r *verifSysRun) takeHooks() string {
	r.sc.mu.Lock()
	h := r.sc.hookRes
	r.sc.hookRes = nil
	r.sc.mu.Unlock()
	sort.Strings(h)
	return strings.Join(h, ",")
}

func (r *verifSysRun) takeOrder() []string {
	r.sc.mu.Lock()
	o := r.sc.order
	r.sc.order = nil
	r.sc.mu.Unlock()
	return o
}

// resolvable: 1 if ActorOf(name) returns a PID, 0 if not, 2 if ActorOf PANICS: it reads node.value() after
// releasing the tree lock and calls pid.IsStopping() on it; when death watch clears the node in between,
// the PID is nil (finding C09-F2; the deterministic witness is the `resolve` case).
func (r *verifSysRun) resolvable(ctx context.Context, x string) (res int) {
	defer func() {
		if recover() != nil {
			res = 2
		}
	}()
	if got, err := r.sys.ActorOf(ctx, x); err == nil && got != nil {
		return 1
	}
	return 0
}

// observe is called right after a stop-like call on x returned.
func (r *verifSysRun) observe(op, x string, waitOffline bool) string {
	ctx := context.Background()
	pid := r.pids[x]
	if waitOffline {
		deadline := time.Now().Add(verifWait)
		for pid.isStateSet(runningState) && time.Now().Before(deadline) {
			time.Sleep(50 * time.Microsecond)
		}
	}
	sub := r.subtree(x)
	var run []string
	for _, n := range sub {
		if p := r.pids[n]; p != nil && (p.isStateSet(runningState) || p.IsRunning()) {
			run = append(run, n)
		}
	}
	res, reg := r.resolvable(ctx, x), 0
	if _, ok := r.sys.actors.node(pid.ID()); ok {
		reg = 1
	}
	// death watch was sent every Terminated before the stop returned: wait until it handled them
	dwok := verifQuiesce(r.sys.deathWatch)
	var left []string
	for _, n := range sub {
		p := r.pids[n]
		if p == nil {
			continue
		}
		if node, ok := r.sys.actors.node(p.ID()); ok && node.value() == p {
			left = append(left, n)
		}
	}
	late := r.resolvable(ctx, x)
	order := r.takeOrder()
	sort.Strings(run)
	sort.Strings(left)
	s := fmt.Sprintf("%s:order=%s;run=%s;res=%d;reg=%d;left=%s;late=%d", op, strings.Join(order, ","), strings.Join(run, ","), res, reg, strings.Join(left, ","), late)
	if hk := r.takeHooks(); hk != "" {
		s += ";hook=" + hk
	}
	if !dwok {
		s += ";dw=timeout"
	}
	return s
}

// settle lets every running scenario actor drain its mailbox, so that a Terminated that was enqueued by an
// earlier op has been received before the next op (which may stop the receiver) begins.
func (r *verifSysRun) settle() {
	for _, p := range r.pids {
		if p.IsRunning() {
			verifQuiesce(p)
		}
	}
}

func (r *verifSysRun) op(tok string) string {
	ctx := context.Background()
	f := strings.Split(tok, ":")
	r.settle()
	switch f[0] {
	case "S":
		pid, err := r.sys.Spawn(ctx, f[1], &verifSysActor{sc: r.sc, name: f[1]}, WithLongLived(), WithSupervisor(verifBareSupervisor()))
		if err != nil {
			return "S:err=" + err.Error()
		}
		r.pids[f[1]] = pid
		return "S:ok"
	case "C":
		p := r.pids[f[1]]
		if p == nil {
			return "C:nopid"
		}
		pid, err := p.SpawnChild(ctx, f[2], &verifSysActor{sc: r.sc, name: f[2]}, WithLongLived(), WithSupervisor(verifBareSupervisor()))
		if err != nil {
			return "C:err=" + verifErr(err)
		}
		r.pids[f[2]] = pid
		r.parent[f[2]] = f[1]
		r.children[f[1]] = append(r.children[f[1]], f[2])
		return "C:ok"
	case "H":
		if len(f) != 4 || r.pids[f[1]] == nil || r.pids[f[2]] == nil {
			return "H:nopid"
		}
		x, pn, y := f[1], f[2], f[3]
		r.sc.mu.Lock()
		if r.sc.hooks == nil {
			r.sc.hooks = map[string]func() string{}
		}
		r.sc.hooks[x] = func() string {
			cid, err := r.pids[pn].SpawnChild(context.Background(), y, &verifSysActor{sc: r.sc, name: y}, WithLongLived(), WithSupervisor(verifBareSupervisor()))
			if err != nil {
				return y + ":err"
			}
			r.sc.mu.Lock()
			r.pids[y] = cid
			r.parent[y] = pn
			r.children[pn] = append(r.children[pn], y)
			r.sc.mu.Unlock()
			return y + ":ok"
		}
		r.sc.mu.Unlock()
		return "H:ok"
	case "F":
		p := r.pids[f[1]]
		if p == nil {
			return "F:nopid"
		}
		if err := Tell(ctx, p, new(verifFail)); err != nil {
			return "F:err=" + verifErr(err)
		}
		deadline := time.Now().Add(verifWait)
		for !p.IsSuspended() {
			if time.Now().After(deadline) {
				return "F:err=not_suspended"
			}
			time.Sleep(50 * time.Microsecond)
		}
		return "F:ok"
	case "W":
		a, b := r.pids[f[1]], r.pids[f[2]]
		if a == nil || b == nil {
			return "W:nopid"
		}
		a.Watch(b)
		return "W:ok"
	case "U":
		a, b := r.pids[f[1]], r.pids[f[2]]
		if a == nil || b == nil {
			return "U:nopid"
		}
		a.UnWatch(b)
		return "U:ok"
	case "K":
		p := r.pids[f[1]]
		if p == nil {
			return "K:nopid"
		}
		if err := p.Shutdown(ctx); err != nil {
			return "K:err=" + verifErr(err)
		}
		return r.observe("K", f[1], false)
	case "P":
		p := r.pids[f[1]]
		if p == nil {
			return "P:nopid"
		}
		if err := Tell(ctx, p, new(PoisonPill)); err != nil {
			return "P:err=" + verifErr(err)
		}
		return r.observe("P", f[1], true)
	case "T":
		p, c := r.pids[f[1]], r.pids[f[2]]
		if p == nil || c == nil {
			return "T:nopid"
		}
		if err := p.Stop(ctx, c); err != nil {
			return "T:err=" + verifErr(err)
		}
		return r.observe("T", f[2], false)
	case "Q":
		if r.pids[f[1]] == nil {
			return "Q:nopid"
		}
		if err := r.sys.Kill(ctx, f[1]); err != nil {
			return "Q:err=" + verifErr(err)
		}
		return r.observe("Q", f[1], false)
	case "R":
		p := r.pids[f[1]]
		if p == nil {
			return "R:nopid"
		}
		if err := p.Restart(ctx); err != nil {
			return "R:err=" + verifErr(err)
		}
		verifQuiesce(r.sys.deathWatch)
		order := r.takeOrder()
		// the restarted actors must be registered again under the same PID objects; if the death watch
		// handled the restart's Terminated only after the re-attach, it removed them (a race in Restart
		// that this harness cannot steer): report it, the case is then inconclusive.
		lost := []string{}
		for _, n := range r.subtree(f[1]) {
			q := r.pids[n]
			if node, ok := r.sys.actors.node(q.ID()); !ok || node.value() != q {
				lost = append(lost, n)
			}
		}
		s := "R:order=" + strings.Join(order, ",")
		if len(lost) > 0 {
			sort.Strings(lost)
			s += ";lost=" + strings.Join(lost, ",")
		}
		return s
	case "Z":
		err := r.sys.Stop(ctx)
		order := r.takeOrder()
		var run []string
		for n, p := range r.pids {
			if p.isStateSet(runningState) {
				run = append(run, n)
			}
		}
		sort.Strings(run)
		s := fmt.Sprintf("Z:order=%s;run=%s", strings.Join(order, ","), strings.Join(run, ","))
		if err != nil {
			s += ";err=" + verifErr(err)
		}
		return s
	}
	return "bad-op"
}

func verifErr(err error) string {
	s := err.Error()
	if i := strings.Index(s, "\n"); i >= 0 {
		s = s[:i]
	}
	return strings.ReplaceAll(strings.ReplaceAll(s, " ", "_"), "#", "_")
}

// VerifC09SysCase runs `sys <op>...` on a fresh actor system.
func VerifC09SysCase(fields []string) string {
	ctx := context.Background()
	logOpt := WithLoggingDisabled()
	if os.Getenv("VERIF_LOG") != "" {
		logOpt = WithLogger(log.NewSlog(log.DebugLevel, os.Stderr))
	}
	sysI, err := NewActorSystem(fmt.Sprintf("vs%d", verifSysSeq.Add(1)), logOpt)
	if err != nil {
		return "CRASH new-system: " + err.Error()
	}
	if err := sysI.Start(ctx); err != nil {
		return "CRASH start: " + err.Error()
	}
	sys := sysI.(*actorSystem)
	// let every system actor handle its PostStart first: `Terminated` is a control message and overtakes
	// a PostStart that is still queued (see findings/C09.json, C09-F1)
	for _, g := range []*PID{sys.rootGuardian, sys.systemGuardian, sys.userGuardian, sys.deathWatch, sys.deadletter, sys.noSender} {
		if g != nil {
			verifQuiesce(g)
		}
	}
	r := &verifSysRun{sys: sys, sc: &verifScenario{term: map[string]int{}}, pids: map[string]*PID{}, parent: map[string]string{}, children: map[string][]string{}}
	stopped := false
	var segs []string
	for _, tok := range fields[1:] {
		res := r.op(tok)
		if res == "bad-op" {
			if !stopped {
				_ = sys.Stop(ctx)
			}
			return "bad-case"
		}
		if strings.HasPrefix(tok, "Z") {
			stopped = true
		}
		segs = append(segs, res)
	}
	// quiescence: every scenario actor that is still running has drained its mailbox
	if !stopped {
		for _, p := range r.pids {
			if p.IsRunning() {
				verifQuiesce(p)
			}
		}
		// the user guardian and friends are not observed; death watch once more
		verifQuiesce(sys.deathWatch)
	}
	r.sc.mu.Lock()
	var terms []string
	for k, n := range r.sc.term {
		terms = append(terms, fmt.Sprintf("%s=%d", k, n))
	}
	r.sc.mu.Unlock()
	sort.Strings(terms)
	var reg []string
	if !stopped {
		for n, p := range r.pids {
			if node, ok := sys.actors.node(p.ID()); ok && node.value() == p {
				reg = append(reg, n)
			}
		}
	}
	sort.Strings(reg)
	segs = append(segs, "end:term="+strings.Join(terms, ",")+";tree="+strings.Join(reg, ","))
	if !stopped {
		_ = sys.Stop(ctx)
	}
	return strings.Join(segs, "#")
}

// VerifC09GuardCase: `guard user|root` — a freshly constructed guardian handles a `Terminated` BEFORE its
// PostStart (possible on the real system: Terminated is a control message, drained from the system mailbox
// ahead of the PostStart that is still queued in the regular mailbox).  Prints `ok`, or `panic: ...`.
func VerifC09GuardCase(fields []string) string {
	if len(fields) < 2 {
		return "bad-case"
	}
	sys := verifC09System()
	rc := getContext()
	self := &PID{address: sys.noSender.address, path: sys.noSender.path, actorSystem: sys, logger: log.DiscardLogger}
	msg := NewTerminated(sys.noSender.Path())
	rc.build(context.Background(), sys.noSender, self, msg, true)
	overtakes := isControlMessage(msg) && !isControlMessage(new(PostStart))
	var a Actor
	switch fields[1] {
	case "user":
		a = newUserGuardian()
	case "root":
		a = newRootGuardian()
	case "system":
		a = newSystemGuardian()
	default:
		return "bad-case"
	}
	res := "ok"
	func() {
		defer func() {
			if r := recover(); r != nil {
				res = "panic: " + strings.SplitN(fmt.Sprint(r), "\n", 2)[0]
			}
		}()
		a.Receive(rc)
	}()
	return fmt.Sprintf("overtakes=%v;%s", overtakes, res)
}

// ---------------------------------------------------------------------------------------------------------
// `resolve | A ; D | schedule` — name resolution racing death watch, under controlled scheduling (engine E3:
// pid_tree.go's node/nodeByName/deleteNode/value are instrumented with vsched points).
// Thread ops: A = ActorOf("r1"), E = ActorExists("r1"), K = Kill("r1"), D = tree.deleteNode(r1) (what death
// watch does when it handles Terminated(r1)).
// ---------------------------------------------------------------------------------------------------------

type VerifC09Resolve struct {
	sys *actorSystem
	pid *PID
}

func NewVerifC09Resolve() *VerifC09Resolve {
	ctx := context.Background()
	sysI, err := NewActorSystem(fmt.Sprintf("vr%d", verifSysSeq.Add(1)), WithLoggingDisabled())
	if err != nil {
		return nil
	}
	if err := sysI.Start(ctx); err != nil {
		return nil
	}
	sys := sysI.(*actorSystem)
	for _, g := range []*PID{sys.rootGuardian, sys.systemGuardian, sys.userGuardian, sys.deathWatch, sys.deadletter, sys.noSender} {
		if g != nil {
			verifQuiesce(g)
		}
	}
	pid, err := sys.Spawn(ctx, "r1", &verifSysActor{sc: &verifScenario{term: map[string]int{}}, name: "r1"}, WithLongLived())
	if err != nil {
		_ = sys.Stop(ctx)
		return nil
	}
	verifQuiesce(pid)
	return &VerifC09Resolve{sys: sys, pid: pid}
}

func (v *VerifC09Resolve) Do(tid int, op string) string {
	ctx := context.Background()
	switch op {
	case "A":
		got, err := v.sys.ActorOf(ctx, "r1")
		if err != nil {
			return "notfound"
		}
		if got == nil {
			return "nil"
		}
		return "found"
	case "E":
		ok, err := v.sys.ActorExists(ctx, "r1")
		if err != nil {
			return "err"
		}
		return fmt.Sprint(ok)
	case "D":
		v.sys.actors.deleteNode(v.pid)
		return "ok"
	}
	return "bad-op"
}

func (v *VerifC09Resolve) Final() string {
	_ = v.sys.Stop(context.Background())
	return "-"
}

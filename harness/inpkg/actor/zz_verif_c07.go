//go:build verif

package actor

// In-package accessors of the C07 (supervision) harness. Add-only.

// VerifC07Idle reports whether pid has no turn in progress and nothing queued:
// dispatch state idle and both mailboxes empty.
func VerifC07Idle(pid *PID) bool {
	if pid == nil {
		return true
	}
	return pid.schedState.Load() == dispatchIdle && pid.mailbox.IsEmpty() && pid.systemMailbox.IsEmpty()
}

// VerifC07DeathWatch returns the death-watch system actor.
func VerifC07DeathWatch(sys ActorSystem) *PID {
	return sys.getDeathWatch()
}

// VerifC07Faults returns the consecutive-fault counter and the last-fault stamp
// (0 never, 1 aged by the harness, 2 a real clock reading).
func VerifC07Faults(pid *PID) (int64, int) {
	last := pid.lastFaultAtNano.Load()
	k := 2
	if last == 0 {
		k = 0
	} else if last == 1 {
		k = 1
	}
	return pid.consecutiveFaults.Load(), k
}

// VerifC07Age moves the last fault of pid far into the past (1ns after the epoch),
// so that any positive reset window has certainly elapsed. No-op when pid never faulted.
func VerifC07Age(pid *PID) {
	if pid.lastFaultAtNano.Load() != 0 {
		pid.lastFaultAtNano.Store(1)
	}
}

//go:build verif

package actor

import (
	"sync/atomic"
	"unsafe"
)

var _ = unsafe.Pointer(nil)

// VerifC13CtxErr returns the error recorded on the context by Stash/Unstash/UnstashAll (ReceiveContext.getError).
func VerifC13CtxErr(rctx *ReceiveContext) error {
	return rctx.getError()
}

// VerifC13MailboxChain returns the ReceiveContext objects linked in an UnboundedMailbox, sentinel first
// (consumer-side use only; at most max entries, so a cyclic chain terminates).
func VerifC13MailboxChain(m *UnboundedMailbox, max int) []*ReceiveContext {
	var out []*ReceiveContext
	for p := (*ReceiveContext)(atomic.LoadPointer(&m.head)); p != nil && len(out) < max; p = (*ReceiveContext)(atomic.LoadPointer(&p.next)) {
		out = append(out, p)
	}
	return out
}

// VerifC13StashChain is the same for pid's stash mailbox (nil when there is no stash buffer).
func VerifC13StashChain(pid *PID, max int) []*ReceiveContext {
	if pid.stashState == nil || pid.stashState.box == nil {
		return nil
	}
	return VerifC13MailboxChain(pid.stashState.box, max)
}

// VerifC13PoolSnapshot returns the contexts that are free in the global pool right now (they are taken
// out and put back; a concurrent getContext that finds the pool empty meanwhile just allocates).
func VerifC13PoolSnapshot() []*ReceiveContext {
	var out []*ReceiveContext
	for {
		select {
		case c := <-contextCh:
			out = append(out, c)
			continue
		default:
		}
		break
	}
	for _, c := range out {
		select {
		case contextCh <- c:
		default:
		}
	}
	return out
}

// VerifC13PoolKeepLast empties the global context pool and puts back only the n most recently recycled
// contexts (what a busy system with a full pool does anyway: older ones are dropped for the GC). The next
// Tells therefore reuse exactly the contexts the previous deliveries used, so state that a recycled context
// wrongly keeps (anything reset() forgets) shows up at once instead of after thousands of messages.
func VerifC13PoolKeepLast(n int) {
	all := VerifC13PoolSnapshotDrain()
	if n < 0 { // -k: drop only the k oldest
		k := -n
		if k > len(all) {
			k = len(all)
		}
		all = all[k:]
	} else if len(all) > n {
		all = all[len(all)-n:]
	}
	for _, c := range all {
		select {
		case contextCh <- c:
		default:
		}
	}
}

// VerifC13PoolSnapshotDrain takes every free context out of the pool (oldest first).
func VerifC13PoolSnapshotDrain() []*ReceiveContext {
	var out []*ReceiveContext
	for {
		select {
		case c := <-contextCh:
			out = append(out, c)
			continue
		default:
		}
		return out
	}
}

//go:build verif

package actor

import (
	"sync/atomic"
	"unsafe"
)

var _ = unsafe.Pointer(nil)

// VerifC13CtxErr returns the error recorded on the context by Stash/Unstash/UnstashAll (ReceiveContext.getError).
func VerifC13CtxErr(rctx *ReceiveContext) error {
	return rctx.getError()
}

// VerifC13MailboxChain returns the ReceiveContext objects linked in an UnboundedMailbox, sentinel first
// (consumer-side use only; at most max entries, so a cyclic chain terminates).
func VerifC13MailboxChain(m *UnboundedMailbox, max int) []*ReceiveContext {
	var out []*ReceiveContext
	for p := (*ReceiveContext)(atomic.LoadPointer(&m.head)); p != nil && len(out) < max; p = (*ReceiveContext)(atomic.LoadPointer(&p.next)) {
		out = append(out, p)
	}
	return out
}

// VerifC13StashChain is the same for pid's stash mailbox (nil when there is no stash buffer).
func VerifC13StashChain(pid *PID, max int) []*ReceiveContext {
	if pid.stashState == nil || pid.stashState.box == nil {
		return nil
	}
	return VerifC13MailboxChain(pid.stashState.box, max)
}

// VerifC13PoolSnapshot returns the contexts that are free in the global pool right now (they are taken
// out and put back; a concurrent getContext that finds the pool empty meanwhile just allocates).
func VerifC13PoolSnapshot() []*ReceiveContext {
	var out []*ReceiveContext
	for {
		select {
		case c := <-contextCh:
			out = append(out, c)
			continue
		default:
		}
		break
	}
	for _, c := range out {
		select {
		case contextCh <- c:
		default:
		}
	}
	return out
}

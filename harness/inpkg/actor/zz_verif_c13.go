//go:build verif

package actor

// VerifC13CtxErr returns the error recorded on the context by Stash/Unstash/UnstashAll (ReceiveContext.getError).
func VerifC13CtxErr(rctx *ReceiveContext) error {
	return rctx.getError()
}

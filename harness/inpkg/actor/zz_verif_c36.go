//go:build verif

// Verification hook for C36 (overlay-only, add-only): a REAL started actor system per node whose
// cluster engine (goakt's real *cluster over the shared fake registry), cluster identity and
// remoting client are injected after Start, so SpawnSingleton runs goakt's own code end to end
// without olric and without sockets.
package actor

import (
	"context"
	"fmt"
	"time"

	"github.com/tochemey/goakt/v4/discovery"
	"github.com/tochemey/goakt/v4/internal/cluster"
	"github.com/tochemey/goakt/v4/internal/remoteclient"
	"github.com/tochemey/goakt/v4/log"
	"github.com/tochemey/goakt/v4/remote"
)

// VerifSingletonNode is one node of the fake cluster.
type VerifSingletonNode struct {
	Sys ActorSystem
	Idx int
}

// VerifNewSingletonNode starts node idx and wires it to the cluster engine cl and the remoting client rem.
func VerifNewSingletonNode(ctx context.Context, idx int, cl cluster.Cluster, dnode *discovery.Node, rem remoteclient.Client) (*VerifSingletonNode, error) {
	sys, err := NewActorSystem("c36", WithLogger(log.DiscardLogger))
	if err != nil {
		return nil, err
	}
	if err := sys.Start(ctx); err != nil {
		return nil, err
	}
	if !VerifWaitGuardians(sys, 10*time.Second) {
		_ = sys.Stop(ctx)
		return nil, fmt.Errorf("guardians not ready")
	}
	x := sys.(*actorSystem)
	x.locker.Lock()
	x.cluster = cl
	x.clusterNode = dnode
	x.remoteConfig = remote.NewConfig(dnode.Host, dnode.RemotingPort)
	x.remoting = rem
	x.locker.Unlock()
	x.clusterEnabled.Store(true)
	if err := x.spawnSingletonManager(ctx); err != nil {
		_ = sys.Stop(ctx)
		return nil, err
	}
	if m := x.getSingletonManager(); m != nil {
		deadline := time.Now().Add(10 * time.Second)
		for m.ProcessedCount() < 1 && time.Now().Before(deadline) {
			time.Sleep(100 * time.Microsecond)
		}
	}
	return &VerifSingletonNode{Sys: sys, Idx: idx}, nil
}

// Close detaches the fake cluster and stops the node.
func (n *VerifSingletonNode) Close(ctx context.Context) {
	x := n.Sys.(*actorSystem)
	x.clusterEnabled.Store(false)
	_ = n.Sys.Stop(ctx)
}

// LocalSingleton returns the PID registered in the local tree under name, if any.
func (n *VerifSingletonNode) LocalSingleton(name string) (*PID, bool) {
	x := n.Sys.(*actorSystem)
	node, ok := x.actors.nodeByName(name)
	if !ok {
		return nil, false
	}
	pid := node.value()
	return pid, pid != nil
}

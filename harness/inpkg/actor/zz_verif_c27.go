//go:build verif

package actor

import (
	"errors"

	"github.com/tochemey/goakt/v4/internal/internalpb"
)

// VerifFanout drives the coalesced-failure fan-out (enqueueCoalescedFailure /
// drainCoalescedFailures, actor/remote_server.go) of a started, remoting-enabled actor system
// step by step. Add-only accessor for the C27 harness; no outbound coalescer is active in the
// harness system, so nothing else touches the queue field meanwhile.
type VerifFanout struct{ x *actorSystem }

func VerifFanoutOf(sys ActorSystem) (VerifFanout, bool) {
	x, ok := sys.(*actorSystem)
	return VerifFanout{x}, ok && x.remoting != nil
}

// RealCap restarts the fan-out the way the system does and reports the capacity of the queue it creates.
func (v VerifFanout) RealCap() int {
	v.x.stopCoalescedFailureDrain()
	v.x.startCoalescedFailureDrain()
	c := cap(v.x.coalescedFailureQueue)
	v.x.stopCoalescedFailureDrain()
	return c
}

// Install replaces the queue by one of the given size WITHOUT a drain goroutine, so that
// hand-offs accumulate deterministically.
func (v VerifFanout) Install(size int) {
	v.x.stopCoalescedFailureDrain()
	v.x.coalescedFailureQueue = make(chan coalescedFailure, size)
}

// Enqueue calls the real error handler with a failed batch.
func (v VerifFanout) Enqueue(dest string, msgs []*internalpb.RemoteMessage) {
	v.x.enqueueCoalescedFailure(dest, msgs, errors.New("scripted transport failure"))
}

func (v VerifFanout) QueueLen() int { return len(v.x.coalescedFailureQueue) }

func (v VerifFanout) SetShuttingDown(b bool) { v.x.shuttingDown.Store(b) }

// Drain runs the real drain goroutine over what is queued and waits for it (the way
// stopCoalescedFailureDrain does at shutdown), then restores a normal running fan-out.
func (v VerifFanout) Drain() {
	v.x.coalescedFailureWG.Add(1)
	go v.x.drainCoalescedFailures()
	v.x.stopCoalescedFailureDrain()
	v.x.startCoalescedFailureDrain()
}

//go:build verif

package actor

import (
	"context"
	"sync/atomic"

	"github.com/tochemey/goakt/v4/hash"
)

// VerifRing wraps the unexported consistentHashRing.
type VerifRing struct{ r *consistentHashRing }

// VerifNewRing builds a ring with the given hasher (nil = default xxh3) and virtual node count.
func VerifNewRing(h hash.Hasher, vn int) *VerifRing {
	return &VerifRing{r: newConsistentHashRing(h, vn)}
}

func (v *VerifRing) Set(members []string)      { v.r.set(members) }
func (v *VerifRing) Lookup(key string) string  { return v.r.lookup(key) }
func (v *VerifRing) Len() int                  { return v.r.len() }
func (v *VerifRing) KeyHash(key string) uint64 { return v.r.hasher.HashCode(stringToBytes(key)) }

// Dump returns the sorted keys slice and, for each, the map entry.
func (v *VerifRing) Dump() ([]uint64, []string) {
	keys := append([]uint64(nil), v.r.keys...)
	owners := make([]string, len(keys))
	for i, k := range keys {
		owners[i] = v.r.ring[k]
	}
	return keys, owners
}

// VerifRouter gives access to a spawned router actor's state. Its methods must only be used while
// the router is idle (after a request/response barrier): they run on the caller's goroutine.
type VerifRouter struct {
	x    *router
	pid  *PID
	last []*PID
}

// VerifRouterOf returns nil when pid is not a router.
func VerifRouterOf(pid *PID) *VerifRouter {
	x, ok := pid.Actor().(*router)
	if !ok {
		return nil
	}
	return &VerifRouter{x: x, pid: pid}
}

func (v *VerifRouter) SetCounter(c uint32) { atomic.StoreUint32(&v.x.roundRobinNext, c) }
func (v *VerifRouter) Counter() uint32     { return atomic.LoadUint32(&v.x.roundRobinNext) }
func (v *VerifRouter) MapSize() int        { return len(v.x.routeesMap) }

// MapRoutees returns the PIDs held in the router's routee map (any order).
func (v *VerifRouter) MapRoutees() []*PID {
	out := make([]*PID, 0, len(v.x.routeesMap))
	for _, r := range v.x.routeesMap {
		out = append(out, r)
	}
	return out
}

// Ring exposes the router's hash ring (nil unless ConsistentHashRouting).
func (v *VerifRouter) Ring() *VerifRing {
	if v.x.ring == nil {
		return nil
	}
	return &VerifRing{r: v.x.ring}
}

// Available calls availableRoutees and keeps the slice for the next Dispatch; it reports the slice
// order (routee names) and the ok flag.
func (v *VerifRouter) Available() (order []string, ok bool) {
	routees, ok := v.x.availableRoutees()
	v.last = routees
	for _, r := range routees {
		order = append(order, r.Name())
	}
	return order, ok
}

// Dispatch does what handleBroadcast does after availableRoutees succeeded: dispatchToRoutees with a
// ReceiveContext whose self is the router. It returns the error left on the context.
func (v *VerifRouter) Dispatch(ctx context.Context, msg any) error {
	rctx := newReceiveContext(ctx, v.pid.ActorSystem().NoSender(), v.pid, NewBroadcast(msg))
	v.x.dispatchToRoutees(rctx, msg, v.last)
	return rctx.getError()
}

//go:build verif

package actor

// VerifMsg is the payload the mailbox harness puts in a ReceiveContext.
type VerifMsg struct{ ID int }

// VerifNewContext builds a bare ReceiveContext carrying message id (no pooling involved).
func VerifNewContext(id int) *ReceiveContext {
	return &ReceiveContext{message: &VerifMsg{ID: id}}
}

// VerifContextID returns the message id carried by rc (-1 if it carries none).
func VerifContextID(rc *ReceiveContext) int {
	if rc == nil {
		return -1
	}
	if m, ok := rc.message.(*VerifMsg); ok && m != nil {
		return m.ID
	}
	return -1
}

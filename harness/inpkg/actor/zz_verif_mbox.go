//go:build verif

package actor

import (
	"strconv"
	"sync"
)

// VerifMsg is the payload the mailbox harness puts in a ReceiveContext.
type VerifMsg struct{ ID int }

// VerifNewContext builds a bare ReceiveContext carrying message id (no pooling involved).
func VerifNewContext(id int) *ReceiveContext {
	return &ReceiveContext{message: &VerifMsg{ID: id}}
}

// VerifNewContextFrom is VerifNewContext with a sender whose ID() is "s<key>" (key 0 = no sender).
func VerifNewContextFrom(id, key int) *ReceiveContext {
	rc := &ReceiveContext{message: &VerifMsg{ID: id}}
	if key != 0 {
		rc.sender = verifSender(key)
	}
	return rc
}

var (
	verifSendersMu sync.Mutex
	verifSenders   = map[int]*PID{}
)

func verifSender(key int) *PID {
	verifSendersMu.Lock()
	defer verifSendersMu.Unlock()
	if p, ok := verifSenders[key]; ok {
		return p
	}
	s := "s" + strconv.Itoa(key)
	p := &PID{path: &path{name: s, cachedStr: s}}
	verifSenders[key] = p
	return p
}

// VerifContextID returns the message id carried by rc (-1 if it carries none).
func VerifContextID(rc *ReceiveContext) int {
	if rc == nil {
		return -1
	}
	if m, ok := rc.message.(*VerifMsg); ok && m != nil {
		return m.ID
	}
	return -1
}

// VerifMsgID is VerifContextID for a bare message (priority functions receive Message()).
func VerifMsgID(m any) int {
	if v, ok := m.(*VerifMsg); ok && v != nil {
		return v.ID
	}
	return -1
}

//go:build verif

package actor

// In-package accessors for the CRDT replicator (C41, C39).  Add-only: nothing here changes the
// behaviour of the replicator; the harness uses them to (a) spawn a replicator with a given
// crdt.Config in a plain single-node actor system, (b) plug collaborators the production code
// obtains from the cluster (topic actor, cluster view, remoting client), (c) read the unexported
// state after a message has been handled, (d) move the tombstone clock (see VerifReplAge).

import (
	"context"
	"sort"
	"time"

	"github.com/tochemey/goakt/v4/crdt"
	"github.com/tochemey/goakt/v4/internal/cluster"
	"github.com/tochemey/goakt/v4/internal/internalpb"
	"github.com/tochemey/goakt/v4/internal/remoteclient"
)

// VerifSpawnReplicator registers the CRDT config extension (exactly what spawnReplicator does)
// and spawns a replicatorActor under the given name.
func VerifSpawnReplicator(ctx context.Context, sys ActorSystem, name string, cfg *crdt.Config) (*PID, error) {
	impl := sys.(*actorSystem)
	impl.extensions.Set(crdtConfigExtensionID, &crdtConfigExtension{config: cfg})
	return sys.Spawn(ctx, name, newReplicatorActor(), WithLongLived())
}

func verifRepl(pid *PID) *replicatorActor { return pid.Actor().(*replicatorActor) }

// VerifReplWire sets the collaborators that handlePostStart reads from the actor system
// (nil in a non-clustered system).  Call only while the replicator is idle.
func VerifReplWire(pid *PID, topic *PID, cl cluster.Cluster, rc remoteclient.Client) {
	r := verifRepl(pid)
	r.topicActor = topic
	r.clusterRef = cl
	r.remoting = rc
}

// VerifReplNodeID returns the replicator's node id (set by handlePostStart).
func VerifReplNodeID(pid *PID) string { return verifRepl(pid).nodeID }

// VerifTomb is the exported view of a tombstone.
type VerifTomb struct {
	Key       string
	DataType  crdt.DataType
	DeletedAt time.Time
	DeletedBy string
}

// VerifReplState is a snapshot of the replicator's maps, sorted by key.
type VerifReplState struct {
	Keys     []string
	Store    map[string]crdt.ReplicatedData
	KeyTypes map[string]crdt.DataType
	Versions map[string]uint64
	Tombs    []VerifTomb
}

// VerifReplSnapshot reads the state.  Call only while the replicator is idle (after a barrier Ask).
func VerifReplSnapshot(pid *PID) VerifReplState {
	r := verifRepl(pid)
	st := VerifReplState{
		Store:    map[string]crdt.ReplicatedData{},
		KeyTypes: map[string]crdt.DataType{},
		Versions: map[string]uint64{},
	}
	for k, v := range r.store {
		st.Keys = append(st.Keys, k)
		st.Store[k] = v
	}
	sort.Strings(st.Keys)
	for k, v := range r.keyTypes {
		st.KeyTypes[k] = v
	}
	for k, v := range r.versions {
		st.Versions[k] = v
	}
	for k, t := range r.tombstones {
		st.Tombs = append(st.Tombs, VerifTomb{Key: k, DataType: t.dataType, DeletedAt: t.deletedAt, DeletedBy: t.deletedBy})
	}
	sort.Slice(st.Tombs, func(i, j int) bool { return st.Tombs[i].Key < st.Tombs[j].Key })
	return st
}

// VerifReplAge moves every recorded tombstone d further into the past.  handlePrune compares
// time.Now() with deletedAt; ageing all tombstones by d is the same as advancing the clock by d
// for that comparison, which is the only use of deletedAt.
func VerifReplAge(pid *PID, d time.Duration) {
	r := verifRepl(pid)
	for _, t := range r.tombstones {
		t.deletedAt = t.deletedAt.Add(-d)
	}
}

// VerifReplDigest calls the real buildDigest.
func VerifReplDigest(pid *PID) *internalpb.CRDTDigest { return verifRepl(pid).buildDigest() }

// VerifPruneTick is the scheduler's prune message.
func VerifPruneTick() any { return &pruneTick{} }

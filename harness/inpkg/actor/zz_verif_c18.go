//go:build verif

package actor

import (
	"context"
	"errors"

	"github.com/tochemey/goakt/v4/internal/address"
	"github.com/tochemey/goakt/v4/internal/commands"
	"github.com/tochemey/goakt/v4/internal/internalpb"
)

// Add-only accessors for the C18 harness (dead letters).

// VerifC18WireMsg is one RemoteMessage as it travels: sender / receiver text and the serialized payload.
type VerifC18WireMsg struct {
	Sender   string
	Receiver string
	Payload  []byte
}

// VerifC18Serialize encodes msg the way the remoting client would for an outbound tell.
func VerifC18Serialize(sys ActorSystem, msg any) ([]byte, error) {
	x := sys.(*actorSystem)
	s := x.remoting.Serializer(msg)
	if s == nil {
		return nil, errors.New("no serializer")
	}
	return s.Serialize(msg)
}

// VerifC18DeliverRemoteTell runs the server-side handler of one inbound remote tell, synchronously.
func VerifC18DeliverRemoteTell(sys ActorSystem, m VerifC18WireMsg) {
	x := sys.(*actorSystem)
	x.deliverRemoteTellMessage(context.Background(), &internalpb.RemoteMessage{Sender: m.Sender, Receiver: m.Receiver, Message: m.Payload})
}

// VerifC18RemoteTell sends msg through the real remoting client (coalescer, TCP loop-back) to `to`.
func VerifC18RemoteTell(sys ActorSystem, from, to string, msg any) error {
	x := sys.(*actorSystem)
	toAddr, err := address.Parse(to)
	if err != nil {
		return err
	}
	fromAddr := x.NoSender().getAddress()
	if from != "" {
		if fromAddr, err = address.Parse(from); err != nil {
			return err
		}
	}
	return x.remoting.RemoteTell(context.Background(), fromAddr, toAddr, msg)
}

// VerifC18BatchFail calls the CoalescingErrorHandler the actor system wires into its outbound coalescer.
func VerifC18BatchFail(sys ActorSystem, dest string, msgs []VerifC18WireMsg, cause error) {
	x := sys.(*actorSystem)
	batch := make([]*internalpb.RemoteMessage, 0, len(msgs))
	for _, m := range msgs {
		batch = append(batch, &internalpb.RemoteMessage{Sender: m.Sender, Receiver: m.Receiver, Message: m.Payload})
	}
	x.enqueueCoalescedFailure(dest, batch, cause)
}

// VerifC18ManualQueue stops the drain goroutine and installs a fan-out queue of the given capacity that
// nothing consumes until VerifC18DrainNow is called (goakt's own capacity is coalescedFailureQueueSize).
func VerifC18ManualQueue(sys ActorSystem, capacity int) {
	x := sys.(*actorSystem)
	x.stopCoalescedFailureDrain()
	x.coalescedFailureQueue = make(chan coalescedFailure, capacity)
}

// VerifC18DrainNow runs the real drain loop over everything queued, on the caller's goroutine,
// then installs a fresh queue of the same capacity.
func VerifC18DrainNow(sys ActorSystem) {
	x := sys.(*actorSystem)
	q := x.coalescedFailureQueue
	if q == nil {
		return
	}
	close(q)
	x.coalescedFailureWG.Add(1)
	x.drainCoalescedFailures()
	x.coalescedFailureQueue = make(chan coalescedFailure, cap(q))
}

// VerifC18QueueCap is coalescedFailureQueueSize.
func VerifC18QueueCap() int { return coalescedFailureQueueSize }

// VerifC18Count asks the dead-letter actor for the count of one receiver ("" = total), the way
// PID.Metric / ActorSystem.Metric do. ok=false when no answer came.
func VerifC18Count(sys ActorSystem, receiver string) (int64, bool) {
	x := sys.(*actorSystem)
	req := &commands.DeadlettersCountRequest{}
	if receiver != "" {
		addr, err := address.Parse(receiver)
		if err != nil {
			return 0, false
		}
		req.Address = addr
	}
	to := x.getDeadletter()
	from := x.getSystemGuardian()
	if to == nil || from == nil || !to.IsRunning() {
		return 0, false
	}
	resp, err := from.Ask(context.Background(), to, req, x.getAskTimeout())
	if err != nil || resp == nil {
		return 0, false
	}
	r, ok := resp.(*commands.DeadlettersCountResponse)
	if !ok || r == nil {
		return 0, false
	}
	return r.TotalCount, true
}

// VerifC18AddrOf returns the address text of a PID.
func VerifC18AddrOf(pid *PID) string { return pid.getAddress().String() }

// VerifC18Stopped reports that the PID has left the running state (stop / passivation completed).
func VerifC18Stopped(pid *PID) bool { return !pid.isStateSet(runningState) }

//go:build verif

package actor

// C12 in-package driver: real actors of a real (in-process) actor system attached to a REAL
// passivationManager that is driven by hand (its run goroutine is not started; one `tick`
// op performs exactly one timer iteration of run(): nextEntry + trigger, one `drain` op one
// messageTriggers iteration: processMessageEntry).  The manager reads time.Now directly,
// so the virtual clock is realised by SHIFTING every stored timestamp (entry deadlines, the
// PIDs' latestReceiveTimeNano / lastPassivationTouch) so that virtual `now` always maps to
// the real instant at which the op starts.  Values that the code derives from its own
// time.Now calls inside an op are snapped back to that instant at the end of the op.
// A comparison that real elapsed time could have flipped marks the rest of the case `?`
// (never compared), so jitter cannot raise an alarm.

import (
	"context"
	"errors"
	"fmt"
	"sort"
	"strconv"
	"strings"
	"sync"
	"time"

	"go.uber.org/atomic"

	"github.com/tochemey/goakt/v4/log"
	"github.com/tochemey/goakt/v4/passivation"
)

type verifC12Actor struct {
	postStops atomic.Int32
	fail      bool
}

func (a *verifC12Actor) PreStart(*Context) error { return nil }
func (a *verifC12Actor) Receive(*ReceiveContext) {}
func (a *verifC12Actor) PostStop(*Context) error {
	a.postStops.Inc()
	if a.fail {
		return errors.New("verif: PostStop failure")
	}
	return nil
}

var (
	verifC12Once sync.Once
	verifC12Sys  *actorSystem
	verifC12Err  error
	verifC12Seq  int
)

func verifC12System() (*actorSystem, error) {
	verifC12Once.Do(func() {
		sys, err := NewActorSystem("verifc12", WithLogger(log.DiscardLogger))
		if err != nil {
			verifC12Err = err
			return
		}
		if err := sys.Start(context.Background()); err != nil {
			verifC12Err = err
			return
		}
		verifC12Sys = sys.(*actorSystem)
	})
	return verifC12Sys, verifC12Err
}

const verifC12MaxTries = 3

type verifC12Case struct {
	sys    *actorSystem
	m      *passivationManager
	pids   []*PID
	acts   []*verifC12Actor
	strats []passivation.Strategy
	idx    map[passivationParticipant]int
	known  map[*passivationEntry]bool

	vnow   int64     // virtual ms
	anchor time.Time // real instant of virtual 0
	syncT  time.Time // real instant of the last sync (= R(vnow))

	ambiguous bool
	// per tick/drain
	timerPath bool
	tries     int
	events    []string
	pre, post []string
	winUsed   bool
}

func (c *verifC12Case) real(v int64) time.Time { return c.anchor.Add(time.Duration(v) * time.Millisecond) }

func (c *verifC12Case) scan() {
	c.m.mu.Lock()
	for _, e := range c.m.entries {
		c.known[e] = true
	}
	for _, e := range c.m.queue {
		c.known[e] = true
	}
	c.m.mu.Unlock()
}

// sync re-anchors the virtual clock: R(vnow) := time.Now(), all stored stamps move with it.
func (c *verifC12Case) sync() {
	c.scan()
	now := time.Unix(0, time.Now().UnixNano())
	na := now.Add(-time.Duration(c.vnow) * time.Millisecond)
	delta := na.Sub(c.anchor)
	c.m.mu.Lock()
	for e := range c.known {
		if !e.deadline.IsZero() {
			e.deadline = time.Unix(0, e.deadline.UnixNano()+int64(delta))
		}
	}
	c.m.mu.Unlock()
	for _, p := range c.pids {
		if v := p.latestReceiveTimeNano.Load(); v != 0 {
			p.latestReceiveTimeNano.Store(v + int64(delta))
		}
		if v := p.lastPassivationTouch.Load(); v != 0 {
			p.lastPassivationTouch.Store(v + int64(delta))
		}
	}
	c.anchor = na
	c.syncT = now
}

// snap pins every value the code derived from its own time.Now() during this op to R(vnow).
func (c *verifC12Case) snap() {
	c.scan()
	end := time.Now()
	lo, hi := c.syncT.UnixNano(), end.UnixNano()
	if hi-lo > int64(20*time.Millisecond) {
		c.ambiguous = true
	}
	in := func(x int64) bool { return x > lo && x <= hi }
	for _, p := range c.pids {
		if in(p.latestReceiveTimeNano.Load()) {
			p.latestReceiveTimeNano.Store(lo)
		}
		if in(p.lastPassivationTouch.Load()) {
			p.lastPassivationTouch.Store(lo)
		}
	}
	c.m.mu.Lock()
	for e := range c.known {
		if !e.deadline.IsZero() && in(e.deadline.UnixNano()-int64(e.timeout)) {
			e.deadline = time.Unix(0, lo+int64(e.timeout))
		}
	}
	c.m.mu.Unlock()
}

func (c *verifC12Case) virt(ns int64) string {
	d := ns - c.anchor.UnixNano()
	if d%int64(time.Millisecond) != 0 {
		c.ambiguous = true
		return "~"
	}
	return strconv.FormatInt(d/int64(time.Millisecond), 10)
}

func b2s(b bool) string {
	if b {
		return "1"
	}
	return "0"
}

func (c *verifC12Case) digest() string {
	var sb strings.Builder
	for i, p := range c.pids {
		l, u := "-", "-"
		if v := p.latestReceiveTimeNano.Load(); v != 0 {
			l = c.virt(v)
		}
		if v := p.lastPassivationTouch.Load(); v != 0 {
			u = c.virt(v)
		}
		fmt.Fprintf(&sb, "a%d:r%sp%df%s%s%s%sc%dl%su%s ", i, b2s(p.isStateSet(runningState)), c.acts[i].postStops.Load(),
			b2s(p.isStateSet(passivationPausedState)), b2s(p.isStateSet(suspendedState)), b2s(p.isStateSet(passivationSkipNextState)),
			b2s(p.isStateSet(stoppingState)), p.processedCount.Load(), l, u)
	}
	c.m.mu.Lock()
	defer c.m.mu.Unlock()
	type kv struct {
		i int
		e *passivationEntry
	}
	var es []kv
	for _, e := range c.m.entries {
		es = append(es, kv{c.idx[e.target], e})
	}
	sort.Slice(es, func(a, b int) bool { return es[a].i < es[b].i })
	ent := func(e *passivationEntry) string {
		k := "?"
		switch s := e.strategy.(type) {
		case *passivation.TimeBasedStrategy:
			k = "T" + strconv.FormatInt(int64(s.Timeout()/time.Millisecond), 10)
		case *passivation.MessagesCountBasedStrategy:
			k = "C" + strconv.Itoa(s.MaxMessages())
		}
		dl := "-"
		if !e.deadline.IsZero() {
			dl = c.virt(e.deadline.UnixNano())
		}
		return fmt.Sprintf("%s,d%s,b%d,%s%s%s,x%d", k, dl, e.baseline, b2s(e.paused), b2s(e.pending), b2s(e.enqueued), e.index)
	}
	sb.WriteString("E[")
	for n, x := range es {
		if n > 0 {
			sb.WriteString(" ")
		}
		fmt.Fprintf(&sb, "%d=%s", x.i, ent(x.e))
	}
	sb.WriteString("] Q[")
	name := func(e *passivationEntry) string {
		i := c.idx[e.target]
		if cur, ok := c.m.entries[e.id]; ok && cur == e {
			return strconv.Itoa(i)
		}
		return fmt.Sprintf("%d'(%s)", i, ent(e))
	}
	for n, e := range c.m.queue {
		if n > 0 {
			sb.WriteString(" ")
		}
		sb.WriteString(name(e))
	}
	sb.WriteString("] H[")
	// peek the channel content without disturbing the order
	n := len(c.m.messageTriggers)
	for k := 0; k < n; k++ {
		e := <-c.m.messageTriggers
		if k > 0 {
			sb.WriteString(" ")
		}
		sb.WriteString(name(e))
		c.m.messageTriggers <- e
	}
	sb.WriteString("]")
	return sb.String()
}

func (c *verifC12Case) passivate(entry *passivationEntry) bool {
	c.tries++
	if c.tries > verifC12MaxTries {
		panic("verif-hang")
	}
	if c.timerPath && entry.deadline.After(c.syncT) {
		c.ambiguous = true // real elapsed time flipped the deadline comparison
	}
	first := !c.winUsed
	c.winUsed = true
	if first {
		for _, op := range c.pre {
			c.simple(op)
		}
	}
	// exactly what passivationManager.passivate does when passivateFn is nil
	r := false
	if entry != nil && entry.target != nil {
		r = entry.target.passivationTry(passivationReason(entry))
	}
	c.events = append(c.events, fmt.Sprintf("%d=%s", c.idx[entry.target], b2s(r)))
	if first {
		for _, op := range c.post {
			c.simple(op)
		}
	}
	return r
}

// simple executes a non-window op; returns its result token.
func (c *verifC12Case) simple(op string) string {
	f := strings.Fields(op)
	if len(f) < 2 {
		return "bad-op"
	}
	n, err := strconv.ParseInt(f[1], 10, 64)
	if err != nil {
		return "bad-op"
	}
	if f[0] == "adv" {
		c.vnow += n
		c.sync()
		return "-"
	}
	if f[0] == "sysstop" {
		c.sys.shuttingDown.Store(n != 0)
		return "-"
	}
	if n < 0 || int(n) >= len(c.pids) {
		return "bad-op"
	}
	p := c.pids[n]
	switch f[0] {
	case "act":
		p.markActivity(c.syncT)
	case "rec":
		p.recordProcessedMessage()
	case "pause":
		p.pausePassivation()
	case "resume":
		p.resumePassivation()
	case "susp":
		p.suspend("verif")
	case "reinst":
		p.doReinstate()
	case "stop":
		_ = p.Shutdown(context.Background())
	case "mreg":
		c.m.Register(p, c.strats[n])
	case "munreg":
		c.m.Unregister(p)
	case "mpause":
		c.m.Pause(p)
	case "mresume":
		return b2s(c.m.Resume(p))
	case "mtouch":
		c.m.Touch(p)
	case "mproc":
		c.m.MessageProcessed(p)
	case "try":
		return b2s(p.tryPassivation("verif"))
	case "flagstop":
		if len(f) < 3 {
			return "bad-op"
		}
		p.setState(stoppingState, f[2] != "0")
	default:
		return "bad-op"
	}
	return "-"
}

func (c *verifC12Case) top(op string) string {
	c.sync()
	f := strings.Fields(op)
	if len(f) == 0 {
		return "bad-op"
	}
	res := ""
	switch f[0] {
	case "w<":
		c.pre = append(c.pre, strings.Join(f[1:], " "))
		return "-"
	case "w>":
		c.post = append(c.post, strings.Join(f[1:], " "))
		return "-"
	case "tick", "drain":
		c.timerPath = f[0] == "tick"
		c.tries, c.events, c.winUsed = 0, nil, false
		if f[0] == "tick" {
			if e, wait := c.m.nextEntry(); e != nil && wait <= 0 {
				c.m.trigger(e)
			}
		} else {
			select {
			case e := <-c.m.messageTriggers:
				c.m.processMessageEntry(e)
			default:
			}
		}
		c.pre, c.post = nil, nil
		res = "[" + strings.Join(c.events, ",") + "]"
	default:
		res = c.simple(op)
	}
	c.snap()
	return res
}

func verifC12Strategy(s string) (passivation.Strategy, bool, bool) {
	fail := strings.HasSuffix(s, "e")
	s = strings.TrimSuffix(s, "e")
	if s == "L" {
		return passivation.NewLongLivedStrategy(), fail, true
	}
	if len(s) < 2 {
		return nil, false, false
	}
	n, err := strconv.ParseInt(s[1:], 10, 64)
	if err != nil {
		return nil, false, false
	}
	switch s[0] {
	case 'T':
		return passivation.NewTimeBasedStrategy(time.Duration(n) * time.Millisecond), fail, true
	case 'C':
		return passivation.NewMessageCountBasedStrategy(int(n)), fail, true
	}
	return nil, false, false
}

// VerifC12Run executes one case line `sys <strategies> | op ; op ; …` and returns
// `res#digest ; res#digest ; …` (one item per op; `?` from the first ambiguous op on).
func VerifC12Run(line string) (out string) {
	if strings.TrimSpace(line) == "const" {
		// the compiled value of the coalescing constant (ns)
		return fmt.Sprintf("touch=%d", passivationTouchInterval)
	}
	parts := strings.SplitN(line, "|", 2)
	if len(parts) != 2 {
		return "bad-case"
	}
	hd := strings.Fields(parts[0])
	if len(hd) < 2 || hd[0] != "sys" {
		return "bad-case"
	}
	sys, err := verifC12System()
	if err != nil {
		return "CRASH system: " + err.Error()
	}
	verifC12Seq++
	c := &verifC12Case{sys: sys, idx: map[passivationParticipant]int{}, known: map[*passivationEntry]bool{}}
	c.m = newPassivationManager(log.DiscardLogger)
	c.m.started.Store(true)
	c.m.passivateFn = c.passivate
	ctx := context.Background()
	defer func() {
		sys.shuttingDown.Store(false)
		for _, p := range c.pids {
			p.setState(stoppingState, false)
			if p.isStateSet(runningState) {
				_ = p.Shutdown(ctx)
			}
		}
	}()
	for i, s := range hd[1:] {
		st, fail, ok := verifC12Strategy(s)
		if !ok {
			return "bad-case"
		}
		a := &verifC12Actor{}
		p, err := sys.Spawn(ctx, fmt.Sprintf("c%d-a%d", verifC12Seq, i), a, WithPassivationStrategy(passivation.NewTimeBasedStrategy(time.Hour)))
		if err != nil {
			return "CRASH spawn: " + err.Error()
		}
		c.pids = append(c.pids, p)
		c.acts = append(c.acts, a)
		c.strats = append(c.strats, st)
		c.idx[p] = i
		// wait until PostStart has been handled (bounded; a slow machine yields `?`, never an alarm)
		dl := time.Now().Add(10 * time.Second)
		for p.processedCount.Load() < 1 {
			if time.Now().After(dl) {
				return "?"
			}
			time.Sleep(50 * time.Microsecond)
		}
		a.fail = fail
	}
	// detach from the system's manager, attach to the hand-driven one, canonical initial PID state
	time.Sleep(200 * time.Microsecond)
	for i, p := range c.pids {
		sys.passivator.Unregister(p)
		p.passivationStrategy = c.strats[i]
		_, isCount := c.strats[i].(*passivation.MessagesCountBasedStrategy)
		p.msgCountPassivation.Store(isCount)
		p.passivationManager = c.m
		p.latestReceiveTimeNano.Store(0)
		p.lastPassivationTouch.Store(0)
		p.processedCount.Store(0)
	}
	c.anchor = time.Unix(0, time.Now().UnixNano())
	c.sync()
	for _, p := range c.pids {
		p.startPassivation()
	}
	c.snap()
	var items []string
	items = append(items, "-#"+c.digest())
	ops := strings.Split(parts[1], ";")
	for _, op := range ops {
		op = strings.TrimSpace(op)
		if op == "" {
			continue
		}
		res, stop := func() (r string, stop bool) {
			defer func() {
				if x := recover(); x != nil {
					if s, ok := x.(string); ok && s == "verif-hang" {
						r, stop = "hang", true
						return
					}
					r, stop = "panic", true
				}
			}()
			return c.top(op), false
		}()
		if stop {
			if c.ambiguous {
				items = append(items, "?")
			} else {
				items = append(items, res)
			}
			break
		}
		d := c.digest()
		if c.ambiguous {
			items = append(items, "?")
			break
		}
		items = append(items, res+"#"+d)
	}
	return strings.Join(items, " ; ")
}

//go:build verif

package actor

// C37 hooks (add-only): drive the REAL relocation path of a spawn configuration inside one
// local actor system: Spawn(opts) -> pid.toSerialize() -> proto.Marshal/Unmarshal ->
// wireSpawnOptions(props) -> Spawn(opts'), and dump every observable accessor of both PIDs.

import (
	"context"
	"fmt"
	"net"
	"sort"
	"strconv"
	"strings"
	"time"

	"google.golang.org/protobuf/proto"
	"google.golang.org/protobuf/reflect/protoreflect"
	"google.golang.org/protobuf/types/known/durationpb"

	"github.com/tochemey/goakt/v4/extension"
	"github.com/tochemey/goakt/v4/internal/codec"
	"github.com/tochemey/goakt/v4/internal/internalpb"
	"github.com/tochemey/goakt/v4/internal/pointer"
	"github.com/tochemey/goakt/v4/log"
	"github.com/tochemey/goakt/v4/passivation"
	"github.com/tochemey/goakt/v4/remote"
	"github.com/tochemey/goakt/v4/supervisor"
)

// VerifC37Actor is a do-nothing actor.
type VerifC37Actor struct{}

func (*VerifC37Actor) PreStart(*Context) error { return nil }
func (*VerifC37Actor) Receive(*ReceiveContext) {}
func (*VerifC37Actor) PostStop(*Context) error { return nil }

// VerifC37Dep is a dependency whose binary form is "<id>\x00<payload>".
type VerifC37Dep struct{ Id, Payload string }

var _ extension.Dependency = (*VerifC37Dep)(nil)

func (d *VerifC37Dep) ID() string                     { return d.Id }
func (d *VerifC37Dep) MarshalBinary() ([]byte, error) { return []byte(d.Id + "\x00" + d.Payload), nil }
func (d *VerifC37Dep) UnmarshalBinary(b []byte) error {
	id, payload, ok := strings.Cut(string(b), "\x00")
	if !ok {
		return fmt.Errorf("bad dependency bytes")
	}
	d.Id, d.Payload = id, payload
	return nil
}

// error types for supervisor.WithDirective (keys are reflect type strings)
type VerifC37ErrA struct{}

func (VerifC37ErrA) Error() string { return "a" }

type VerifC37ErrB struct{}

func (*VerifC37ErrB) Error() string { return "b" }

// VerifC37Env is one started local actor system.
type VerifC37Env struct {
	sys  *actorSystem
	sys2  *actorSystem // remoting target of the rsp cases, started lazily on a free loop-back port
	port2 int
	n     int
}

func VerifC37Start() (*VerifC37Env, error) {
	sys, err := NewActorSystem("verif", WithLogger(log.DiscardLogger))
	if err != nil {
		return nil, err
	}
	if err := sys.Start(context.Background()); err != nil {
		return nil, err
	}
	return &VerifC37Env{sys: sys.(*actorSystem)}, nil
}

func VerifC37DumpSupervisor(s *supervisor.Supervisor) string {
	if s == nil {
		return "-"
	}
	rules := s.Rules()
	rs := make([]string, 0, len(rules))
	for _, r := range rules {
		rs = append(rs, r.ErrorType+":"+strconv.Itoa(int(r.Directive)))
	}
	sort.Strings(rs)
	anyd := "-"
	if d, ok := s.AnyErrorDirective(); ok {
		anyd = strconv.Itoa(int(d))
	}
	return fmt.Sprintf("st=%d;mr=%d;to=%d;id=%d;md=%d;ra=%d;rules=%s;any=%s", int(s.Strategy()), s.MaxRetries(), int64(s.Timeout()),
		int64(s.InitialDelay()), int64(s.MaxDelay()), int64(s.BackoffResetAfter()), strings.Join(rs, ","), anyd)
}

func verifC37Dur(d *durationpb.Duration) string {
	if d == nil {
		return "-"
	}
	return fmt.Sprintf("%d.%d", d.GetSeconds(), d.GetNanos())
}

func VerifC37DumpSupervisorSpec(s *internalpb.SupervisorSpec) string {
	if s == nil {
		return "-"
	}
	rs := make([]string, 0)
	for _, r := range s.GetDirectives() {
		rs = append(rs, r.GetErrorType()+":"+strconv.Itoa(int(r.GetDirective())))
	}
	anyd := "-"
	if s.AnyErrorDirective != nil {
		anyd = strconv.Itoa(int(s.GetAnyErrorDirective()))
	}
	// the backoff fields are read through reflection so that this hook also builds against a tree
	// whose SupervisorSpec does not have them (the seeded revert of fix 1ad4e99)
	bo := "-"
	if i := verifC37SpecDur(s, "backoff_initial_delay"); i != "-" {
		bo = i + "/" + verifC37SpecDur(s, "backoff_max_delay") + "/" + verifC37SpecDur(s, "backoff_reset_after")
	}
	return fmt.Sprintf("st=%d;mr=%d;to=%s;dirs=%s;any=%s;bo=%s", int(s.GetStrategy()), s.GetMaxRetries(), verifC37Dur(s.GetTimeout()), strings.Join(rs, ","), anyd, bo)
}

func verifC37SpecDur(s *internalpb.SupervisorSpec, name string) string {
	m := s.ProtoReflect()
	fd := m.Descriptor().Fields().ByName(protoreflect.Name(name))
	if fd == nil || !m.Has(fd) {
		return "-"
	}
	d, ok := m.Get(fd).Message().Interface().(*durationpb.Duration)
	if !ok {
		return "?"
	}
	return verifC37Dur(d)
}

func VerifC37DumpPassivation(st passivation.Strategy) string {
	switch s := st.(type) {
	case *passivation.TimeBasedStrategy:
		return "t:" + strconv.FormatInt(int64(s.Timeout()), 10)
	case *passivation.MessagesCountBasedStrategy:
		return "m:" + strconv.Itoa(s.MaxMessages())
	case *passivation.LongLivedStrategy:
		return "l"
	case nil:
		return "-"
	}
	return "other"
}

func VerifC37DumpWirePassivation(p *internalpb.PassivationStrategy) string {
	if p == nil {
		return "-"
	}
	switch s := p.Strategy.(type) {
	case *internalpb.PassivationStrategy_TimeBased:
		return "t:" + verifC37Dur(s.TimeBased.GetPassivateAfter())
	case *internalpb.PassivationStrategy_MessagesCountBased:
		return "m:" + strconv.FormatInt(s.MessagesCountBased.GetMaxMessages(), 10)
	case *internalpb.PassivationStrategy_LongLived:
		return "l"
	}
	return "empty"
}

func verifC37DumpPID(pid *PID) string {
	pas := VerifC37DumpPassivation(pid.PassivationStrategy())
	re := "-"
	if st := pid.reentrancy.Load(); st != nil {
		re = fmt.Sprintf("%d:%d", int(st.getMode()), st.maxInFlight.Load())
	}
	stash := "0"
	if pid.stashState != nil && pid.stashState.box != nil {
		stash = "1"
	}
	role := "-"
	if r := pid.Role(); r != nil {
		role = *r
		if role == "" {
			role = "%"
		}
	}
	var deps []string
	for _, d := range pid.Dependencies() {
		if v, ok := d.(*VerifC37Dep); ok {
			deps = append(deps, v.Id+":"+v.Payload)
		} else {
			deps = append(deps, d.ID()+":?")
		}
	}
	sort.Strings(deps)
	depss := "-"
	if len(deps) > 0 {
		depss = strings.Join(deps, ",")
	}
	init := "-"
	if t := pid.initTimeout.Load(); t != nil {
		init = strconv.FormatInt(int64(*t), 10)
	}
	return fmt.Sprintf("sup=%s pas=%s re=%s stash=%s role=%s deps=%s init=%s", VerifC37DumpSupervisor(pid.supervisor), pas, re, stash, role, depss, init)
}

func verifC37DumpWire(a *internalpb.Actor) string {
	pas := VerifC37DumpWirePassivation(a.GetPassivationStrategy())
	re := "-"
	if r := a.GetReentrancy(); r != nil {
		re = fmt.Sprintf("%d:%d", int(r.GetMode()), r.GetMaxInFlight())
	}
	stash := "0"
	if a.GetEnableStash() {
		stash = "1"
	}
	role := "-"
	if a.Role != nil {
		role = a.GetRole()
		if role == "" {
			role = "%"
		}
	}
	var deps []string
	for _, d := range a.GetDependencies() {
		id, payload, _ := strings.Cut(string(d.GetBytea()), "\x00")
		deps = append(deps, d.GetId()+":"+d.GetTypeName()+":"+id+":"+payload)
	}
	sort.Strings(deps)
	depss := "-"
	if len(deps) > 0 {
		depss = strings.Join(deps, ",")
	}
	return fmt.Sprintf("sup=%s pas=%s re=%s stash=%s role=%s deps=%s init=%s", VerifC37DumpSupervisorSpec(a.GetSupervisor()), pas, re, stash, role, depss, verifC37Dur(a.GetInitTimeout()))
}

// Roundtrip spawns locally with opts, serialises the PID, passes the record through the protobuf
// wire, rebuilds the spawn options, spawns again, and returns the three dumps.
func (e *VerifC37Env) Roundtrip(opts []SpawnOption) (before, wire, after string, err error) {
	ctx := context.Background()
	e.n++
	name1 := "a" + strconv.Itoa(e.n)
	name2 := "b" + strconv.Itoa(e.n)
	pid1, err := e.sys.Spawn(ctx, name1, &VerifC37Actor{}, opts...)
	if err != nil {
		return "", "", "", err
	}
	// the PIDs stay alive (idle) until the harness exits: Shutdown costs ~50 ms each
	before = verifC37DumpPID(pid1)
	props, err := pid1.toSerialize()
	if err != nil {
		return before, "", "", err
	}
	raw, err := proto.Marshal(props)
	if err != nil {
		return before, "", "", err
	}
	props2 := new(internalpb.Actor)
	if err := proto.Unmarshal(raw, props2); err != nil {
		return before, "", "", err
	}
	wire = verifC37DumpWire(props2)
	opts2, err := e.sys.wireSpawnOptions(props2)
	if err != nil {
		return before, wire, "", err
	}
	pid2, err := e.sys.Spawn(ctx, name2, &VerifC37Actor{}, opts2...)
	if err != nil {
		return before, wire, "", err
	}

	after = verifC37DumpPID(pid2)
	return before, wire, after, nil
}

func verifC37DumpSpawnRequest(r *internalpb.RemoteSpawnRequest) string {
	return verifC37DumpWire(&internalpb.Actor{
		PassivationStrategy: r.GetPassivationStrategy(), Dependencies: r.GetDependencies(), EnableStash: r.GetEnableStash(),
		Role: r.Role, Supervisor: r.GetSupervisor(), Reentrancy: r.GetReentrancy(), InitTimeout: r.GetInitTimeout(),
	})
}

func verifC37FreePort() (int, error) {
	l, err := net.Listen("tcp", "127.0.0.1:0")
	if err != nil {
		return 0, err
	}
	port := l.Addr().(*net.TCPAddr).Port
	_ = l.Close()
	return port, nil
}

// startRemoteTarget starts a second actor system with REAL remoting on a free loop-back port
// (a few attempts, in case the probed port is taken in between).
func (e *VerifC37Env) startRemoteTarget(ctx context.Context) error {
	var lastErr error
	for attempt := 0; attempt < 8; attempt++ {
		port, err := verifC37FreePort()
		if err != nil {
			lastErr = err
			continue
		}
		sys, err := NewActorSystem("verif2", WithLogger(log.DiscardLogger), WithRemote(remote.NewConfig("127.0.0.1", port)))
		if err != nil {
			lastErr = err
			continue
		}
		if err := sys.Start(ctx); err != nil {
			lastErr = err
			continue
		}
		e.sys2 = sys.(*actorSystem)
		e.port2 = port
		e.sys2.registry.Register(&VerifC37Actor{})
		e.sys2.registry.Register(&VerifC37Dep{})
		return nil
	}
	return fmt.Errorf("cannot start the remoting target: %v", lastErr)
}

// RemoteSpawn: the configuration an actor gets through the REAL remote-spawn route — Spawn with
// WithHostAndPort -> remote.SpawnRequest -> internal/remoteclient RemoteSpawn (request assembly and
// codec calls) -> loop-back TCP -> remoteSpawnHandler -> Spawn on the target system — against the one
// it gets from a local Spawn with the same options.  The wire dump is rebuilt here from the spawn
// configuration with the same codec calls (the real request is not observable); before/after are real.
func (e *VerifC37Env) RemoteSpawn(opts []SpawnOption) (before, wire, after string, err error) {
	ctx, cancel := context.WithTimeout(context.Background(), 30*time.Second)
	defer cancel()
	if e.sys2 == nil {
		if err := e.startRemoteTarget(ctx); err != nil {
			return "", "", "", err
		}
	}
	e.n++
	name := "r" + strconv.Itoa(e.n)
	pid1, err := e.sys.Spawn(ctx, name, &VerifC37Actor{}, opts...)
	if err != nil {
		return "", "", "", err
	}
	before = verifC37DumpPID(pid1)

	config := newSpawnConfig(opts...)
	if err := config.Validate(); err != nil {
		return before, "", "", err
	}
	var dependencies []*internalpb.Dependency
	if len(config.dependencies) > 0 {
		dependencies, err = codec.EncodeDependencies(config.dependencies...)
		if err != nil {
			return before, "", "", err
		}
	}
	var reentrancy *internalpb.ReentrancyConfig
	if config.reentrancy != nil {
		reentrancy = codec.EncodeReentrancy(config.reentrancy)
	}
	var initTimeout *durationpb.Duration
	if t := pointer.Deref(config.initTimeout, 0); t > 0 {
		initTimeout = durationpb.New(t)
	}
	wire = verifC37DumpSpawnRequest(&internalpb.RemoteSpawnRequest{
		PassivationStrategy: codec.EncodePassivationStrategy(config.passivationStrategy),
		Dependencies:        dependencies,
		EnableStash:         config.enableStash,
		Role:                config.role,
		Supervisor:          codec.EncodeSupervisor(config.supervisor),
		Reentrancy:          reentrancy,
		InitTimeout:         initTimeout,
	})

	// the real route: the target system spawns "on host:port" which is its own remoting endpoint
	remoteOpts := append(append([]SpawnOption{}, opts...), WithHostAndPort("127.0.0.1", e.port2))
	if _, err := e.sys2.Spawn(ctx, name, &VerifC37Actor{}, remoteOpts...); err != nil {
		return before, wire, "", err
	}
	node, ok := e.sys2.actors.nodeByName(name)
	if !ok || node.value() == nil {
		return before, wire, "", fmt.Errorf("spawned actor not found")
	}
	after = verifC37DumpPID(node.value())
	return before, wire, after, nil
}

//go:build verif

package actor

import "time"

// VerifBackoffDelay exposes the unexported backoffDelay.
func VerifBackoffDelay(faults int64, initialDelay, maxDelay time.Duration) time.Duration {
	return backoffDelay(faults, initialDelay, maxDelay)
}

// VerifFaultProbe is a bare PID used only to drive recordFault.
type VerifFaultProbe struct{ pid *PID }

// VerifNewFaultProbe returns a probe whose consecutive-fault counter starts at count.
func VerifNewFaultProbe(count int64) *VerifFaultProbe {
	p := &VerifFaultProbe{pid: &PID{}}
	p.pid.consecutiveFaults.Store(count)
	return p
}

// SetLast presets lastFaultAtNano.
func (p *VerifFaultProbe) SetLast(v int64) { p.pid.lastFaultAtNano.Store(v) }

// Last reads lastFaultAtNano.
func (p *VerifFaultProbe) Last() int64 { return p.pid.lastFaultAtNano.Load() }

// Count reads consecutiveFaults.
func (p *VerifFaultProbe) Count() int64 { return p.pid.consecutiveFaults.Load() }

// RecordFault calls the real recordFault.
func (p *VerifFaultProbe) RecordFault(window time.Duration) int64 { return p.pid.recordFault(window) }

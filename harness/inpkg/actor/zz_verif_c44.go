//go:build verif

package actor

// Verification hook for C44 (work-pulling producer controller), overlay-only, add-only.
// Uses the helpers of zz_verif_c42.go (capturing mailbox, shared actor system, id numbering).
//
// VerifC44Run drives the REAL workPullingProducerController with scripted worker churn: registrations
// from up to three worker endpoints (each with two alternative companion PIDs, i.e. a restarted worker),
// demand grants, confirmations, worker terminations, producer-endpoint reactions and ticks.  Worker
// companions are stand-ins with a valid consumer companion spec and a capturing mailbox; the worker endpoints
// carry a reliable-consumer configuration naming the producer, so `authenticateWorkPullingWorker`
// accepts them exactly like real workers.  Handlers run one at a time on the harness goroutine.

import (
	"context"
	"fmt"
	"strconv"
	"strings"
	"time"

	"google.golang.org/protobuf/types/known/wrapperspb"

	"github.com/tochemey/goakt/v4/internal/commands"
)

type verifC44 struct {
	ctx      context.Context
	sys      *actorSystem
	prod     *PID
	capPU    *verifCapture
	wpPID    *PID
	wp       *workPullingProducerController
	wname    [4]string           // endpoint names of workers 1..3
	comp     [4][2]*PID          // companions
	capW     [4][2]*verifCapture // their mailboxes
	inboxP   []any
	tokens   verifIDs
	answered *Produced
	ansTok   string
	jobs     int
	all      []*PID
}

func verifC44Setup(deliveryConfirmation bool) (*verifC44, error) {
	sys, err := verifSystem()
	if err != nil {
		return nil, err
	}
	verifCaseNo++
	k := strconv.Itoa(verifCaseNo)
	h := &verifC44{ctx: context.Background(), sys: sys, capPU: &verifCapture{}}
	if h.prod, err = sys.Spawn(h.ctx, "vjobs-"+k, verifNop{}, WithMailbox(h.capPU)); err != nil {
		return nil, err
	}
	h.all = append(h.all, h.prod)
	for w := 1; w <= 3; w++ {
		name := "vworker" + strconv.Itoa(w) + "-" + k
		h.wname[w] = name
		endpoint, err := sys.Spawn(h.ctx, name, verifNop{})
		if err != nil {
			return nil, err
		}
		// the worker endpoint names the producer, as AsReliableWorkPullingWorker would record
		endpoint.reliableDelivery = &reliableDeliveryConfig{consumer: &reliableConsumerConfig{
			producerName: h.prod.Name(), flowControlWindow: 4, resendInterval: time.Hour}}
		h.all = append(h.all, endpoint)
		spec, err := newReliableCompanionSpec(ReliableControllerRoleConsumer, name, endpoint.IncarnationID())
		if err != nil {
			return nil, err
		}
		for c := 0; c < 2; c++ {
			h.capW[w][c] = &verifCapture{}
			cname := reliableCompanionName(ReliableControllerRoleConsumer, endpoint.IncarnationID())
			if c == 1 {
				cname = "vcompanion" + strconv.Itoa(w) + "b-" + k
			}
			pid, err := sys.Spawn(h.ctx, cname, verifNop{}, asSystem(), asReliableCompanion(spec), WithMailbox(h.capW[w][c]))
			if err != nil {
				return nil, err
			}
			h.comp[w][c] = pid
			h.all = append(h.all, pid)
		}
	}
	cfg := &reliableProducerConfig{workPulling: true, retryInterval: time.Hour, deliveryConfirmation: deliveryConfirmation}
	h.wp = newWorkPullingProducerController(h.prod, cfg, nil)
	if h.wpPID, err = sys.Spawn(h.ctx, "vwp-"+k, h.wp); err != nil {
		return nil, err
	}
	h.all = append(h.all, h.wpPID)
	if err = verifWaitStarted(h.ctx, h.wpPID, &producerControllerTick{generation: 0}); err != nil {
		return nil, err
	}
	return h, nil
}

func (h *verifC44) teardown() {
	for i := len(h.all) - 1; i >= 0; i-- {
		if h.all[i].IsRunning() {
			_ = h.all[i].Shutdown(h.ctx)
		}
	}
}

func (h *verifC44) sess(s string) int {
	switch s {
	case "":
		return 0
	case h.wp.sessionID:
		return 1
	default:
		return 9
	}
}

func verifNonce(s string) int {
	if strings.HasPrefix(s, "nonce-") {
		if n, err := strconv.Atoi(s[6:]); err == nil {
			return n
		}
	}
	if s == "" {
		return 0
	}
	return -1
}

func (h *verifC44) payloadOfFrame(frame []byte) int64 {
	msg, err := h.sys.getRemoting().Serializer(nil).Deserialize(frame)
	if err != nil {
		return -1
	}
	if v, ok := msg.(*wrapperspb.Int64Value); ok {
		return v.GetValue()
	}
	return -2
}

func (h *verifC44) show(m any) string {
	switch x := m.(type) {
	case *commands.RegistrationAck:
		return fmt.Sprintf("A(%d,%d,%d)", h.sess(x.SessionID()), x.NextSeq(), verifNonce(x.Nonce()))
	case *commands.SequencedMessage:
		if x.Chunked() {
			return fmt.Sprintf("SC(%d,%d,%d)", h.sess(x.SessionID()), verifMsgID(x.MessageID()), x.Seq())
		}
		return fmt.Sprintf("S(%d,%d,%d,%d)", h.sess(x.SessionID()), verifMsgID(x.MessageID()), x.Seq(), h.payloadOfFrame(x.Payload()))
	case *RequestNext:
		return fmt.Sprintf("N(%d,%d)", h.sess(x.SessionID()), h.tokens.of(x.Token()))
	case *Stored:
		return fmt.Sprintf("T(%d,%d,%d,%d)", h.sess(x.SessionID()), h.tokens.of(x.Token()), verifMsgID(x.MessageID()), x.Seq())
	case *DeliveryConfirmed:
		return fmt.Sprintf("F(%d,%d,%d)", h.sess(x.SessionID()), verifMsgID(x.MessageID()), x.Seq())
	default:
		return fmt.Sprintf("?%T", m)
	}
}

func (h *verifC44) showAll(ms []any) string {
	parts := make([]string, len(ms))
	for i, m := range ms {
		parts[i] = h.show(m)
	}
	return strings.Join(parts, "")
}

func (h *verifC44) workerOf(endpointName string) int {
	for w := 1; w <= 3; w++ {
		if h.wname[w] == endpointName {
			return w
		}
	}
	return 0
}

func (h *verifC44) compOf(pid *PID) int {
	for w := 1; w <= 3; w++ {
		for c := 0; c < 2; c++ {
			if h.comp[w][c].Equals(pid) {
				return c
			}
		}
	}
	return 9
}

func (h *verifC44) digest() string {
	x := h.wp
	pend := make([]string, len(x.pending))
	for i, p := range x.pending {
		pend[i] = fmt.Sprintf("%d:%d:%d", verifMsgID(p.messageID), p.storeSeq, h.payloadOfFrame(p.payload.rawBytes()))
	}
	bs := make([]string, 0, len(x.bindingOrder))
	for _, name := range x.bindingOrder {
		b := x.bindings[name]
		if b == nil {
			bs = append(bs, fmt.Sprintf("%d/nil", h.workerOf(name)))
			continue
		}
		unc := make([]string, len(b.unconfirmed))
		for i, u := range b.unconfirmed {
			unc[i] = fmt.Sprintf("%d:%d:%d:%d", verifMsgID(u.messageID), u.workerSeq, u.storeSeq, h.payloadOfFrame(u.payload.rawBytes()))
		}
		bs = append(bs, fmt.Sprintf("%d/%d/%d/%d/%d/%d/[%s]", h.workerOf(b.endpointName), h.compOf(b.controller), verifNonce(b.registrationNonce),
			b.currentSeq, b.confirmedSeq, b.demandUpTo, strings.Join(unc, ",")))
	}
	// free demand of EVERY binding in the map (not only those in bindingOrder), by worker number
	fd := make([]string, 0, 3)
	for w := 1; w <= 3; w++ {
		if b := x.bindings[h.wname[w]]; b != nil {
			fd = append(fd, fmt.Sprintf("%d:%d", w, b.freeDemand()))
		}
	}
	st := "-"
	if x.storedMessage != nil {
		st = h.show(x.storedMessage)
	}
	pendPl := int64(0)
	if len(x.pendingPayload.rawBytes()) > 0 {
		pendPl = h.payloadOfFrame(x.pendingPayload.rawBytes())
	}
	return fmt.Sprintf("W{ss=%d pend=[%s] b=[%s] fd=[%s] nm=%d nw=%d hs=%d tok=%d pid=%d pss=%d ppl=%d st=%s lt=%d lid=%d f=%d}",
		x.storeSeq, strings.Join(pend, ","), strings.Join(bs, "|"), strings.Join(fd, ","), len(x.bindings), x.nextWorker, x.handshake, h.tokens.of(x.token),
		verifMsgID(x.pendingMessageID), x.pendingStoreSeq, pendPl, st, h.tokens.of(x.lastCompletedToken),
		verifMsgID(x.lastCompletedMessageID), verifB(x.failed))
}

func (h *verifC44) send(sender *PID, m any) {
	if h.wp.failed || !h.wpPID.IsRunning() {
		return
	}
	h.wp.Receive(newReceiveContext(h.ctx, sender, h.wpPID, m))
}

func (h *verifC44) trace() string {
	var sb strings.Builder
	for w := 1; w <= 3; w++ {
		for c := 0; c < 2; c++ {
			if ms := h.capW[w][c].take(); len(ms) > 0 {
				sb.WriteString(fmt.Sprintf("w%d%d:%s ", w, c, h.showAll(ms)))
			}
		}
	}
	pu := h.capPU.take()
	h.inboxP = append(h.inboxP, pu...)
	if len(pu) > 0 {
		sb.WriteString("pu:" + h.showAll(pu) + " ")
	}
	sb.WriteString(h.digest())
	return sb.String()
}

// verifC44Num parses `<letter><digits>` fields out of an op such as q10n3a1b4v1.
func verifC44Num(op string, key byte) int {
	i := strings.IndexByte(op[3:], key)
	if i < 0 {
		return 0
	}
	i += 4
	j := i
	for j < len(op) && op[j] >= '0' && op[j] <= '9' {
		j++
	}
	n, _ := strconv.Atoi(op[i:j])
	return n
}

func (h *verifC44) op(op string) string {
	switch {
	case op == "tp":
		h.send(h.sys.NoSender(), &producerControllerTick{generation: h.wp.generation})
		return h.trace()
	case op == "up":
		if len(h.inboxP) == 0 {
			return "-"
		}
		m := h.inboxP[0]
		h.inboxP = h.inboxP[1:]
		switch x := m.(type) {
		case *RequestNext:
			if h.answered == nil || h.ansTok != x.Token() {
				h.jobs++
				p, err := NewProduced(x, "m"+strconv.Itoa(h.jobs), wrapperspb.Int64(verifPayloadOf(h.jobs)))
				if err != nil {
					return "err-produced"
				}
				h.answered, h.ansTok = p, x.Token()
			}
			h.send(h.prod, h.answered)
			return h.trace()
		case *Stored:
			a, err := NewStoredAck(x)
			if err != nil {
				return "err-storedack"
			}
			h.send(h.prod, a)
			return h.trace()
		default:
			return "-"
		}
	case op == "xp":
		if len(h.inboxP) > 0 {
			h.inboxP = h.inboxP[1:]
		}
		return "-"
	}
	if len(op) < 3 || op[1] < '1' || op[1] > '3' || op[2] < '0' || op[2] > '1' {
		return "bad-op"
	}
	w, c := int(op[1]-'0'), int(op[2]-'0')
	sender := h.comp[w][c]
	binding := h.wp.bindings[h.wname[w]]
	nonce := "nonce-" + strconv.Itoa(verifC44Num(op, 'n'))
	switch op[0] {
	case 'r':
		m, err := commands.NewRegisterConsumer(nonce)
		if err != nil {
			return "err-register"
		}
		h.send(sender, m)
	case 'q':
		conf := int64(verifC44Num(op, 'a'))
		if binding != nil {
			conf += binding.confirmedSeq
		}
		m, err := commands.NewRequest(h.wp.sessionID, nonce, conf, conf+int64(verifC44Num(op, 'b')), verifC44Num(op, 'v') == 1)
		if err != nil {
			return "err-request"
		}
		h.send(sender, m)
	case 'k':
		conf := int64(verifC44Num(op, 'a'))
		if binding != nil {
			conf += binding.confirmedSeq
		}
		m, err := commands.NewAck(h.wp.sessionID, nonce, conf)
		if err != nil {
			return "err-ack"
		}
		h.send(sender, m)
	case 't':
		h.send(h.sys.NoSender(), NewTerminated(sender.Path()))
	default:
		return "bad-op"
	}
	return h.trace()
}

// VerifC44Run executes one case: `<deliveryConfirmation 0|1> op op ...` with ops
//
//	r<w><c>n<k>                 RegisterConsumer(nonce k) from companion c of worker w
//	q<w><c>n<k>a<da>b<db>v<0|1> Request(confirmed = binding.confirmedSeq+da, upTo = confirmed+db, viaTimeout)
//	k<w><c>n<k>a<da>            Ack(confirmed = binding.confirmedSeq+da)
//	t<w><c>                     Terminated(companion c of worker w)
//	up / xp / tp                producer endpoint handles / loses its mailbox head; controller tick
func VerifC44Run(line string) string {
	f := strings.Fields(line)
	if len(f) < 1 {
		return "bad-case"
	}
	h, err := verifC44Setup(f[0] == "1")
	if h != nil {
		defer h.teardown()
	}
	if err != nil {
		return "setup-error: " + err.Error()
	}
	out := []string{"init " + h.trace()}
	for _, op := range f[1:] {
		out = append(out, h.op(op))
	}
	return strings.Join(out, ";")
}

//go:build verif

package actor

// C09 in-package driver: runs op scripts against the REAL `tree` (pid_tree.go) with stub PIDs and
// prints a canonical, pointer-free dump after every op.  Add-only; enters the build through -overlay.

import (
	"errors"
	"fmt"
	"sort"
	"strconv"
	"strings"
	"sync"

	"github.com/tochemey/goakt/v4/internal/address"
)

var (
	verifC09Once sync.Once
	verifC09Sys  *actorSystem
)

func verifC09System() *actorSystem {
	verifC09Once.Do(func() {
		sys, err := NewActorSystem("verif")
		if err != nil {
			panic(err)
		}
		verifC09Sys = sys.(*actorSystem)
		addr := address.New("nosender", "verif", "h", 1)
		verifC09Sys.noSender = &PID{address: addr, path: newPath(addr), actorSystem: verifC09Sys}
	})
	return verifC09Sys
}

type verifC09Tree struct {
	sys      *actorSystem
	tr       *tree
	nm       int
	pids     map[string]*PID // token -> stub PID object
	tags     map[*PID]int
	ids      map[string]int // PID.ID() -> id code
	names    map[string]int // PID.Name() -> name code
	rootUsed bool
}

func (v *verifC09Tree) pid(tok string) *PID {
	if p, ok := v.pids[tok]; ok {
		return p
	}
	parts := strings.SplitN(tok, ".", 2)
	tag, _ := strconv.Atoi(parts[0])
	id, _ := strconv.Atoi(parts[1])
	var p *PID
	if id == 0 {
		// a distinct object that Equals the system's NoSender
		addr := v.sys.noSender.address
		p = &PID{address: addr, path: newPath(addr), actorSystem: v.sys}
	} else {
		g, n := (id-1)/v.nm, (id-1)%v.nm
		name := "n" + strconv.Itoa(n)
		var addr *address.Address
		if g == 0 {
			addr = address.New(name, "verif", "h", 1)
		} else {
			addr = address.NewWithParent(name, "verif", "h", 1, address.New("p"+strconv.Itoa(g), "verif", "h", 1))
		}
		p = &PID{address: addr, path: newPath(addr), actorSystem: v.sys}
		v.names[name] = n
	}
	v.ids[p.ID()] = id
	v.pids[tok] = p
	v.tags[p] = tag
	return p
}

func verifC09Res(err error) string {
	if err == nil {
		return "ok"
	}
	if errors.Is(err, errNodeAlreadyExists) {
		return "exists"
	}
	switch err.Error() {
	case "pid already exists":
		return "exists"
	case "pid cannot be NoSender":
		return "nosender"
	case "parent pid cannot be NoSender":
		return "parentnosender"
	case "parent pid does not exist":
		return "parentmissing"
	case "pid does not exist":
		return "pidmissing"
	}
	return "err:" + err.Error()
}

func (v *verifC09Tree) tagList(l []*PID) string {
	if l == nil {
		return "~"
	}
	if len(l) == 0 {
		return "-"
	}
	ts := make([]int, 0, len(l))
	for _, p := range l {
		ts = append(ts, v.tags[p])
	}
	sort.Ints(ts)
	ss := make([]string, len(ts))
	for i, t := range ts {
		ss[i] = strconv.Itoa(t)
	}
	return strings.Join(ss, ",")
}

func (v *verifC09Tree) kv(m map[string]*PID) string {
	if len(m) == 0 {
		return "-"
	}
	type e struct{ k, t int }
	es := make([]e, 0, len(m))
	for k, p := range m {
		es = append(es, e{v.ids[k], v.tags[p]})
	}
	sort.Slice(es, func(i, j int) bool { return es[i].k < es[j].k })
	ss := make([]string, len(es))
	for i, x := range es {
		ss[i] = fmt.Sprintf("%d>%d", x.k, x.t)
	}
	return strings.Join(ss, ",")
}

// dump prints the state of the real tree; reads fields under the tree lock, then calls the real readers.
func (v *verifC09Tree) dump(res string) string {
	x := v.tr
	type nodeRow struct {
		id  int
		row string
		pid *PID
	}
	var rows []nodeRow
	x.mu.RLock()
	var names []string
	{
		type ne struct {
			nm, id int
			dead   bool
		}
		var es []ne
		for name, n := range x.names {
			es = append(es, ne{v.names[name], v.ids[n.id], n.pid.Load() == nil})
		}
		sort.Slice(es, func(i, j int) bool { return es[i].nm < es[j].nm })
		for _, e := range es {
			s := fmt.Sprintf("%d>%d", e.nm, e.id)
			if e.dead {
				s += "!"
			}
			names = append(names, s)
		}
	}
	var shadow []string
	{
		type se struct {
			nm  int
			row string
		}
		var es []se
		for name, l := range x.shadowed {
			parts := make([]string, len(l))
			for i, n := range l {
				parts[i] = strconv.Itoa(v.ids[n.id])
				if n.pid.Load() == nil {
					parts[i] += "!"
				}
			}
			es = append(es, se{v.names[name], fmt.Sprintf("%d>%s", v.names[name], strings.Join(parts, "."))})
		}
		sort.Slice(es, func(i, j int) bool { return es[i].nm < es[j].nm })
		for _, e := range es {
			shadow = append(shadow, e.row)
		}
	}
	for id, n := range x.pids {
		p := n.pid.Load()
		code := v.ids[id]
		par := "-"
		if n.parentNode != nil {
			if n.parentNode.pid.Load() == nil {
				par = "x"
			} else {
				par = strconv.Itoa(v.ids[n.parentNode.id])
			}
		}
		type de struct {
			k    int
			flag string
		}
		var ds []de
		for k, c := range n.descendants {
			flag := ""
			if c == nil || c.pid.Load() == nil {
				flag = "!"
			} else if x.pids[k] != c {
				flag = "?"
			}
			ds = append(ds, de{v.ids[k], flag})
		}
		sort.Slice(ds, func(i, j int) bool { return ds[i].k < ds[j].k })
		dstr := "-"
		if len(ds) > 0 {
			ss := make([]string, len(ds))
			for i, d := range ds {
				ss[i] = strconv.Itoa(d.k) + d.flag
			}
			dstr = strings.Join(ss, ",")
		}
		tag, name := -1, -1
		if p != nil {
			tag = v.tags[p]
			name = v.names[n.name]
		}
		row := fmt.Sprintf("%d:%d:%d:%s:%s:%s:%s", code, tag, name, par, v.kv(n.watchers), v.kv(n.watchees), dstr)
		rows = append(rows, nodeRow{code, row, p})
	}
	x.mu.RUnlock()
	sort.Slice(rows, func(i, j int) bool { return rows[i].id < rows[j].id })
	out := make([]string, len(rows))
	for i, r := range rows {
		c, g, s := "~", "~", "~"
		if r.pid != nil {
			c = v.tagList(x.children(r.pid))
			g = v.tagList(x.descendants(r.pid))
			s = v.tagList(x.siblings(r.pid))
		}
		out[i] = r.row + ":" + c + ":" + g + ":" + s
	}
	nodes, nms := "-", "-"
	if len(out) > 0 {
		nodes = strings.Join(out, " ")
	}
	if len(names) > 0 {
		nms = strings.Join(names, ",")
	}
	sh := "-"
	if len(shadow) > 0 {
		sh = strings.Join(shadow, ",")
	}
	return res + "|" + strconv.FormatInt(x.count(), 10) + "|" + nms + "|" + nodes + "|" + sh
}

// wouldCycle reports whether attaching p under parent closes a cycle (parent inside p's subtree).
func (v *verifC09Tree) wouldCycle(parent, p *PID) bool {
	if parent.Equals(p) {
		return true
	}
	for _, d := range v.tr.descendants(p) {
		if d.Equals(parent) {
			return true
		}
	}
	return false
}

func (v *verifC09Tree) exists(p *PID) bool {
	_, ok := v.tr.node(p.ID())
	return ok
}

func (v *verifC09Tree) op(tok string) string {
	f := strings.Split(tok, ":")
	x := v.tr
	nos := v.sys.noSender
	switch f[0] {
	case "Z":
		x.reset()
		v.rootUsed = false
		return "ok"
	case "R":
		p := v.pid(f[1])
		if v.rootUsed && !p.Equals(nos) && !v.exists(p) {
			return "unsupported"
		}
		err := x.addRootNode(p)
		if err == nil {
			v.rootUsed = true
		}
		return verifC09Res(err)
	case "A":
		return verifC09Res(x.addNode(v.pid(f[1]), v.pid(f[2])))
	case "T":
		parent, p := v.pid(f[1]), v.pid(f[2])
		if !parent.Equals(nos) && v.exists(parent) && v.exists(p) && v.wouldCycle(parent, p) {
			return "unsupported"
		}
		x.mu.Lock()
		err := x.attachNodeLocked(parent, p)
		x.mu.Unlock()
		return verifC09Res(err)
	case "O":
		parent, p := v.pid(f[1]), v.pid(f[2])
		if !parent.Equals(nos) && v.exists(parent) && v.exists(p) && v.wouldCycle(parent, p) {
			return "unsupported"
		}
		return verifC09Res(x.addOrAttachNode(parent, p))
	case "W":
		x.addWatcher(v.pid(f[1]), v.pid(f[2]))
		return "ok"
	case "U":
		x.removeWatcher(v.pid(f[1]), v.pid(f[2]))
		return "ok"
	case "X":
		i, _ := strconv.Atoi(f[1])
		j, _ := strconv.Atoi(f[2])
		x.removeDescendant(v.idString(i), v.idString(j))
		return "ok"
	case "D":
		x.deleteNode(v.pid(f[1]))
		return "ok"
	}
	return "bad-op"
}

func (v *verifC09Tree) idString(code int) string {
	for s, c := range v.ids {
		if c == code {
			return s
		}
	}
	// unknown id: build its string the same way pid() does
	return v.pid("999999." + strconv.Itoa(code)).ID()
}

// VerifC09TreeCase runs `tree <NM> <op>...` and returns the per-op dumps joined by '#'.
func VerifC09TreeCase(fields []string) string {
	nm, err := strconv.Atoi(fields[1])
	if err != nil || nm <= 0 {
		return "bad-case"
	}
	sys := verifC09System()
	v := &verifC09Tree{sys: sys, tr: newTree(), nm: nm, pids: map[string]*PID{}, tags: map[*PID]int{}, ids: map[string]int{}, names: map[string]int{}}
	v.ids[sys.noSender.ID()] = 0
	segs := make([]string, 0, len(fields)-2)
	for _, tok := range fields[2:] {
		res := v.op(tok)
		if res == "bad-op" {
			return "bad-case"
		}
		segs = append(segs, v.dump(res))
	}
	return strings.Join(segs, "#")
}

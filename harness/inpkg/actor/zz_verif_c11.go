//go:build verif

// Verification hook for C11 (overlay-only, add-only): read access to the actor tree
// and PID state of a running actor system.
package actor

import (
	"sort"
	"strings"
	"time"
)

// VerifNode describes one user node of the actor tree.
type VerifNode struct {
	Path    string // "a" or "parent/child"
	PID     *PID
	Running bool
}

func verifRelPath(id string) string {
	// goakt://system@host:port/<path>
	if i := strings.Index(id, "://"); i >= 0 {
		rest := id[i+3:]
		if j := strings.Index(rest, "/"); j >= 0 {
			return rest[j+1:]
		}
	}
	return id
}

// VerifUserNodes lists the non-system nodes of the tree sorted by path.
func VerifUserNodes(sys ActorSystem) []VerifNode {
	x := sys.(*actorSystem)
	var out []VerifNode
	for _, n := range x.actors.nodes() {
		pid := n.value()
		if pid == nil || isSystemName(pid.Name()) {
			continue
		}
		out = append(out, VerifNode{Path: verifRelPath(pid.ID()), PID: pid, Running: pid.IsRunning()})
	}
	sort.Slice(out, func(i, j int) bool { return out[i].Path < out[j].Path })
	return out
}

// VerifNodeAt returns the PID stored in the tree at the relative path, if any.
func VerifNodeAt(sys ActorSystem, path string) (*PID, bool) {
	for _, n := range VerifUserNodes(sys) {
		if n.Path == path {
			return n.PID, true
		}
	}
	return nil, false
}

// VerifNameIndex returns the relative path of the node the NAME index resolves name to ("" when absent).
func VerifNameIndex(sys ActorSystem, name string) string {
	x := sys.(*actorSystem)
	n, ok := x.actors.nodeByName(name)
	if !ok {
		return ""
	}
	pid := n.value()
	if pid == nil {
		return ""
	}
	return verifRelPath(pid.ID())
}

// VerifRunningFlag is the raw runningState flag (Shutdown tests this one, not IsRunning).
func VerifRunningFlag(pid *PID) bool { return pid.isStateSet(runningState) }

// VerifWaitGuardians waits until the guardians and the death watch have handled their
// PostStart message.  (Observed while building this harness: a user actor stopped within
// the first milliseconds after Start can have its Terminated handled by the user guardian
// BEFORE PostStart — the fair mailbox keeps one queue per sender — and the guardian then
// dereferences its nil logger, panics, and the root guardian shuts the whole system down.)
func VerifWaitGuardians(sys ActorSystem, timeout time.Duration) bool {
	x := sys.(*actorSystem)
	deadline := time.Now().Add(timeout)
	for {
		ready := true
		for _, p := range []*PID{x.rootGuardian, x.userGuardian, x.systemGuardian, x.deathWatch} {
			if p != nil && p.ProcessedCount() < 1 {
				ready = false
			}
		}
		if ready {
			return true
		}
		if time.Now().After(deadline) {
			return false
		}
		time.Sleep(100 * time.Microsecond)
	}
}

//go:build verif

package queue

import (
	"reflect"
	"strconv"
	"strings"
	"sync"
	"unsafe"
)

// VerifQ gives the C20 harness a deterministic view of a real Queue.
//
// sync.Pool may hand back any pooled node or none.  The harness runs with
// GOMAXPROCS(1) and calls Settle after every controlled step: whatever the real
// code has Put since the last call (at most one node per step) is moved to an
// explicit free list, so the sync.Pool itself is always empty when the real
// code calls Get, and Get falls through to pool.New — which this wrapper owns and
// serves from the free list according to the case's policy.  The real getItem /
// releaseItem code is what runs; only the identity of the node sync.Pool returns
// is made deterministic.
//
// The `pool` field is looked up by reflection so that this file still compiles
// when node pooling is removed from Queue (PoolField reports false then).
type VerifQ struct {
	Q      *Queue
	pool   *sync.Pool
	free   []*item // latest Put last
	policy string  // lifo | fifo | drop
}

func VerifWrap(q *Queue, policy string) *VerifQ {
	w := &VerifQ{Q: q, policy: policy}
	f := reflect.ValueOf(q).Elem().FieldByName("pool")
	if f.IsValid() && f.Type() == reflect.TypeOf(sync.Pool{}) {
		w.pool = (*sync.Pool)(unsafe.Pointer(f.UnsafeAddr()))
		w.pool.New = w.get
	}
	return w
}

func (w *VerifQ) PoolField() bool { return w.pool != nil }

func (w *VerifQ) get() any {
	n := len(w.free)
	if n > 0 {
		switch w.policy {
		case "lifo":
			it := w.free[n-1]
			w.free = w.free[:n-1]
			return it
		case "fifo":
			it := w.free[0]
			w.free = append([]*item(nil), w.free[1:]...)
			return it
		}
	}
	return &item{}
}

// Settle moves every node the real code has put into the sync.Pool to the free list.
func (w *VerifQ) Settle() {
	if w.pool == nil {
		return
	}
	w.pool.New = nil
	for {
		x := w.pool.Get()
		if x == nil {
			break
		}
		w.free = append(w.free, x.(*item))
	}
	w.pool.New = w.get
}

func hopsTo(from, to *item, limit int) int {
	cur := from
	for i := 0; i <= limit; i++ {
		if cur == to {
			return i
		}
		nx := (*item)(cur.next)
		if nx == nil {
			return -1
		}
		cur = nx
	}
	return -1
}

// Shape is the sequential digest of the heap (call only when no operation is running):
// values of the nodes after head, position of tail relative to head, free-list size,
// number of pooled nodes that are not clean.
func (w *VerifQ) Shape(limit int, show func(v any) string) string {
	w.Settle()
	head := (*item)(w.Q.head)
	tail := (*item)(w.Q.tail)
	var chain []string
	cur := head
	for i := 0; i < limit; i++ {
		nx := (*item)(cur.next)
		if nx == nil {
			break
		}
		chain = append(chain, show(nx.v))
		cur = nx
	}
	cs := "-"
	if len(chain) > 0 {
		cs = strings.Join(chain, ".")
	}
	tl := "off"
	if h := hopsTo(head, tail, limit); h >= 0 {
		tl = "+" + strconv.Itoa(h)
	} else if h := hopsTo(tail, head, limit); h >= 0 {
		tl = "-" + strconv.Itoa(h)
	}
	dirty := 0
	for _, it := range w.free {
		if it.next != nil || it.v != nil {
			dirty++
		}
	}
	return "chain=" + cs + " tail=" + tl + " pool=" + strconv.Itoa(len(w.free)) + " dirty=" + strconv.Itoa(dirty)
}

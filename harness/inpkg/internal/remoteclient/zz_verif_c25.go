//go:build verif

package remoteclient

import (
	"reflect"

	"github.com/tochemey/goakt/v4/remote"
)

// VerifC25Entry is one (registration type, serializer) pair for the C25 harness.
type VerifC25Entry struct {
	Type       reflect.Type
	Serializer remote.Serializer
}

// VerifC25Client builds a client whose serializer table is exactly `entries`, in that order
// (NewClient always seeds the proto.Message entry first; the dispatch code itself accepts any
// order), and wires the composite dispatcher the way NewClient does.  Add-only accessor.
func VerifC25Client(entries []VerifC25Entry) Client {
	r := &client{serializers: make([]ifaceEntry, 0, len(entries))}
	for _, e := range entries {
		r.serializers = append(r.serializers, ifaceEntry{iface: e.Type, serializer: e.Serializer})
	}
	r.dispatcher = newSerializerDispatch(r.serializers)
	return r
}

// VerifC25Entries returns the serializer table of a client built by NewClient.
func VerifC25Entries(c Client) []VerifC25Entry {
	r, ok := c.(*client)
	if !ok {
		return nil
	}
	out := make([]VerifC25Entry, 0, len(r.serializers))
	for _, e := range r.serializers {
		out = append(out, VerifC25Entry{Type: e.iface, Serializer: e.serializer})
	}
	return out
}

// VerifC25FrameTypeName exposes frameTypeName.
func VerifC25FrameTypeName(data []byte) (string, bool) {
	n, ok := frameTypeName(data)
	return string(n), ok
}

// VerifC25ErrClass maps the dispatcher's own sentinel errors.
func VerifC25ErrClass(err error) string {
	switch err {
	case errNoSerializerEncode:
		return "no-encode"
	case errNoSerializerDecode:
		return "no-decode"
	}
	return ""
}

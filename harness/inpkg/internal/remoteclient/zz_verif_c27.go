//go:build verif

package remoteclient

import (
	"context"
	"sync"
	"sync/atomic"
	"time"

	"github.com/tochemey/goakt/v4/internal/internalpb"
	inet "github.com/tochemey/goakt/v4/internal/net"
)

// VerifCoalescer is an opaque handle on the per-destination coalescer of a Client
// (add-only accessor for the C27 harness; the coalescer type itself is unexported).
type VerifCoalescer struct{ c *coalescer }

// VerifGetCoalescer returns the coalescer the client uses for host:port (creating it the way
// RemoteTell does), or ok=false when coalescing is disabled.
func VerifGetCoalescer(cl Client, host string, port int) (VerifCoalescer, bool) {
	r, ok := cl.(*client)
	if !ok {
		return VerifCoalescer{}, false
	}
	c := r.getCoalescer(host, port)
	return VerifCoalescer{c}, c != nil
}

// Len is len(c.in): messages sitting in the channel buffer.
func (v VerifCoalescer) Len() int { return len(v.c.in) }

// Cap is cap(c.in).
func (v VerifCoalescer) Cap() int { return cap(v.c.in) }

// MaxBatch is the effective batch bound.
func (v VerifCoalescer) MaxBatch() int { return v.c.maxBatch }

// DoneClosed reports whether close(done) has happened.
func (v VerifCoalescer) DoneClosed() bool {
	select {
	case <-v.c.done:
		return true
	default:
		return false
	}
}

// Submit calls the real submit (used for calls after Client.Close, when the client no longer
// routes to this coalescer). Result: "ok", "closed", "ctx" or "err".
func (v VerifCoalescer) Submit(ctx context.Context, sender string) string {
	err := v.c.submit(ctx, &internalpb.RemoteMessage{Sender: sender})
	switch {
	case err == nil:
		return "ok"
	case err == errCoalescerClosed:
		return "closed"
	case err == context.Canceled || err == context.DeadlineExceeded:
		return "ctx"
	}
	return "err"
}

// Leftover empties the channel buffer WITHOUT going through the writer and returns the Sender
// field of what was still sitting there. Only meaningful after the writer goroutine has exited.
func (v VerifCoalescer) Leftover() []string {
	var out []string
	for {
		select {
		case m := <-v.c.in:
			out = append(out, m.GetSender())
		default:
			return out
		}
	}
}

// VerifHoldCoalescerLock takes the mutex that serialises coalescer creation and returns the
// function that releases it: callers racing through getCoalescer pile up behind it.
func VerifHoldCoalescerLock(cl Client) func() {
	r := cl.(*client)
	r.coalescersMu.Lock()
	return r.coalescersMu.Unlock
}

// VerifRaceGetCoalescer lets n goroutines call the real getCoalescer for a destination nobody has
// used yet while the creation mutex is held for `hold`, then releases it and reports how many
// DISTINCT coalescers (writer goroutines) the n calls returned, and whether they all are the one the
// client's map now holds. Coalescers that are not in the map are closed here (Client.Close cannot
// reach them).
func VerifRaceGetCoalescer(cl Client, host string, port int, n int, hold func()) (distinct int, allInMap bool) {
	r := cl.(*client)
	r.coalescersMu.Lock()
	got := make(chan *coalescer, n)
	for i := 0; i < n; i++ {
		go func() { got <- r.getCoalescer(host, port) }()
	}
	hold()
	r.coalescersMu.Unlock()
	seen := map[*coalescer]bool{}
	for i := 0; i < n; i++ {
		seen[<-got] = true
	}
	inMap := r.getCoalescer(host, port)
	allInMap = true
	for c := range seen {
		if c != inMap {
			allInMap = false
			if c != nil {
				c.close()
			}
		}
	}
	return len(seen), allInMap
}

// VerifRaceClose is a stress probe for "submit racing close": for the given duration it creates a
// coalescer (transport: a dead port, every flush fails fast and goes to the error handler), lets
// `goroutines` senders submit `per` messages each while close() runs concurrently, and counts the
// messages whose submit returned nil but that were neither flushed (= handed to the error
// handler here) nor rejected: they are still in the channel after the writer goroutine has exited.
func VerifRaceClose(d time.Duration, goroutines, per int) (trials int, lost int) {
	nc := inet.NewClient("127.0.0.1:1", inet.WithDialTimeout(50*time.Millisecond))
	defer nc.Close()
	start := time.Now()
	for time.Since(start) < d {
		trials++
		var handled, accepted atomic.Int64
		c := newCoalescer("127.0.0.1:1", nc, coalescingConfig{maxBatch: 64,
			errHandler: func(_ string, m []*internalpb.RemoteMessage, _ error) { handled.Add(int64(len(m))) }})
		var wg sync.WaitGroup
		gate := make(chan struct{})
		for g := 0; g < goroutines; g++ {
			wg.Add(1)
			go func() {
				defer wg.Done()
				<-gate
				for i := 0; i < per; i++ {
					if c.submit(context.Background(), &internalpb.RemoteMessage{}) == nil {
						accepted.Add(1)
					}
				}
			}()
		}
		close(gate)
		c.close()
		wg.Wait()
		lost += int(accepted.Load() - handled.Load())
	}
	return trials, lost
}

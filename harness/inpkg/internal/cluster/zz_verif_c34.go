//go:build verif

package cluster

import (
	"github.com/tochemey/goakt/v4/discovery"
	"github.com/tochemey/goakt/v4/log"
)

// VerifC34 wraps the real cluster struct (built by New, never started, so no olric) for the
// C34 harness: payloads go through handleClusterEvent, the timeout is driven by calling
// emitOverdueNodeLeft, emitted events are read from the events channel.
type VerifC34 struct{ c *cluster }

// VerifC34Event is one emitted membership event.
type VerifC34Event struct {
	Kind string // "J" NodeJoined, "L" NodeLeft, "X" anything else
	Addr string
	Ms   int64
}

// VerifC34State is a copy of the bookkeeping the C34 model mirrors.
type VerifC34State struct {
	JoinTs, LeftTs         map[string]int64
	JoinEp, LeftEp         map[string]uint64
	JoinLatest, LeftLatest uint64
	StartSeen, CompleteSeen []uint64
	JoinF, LeftF           []string
}

func VerifC34New(host string, peersPort int) *VerifC34 {
	node := &discovery.Node{Host: host, PeersPort: peersPort, DiscoveryPort: peersPort + 1, RemotingPort: peersPort + 2}
	cl := New("verif", nil, node, WithLogger(log.DiscardLogger))
	return &VerifC34{c: cl.(*cluster)}
}

func (v *VerifC34) Feed(payload string) error { return v.c.handleClusterEvent(payload) }

func (v *VerifC34) Overdue(node string) { v.c.emitOverdueNodeLeft(node) }

func (v *VerifC34) Drain() []VerifC34Event {
	var out []VerifC34Event
	for {
		select {
		case e := <-v.c.events:
			switch p := e.Payload.(type) {
			case *NodeJoinedEvent:
				out = append(out, VerifC34Event{"J", p.Address, p.Timestamp.UnixMilli()})
			case *NodeLeftEvent:
				out = append(out, VerifC34Event{"L", p.Address, p.Timestamp.UnixMilli()})
			default:
				out = append(out, VerifC34Event{"X", e.Type.String(), 0})
			}
		default:
			return out
		}
	}
}

func (v *VerifC34) State() VerifC34State {
	x := v.c
	x.eventsLock.Lock()
	defer x.eventsLock.Unlock()
	s := VerifC34State{
		JoinTs: map[string]int64{}, LeftTs: map[string]int64{},
		JoinEp: map[string]uint64{}, LeftEp: map[string]uint64{},
		JoinLatest: x.rebalanceJoinLatestEpoch, LeftLatest: x.rebalanceLeftLatestEpoch,
	}
	for k, t := range x.nodeJoinTimestamps {
		s.JoinTs[k] = t
	}
	for k, t := range x.nodeLeftTimestamps {
		s.LeftTs[k] = t
	}
	for k, e := range x.rebalanceJoinNodeEpochs {
		s.JoinEp[k] = e
	}
	for k, e := range x.rebalanceLeftNodeEpochs {
		s.LeftEp[k] = e
	}
	for e := range x.rebalanceStartSeen {
		s.StartSeen = append(s.StartSeen, e)
	}
	for e := range x.rebalanceCompleteSeen {
		s.CompleteSeen = append(s.CompleteSeen, e)
	}
	s.JoinF = x.nodeJoinedEventsFilter.ToSlice()
	s.LeftF = x.nodeLeftEventsFilter.ToSlice()
	return s
}

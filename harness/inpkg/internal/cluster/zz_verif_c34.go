//go:build verif

package cluster

import (
	goset "github.com/deckarep/golang-set/v2"

	"github.com/tochemey/olric/events"

	"github.com/tochemey/goakt/v4/discovery"
	"github.com/tochemey/goakt/v4/log"
)

// VerifC34 wraps the real cluster struct (built by New, never started, so no olric) for the
// C34 harness: payloads go through handleClusterEvent, the timeout is driven by calling
// emitOverdueNodeLeft, emitted events are read from the events channel.
type VerifC34 struct{ c *cluster }

// VerifC34Event is one emitted membership event.
type VerifC34Event struct {
	Kind string // "J" NodeJoined, "L" NodeLeft, "X" anything else
	Addr string
	Ms   int64
}

// VerifC34State is a copy of the bookkeeping the C34 model mirrors.
type VerifC34State struct {
	JoinTs, LeftTs         map[string]int64
	JoinEp, LeftEp         map[string]uint64
	JoinLatest, LeftLatest uint64
	StartSeen, CompleteSeen []uint64
	JoinF, LeftF           []string
}

func VerifC34New(host string, peersPort int) *VerifC34 {
	node := &discovery.Node{Host: host, PeersPort: peersPort, DiscoveryPort: peersPort + 1, RemotingPort: peersPort + 2}
	cl := New("verif", nil, node, WithLogger(log.DiscardLogger))
	return &VerifC34{c: cl.(*cluster)}
}

// VerifC34Clone gives a fresh, empty bookkeeping state that shares the immutable configuration
// (node, logger, …) of a cluster built by New: constructing the default configuration costs far
// more than a whole history.  Used only by the exhaustive enumeration; ordinary cases call New.
func VerifC34Clone(t *VerifC34) *VerifC34 {
	src := t.c
	c := &cluster{
		name: src.name, node: src.node, logger: src.logger, readTimeout: src.readTimeout,
		events:                  make(chan *Event, 16), // drained after every op; a step emits at most 4 events here
		nodeJoinedEventsFilter:  goset.NewSet[string](),
		nodeLeftEventsFilter:    goset.NewSet[string](),
		nodeJoinTimestamps:      make(map[string]int64),
		nodeLeftTimestamps:      make(map[string]int64),
		rebalanceJoinNodeEpochs: make(map[string]uint64),
		rebalanceLeftNodeEpochs: make(map[string]uint64),
		rebalanceStartSeen:      make(map[uint64]struct{}),
		rebalanceCompleteSeen:   make(map[uint64]struct{}),
		running:                 src.running,
	}
	return &VerifC34{c: c}
}

// Apply calls the handler behind handleClusterEvent directly with a decoded notification
// (kind: 'j' join, 'l' left, 'S' rebalance-start, 'C' rebalance-complete).  The exhaustive
// enumeration uses it to skip the JSON decoding, which dominates the cost of a history; the
// decoding and dispatch themselves are exercised by every ordinary case through Feed.
func (v *VerifC34) Apply(kind byte, node, reason string, epoch uint64, ts int64) {
	switch kind {
	case 'j':
		v.c.trackNodeJoinEvent(events.NodeJoinEvent{Kind: events.KindNodeJoinEvent, NodeJoin: node, Timestamp: ts})
	case 'l':
		v.c.trackNodeLeftEvent(events.NodeLeftEvent{Kind: events.KindNodeLeftEvent, NodeLeft: node, Timestamp: ts})
	case 'S':
		v.c.processRebalanceStart(events.RebalanceStartEvent{Kind: events.KindRebalanceStartEvent, Epoch: epoch, Reason: reason, Node: node, Timestamp: ts})
	case 'C':
		v.c.processRebalanceComplete(events.RebalanceCompleteEvent{Kind: events.KindRebalanceCompleteEvent, Epoch: epoch, Timestamp: ts})
	}
}

func (v *VerifC34) Feed(payload string) error { return v.c.handleClusterEvent(payload) }

func (v *VerifC34) Overdue(node string) { v.c.emitOverdueNodeLeft(node) }

func (v *VerifC34) Drain() []VerifC34Event {
	var out []VerifC34Event
	for {
		select {
		case e := <-v.c.events:
			switch p := e.Payload.(type) {
			case *NodeJoinedEvent:
				out = append(out, VerifC34Event{"J", p.Address, p.Timestamp.UnixMilli()})
			case *NodeLeftEvent:
				out = append(out, VerifC34Event{"L", p.Address, p.Timestamp.UnixMilli()})
			default:
				out = append(out, VerifC34Event{"X", e.Type.String(), 0})
			}
		default:
			return out
		}
	}
}

// Release drops the bookkeeping of a finished case.  trackNodeLeftEvent arms a 30 s
// time.AfterFunc per tracked departure whose closure keeps the cluster alive; when millions of
// histories are enumerated only the bare struct should stay reachable until the timer fires
// (the callback then finds no pending departure: reading a nil map is fine).
func (v *VerifC34) Release() {
	x := v.c
	x.eventsLock.Lock()
	defer x.eventsLock.Unlock()
	x.nodeJoinTimestamps, x.nodeLeftTimestamps = nil, nil
	x.rebalanceJoinNodeEpochs, x.rebalanceLeftNodeEpochs = nil, nil
	x.rebalanceStartSeen, x.rebalanceCompleteSeen = nil, nil
	x.events = nil
}

func (v *VerifC34) State() VerifC34State {
	x := v.c
	x.eventsLock.Lock()
	defer x.eventsLock.Unlock()
	s := VerifC34State{
		JoinTs: map[string]int64{}, LeftTs: map[string]int64{},
		JoinEp: map[string]uint64{}, LeftEp: map[string]uint64{},
		JoinLatest: x.rebalanceJoinLatestEpoch, LeftLatest: x.rebalanceLeftLatestEpoch,
	}
	for k, t := range x.nodeJoinTimestamps {
		s.JoinTs[k] = t
	}
	for k, t := range x.nodeLeftTimestamps {
		s.LeftTs[k] = t
	}
	for k, e := range x.rebalanceJoinNodeEpochs {
		s.JoinEp[k] = e
	}
	for k, e := range x.rebalanceLeftNodeEpochs {
		s.LeftEp[k] = e
	}
	for e := range x.rebalanceStartSeen {
		s.StartSeen = append(s.StartSeen, e)
	}
	for e := range x.rebalanceCompleteSeen {
		s.CompleteSeen = append(s.CompleteSeen, e)
	}
	s.JoinF = x.nodeJoinedEventsFilter.ToSlice()
	s.LeftF = x.nodeLeftEventsFilter.ToSlice()
	return s
}

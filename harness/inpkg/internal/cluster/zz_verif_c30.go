//go:build verif

// Verification hook (overlay-only, add-only): a REAL *cluster value whose olric
// DMap and olric Client are replaced by an in-memory registry shared by all the
// nodes of one case.  Every Cluster method executed on it is goakt's own code
// (internal/cluster/cluster.go): key composition, NX option, error mapping,
// locking.  Only the store underneath is fake: one Go map guarded by one mutex,
// i.e. atomic get / put / put-if-absent / delete, which is the contract assumed
// of olric (trusted base of C30/C36).
package cluster

import (
	"context"
	"encoding/json"
	"errors"
	"fmt"
	"reflect"
	"strings"
	"sync"
	"time"
	"unsafe"

	"github.com/tochemey/olric"
	"go.uber.org/atomic"

	"github.com/tochemey/goakt/v4/discovery"
	"github.com/tochemey/goakt/v4/log"
)

// ErrVerifInjected is returned by a registry operation whose failure was injected.
var ErrVerifInjected = errors.New("verif: injected registry failure")

// VerifRegistry is the shared store plus an operation log.
type VerifRegistry struct {
	mu     sync.Mutex
	m      map[string][]byte
	log    []string
	leased map[string]bool // keys written with an expiry option (EX/PX/EXAT/PXAT): removed by ExpireLeases
	fail   map[string]int  // "<node>:<kind>" -> number of upcoming operations of that kind to fail
	leader []int           // leader[n] = node that node n currently believes to be the coordinator
	nodes  []*discovery.Node
}

// VerifNewRegistry creates the registry of a case with n nodes; every node starts
// believing node 0 is the coordinator.
func VerifNewRegistry(n int) *VerifRegistry {
	return &VerifRegistry{m: map[string][]byte{}, leased: map[string]bool{}, fail: map[string]int{}, leader: make([]int, n), nodes: make([]*discovery.Node, n)}
}

// FailNext makes the next operation of the given kind (get, put, putnx, del) issued by node fail.
func (r *VerifRegistry) FailNext(node int, kind string) {
	r.mu.Lock()
	r.fail[fmt.Sprintf("%d:%s", node, kind)]++
	r.mu.Unlock()
}

// ClearFail drops every pending injected failure of node.
func (r *VerifRegistry) ClearFail(node int) {
	r.mu.Lock()
	for k := range r.fail {
		if strings.HasPrefix(k, fmt.Sprintf("%d:", node)) {
			delete(r.fail, k)
		}
	}
	r.mu.Unlock()
}

// SetLeaderView scripts what node `node` will answer to IsLeader from now on.
func (r *VerifRegistry) SetLeaderView(node, leader int) {
	r.mu.Lock()
	r.leader[node] = leader
	r.mu.Unlock()
}

// Log returns the operations executed so far, in execution order.
// Entry: <node><letter>; g = get hit, G = get miss, p = put, x = putnx stored,
// X = putnx refused (key found), d = delete; a trailing '!' marks an injected failure.
func (r *VerifRegistry) Log() string {
	r.mu.Lock()
	defer r.mu.Unlock()
	return strings.Join(r.log, " ")
}

// Raw returns the stored bytes under the full (namespaced) key.
func (r *VerifRegistry) Raw(key string) ([]byte, bool) {
	r.mu.Lock()
	defer r.mu.Unlock()
	v, ok := r.m[key]
	return v, ok
}

// Keys returns the stored keys (sorted by the caller when needed).
func (r *VerifRegistry) Keys() []string {
	r.mu.Lock()
	defer r.mu.Unlock()
	out := make([]string, 0, len(r.m))
	for k := range r.m {
		out = append(out, k)
	}
	return out
}

func (r *VerifRegistry) injected(node int, kind string) bool {
	k := fmt.Sprintf("%d:%s", node, kind)
	if r.fail[k] > 0 {
		r.fail[k]--
		return true
	}
	return false
}

type verifDMap struct {
	olric.DMap // nil: any method not overridden below panics (recovered per case by the harness)
	reg        *VerifRegistry
	node       int
}

func (d *verifDMap) Name() string { return "verif-dmap" }

// verifPutFlag applies the option to a fresh PutConfig (its type lives in an olric
// internal package, so it is reached by reflection) and reads the named bool field.
func verifPutFlag(o olric.PutOption, fields ...string) bool {
	t := reflect.TypeOf(o)
	if t.Kind() != reflect.Func || t.NumIn() != 1 || t.In(0).Kind() != reflect.Ptr {
		return false
	}
	cfg := reflect.New(t.In(0).Elem())
	reflect.ValueOf(o).Call([]reflect.Value{cfg})
	for _, name := range fields {
		f := cfg.Elem().FieldByName(name)
		if f.IsValid() && f.Kind() == reflect.Bool && f.Bool() {
			return true
		}
	}
	return false
}

func verifHasNX(o olric.PutOption) bool { return verifPutFlag(o, "HasNX") }

// verifHasExpiry: the record is written with a time to live.
func verifHasExpiry(o olric.PutOption) bool {
	return verifPutFlag(o, "HasEX", "HasPX", "HasEXAT", "HasPXAT")
}

// ExpireLeases lets time pass: every record that was written with an expiry option
// disappears (its lease ran out). Returns how many records were removed.
func (r *VerifRegistry) ExpireLeases() int {
	r.mu.Lock()
	defer r.mu.Unlock()
	n := 0
	for k := range r.leased {
		if _, ok := r.m[k]; ok {
			delete(r.m, k)
			n++
		}
		delete(r.leased, k)
	}
	if n > 0 {
		r.log = append(r.log, fmt.Sprintf("expired%d", n))
	}
	return n
}

func (d *verifDMap) Put(_ context.Context, key string, value any, options ...olric.PutOption) error {
	nx, ttl := false, false
	for _, o := range options {
		if verifHasNX(o) {
			nx = true
		}
		if verifHasExpiry(o) {
			ttl = true
		}
	}
	b, ok := value.([]byte)
	if !ok {
		return fmt.Errorf("verif dmap: unsupported value type %T", value)
	}
	r := d.reg
	r.mu.Lock()
	defer r.mu.Unlock()
	if nx {
		if r.injected(d.node, "putnx") {
			r.log = append(r.log, fmt.Sprintf("%dx!", d.node))
			return ErrVerifInjected
		}
		if _, found := r.m[key]; found {
			r.log = append(r.log, fmt.Sprintf("%dX", d.node))
			return olric.ErrKeyFound
		}
		r.m[key] = append([]byte(nil), b...)
		if ttl {
			r.leased[key] = true
			r.log = append(r.log, fmt.Sprintf("%dx~", d.node)) // a claim that can expire
		} else {
			delete(r.leased, key)
			r.log = append(r.log, fmt.Sprintf("%dx", d.node))
		}
		return nil
	}
	if r.injected(d.node, "put") {
		r.log = append(r.log, fmt.Sprintf("%dp!", d.node))
		return ErrVerifInjected
	}
	r.m[key] = append([]byte(nil), b...)
	if ttl {
		r.leased[key] = true
		r.log = append(r.log, fmt.Sprintf("%dp~", d.node)) // a record that can expire
	} else {
		delete(r.leased, key)
		r.log = append(r.log, fmt.Sprintf("%dp", d.node))
	}
	return nil
}

type verifEntry struct {
	key   string
	value []byte
	ttl   int64
	ts    int64
	la    int64
}

func (e *verifEntry) SetKey(key string)      { e.key = key }
func (e *verifEntry) Key() string            { return e.key }
func (e *verifEntry) SetValue(value []byte)  { e.value = append([]byte(nil), value...) }
func (e *verifEntry) Value() []byte          { return append([]byte(nil), e.value...) }
func (e *verifEntry) SetTTL(ttl int64)       { e.ttl = ttl }
func (e *verifEntry) TTL() int64             { return e.ttl }
func (e *verifEntry) SetTimestamp(ts int64)  { e.ts = ts }
func (e *verifEntry) Timestamp() int64       { return e.ts }
func (e *verifEntry) SetLastAccess(ts int64) { e.la = ts }
func (e *verifEntry) LastAccess() int64      { return e.la }
func (e *verifEntry) Encode() []byte         { return e.Value() }
func (e *verifEntry) Decode(data []byte)     { e.SetValue(data) }

// verifGetResponse builds an olric.GetResponse around raw bytes (same technique
// as goakt's own cluster tests: the fields are unexported).
func verifGetResponse(value []byte) *olric.GetResponse {
	resp := &olric.GetResponse{}
	rv := reflect.ValueOf(resp).Elem()
	f := rv.FieldByName("entry")
	e := &verifEntry{}
	e.SetValue(value)
	reflect.NewAt(f.Type(), unsafe.Pointer(f.UnsafeAddr())).Elem().Set(reflect.ValueOf(e))
	return resp
}

func (d *verifDMap) Get(_ context.Context, key string) (*olric.GetResponse, error) {
	r := d.reg
	r.mu.Lock()
	defer r.mu.Unlock()
	if r.injected(d.node, "get") {
		r.log = append(r.log, fmt.Sprintf("%dg!", d.node))
		return nil, ErrVerifInjected
	}
	v, found := r.m[key]
	if !found {
		r.log = append(r.log, fmt.Sprintf("%dG", d.node))
		return nil, olric.ErrKeyNotFound
	}
	r.log = append(r.log, fmt.Sprintf("%dg", d.node))
	return verifGetResponse(v), nil
}

func (d *verifDMap) Delete(_ context.Context, keys ...string) (int, error) {
	r := d.reg
	r.mu.Lock()
	defer r.mu.Unlock()
	if r.injected(d.node, "del") {
		r.log = append(r.log, fmt.Sprintf("%dd!", d.node))
		return 0, ErrVerifInjected
	}
	n := 0
	for _, k := range keys {
		if _, found := r.m[k]; found {
			n++
			delete(r.m, k)
		}
	}
	r.log = append(r.log, fmt.Sprintf("%dd", d.node))
	return n, nil
}

type verifClient struct {
	olric.Client // nil: only Members is used
	reg          *VerifRegistry
	node         int
}

// Members answers with node's CURRENT VIEW of the membership: exactly one
// coordinator, the node the harness scripted through SetLeaderView.
func (c *verifClient) Members(context.Context) ([]olric.Member, error) {
	r := c.reg
	r.mu.Lock()
	defer r.mu.Unlock()
	lead := r.leader[c.node]
	out := make([]olric.Member, 0, len(r.nodes))
	for i, n := range r.nodes {
		if n == nil {
			continue
		}
		meta, _ := json.Marshal(n)
		out = append(out, olric.Member{Name: n.PeersAddress(), ID: uint64(i + 1), Birthdate: int64(i + 1), Coordinator: i == lead, Meta: string(meta)})
	}
	r.log = append(r.log, fmt.Sprintf("%dm", c.node))
	return out, nil
}

// VerifNewCluster returns goakt's own cluster implementation for node index
// `node`, running, wired to the shared fake registry.
func VerifNewCluster(reg *VerifRegistry, node int, dnode *discovery.Node) Cluster {
	reg.mu.Lock()
	reg.nodes[node] = dnode
	reg.mu.Unlock()
	return &cluster{
		name:         "verif",
		node:         dnode,
		logger:       log.DiscardLogger,
		writeTimeout: 5 * time.Second,
		readTimeout:  5 * time.Second,
		dmap:         &verifDMap{reg: reg, node: node},
		client:       &verifClient{reg: reg, node: node},
		events:       make(chan *Event, 8),
		running:      atomic.NewBool(true),
	}
}

// VerifGrainKey / VerifActorKey: the namespaced keys cluster.go composes.
func VerifGrainKey(id string) string   { return composeKey(namespaceGrains, id) }
func VerifActorKey(name string) string { return composeKey(namespaceActors, name) }

// VerifDecodeGrainOwner decodes a stored grain record into "host:port".
func VerifDecodeGrainOwner(b []byte) string {
	g, err := decodeGrain(b)
	if err != nil {
		return "undecodable"
	}
	return fmt.Sprintf("%s:%d", g.GetHost(), g.GetPort())
}

// VerifDecodeActorOwner decodes a stored actor record into its address string.
func VerifDecodeActorOwner(b []byte) string {
	a, err := decode(b)
	if err != nil {
		return "undecodable"
	}
	return a.GetAddress()
}

//go:build verif

package commands

// Raw constructors (no validation) and field dumpers for the C25 harness: the delivery commands
// have unexported fields and validating constructors; Serialize's own validation is part of what
// the harness drives.  Add-only.

func VerifC25RegisterConsumer(nonce string) *RegisterConsumer { return &RegisterConsumer{nonce: nonce} }

func VerifC25RegistrationAck(session string, nextSeq int64, nonce string) *RegistrationAck {
	return &RegistrationAck{sessionID: session, nextSeq: nextSeq, nonce: nonce}
}

func VerifC25Request(session, nonce string, confirmed, upTo int64, via bool) *Request {
	return &Request{sessionID: session, registrationNonce: nonce, confirmedSeq: confirmed, requestUpToSeq: upTo, viaTimeout: via}
}

func VerifC25Ack(session, nonce string, confirmed int64) *Ack {
	return &Ack{sessionID: session, registrationNonce: nonce, confirmedSeq: confirmed}
}

func VerifC25Sequenced(session, id string, seq int64, payload []byte, chunked, first, last bool) *SequencedMessage {
	return &SequencedMessage{sessionID: session, messageID: id, seq: seq, payload: payload, chunked: chunked, firstChunk: first, lastChunk: last}
}

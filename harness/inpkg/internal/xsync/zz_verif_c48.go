//go:build verif

package xsync

import (
	"fmt"
	"sort"
	"strings"
	"time"
)

// VerifNewTTLMap builds a real TTLMap[int,int64] whose clock hook reads *clock.
func VerifNewTTLMap(ttl int64, clock *int64) *TTLMap[int, int64] {
	m := NewTTLMap[int, int64](time.Duration(ttl))
	m.now = func() int64 { return *clock }
	return m
}

// VerifDumpTTLMap renders the internal state canonically:
// `k:idx:val:exp,...|len(order)|head` with items sorted by key (`.` if there are none).
func VerifDumpTTLMap(m *TTLMap[int, int64]) string {
	m.mu.Lock()
	defer m.mu.Unlock()
	keys := make([]int, 0, len(m.items))
	for k := range m.items {
		keys = append(keys, k)
	}
	sort.Ints(keys)
	parts := make([]string, 0, len(keys))
	for _, k := range keys {
		i := m.items[k]
		if i < 0 || i >= len(m.order) {
			parts = append(parts, fmt.Sprintf("%d:%d:?:?", k, i))
			continue
		}
		e := m.order[i]
		parts = append(parts, fmt.Sprintf("%d:%d:%d:%d", k, i, e.value, e.expireAt))
	}
	its := "."
	if len(parts) > 0 {
		its = strings.Join(parts, ",")
	}
	return fmt.Sprintf("%s|%d|%d", its, len(m.order), m.head)
}

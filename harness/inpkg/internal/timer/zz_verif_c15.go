//go:build verif

package timer

import "time"

// VerifDrain empties the pool and reports how many timers it held and whether the same *time.Timer was in it more than
// once (a timer that was Put twice is handed to two callers, which then share one deadline). The harness runs with
// GOMAXPROCS(1), so everything that was Put is visible to the calling goroutine.
func VerifDrain(p *Pool) (n int, dup bool) {
	newFn := p.pool.New
	p.pool.New = nil
	seen := map[*time.Timer]bool{}
	for {
		x := p.pool.Get()
		if x == nil {
			break
		}
		t := x.(*time.Timer)
		if seen[t] {
			dup = true
		}
		seen[t] = true
		n++
	}
	p.pool.New = newFn
	return n, dup
}

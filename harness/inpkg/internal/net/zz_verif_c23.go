//go:build verif

package net

import (
	"bytes"
	"context"
	"io"
	stdnet "net"
	"sort"
	"time"

	"google.golang.org/protobuf/proto"
)

// ---- C23 accessors (add-only, overlay) ------------------------------------

// VerifMDFields exposes the unexported state of a Metadata: headers sorted by key and the
// stored UnixNano deadline.
func VerifMDFields(m *Metadata) (keys, vals []string, deadlineNano int64) {
	for k := range m.headers {
		keys = append(keys, k)
	}
	sort.Strings(keys)
	for _, k := range keys {
		vals = append(vals, m.headers[k])
	}
	return keys, vals, m.deadlineNano
}

// VerifSetDeadlineNano stores an arbitrary int64 in the deadline field.
func VerifSetDeadlineNano(m *Metadata, v int64) { m.deadlineNano = v }

// VerifBucketIndex / VerifBucketIndexExact expose the pool sizing functions.
func VerifBucketIndex(n int) int      { return bucketIndex(n) }
func VerifBucketIndexExact(c int) int { return bucketIndexExact(c) }

// VerifReadFrames runs readProtoFrame on a reader holding stream until it fails; it returns the
// frames (copied), the capacity of each returned buffer, and the terminating error.
func VerifReadFrames(stream []byte, pool *FramePool, max uint32) (frames [][]byte, caps []int, err error) {
	r := bytes.NewReader(stream)
	for {
		f, e := readProtoFrame(r, pool, max)
		if e != nil {
			return frames, caps, e
		}
		frames = append(frames, append([]byte(nil), f...))
		caps = append(caps, cap(f))
		if pool != nil {
			pool.Put(f)
		}
	}
}

// VerifClientDecode runs Client.unmarshalProtoResponse (the format-detection heuristic).
func VerifClientDecode(c *Client, frame []byte) (proto.Message, *Metadata, error) {
	return c.unmarshalProtoResponse(frame)
}

// VerifClientMarshal runs Client.marshalProtoWithContext and copies the pooled frame.
func VerifClientMarshal(c *Client, ctx context.Context, msg proto.Message) ([]byte, error) {
	b, err := c.marshalProtoWithContext(ctx, msg)
	if err != nil {
		return nil, err
	}
	out := append([]byte(nil), b...)
	c.framePool.Put(b)
	return out, nil
}

// VerifClientReadN mirrors the response loop of SendBatchProto on an in-memory stream:
// readProtoFrame + unmarshalProtoResponse n times with the client's pool and frame limit.
func VerifClientReadN(c *Client, stream []byte, n int) (msgs []proto.Message, mds []*Metadata, err error) {
	r := bytes.NewReader(stream)
	for i := 0; i < n; i++ {
		f, e := readProtoFrame(r, c.framePool, c.maxFrameSize)
		if e != nil {
			return msgs, mds, e
		}
		m, md, e := c.unmarshalProtoResponse(f)
		c.framePool.Put(f)
		if e != nil {
			return msgs, mds, e
		}
		msgs = append(msgs, m)
		mds = append(mds, md)
	}
	return msgs, mds, nil
}

type verifConn struct {
	r *bytes.Reader
	w bytes.Buffer
}

func (c *verifConn) Read(p []byte) (int, error)         { return c.r.Read(p) }
func (c *verifConn) Write(p []byte) (int, error)        { return c.w.Write(p) }
func (c *verifConn) Close() error                       { return nil }
func (c *verifConn) LocalAddr() stdnet.Addr             { return &stdnet.TCPAddr{} }
func (c *verifConn) RemoteAddr() stdnet.Addr            { return &stdnet.TCPAddr{} }
func (c *verifConn) SetDeadline(time.Time) error        { return nil }
func (c *verifConn) SetReadDeadline(time.Time) error    { return nil }
func (c *verifConn) SetWriteDeadline(time.Time) error   { return nil }

var _ io.Reader = (*verifConn)(nil)

// VerifHandled is one request seen by the handler of VerifServe.
type VerifHandled struct {
	Msg proto.Message
	MD  *Metadata
}

// VerifServe runs the REAL ProtoServer.handleConn read loop over an in-memory connection that
// delivers stream and then EOF.  Every decoded request is recorded; when reply is set the
// handler echoes the request so the server writes response frames, which are returned.
func VerifServe(ps *ProtoServer, rec *[]VerifHandled, stream []byte) (written []byte) {
	fc := &verifConn{r: bytes.NewReader(stream)}
	conn := &TCPConn{}
	conn.Reset(fc)
	conn.SetServer(ps.server)
	*rec = (*rec)[:0]
	ps.handleConn(conn)
	return append([]byte(nil), fc.w.Bytes()...)
}

// VerifNewServer builds a ProtoServer (never listening) whose fallback handler records into rec.
func VerifNewServer(max uint32, reply bool, rec *[]VerifHandled) (*ProtoServer, error) {
	h := func(ctx context.Context, _ Connection, req proto.Message) (proto.Message, error) {
		md, _ := FromContext(ctx)
		*rec = append(*rec, VerifHandled{Msg: req, MD: md})
		if reply {
			return req, nil
		}
		return nil, nil
	}
	return NewProtoServer("127.0.0.1:0", WithFallbackProtoHandler(h), WithProtoServerMaxFrameSize(max), WithProtoServerBallast(0))
}

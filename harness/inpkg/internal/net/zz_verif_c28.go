//go:build verif

package net

// VerifIdleCount returns the number of connections sitting in the client's idle pool
// (add-only accessor for the C28 harness).
func VerifIdleCount(c *Client) int {
	c.mu.Lock()
	defer c.mu.Unlock()
	return len(c.idle)
}

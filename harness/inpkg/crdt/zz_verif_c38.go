//go:build verif

package crdt

// In-package accessors for the C38 (and C39..C41) checks: canonical dumps of the complete
// internal state of every CRDT type, including the unexported delta/dirty bookkeeping.
// Add-only; enters the build through -overlay only.
//
// Conventions shared with lean/GoaktVerif/Driver/C38.lean:
//   node k (k >= 1) is named VerifNodeName(k) = "n%04d", node 0 is the empty string, so that Go's
//   string order on node ids is the numeric order; elements / keys / values are Go ints.
//   maps are printed sorted by key; dot slices of ORSet are printed sorted; MVRegister entries are
//   printed in slice order.  A dump is `<state>~<value>`.

import (
	"fmt"
	"sort"
	"strconv"
	"strings"
)

// VerifNodeName names node k.
func VerifNodeName(k int) string {
	if k == 0 {
		return ""
	}
	return fmt.Sprintf("n%04d", k)
}

func verifNodeNum(s string) int {
	if s == "" {
		return 0
	}
	k, err := strconv.Atoi(strings.TrimPrefix(s, "n"))
	if err != nil {
		return -1
	}
	return k
}

func verifAny(v any) string {
	switch x := v.(type) {
	case nil:
		return "_"
	case int:
		return strconv.Itoa(x)
	default:
		return fmt.Sprintf("?%v", x)
	}
}

func verifAnyKey(v any) int {
	if x, ok := v.(int); ok {
		return x
	}
	return -1
}

func verifU64Map(m map[string]uint64) string {
	type kv struct {
		k int
		v uint64
	}
	var l []kv
	for k, v := range m {
		l = append(l, kv{verifNodeNum(k), v})
	}
	sort.Slice(l, func(i, j int) bool { return l[i].k < l[j].k })
	parts := make([]string, len(l))
	for i, e := range l {
		parts[i] = fmt.Sprintf("%d.%d", e.k, e.v)
	}
	return strings.Join(parts, ",")
}

func verifDots(dots []dot, sorted bool, sep string) string {
	l := append([]dot(nil), dots...)
	if sorted {
		sort.Slice(l, func(i, j int) bool {
			a, b := verifNodeNum(l[i].nodeID), verifNodeNum(l[j].nodeID)
			if a != b {
				return a < b
			}
			return l[i].counter < l[j].counter
		})
	}
	parts := make([]string, len(l))
	for i, d := range l {
		parts[i] = fmt.Sprintf("%d.%d", verifNodeNum(d.nodeID), d.counter)
	}
	return strings.Join(parts, sep)
}

func verifDotMap(m map[any][]dot) string {
	keys := make([]int, 0, len(m))
	byKey := map[int][]dot{}
	for k, v := range m {
		keys = append(keys, verifAnyKey(k))
		byKey[verifAnyKey(k)] = v
	}
	sort.Ints(keys)
	parts := make([]string, len(keys))
	for i, k := range keys {
		parts[i] = fmt.Sprintf("%d:%s", k, verifDots(byKey[k], true, "+"))
	}
	return strings.Join(parts, ",")
}

func verifInts(l []int) string {
	parts := make([]string, len(l))
	for i, x := range l {
		parts[i] = strconv.Itoa(x)
	}
	return strings.Join(parts, ",")
}

func verifB(b bool) string {
	if b {
		return "1"
	}
	return "0"
}

func verifGCState(c *GCounter) string { return verifU64Map(c.state) + "/" + verifU64Map(c.delta) }

func verifORSetState(s *ORSet) string {
	return verifDotMap(s.entries) + "/" + verifU64Map(s.clock) + "/" + verifDotMap(s.delta.added) + "/" + verifDotMap(s.delta.removed)
}

func verifORSetElems(s *ORSet) string {
	var l []int
	for _, e := range s.Elements() {
		l = append(l, verifAnyKey(e))
	}
	sort.Ints(l)
	return verifInts(l)
}

// nested value of an ORMap entry: only GCounter values are used by the checks
func verifNested(v ReplicatedData) string {
	switch x := v.(type) {
	case *GCounter:
		return strings.ReplaceAll(verifU64Map(x.state), ",", "+") + ">" + strings.ReplaceAll(verifU64Map(x.delta), ",", "+")
	case nil:
		return "nil"
	default:
		return fmt.Sprintf("?%T", v)
	}
}

func verifValMap(m map[any]ReplicatedData) string {
	keys := make([]int, 0, len(m))
	byKey := map[int]ReplicatedData{}
	for k, v := range m {
		keys = append(keys, verifAnyKey(k))
		byKey[verifAnyKey(k)] = v
	}
	sort.Ints(keys)
	parts := make([]string, len(keys))
	for i, k := range keys {
		parts[i] = fmt.Sprintf("%d>%s", k, verifNested(byKey[k]))
	}
	return strings.Join(parts, ",")
}

// VerifDump prints the complete internal state and the public observable value of a CRDT.
func VerifDump(rd ReplicatedData) string {
	switch x := rd.(type) {
	case *GCounter:
		return verifGCState(x) + "~" + strconv.FormatUint(x.Value(), 10)
	case *PNCounter:
		return verifGCState(x.increments) + "/" + verifGCState(x.decrements) + "~" + strconv.FormatInt(x.Value(), 10)
	case *Flag:
		return verifB(x.enabled) + "/" + verifB(x.dirty) + "~" + verifB(x.Enabled())
	case *LWWRegister:
		return fmt.Sprintf("%s/%d/%d/%s~%s", verifAny(x.value), x.timestamp, verifNodeNum(x.nodeID), verifB(x.dirty), verifAny(x.Value()))
	case *MVRegister:
		es := make([]string, len(x.entries))
		for i, e := range x.entries {
			es[i] = fmt.Sprintf("%s@%d.%d", verifAny(e.value), verifNodeNum(e.dot.nodeID), e.dot.counter)
		}
		vs := make([]string, 0)
		for _, v := range x.Values() {
			vs = append(vs, verifAny(v))
		}
		return strings.Join(es, ",") + "/" + verifU64Map(x.clock) + "/" + verifB(x.dirty) + "~" + strings.Join(vs, ",")
	case *ORSet:
		return verifORSetState(x) + "~" + verifORSetElems(x) + "#" + strconv.Itoa(x.Len())
	case *ORMap:
		ents := x.Entries()
		return verifORSetState(x.keys) + "/" + verifValMap(x.values) + "/" + verifB(x.dirty) + "~" + verifORSetElems(x.keys) + "#" + strconv.Itoa(x.Len()) + "#" + verifValMap(ents)
	case nil:
		return "nil"
	}
	return fmt.Sprintf("?%T", rd)
}

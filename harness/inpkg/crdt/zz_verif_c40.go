//go:build verif

package crdt

// In-package accessor for C40 (and C39): VerifCore prints the observable value and the causal
// metadata of a CRDT (entries, dots, clocks, counters, timestamps, node ids) WITHOUT the
// delta/dirty bookkeeping, recursively for ORMap values of any type, with every element printed
// together with its Go type.  Two CRDTs with the same VerifCore string merge identically.
// Add-only; enters the build through -overlay only.

import (
	"fmt"
	"sort"
	"strings"
)

func verifElem(v any) string {
	if v == nil {
		return "nil"
	}
	return fmt.Sprintf("%T(%v)", v, v)
}

func verifCoreU64(m map[string]uint64) string {
	parts := make([]string, 0, len(m))
	for k, v := range m {
		parts = append(parts, fmt.Sprintf("%q=%d", k, v))
	}
	sort.Strings(parts)
	return "{" + strings.Join(parts, ",") + "}"
}

func verifCoreDots(dots []dot) string {
	parts := make([]string, len(dots))
	for i, d := range dots {
		parts[i] = fmt.Sprintf("%q.%d", d.nodeID, d.counter)
	}
	sort.Strings(parts)
	return "[" + strings.Join(parts, " ") + "]"
}

func verifCoreORSet(s *ORSet) string {
	parts := make([]string, 0, len(s.entries))
	for e, dots := range s.entries {
		if len(dots) == 0 {
			continue // RawState (and so the wire) does not carry dotless entries; they are not in Elements() either
		}
		parts = append(parts, verifElem(e)+":"+verifCoreDots(dots))
	}
	sort.Strings(parts)
	return "entries{" + strings.Join(parts, ",") + "}clock" + verifCoreU64(s.clock)
}

// VerifCore prints value + causal metadata, no delta/dirty bookkeeping.
func VerifCore(rd ReplicatedData) string {
	switch x := rd.(type) {
	case nil:
		return "nil"
	case *GCounter:
		return "GC" + verifCoreU64(x.state) + fmt.Sprintf("=%d", x.Value())
	case *PNCounter:
		return "PN+" + verifCoreU64(x.increments.state) + "-" + verifCoreU64(x.decrements.state) + fmt.Sprintf("=%d", x.Value())
	case *Flag:
		return fmt.Sprintf("FL(%v)", x.enabled)
	case *LWWRegister:
		return fmt.Sprintf("LW(%s,%d,%q)", verifElem(x.value), x.timestamp, x.nodeID)
	case *MVRegister:
		es := make([]string, len(x.entries))
		for i, e := range x.entries {
			es[i] = fmt.Sprintf("%s@%q.%d", verifElem(e.value), e.dot.nodeID, e.dot.counter)
		}
		// slice order is part of the state (Values() returns it) and is carried by the wire
		return "MV[" + strings.Join(es, ",") + "]clock" + verifCoreU64(x.clock)
	case *ORSet:
		return "OS" + verifCoreORSet(x)
	case *ORMap:
		parts := make([]string, 0, len(x.values))
		for k, v := range x.values {
			parts = append(parts, verifElem(k)+"=>"+VerifCore(v))
		}
		sort.Strings(parts)
		return "OM" + verifCoreORSet(x.keys) + "values{" + strings.Join(parts, ";") + "}"
	}
	return fmt.Sprintf("?%T", rd)
}

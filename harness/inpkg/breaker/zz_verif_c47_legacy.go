//go:build verif

package breaker

// Continuations of preempted callers, for the code BEFORE fix 42b281d (unguarded
// toHalfOpen()/toClosed()). tools/props/c47.py selects this file instead of the guarded variant
// when breaker.go has no openToHalfOpen, so that a regression to the old code still builds and
// the witness cases in corpus/C47 fail on it with a concrete input.

// VerifStaleToHalfOpen is the continuation of a tryAcquire that was preempted after it
// evaluated `state == Open && now >= openUntil`: the very next thing it executes is toHalfOpen().
func VerifStaleToHalfOpen(b *CircuitBreaker) { b.toHalfOpen() }

// VerifStaleToClosed is the continuation of a record that was preempted after it evaluated
// `b.State() == HalfOpen`: the very next thing it executes is toClosed().
func VerifStaleToClosed(b *CircuitBreaker) { b.toClosed() }

//go:build verif

package breaker

import (
	"fmt"
	"strconv"
	"strings"
)

// VerifCfg renders the sanitized options the breaker actually runs with:
// cfg:<failureRate*64>,<minRequests>,<openTimeout>,<bucketDur>,<num>,<halfOpenMaxCalls>
func VerifCfg(b *CircuitBreaker) string {
	return fmt.Sprintf("cfg:%s,%d,%d,%d,%d,%d",
		strconv.FormatFloat(b.opts.failureRate*64, 'f', -1, 64), b.opts.minRequests, int64(b.opts.openTimeout),
		int64(b.buckets.bucketDur), b.buckets.num, cap(b.semCh))
}

// VerifSem is the number of half-open tokens currently held.
func VerifSem(b *CircuitBreaker) int { return len(b.semCh) }

// VerifDump renders the raw state without advancing the window:
// <C|O|H>,<openUntil>,<sem>,<cursor>,<lastUpdate>,<lastFailure>,<lastSuccess>,<s0>/<f0>;<s1>/<f1>;...
func VerifDump(b *CircuitBreaker) string {
	st := "?"
	switch b.State() {
	case Closed:
		st = "C"
	case Open:
		st = "O"
	case HalfOpen:
		st = "H"
	}
	bw := b.buckets
	bw.mu.Lock()
	parts := make([]string, len(bw.buf))
	for i := range bw.buf {
		parts[i] = fmt.Sprintf("%d/%d", bw.buf[i].succ, bw.buf[i].fail)
	}
	cur, lu := bw.cursor, bw.lastUpdate
	bw.mu.Unlock()
	return fmt.Sprintf("%s,%d,%d,%d,%d,%d,%d,%s", st, b.openUntil.Load(), len(b.semCh), cur, lu,
		b.lastFailure.Load(), b.lastSuccess.Load(), strings.Join(parts, ";"))
}

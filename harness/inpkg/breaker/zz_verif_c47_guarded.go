//go:build verif

package breaker

// Continuations of preempted callers, for the code AFTER fix 42b281d (guarded transitions).

// VerifStaleToHalfOpen is the continuation of a tryAcquire that was preempted after it read
// `state == Open`: the very next thing it executes is openToHalfOpen().
func VerifStaleToHalfOpen(b *CircuitBreaker) { b.openToHalfOpen() }

// VerifStaleToClosed is the continuation of a record that was preempted after it found enough
// samples below the threshold: the very next thing it executes is halfOpenToClosed().
func VerifStaleToClosed(b *CircuitBreaker) { b.halfOpenToClosed() }

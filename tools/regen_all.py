#!/usr/bin/env python3
"""regenerate every Gen/*.lean and Main.lean (used by setup so that `lake build` of the whole library works)"""
import os, sys
sys.path.insert(0, os.path.dirname(os.path.abspath(__file__)))
import check
for fn in sorted(os.listdir(os.path.join(check.VERIF, "tools", "props"))):
    if fn.endswith(".py") and fn[0] == "c":
        P = check.load_prop(fn[:-3].upper())
        res = {"broken": [], "timing": {}}
        check.regenerate(P, res)
        for b in res["broken"]:
            print("regen", P.ID, b["what"], b.get("detail", ""), file=sys.stderr)
check.gen_main()

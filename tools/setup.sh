#!/bin/sh
# MANIFEST.setup_cmd: build the framework from files on disk only (offline).
set -e
cd "$(dirname "$0")/.."
mkdir -p build evidence replays lean/GoaktVerif/Gen
export GOFLAGS=-mod=mod GOPROXY=off
unset GOSUMDB GOTOOLCHAIN || true
for t in go2lean yieldinject factextract; do (cd tools/$t && go build -o ../../build/$t .); done
python3 tools/regen_all.py
# the whole library is built to warm the cache; a property whose proof does not build is reported by its own check
(cd lean && (lake build || echo 'setup: some Lean modules did not build (reported by the checks concerned)') && lake build gvdriver)
# warm the Go build cache for the harness binaries (failures here are reported by the checks themselves)
python3 tools/warm.py || true

#!/bin/sh
# MANIFEST.setup_cmd: build the framework from files on disk only (offline).
set -e
cd "$(dirname "$0")/.."
mkdir -p build evidence replays lean/GoaktVerif/Gen
export GOFLAGS=-mod=mod GOPROXY=off
unset GOSUMDB GOTOOLCHAIN || true
for t in go2lean; do (cd tools/$t && go build -o ../../build/$t .); done
python3 tools/regen_all.py
(cd lean && lake build && lake build gvdriver)
# warm the Go build cache for the harness binaries (failures here are reported by the checks themselves)
python3 tools/warm.py || true

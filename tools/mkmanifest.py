#!/usr/bin/env python3
"""Regenerate MANIFEST.json from tools/props/*.py (MANIFEST dicts) and tools/not_applicable.json."""
import json, os, sys
sys.path.insert(0, os.path.dirname(os.path.abspath(__file__)))
import check
V = check.VERIF
props = [json.loads(l) for l in open(os.path.join(V, "properties.jsonl"))]
ids = [p["id"] for p in props]
na_path = os.path.join(V, "tools", "not_applicable.json")
na = json.load(open(na_path)) if os.path.exists(na_path) else {}
checks, not_app = [], []
for pid in ids:
    mod = os.path.join(V, "tools", "props", pid.lower() + ".py")
    if os.path.exists(mod) and pid not in na and not getattr(check.load_prop(pid), "WIP", False):
        P = check.load_prop(pid)
        M = getattr(P, "MANIFEST", {})
        checks.append({
            "property_id": pid,
            "quick_cmd": f"python3 tools/check.py {pid} --tier quick",
            "thorough_cmd": f"python3 tools/check.py {pid} --tier thorough",
            "evidence_file": f"/verif/evidence/{pid}.json",
            "replay_cmd_template": f"python3 tools/check.py {pid} --replay {{path}}",
            "engine": M.get("engine", "lean-proof+correspondence"),
            "level_claimed": {"category": getattr(P, "LEVEL", "proof"), "text": M.get("level_text", ""), "design_ref": M.get("design_ref", "DESIGN.md section 5, " + pid)},
            "level_note": M.get("level_note", "; ".join(getattr(P, "TRUSTED", []))),
            "technique": M.get("technique", "Lean 4 theorem over an executable model + model/implementation correspondence check"),
        })
    else:
        not_app.append({"property_id": pid, "reason": na.get(pid, "no check built yet for this property (work in progress); the plan is in DESIGN.md section 5")})
man = {
    "version": 1,
    "setup_cmd": "sh tools/setup.sh",
    "hooks": {
        "guard": "verif",
        "enable": "go build -tags verif -overlay /verif/build/overlay_<id>.json ./internal/verifdrv/<id>  (hook files live in /verif/harness and enter the build only through the overlay; /repo itself carries no hook code)",
        "baseline_off_cmd": "for m in $(cat /w/out/gomods.txt); do MF=$(cd /repo/$m && . /w/out/goenv.sh && gomodflag); (cd /repo/$m && go test $MF -json -vet=off -count=1 -timeout 25m ./...); done",
        "source_commits": [],
        "add_only": True,
    },
    "engines": [
        {"name": "lean", "path": "/verif/lean", "serves_properties": [c["property_id"] for c in checks], "kind_free_text": "Lean 4 models, specs, theorems (Props/), line-protocol driver gvdriver"},
        {"name": "go2lean", "path": "/verif/tools/go2lean", "serves_properties": [c["property_id"] for c in checks if getattr(check.load_prop(c["property_id"]), "GO2LEAN", None)], "kind_free_text": "Go-subset to Lean translator, regenerates Gen/*.lean from /repo on every run"},
        {"name": "harness", "path": "/verif/harness", "serves_properties": [c["property_id"] for c in checks], "kind_free_text": "Go harness binaries built from /repo's working tree with -tags verif -overlay"},
        {"name": "check.py", "path": "/verif/tools/check.py", "serves_properties": [c["property_id"] for c in checks], "kind_free_text": "driver: regenerate, prove, audit axioms, build, differential, oracle, verdict, evidence"},
    ],
    "checks": checks,
    "not_applicable": not_app,
    "notes": "Family: machine-checked proof in Lean 4. See DESIGN.md. KNOWN_FINDINGS.json lists recorded defects and fix: commits.",
}
json.dump(man, open(os.path.join(V, "MANIFEST.json"), "w"), indent=1)
# assemble KNOWN_FINDINGS.json from findings/*.json (development-time only; never at check run time)
kf = {"_comment": "Genuine defects of Tochemey/goakt found by the checks (assembled from findings/*.json by tools/mkmanifest.py). Open findings are reported as KNOWN-FINDING lines, matched by classify() in tools/props/<id>.py as described in `signature`; anything failing outside those signatures is a VIOLATION. `fixed` entries record fix: commits in /repo and suppress nothing. Never written at check run time.",
      "findings": [], "fixed": []}
fdir = os.path.join(V, "findings")
for fn in sorted(os.listdir(fdir)) if os.path.isdir(fdir) else []:
    if fn.endswith(".json"):
        d = json.load(open(os.path.join(fdir, fn)))
        kf["findings"] += d.get("findings", [])
        kf["fixed"] += d.get("fixed", [])
json.dump(kf, open(os.path.join(V, "KNOWN_FINDINGS.json"), "w"), indent=1)
print(f"{len(checks)} checks, {len(not_app)} not_applicable")

"""C37 — spawn configuration survives the wire (E1 differential on codec + the real relocation path, Lean theorems)."""
ID = "C37"
LEAN_MODULES = ["GoaktVerif.Props.C37"]
THEOREMS = [
    "GoaktVerif.C37.dur_roundtrip",
    "GoaktVerif.C37.rget_decode_encode",
    "GoaktVerif.C37.sup_roundtrip_exact",
    "GoaktVerif.C37.newSupervisor_ctorShaped",
    "GoaktVerif.C37.re_roundtrip_exact",
    "GoaktVerif.C37.relocate_exact",
    "GoaktVerif.C37.remoteSpawn_exact",
    "GoaktVerif.C37.C37_partial",
    "GoaktVerif.C37.C37_refuted",
    "GoaktVerif.C37.C37_backoff_survives",
    "GoaktVerif.C37.C37_constructor_covered",
]
INPKG = ["actor/zz_verif_c37.go"]
TIMEOUT = 900
MANIFEST = {
    "level_text": "Kernel-checked theorems over a model of supervisor.NewSupervisor/options/Reset/SetDirectiveByType, reentrancy.New, the wire structs of actor.proto field by field (incl. the backoff fields added by fix 1ad4e99), codec Encode/Decode (supervisor, passivation, reentrancy, durationpb), PID.toSerialize, wireSpawnOptions, the remote-spawn request assembly and configPID's defaulting. relocate_exact / remoteSpawn_exact: for EVERY spawn configuration with well-formed tables, int64 durations and a normalised backoff triple, the configuration after encode->wire->decode->respawn equals the original - strategy, retry budget, timeout, backoff triple (C37_backoff_survives), passivation, stash, role, dependencies, init timeout - with exactly two alterations: the directive table is re-normalised by the decoder (AnyError collapses it; the two constructor defaults are re-added) and the reentrancy limit is clamped to 2^32-1. C37_refuted: read over all configurations the property is still false (a supervisor emptied with Reset() gains the default directives, finding C37-F2). C37_partial: equality on all observable accessors on both routes for every configuration with a constructor-shaped directive table and a reentrancy limit within uint32; C37_constructor_covered: every supervisor built by NewSupervisor from ANY options satisfies that. Tie: differential of the real codec functions, of the real relocation path (Spawn -> toSerialize -> proto Marshal/Unmarshal -> wireSpawnOptions -> Spawn) and of the real remote-spawn route over loop-back TCP (Spawn WithHostAndPort -> remoteclient.RemoteSpawn -> remoteSpawnHandler -> Spawn) against the model: in-memory dump before, wire dump, in-memory dump after; plus the field list of the wire messages.",
    "level_note": "Partial: refuted for two corner families (C37-F2: tables mutated after construction; reentrancy limit above 2^32-1); the backoff loss (former C37-F1) was fixed by 1ad4e99. Trusted/parameters: protobuf Marshal/Unmarshal and the user's dependency MarshalBinary/UnmarshalBinary (sampled by the differential); Duration.AsDuration modelled as saturating arithmetic (exact on everything Encode produces); invalid enum integers (Strategy(7), Directive(9)) are outside the model; singleton and reliable-delivery branches are not driven.",
    "technique": "Lean 4 proof (structural induction on option lists and association lists) over a hand-written model + model/implementation differential through the real relocation and remote-spawn paths",
}
TRUSTED = [
    "protobuf Marshal/Unmarshal round-trips the wire messages (parameter; the harness passes every record through it)",
    "the dependency's own MarshalBinary/UnmarshalBinary (parameter; the harness uses a simple id/payload dependency)",
    "Duration.AsDuration modelled as saturating Int arithmetic; exact for every Duration produced by durationpb.New",
    "Strategy/Directive/Mode restricted to their declared constants",
]
RULE = ("sup: supervisors from random option lists (strategy, retry incl. 0 / 2^32-1 / negative and extreme timeouts, backoff, "
        "directives over 9 error types, any-error) plus Reset/SetDirectiveByType post-ops; re: modes x limits around 0, 2^32; "
        "pas: passivation strategies with boundary durations/counts; cfg: full spawn configurations through a local actor system (supervisor or none, passivation time/count/long-lived/none, "
        "reentrancy, stash, role, dependencies, init timeout); non-trivial = both dumps produced; distinct by (case, output)")

ERR_N = 9
I64 = 2**63 - 1


def g_dur(rng, allow_neg=True):
    r = rng.random()
    if r < 0.35:
        return rng.choice([1, 999999999, 1000000000, 1000000001, 60 * 10**9, 3600 * 10**9 + 1, 10**12 + 7])
    if r < 0.5 and allow_neg:
        return rng.choice([-1, 0, -1000000000, -1000000001, -999999999, -I64 - 1, -I64])
    if r < 0.6:
        return rng.choice([I64, I64 - 1, I64 - 999999999, 9223372036 * 10**9, 9223372036 * 10**9 + 854775807])
    return rng.randrange(1, 10**rng.randint(1, 18))


def g_supspec(rng, backoff_p=0.3, post_p=0.12):
    items = []
    for _ in range(rng.choice([0, 0, 1, 1, 2, 3, 4, 6])):
        r = rng.random()
        if r < 0.15:
            items.append(f"S{rng.randint(0, 1)}")
        elif r < 0.35:
            items.append(f"R{rng.choice([0, 1, 3, 10, 2**32 - 1, rng.randrange(2**32)])}:{g_dur(rng)}")
        elif r < 0.35 + backoff_p * 0.6:
            items.append(f"B{g_dur(rng)}:{g_dur(rng)}:{g_dur(rng)}")
        elif r < 0.9:
            items.append(f"D{rng.randrange(ERR_N)}={rng.randint(0, 3)}")
        else:
            items.append(f"A{rng.randint(0, 3)}")
    if rng.random() < post_p:
        for _ in range(rng.randint(1, 3)):
            r = rng.random()
            if r < 0.35:
                items.append("X")
            else:
                k = rng.choice(["foo", "foo.bar", "errors.AnyError", "errors.PanicError", "runtime.PanicNilError", "", "zz.Err", "a", "actor.VerifC37ErrA"])
                items.append(f"T{k}={rng.randint(0, 3)}")
    return ",".join(items) if items else "N"


def g_cfg(rng):
    sup = "-" if rng.random() < 0.3 else g_supspec(rng, post_p=0.08)
    r = rng.random()
    if r < 0.25:
        pas = "-"
    elif r < 0.55:
        # long timeouts only: the spawned actors stay alive while the harness runs
        pas = "t:" + str(rng.choice([3600 * 10**9, 3600 * 10**9 + 1, 86400 * 10**9 + 999999999, 10**15, 10**13 + rng.randrange(10**9)]))
    elif r < 0.8:
        # (counts near MaxInt64 used to passivate at once: overflow in passivationManager.MessageProcessed, fixed by 5123092)
        pas = "m:" + str(rng.choice([1000, 10**6, 2**31 - 1, 2**31, 2**40, I64]))
    else:
        pas = "l"
    re = "-" if rng.random() < 0.4 else f"{rng.randint(0, 2)}:{rng.choice([0, 1, 7, 100, -3, 2**31, 2**32 - 1, 2**32, 2**32 + 5, 2**40, I64])}"
    stash = rng.choice("01")
    role = rng.choice(["-", "-", "web", "api-1", "%", "payments"])
    n = rng.choice([0, 0, 1, 2, 3])
    ids = rng.sample(["d1", "d2", "dep-3", "db_conn", "cache9", "xx"], n)
    deps = ",".join(f"{i}:{rng.choice(['hello', 'p', 'x.y', '42'])}" for i in ids) if ids else "-"
    init = rng.choice(["-", "-", "5000000000", "1", "-5", "0", str(I64), "1500000000"])
    return f"cfg sup={sup} pas={pas} re={re} stash={stash} role={role} deps={deps} init={init}"


def gen_cases(rng, tier):
    n_sup, n_cfg = (700, 90) if tier == "quick" else (20000, 1500)
    cases = ["fields", "sup N"]
    for m in range(3):
        for l in [0, 1, 5, -1, 2**31 - 1, 2**32 - 1, 2**32, 2**32 + 1, 2**40, I64]:
            cases.append(f"re {m} {l}")
    for v in [0, 1, -1, 999999999, 10**9, 10**9 + 1, -10**9 - 1, 3600 * 10**9 + 1, I64, I64 - 1, -I64 - 1, -I64, 9223372036 * 10**9]:
        cases.append(f"pas t:{v}")
        cases.append(f"pas m:{v}")
    cases.append("pas l")
    cases += [f"pas t:{g_dur(rng)}" for _ in range(40 if tier == "quick" else 2000)]
    cases += ["sup " + g_supspec(rng) for _ in range(n_sup)]
    cases += [g_cfg(rng) for _ in range(n_cfg)]
    cases += ["rsp" + g_cfg(rng)[3:] for _ in range(n_cfg)]
    return cases


def search_cases(rng, tier):
    cases = []
    for d in range(4):
        for e in range(ERR_N):
            cases.append(f"sup D{e}={d}")
        cases.append(f"sup A{d}")
    for s in (0, 1):
        for mr in (0, 1, 2**32 - 1):
            for to in (-1, 0, 1, 10**9, I64, -I64 - 1):
                cases.append(f"sup S{s},R{mr}:{to}")
    cases += [f"{k} sup=S1,R3:5000000000,D4=1 pas={p} re={r} stash=1 role=web deps=d1:hello init=5000000000"
              for k in ("cfg", "rsp") for p in ("-", "l", "t:3600000000001", "m:1000") for r in ("-", "1:7", "2:0")]
    return cases + gen_cases(rng, tier)


def compare(case, impl, model):
    return None if impl == model else f"impl={impl!r} model={model!r}"


def _split(out):
    """B{..} W{..} A{..} -> (before, wire, after) or None"""
    if not out.startswith("B{") or "} W{" not in out or "} A{" not in out or not out.endswith("}"):
        return None
    b, rest = out[2:].split("} W{", 1)
    w, a = rest.split("} A{", 1)
    return b, w, a[:-1]


def is_trivial(case, impl):
    return _split(impl or "") is None


def tag(case, impl):
    k = case.split()[0]
    s = _split(impl or "")
    if s is None:
        return k + ":" + (impl or "?").split(" ")[0][:20]
    return k + (":same" if s[0] == s[2] else ":differs")


def oracle(case, impl, judge):
    if impl.startswith("CRASH"):
        return "harness crashed: " + impl
    if case.split()[0] == "fields":
        return None
    if judge is not None and judge != "bad-case":
        return None if judge.startswith("ok") else judge
    s = _split(impl)
    if s is None:
        return "bad the configuration could not be carried: " + impl[:200]
    return None if s[0] == s[2] else "bad configuration differs after the wire"


def _kv(dump):
    """split a pid dump or a bare supervisor/reentrancy dump into comparable fields"""
    d = {}
    if " pas=" in dump:
        for w in dump.split(" "):
            k, v = w.split("=", 1)
            d[k] = v
        sup = d.pop("sup")
    else:
        sup = dump if dump.startswith("st=") else None
        if sup is None:
            d["re" if dump[:1].isdigit() else "pas"] = dump
    if sup:
        for w in sup.split(";"):
            k, v = w.split("=", 1)
            d["sup." + k] = v
    return d


def classify(case, impl, why):
    """C37-F2: only the directive table of a supervisor mutated after construction (Reset / SetDirectiveByType) or a
    reentrancy limit above 2^32-1 differs."""
    s = _split(impl or "")
    if s is None or not why or "differs" not in why:
        return None
    b, a = _kv(s[0]), _kv(s[2])
    diff = {k for k in set(b) | set(a) if b.get(k) != a.get(k)}
    if not diff:
        return None
    corner = set()
    if diff & {"sup.rules", "sup.any"}:
        # only a table touched after construction may change
        supspec = case.split()[1] if case.startswith("sup ") else dict(w.split("=", 1) for w in case.split()[1:]).get("sup", "-")
        if any(it[:1] in ("X", "T") for it in supspec.split(",")):
            corner |= {"sup.rules", "sup.any"}
    if "re" in diff:
        lim = lambda v: int(v.split(":")[1]) if ":" in v else -1
        if lim(b["re"]) > 2**32 - 1 and lim(a["re"]) == 2**32 - 1 and b["re"].split(":")[0] == a["re"].split(":")[0]:
            corner.add("re")
    return "C37-F2" if diff <= corner else None

"""C28 — concurrent remote asks each get their own reply (connection pool of internal/net/client.go).

Case line:  pool <inet|rc> <maxIdle> <it> op...      (see harness/verifdrv/c28/main.go)
"""
import re

ID = "C28"
LEAN_MODULES = ["GoaktVerif.Props.C28"]
THEOREMS = [
    "GoaktVerif.C28.popIdle_inv",
    "GoaktVerif.C28.callStep_inv",
    "GoaktVerif.C28.inv_run",
    "GoaktVerif.C28.C28_own_reply",
    "GoaktVerif.C28.C28_idle_clean",
    "GoaktVerif.C28.C28_holds",
    "GoaktVerif.C28.pinv_run",
    "GoaktVerif.C28.C28_payload_exclusive",
]
# the payload frame of a request is given back exactly once (the deferred Put): Model.C28.Payload mirrors it
FACTS = [{
    "file": "internal/remoteclient/client.go",
    "suffixes": "payloadPool.Put,payloadPool.Get",
    "expect": {
        "client.RemoteAsk": ["payloadPool.Put"],
        "client.RemoteTell": ["payloadPool.Put"],
    },
}]
INPKG = ["internal/net/zz_verif_c28.go"]
TIMEOUT = 900
MANIFEST = {
    "level_text": "Kernel-checked theorem over a step-by-step model of the inet.Client connection pool (Get/Put/Discard/Close, LIFO idle stack, idle-timeout eviction, maxIdle bound) and of SendProto / SendBatchProto with every early exit, for ALL schedules of any number of concurrent calls interleaved with the server's per-connection sequential handling, failures or timeouts at any step, cancellation between batch frames, swallowed requests and client Close: every pooled connection is clean (balance 0, no deadline; C28_idle_clean) and a call that returns success returns exactly the responses to its own requests in request order (C28_own_reply, C28_holds). The request a call writes is its own because payload buffers are exclusive (Model.C28.Payload, C28_payload_exclusive; single-Put FACT on client.RemoteAsk / RemoteTell; `storm` cases: error asks followed by truly concurrent RemoteAsk calls with distinct payloads, any wrong reply fails). Tied to the code by running the real inet.Client (SendProto, SendBatchProto) and the real remoteclient.Client (RemoteAsk, RemoteBatchAsk) with concurrent callers against a real in-process ProtoServer on loop-back TCP whose handler parks each request on a controller gate (scripted reply / error / no reply / caller deadline first), comparing per-call results, the connection each call used (dial order), pool size and dial count with the model.",
    "level_note": "partial: TCP (in-order byte streams per direction) and the server contract (ProtoServer.handleConn handles the frames of one connection sequentially and writes at most one response per request) are parameters of the model; the latter is exercised by the tie (the real ProtoServer is the peer) but not proved. The tie is a differential on controller-serialised schedules: calls are concurrent (several in flight on different connections, finishing in any order) but the instants at which they touch the pool are ordered by the controller; SetDeadline/marshal failures are in the model only; cancellation between two reads / two writes of a batch is driven (ops b..c, k, b..x). The actor-side remoteAskHandler building the reply list in request order is exercised by C29's harness, not here (here the peer echoes).",
    "technique": "Lean 4 proof (inductive invariant over a small-step model of pool + exchanges) + model/implementation differential on gate-controlled concurrent runs over loop-back TCP",
}
TRUSTED = [
    "TCP delivers each direction of a connection in order (model parameter)",
    "ProtoServer.handleConn serves the frames of one connection one after the other, at most one response frame per request (model parameter; the real ProtoServer is the peer in the tie)",
    "the controller harness (harness/verifdrv/c28): bounded waits, STALL marker when a 200 ms deadline may have fired early under load",
]
RULE = ("batches with cancellable / pre-cancelled contexts (cancel between reads and between writes); scripts over modes inet/rc, maxIdle 0..3, stale-pool on/off, 2..9 calls (single, batches of 2..4, with/without deadline) with up to 4 in flight at once, "
        "released in random order with reply / handler error / no reply, deadline expiry while parked, client Close mid-way; "
        "non-trivial = at least one call completed successfully; distinct by (case, output)")


def _gen_one(rng, allow_timeouts):
    mode = rng.choice(["inet", "inet", "rc"])
    max_idle = rng.choice([0, 1, 1, 2, 2, 3])
    it = 1 if rng.random() < 0.15 else 0
    ops = []
    inflight = {}   # k -> [frames_left, dl]
    cancellable = set()
    k = 0
    ncalls = rng.randint(2, 9)
    timeouts = 0
    closed = False
    steps = 0
    while (k < ncalls or inflight) and steps < 60:
        steps += 1
        r = rng.random()
        if k < ncalls and (not inflight or (len(inflight) < 4 and r < 0.45)):
            dl = allow_timeouts and rng.random() < 0.35
            if rng.random() < 0.3:
                n = rng.randint(2, 4)
                flag = "d" if dl else ""
                if mode == "inet" and not dl and rng.random() < 0.35:
                    flag = rng.choice("ccx")
                ops.append("b%d:%d%s" % (k, n, flag))
                frames = n if mode == "inet" else 1
                if flag == "x":
                    k += 1
                    continue
                if flag == "c":
                    cancellable.add(k)
            else:
                ops.append("a%d%s" % (k, "d" if dl else ""))
                frames = 1
            if not closed:
                inflight[k] = [frames, dl]
            k += 1
            continue
        if not inflight:
            continue
        if not closed and r > 0.97:
            ops.append("x"); closed = True
            continue
        j = rng.choice(sorted(inflight))
        fl, dl = inflight[j]
        q = rng.random()
        if j in cancellable and inflight[j][0] >= 2 and rng.random() < 0.5:
            # cancel, then answer the parked request: the call ends between two reads (if frames remain)
            ops.append("k%d" % j)
            cancellable.discard(j)
            ops.append("r%d" % j)
            if inflight[j][0] > 1:
                del inflight[j]
            else:
                inflight[j][0] -= 1
                if inflight[j][0] == 0:
                    del inflight[j]
            continue
        if dl and timeouts < 2 and q < 0.25:
            ops.append("t"); timeouts += 1
            for m in [m for m in inflight if inflight[m][1]]:
                del inflight[m]
            continue
        if q < 0.37 and (not dl or timeouts < 2):
            if dl and rng.random() < 0.5:
                ops.append("n%d" % j)
                inflight[j][0] -= 1
                if inflight[j][0] == 0:
                    timeouts += 1
                    for m in [m for m in inflight if inflight[m][1]]:
                        del inflight[m]
                continue
            ops.append("e%d" % j)
            del inflight[j]
            continue
        ops.append("r%d" % j)
        inflight[j][0] -= 1
        if inflight[j][0] == 0:
            del inflight[j]
    # sometimes release a request whose caller has already gone
    if rng.random() < 0.2 and k > 0:
        ops.append("r%d" % rng.randrange(k))
    return "pool %s %d %d %s" % (mode, max_idle, it, " ".join(ops))


def _structured():
    out = [
        # cancellation noticed between two reads / between two writes of a batch; the connection must be discarded
        "pool inet 2 0 a0 r0 b1:3c k1 r1 a2 r2 r1 r1",
        "pool inet 2 0 a0 r0 b1:3c r1 k1 r1 a2 r2 r1",
        "pool inet 2 0 a0 r0 b1:2x a2 r2 a3 r3",
        "pool inet 2 0 b0:2x a1 r1",
        "pool inet 1 0 b0:3c r0 k0 r0 r0 a1 r1",
        # two calls in flight right after a connection went back to the pool (ownership: Get must remove it)
        "pool inet 2 0 a0 r0 b1:2 a2 r1 r1 r2",
        "pool inet 2 0 a0 r0 b1:3 a2 a3 r1 r1 r1 r2 r3",
    ]
    for mode in ("inet", "rc"):
        # LIFO reuse, pool bound, discard on timeout, late response of a timed-out request
        out.append("pool %s 2 0 a0 a1 a2 r1 r0 r2 a3 a4 a5 r5 r4 r3" % mode)
        out.append("pool %s 1 0 a0d a1 t r0 a2 r1 r2 a3 r3" % mode)
        out.append("pool %s 2 0 a0d t a1 r0 r1 a2d a3 t r3 r2 a4 r4" % mode)
        out.append("pool %s 2 0 a0 e0 a1 r1 a2 r2" % mode)
        out.append("pool %s 0 0 a0 r0 a1 r1" % mode)
        out.append("pool %s 2 1 a0 r0 a1 r1 a2 a3 r3 r2 a4 r4" % mode)
        out.append("pool %s 2 0 a0 a1 x r0 r1 a2" % mode)
        out.append("pool %s 2 0 b0:3 a1 r0 r1 r0 r0 b2:2d r2 n2 a3 r3" % mode)
        out.append("pool %s 2 0 b0:3d n0 r0 r0 a1 r1 b2:2 r2 e2 a3 r3" % mode)
    return out


def _storms(tier):
    # real concurrency, no control: error asks first (each would leave a doubly released payload buffer behind if
    # the release discipline were broken), then concurrent asks with distinct payloads
    if tier == "quick":
        return ["storm 1 32 8 20 1", "storm 1 0 8 20 1", "storm 1 32 8 20 1"]
    return ["storm 1 32 8 20 1", "storm 1 0 16 50 1", "storm 2 32 16 25 8", "storm 1 64 16 10 1", "storm 4 8 8 25 32"]


def gen_cases(rng, tier):
    n = 90 if tier == "quick" else 1500
    return _storms(tier) + _structured() + [_gen_one(rng, allow_timeouts=(i % 3 == 0)) for i in range(n)]


def search_cases(rng, tier):
    n = 150 if tier == "quick" else 2500
    return _storms("thorough") + _structured() + [_gen_one(rng, allow_timeouts=(i % 2 == 0)) for i in range(n)]


def compare(case, impl, model):
    if impl == "STALL" or model is None:
        return None
    return None if impl == model else "impl=%r model=%r" % (impl, model)


def _sizes(case):
    sz = {}
    for op in case.split()[4:]:
        m = re.fullmatch(r"b(\d+):(\d+)[dcx]?", op)
        if m:
            sz.setdefault(int(m.group(1)), int(m.group(2)))
        m = re.fullmatch(r"a(\d+)d?", op)
        if m:
            sz.setdefault(int(m.group(1)), 1)
    return sz


def oracle(case, impl, judge):
    if impl.startswith(("CRASH", "panic", "server-error")):
        return "harness could not complete the run: " + impl
    if impl in ("STALL", "bad-case"):
        return None
    if judge is not None:
        return None if judge.startswith("ok") else judge
    if case.startswith("storm"):
        return None if impl == "wrong=0" else "bad %s: that many RemoteAsk calls returned, without error, a reply that is not the answer to their own request" % impl
    sz = _sizes(case)
    for tok in impl.split():
        if "@" not in tok:
            continue
        who, res = tok.split("=", 1)
        k = int(who.split("@")[0])
        if res == "err":
            continue
        if not res.startswith("ok:"):
            return "bad call %d did not complete: %s" % (k, res)
        want = ",".join("%d.%d" % (k, i) for i in range(sz.get(k, 1)))
        if res[3:] != want:
            return "bad call %d received %s instead of the replies to its own requests" % (k, res[3:])
    return None


def classify(case, impl, why):
    # no known findings; a class name keeps the shrinker on property failures (not mere model differences)
    return "C28-property-failure" if why and why.startswith(("bad", "harness")) else None


def is_trivial(case, impl):
    if case.startswith("storm"):
        return not impl.startswith("wrong=")
    return (not impl) or impl.startswith(("bad-case", "STALL", "CRASH", "panic")) or "=ok:" not in impl


def tag(case, impl):
    if case.startswith("storm"):
        return "storm"
    f = case.split()
    ops = f[4:]
    t = [f[1], "idle%s" % f[2]]
    if f[3] == "1":
        t.append("stale")
    if any(o.startswith("b") for o in ops):
        t.append("batch")
    if "t" in ops or any(o.startswith("n") for o in ops):
        t.append("timeout")
    if any(o.startswith("e") for o in ops):
        t.append("drop")
    if "x" in ops:
        t.append("close")
    return ":".join(t)


def shrink(case):
    if case.startswith("storm"):
        return
    f = case.split()
    head, ops = f[:4], f[4:]
    for i in range(len(ops)):
        yield " ".join(head + ops[:i] + ops[i + 1:])

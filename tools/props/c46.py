"""C46 — stream junctions preserve elements and per-branch order (end-to-end + per-actor message replay)."""
import re

ID = "C46"
LEAN_MODULES = ["GoaktVerif.Props.C46"]
THEOREMS = [
    "GoaktVerif.C46.checkWitness_sound",
    "GoaktVerif.C46.isInterleaving_sound",
    "GoaktVerif.C46.interleave_projs",
    "GoaktVerif.C46.merge_correct",
    "GoaktVerif.C46.concat_correct",
    "GoaktVerif.C46.broadcast_correct",
    "GoaktVerif.C46.partition_correct",
    "GoaktVerif.C46.BlInv.step",
    "GoaktVerif.C46.balance_correct",
    "GoaktVerif.C46.broadcast_cancel_correct",
    "GoaktVerif.C46.partition_cancel_correct",
    "GoaktVerif.C46.zipEmit_spec",
    "GoaktVerif.C46.zip_correct",
    "GoaktVerif.C46.C46_holds",
    "GoaktVerif.C46.merge_composed",
    "GoaktVerif.C46.concat_composed",
    "GoaktVerif.C46.zip_composed",
    "GoaktVerif.C46.C46_composed_holds",
]
INPKG = ["stream/zz_verif_c45.go", "stream/zz_verif_c46.go"]
TIMEOUT = 900
MANIFEST = {
    "level_text": "C46_composed_holds: a Merge / Concat / Zip whose slots are fed by whole sub-pipelines (C45 networks, any stages without the unordered ParallelMap, both fusion modes, EVERY schedule of every sub-pipeline, every junction message order): the elements the junction emits from branch i are, in order, a prefix of the list semantics of sub-pipeline i (Zip: the i-th tuple components), and a Merge completing after all sub-pipelines completed emits an interleaving of those list semantics - C45_holds composed with the junction clauses through the forwarding link FedBy. Kernel-checked theorems on state-machine models of the junction actors, each for EVERY sequence of messages after the stageWire (any demand pattern, any arrival order, completion at any time): Merge and Concat forward sub-values in arrival order and complete only after everything that arrived was sent, and a completed Merge output is an interleaving (inductive predicate Interleave) of the per-source arrival sequences (merge_correct, concat_correct, interleave_projs); the Broadcast hub sends every element to every branch in order (broadcast_correct); the Partition hub sends branch i exactly the elements whose selector is i (partition_correct); the Balance hub (after fix 61853f2: elements that find no demand are buffered) sends, for every message sequence including slot cancellations, each handled element to exactly one branch in arrival order, and tells the branches streamComplete only after everything was sent, at which point the input is an interleaving of the branch sequences (BlInv.step, balance_correct). Zip pairs positionally for every message sequence (zip_correct: the i-th components of the tuples sent, followed by slot i's buffer, are slot i's arrivals in order); Broadcast and Partition also with slot cancellation anywhere (a live branch has everything, a cancelled one a prefix). All clauses together: C46_holds. The judge's interleaving decision procedure is certificate producing and the certificate check is proved sound (checkWitness_sound, isInterleaving_sound).",
    "level_note": "Partial: the Concat theorem is about arrival order (that arrivals come source by source follows from sub-source i+1 being materialized only after sub-source i reported done, which is in the model's step function but not composed with sub-pipeline models); the composed fan-in theorem takes the forwarding link between a sub-pipeline's internal sink and the junction as hypothesis FedBy (what slot i handed over is a prefix of what sink i consumed: per-sender FIFO of the actor runtime, see C05/C08), it is not one interleaved network of all actors; fan-out hubs with downstream sub-pipelines and slot actors are not composed (slot actors are pure relays, tied by replay). Trusted: Lean kernel; the differential (per-actor message replay of the real junction actors between probe actors; end-to-end runs of the real junctions judged by Spec.C46).",
    "technique": "Lean 4 proof (invariants over every message order) on hand-written junction-actor models, tied to the Go code by deterministic per-actor message replay and end-to-end runs judged by a certificate-producing interleaving checker",
}
TRUSTED = [
    "per-sender FIFO mailboxes: the sub-values of one sub-source arrive in that source's order",
    "rctx.Shutdown() is synchronous (no message handled after it); a Tell to a stopped actor enqueues nothing",
    "the upstream of a hub is modelled as an arbitrary sequence of elements (it may ignore demand, as ParallelMap does)",
]
RULE = ("end-to-end: Merge/Concat/Zip over 1..4 Of-sources of 0..40 ints (tagged-distinct or heavily repeated values), Broadcast/Balance/Partition with 1..4 "
        "branches over 0..200 ints; single actors: merge/concat/zip sources, broadcast/balance/partition hubs and slot actors driven message by message; "
        "non-trivial = at least one element delivered; distinct by (case, output)")


def ints(rng, n, mode):
    if mode == "rep":
        return [rng.randint(0, 2) for _ in range(n)]
    return [rng.randint(-50, 200) for _ in range(n)]


def src_str(xs):
    return ",".join(map(str, xs)) or "-"


def gen_fanin_slow(rng, tier):
    """fan-in junction with a slow consumer (the sink blocks until the sub-pipelines have finished) and more
    elements than one demand window (224), so that the junction actor has to buffer across completion"""
    kind = rng.choice(["ccb", "mgb", "zpb"])
    k = rng.randint(1, 3)
    srcs = [[i * 1000 + j for j in range(rng.choice([0, 3, 230, 300]))] for i in range(k)]
    if kind == "ccb":
        srcs[-1] = [(k - 1) * 1000 + j for j in range(rng.choice([230, 300, 400]))]
    return f"{kind} " + "/".join(src_str(s) for s in srcs)


def gen_fanin(rng, tier):
    kind = rng.choice(["mg", "mg", "cc", "zp"])
    k = rng.randint(1, 4)
    mode = rng.choice(["tag", "tag", "rep", "rnd"])
    maxlen = 12 if mode == "rep" else (40 if tier == "quick" else 80)
    srcs = []
    for i in range(k):
        n = rng.choice([0, 1, 2, 3, rng.randint(0, maxlen)])
        if mode == "tag":
            srcs.append([i * 1000 + j for j in range(n)])
        else:
            srcs.append(ints(rng, n, mode))
    return f"{kind} " + "/".join(src_str(s) for s in srcs)


def gen_fanout(rng, tier):
    kind = rng.choice(["bc", "bl", "pt"])
    n = rng.randint(1, 4)
    src = ints(rng, rng.choice([0, 1, 2, 5, 17, 60, 200, rng.randint(0, 200)]), rng.choice(["rep", "rnd", "rnd"]))
    if kind == "pt":
        return f"pt {n} {rng.randint(n, n + 2)} {src_str(src)}"
    return f"{kind} {n} {src_str(src)}"


def gen_ja(rng, tier):
    kind = rng.choice(["merge", "concat", "zip"])
    n = rng.randint(0, 3)
    evs = []
    nev = rng.randint(1, 14 if tier == "quick" else 30)
    done = [False] * n
    cur = 0       # concat: only the current sub-source produces
    val = 0
    for _ in range(nev):
        r = rng.random()
        active = [i for i in range(n) if not done[i]]
        if kind == "concat":
            active = [cur] if cur < n and not done[cur] else []
        if r < 0.3:
            evs.append(f"r{rng.randint(1, 4)}")
        elif r < 0.75 and active:
            val += 1
            evs.append(f"v{rng.choice(active)}:{val if rng.random() < 0.7 else rng.randint(0, 2)}")
        elif r < 0.93 and active:
            i = rng.choice(active)
            done[i] = True
            if kind == "concat":
                cur += 1
            evs.append(f"d{i}")
        elif r < 0.96:
            evs.append("k")
        else:
            evs.append(f"r{rng.randint(1, 9)}")
    if rng.random() < 0.6:
        # finish every sub-source while elements may still be buffered (little or no demand so far), then let
        # downstream drain: completion must wait for the buffer
        for i in range(n):
            if not done[i]:
                for _ in range(rng.randint(0, 3)):
                    val += 1
                    evs.append(f"v{i}:{val}")
                done[i] = True
                evs.append(f"d{i}")
        evs += [f"r{rng.randint(1, 3)}", "r50"]
    elif rng.random() < 0.5:
        evs.append("r50")
    return f"ja {kind} {n} | {' '.join(evs)}"


def gen_jh(rng, tier):
    kind = rng.choice(["bchub", "blhub", "pthub"])
    n = rng.randint(1, 4)
    m = rng.randint(n, n + 1) if kind == "pthub" else 0
    dem = [0] * n
    live = [True] * n
    evs = []
    nev = rng.randint(1, 16 if tier == "quick" else 36)
    for _ in range(nev):
        r = rng.random()
        if r < 0.35:
            i = rng.randrange(n)
            k = rng.randint(1, 4)
            dem[i] += k
            evs.append(f"s{i}:{k}")
        elif r < 0.85:
            # Balance: an element with no demanding live slot is dropped (finding C46-F1, witnessed by the corpus);
            # generated traces stay where every element finds a slot
            if kind == "blhub":
                if rng.random() < 0.7 and not any(l and d > 0 for l, d in zip(live, dem)):
                    continue
                v = rng.randint(-5, 30)
                evs.append(f"e{v}")
                # the model decides which slot; mirror just enough: decrement the first demanding live slot in rr order is
                # not needed for the generator's purpose (some slot loses one unit of demand)
                for i in range(n):
                    if live[i] and dem[i] > 0:
                        dem[i] -= 1
                        break
            else:
                evs.append(f"e{rng.randint(-5, 30)}")
        elif r < 0.9:
            i = rng.randrange(n)
            live[i] = False
            evs.append(f"q{i}")
        elif r < 0.95:
            evs.append("c")
        else:
            evs.append("xU1")
    return f"jh {kind} {n} {m} | {' '.join(evs)}"


def gen_js(rng, tier):
    kind = rng.choice(["bcslot", "blslot", "ptslot"])
    evs = []
    for _ in range(rng.randint(1, 10)):
        r = rng.random()
        if r < 0.3:
            evs.append(f"r{rng.randint(1, 5)}")
        elif r < 0.5:
            evs.append("h")
        elif r < 0.8:
            evs.append(f"e{rng.randint(0, 9)}")
        elif r < 0.87:
            evs.append("c")
        elif r < 0.93:
            evs.append("xU1")
        else:
            evs.append("k")
    return f"js {kind} | {' '.join(evs)}"


def gen_cases(rng, tier):
    a, b, c = (60, 60, 360) if tier == "quick" else (1200, 1200, 6000)
    cases = ["mg -", "cc -/-", "zp 1,2,3/-", "bc 1 -", "bl 2 1,2,3", "pt 2 3 0,1,2,3,4,5"]
    cases += [gen_fanin(rng, tier) for _ in range(a)]
    cases += [gen_fanin_slow(rng, tier) for _ in range(3 if tier == "quick" else 25)]
    cases += [gen_fanout(rng, tier) for _ in range(b)]
    for _ in range(c):
        cases.append(rng.choice([gen_ja, gen_jh, gen_jh, gen_js])(rng, tier))
    return cases


def search_cases(rng, tier):
    more = gen_cases(rng, "thorough")
    rng.shuffle(more)
    return more[:3000]


def _sorted_branch(b):
    hd, _, tl = (b + " ").partition(" | ")
    return hd + " | " + " ".join(sorted(tl.split()))


def compare(case, impl, model):
    if model == "*":
        return None
    if case.startswith(("mg ", "mgb ")):
        # the interleaving is schedule dependent: same multiset here, order judged by the oracle
        return None if _sorted_branch(impl) == _sorted_branch(model) else f"impl={impl!r} model={model!r} (as multisets)"
    if case.startswith("bl "):
        # which branch has demand when an element reaches the hub is schedule dependent (the other branch's
        # slotDemand may still be in flight): same branch count, same union; the partition is judged by the oracle
        bi, bm = impl.split(" ## "), model.split(" ## ")
        ui = sorted(x for b in bi for x in (b + " ").partition(" | ")[2].split())
        um = sorted(x for b in bm for x in (b + " ").partition(" | ")[2].split())
        heads = [b.split(" | ")[0].strip() for b in bi]
        ok = len(bi) == len(bm) and ui == um and all(h == "done n=1" for h in heads)
        return None if ok else f"impl={impl!r} model={model!r} (branch union)"
    return None if impl.rstrip() == model.rstrip() else f"impl={impl!r} model={model!r}"


def is_trivial(case, impl):
    if impl is None or impl.startswith(("CRASH", "bad-case", "run-error", "rig-error", "step-error")):
        return True
    if case[:2] in ("ja", "jh", "js"):
        return not re.search(r":e|:c|:x|u:", impl)
    return not re.search(r"\| \S", impl + " ")


def tag(case, impl):
    f = case.split()
    return f[0] + (":" + f[1] if f[0] in ("ja", "jh", "js") else "")


def oracle(case, impl, judge):
    if impl.startswith(("CRASH", "run-error", "rig-error", "step-error", "panic")):
        return "harness failure: " + impl[:200]
    if judge is not None:
        return None if judge.startswith("ok") else judge
    # small python mirror for the deterministic junctions (judge unavailable)
    f = case.split()
    if f[0] in ("ja", "jh", "js", "mg", "blb", "mgb", "ccb", "zpb"):
        return None
    branches = [(b + " ").partition(" | ") for b in impl.split(" ## ")]
    if any(hd.strip() != "done n=1" for hd, _, _ in branches):
        return "bad a branch did not complete normally exactly once: " + impl[:120]
    outs = [tl.split() for _, _, tl in branches]
    srcs = [([] if p == "-" else p.split(",")) for p in f[-1].split("/")] if f[0] in ("cc", "zp") else None
    if f[0] == "cc" and outs[0] != [x for s in srcs for x in s]:
        return "bad Concat output is not the sources one after another"
    if f[0] == "bc":
        src = [] if f[2] == "-" else f[2].split(",")
        if any(o != src for o in outs):
            return "bad a Broadcast branch did not get exactly the source's elements"
    if f[0] == "bl":
        src = [] if f[2] == "-" else f[2].split(",")
        if sorted(x for o in outs for x in o) != sorted(src):
            return "bad Balance branches do not partition the source"
    return None


def classify(case, impl, why):
    return None   # no open finding (C46-F1 was fixed by 61853f2)


def shrink(case):
    f = case.split()
    if f[0] in ("ja", "jh", "js"):
        hd, _, evs = case.partition("|")
        ev = evs.split()
        for i in range(len(ev)):
            yield hd + "| " + " ".join(ev[:i] + ev[i + 1:])
        return
    srcs = [([] if p == "-" else p.split(",")) for p in f[-1].split("/")]
    for i, s in enumerate(srcs):
        if len(s) > 1:
            for half in (s[:len(s) // 2], s[len(s) // 2:]):
                ns = srcs[:i] + [half] + srcs[i + 1:]
                yield " ".join(f[:-1] + ["/".join(",".join(x) or "-" for x in ns)])

"""C42 — reliable point-to-point delivery is ordered and gap-free under message faults (E4-style scripted
handler replay against the Lean handlers + monitor oracle)."""
import re

ID = "C42"
LEAN_MODULES = ["GoaktVerif.Props.C42"]
THEOREMS = [
    "GoaktVerif.C42.C42_holds",
    "GoaktVerif.C42.C42_safety_holds",
    "GoaktVerif.C42.C42_progress_holds",
    "GoaktVerif.C42.C42_eventually_holds",
    "GoaktVerif.C42.eventually_confirmed",
    "GoaktVerif.C42.C42_recover_is_script",
    "GoaktVerif.C42.Inv3.step",
    "GoaktVerif.C42.recover_progress",
    "GoaktVerif.C42.C42_inductive",
    "GoaktVerif.C42.C42_consumer_never_fails",
    "GoaktVerif.C42.C42_producer_never_fails",
    "GoaktVerif.C42.Inv2.step",
    "GoaktVerif.C42.Inv.init",
    "GoaktVerif.C42.Inv.step",
    "GoaktVerif.C42.PPost.handle",
    "GoaktVerif.C42.CPost.handle",
]
INPKG = ["actor/zz_verif_c42.go"]
HARNESS = "c42"
TIMEOUT = 900
MANIFEST = {
    "level_text": "PARTIAL (volatile, unchunked path; no controller restart). Kernel-checked inductive invariant (Inv.step, Lemmas/C42) over an executable Lean model of BOTH controllers field by field, the two controller links as bags with drop / duplicate / reorder steps, lossy FIFO endpoint mailboxes, ticks and the endpoints' documented contract: for every window, every script of any length, the Deliveries handed to the consumer endpoint are 1,2,3,... without gap, each is the message the producer controller stored under that sequence with the produced payload, k+1 is first presented only after k was confirmed, and a sequence is re-presented only while it is the unconfirmed in-flight one (C42_safety_holds, stated through the Spec monitor that also judges the real trace). Also proved: neither controller ever takes its terminal failure path (C42_producer_never_fails under the endpoint contract and a valid window, C42_consumer_never_fails), the producer's unconfirmed buffer is exactly confirmedSeq+1..currentSeq (PCons.handle), and a NON-temporal progress theorem (C42_progress_holds): from every reachable state the five-step fault-free continuation tick, tick, deliver Register, deliver RegistrationAck, deliver timeout Request makes the producer adopt the consumer's watermark and puts the oldest unconfirmed message back in flight — no reachable state is stuck. Also C42_eventually_holds, the reachability form of 'every produced message is eventually confirmed': from every reachable state there exists a finite continuation without drops, duplicates or producer-endpoint activity after which every stored message is confirmed (induction on currentSeq - consumer confirmedSeq over rounds of recover / deliver / tick / endpoint confirmations). C42_holds is the conjunction. The model is tied to the code by replaying every handler of the REAL producerController/consumerController step by step under scripted faults and comparing sent messages and all state fields with the Lean handlers.",
    "level_note": "The chunked path (storeChunks, chunk run buffering/assembly, scanChunkRun / failWedgedChunkRun violations) is modelled in Model/C42c.lean and tied by the same step-by-step replay (including forged-message scripts for the terminal violation paths) and judged by a chunk-aware monitor (Spec/C42c), but the theorems are about the unchunked Model/C42 (the driver cross-checks the two models on every unchunked case). Not in the model: the durable producer queue, controller restart/relocation, MaxInt64 sequence exhaustion, sender authentication (always succeeds: one controller pair), remoting. 'Eventually confirmed' is proved as reachability (exists a continuation), not as a temporal statement under fairness. Trusted: the differential only sees generated scripts; uuid freshness modelled by counters; time.Now() in the gap-request limiter is an explicit input (harness uses a one-hour interval so no timer fires).",
    "technique": "Lean 4 inductive invariant over all fault schedules of an executable model of both controllers + per-step differential replay of the real handlers",
}
TRUSTED = [
    "stand-in companions with capturing mailboxes (harness/inpkg/actor/zz_verif_c42.go) authenticate exactly like real companions (same technique as goakt's own controller tests)",
    "handlers are invoked on the harness goroutine with newReceiveContext (mailbox/dispatcher bypassed); timers never fire (1h intervals), ticks injected with the current generation",
    "uuid.NewString() yields fresh values (modelled by counters); serializer round-trips Int64Value payloads",
]
RULE = ("scripts of 10..160 ops over windows 1..8 (and 20): FIFO-biased deliveries with reordering, duplication, "
        "drops on both controller links, ticks, endpoint reactions (answer / lose / do not confirm); "
        "non-trivial = at least one Delivery reached the consumer endpoint; distinct by (case, output)")


PROFILES = {
    # weights of the non-fault ops
    "fair":     [("dcp0", 22), ("dpc0", 22), ("up", 22), ("uc1", 20), ("tc", 9), ("tp", 5)],
    "fastprod": [("dcp0", 25), ("dpc0", 14), ("up", 40), ("uc1", 8), ("tc", 7), ("tp", 6)],
    "slowprod": [("dcp0", 25), ("dpc0", 25), ("up", 10), ("uc1", 25), ("tc", 10), ("tp", 5)],
    "ticky":    [("dcp0", 20), ("dpc0", 20), ("up", 18), ("uc1", 14), ("tc", 20), ("tp", 8)],
    # chunked messages put several SequencedMessages on the producer->consumer link per job
    "pcheavy":  [("dcp0", 16), ("dpc0", 42), ("up", 18), ("uc1", 14), ("tc", 7), ("tp", 3)],
}


def fault_op(rng):
    k = rng.random()
    link = rng.choice(["pc", "cp"])
    i = rng.choice([0, 0, 1, 1, 2, 3])
    if k < 0.30:
        return f"u{link}{i}"            # duplicate
    if k < 0.55:
        return f"x{link}{i}"            # drop
    if k < 0.85:
        return f"d{link}{rng.choice([1, 1, 2, 3, 4])}"   # deliver out of order
    if k < 0.90:
        return "uc0"                    # Delivery processed, confirmation lost
    if k < 0.95:
        return "xc"                     # Delivery lost before the endpoint
    return "xp"                         # RequestNext / Stored lost before the endpoint


def gen_script(rng, n, fault_rate, profile="fair"):
    names = [o for o, _ in PROFILES[profile]]
    weights = [w for _, w in PROFILES[profile]]
    # most scripts start with a clean registration + first demand grant so that the rest exercises the flow
    ops = ["dcp0", "dpc0", "dcp0"] if rng.random() < 0.8 else []
    for _ in range(n):
        if rng.random() < fault_rate:
            ops.append(fault_op(rng))
        else:
            ops.append(rng.choices(names, weights)[0])
    return ops


CLEAN = "4 1 dcp0 dpc0 dcp0 up up dpc0 uc1 up up dpc0 uc1 dcp0 up up dpc0 uc1 tc tc dcp0 dpc0 dcp0"


CHUNKED = [
    # a 100-byte frame in 32-byte chunks (4 sequences), then a whole message, delivered in order
    "4 1 m32 L100,40 dcp0 dpc0 dcp0 up up dpc0 dpc0 dpc0 dpc0 uc1 dcp0 up up dpc0 uc1 dcp0",
    # interior chunk lost and recovered through the gap / timeout request; chunks arrive out of order
    "6 0 m40 L150,90 dcp0 dpc0 dcp0 up up dpc2 xpc1 dpc1 dpc0 tc dcp0 dcp0 dpc0 dpc0 dpc0 dpc0 uc1 dcp0 up up dpc1 dpc0 dpc0 uc1",
    # a message needing more chunks than the window: terminal on the producer side
    "2 0 m32 L200 dcp0 dpc0 dcp0 up tp dcp0",
    # forged whole message inside a chunk run: the wedged run is failed terminally on the tick
    "6 0 m32 L100 dcp0 dpc0 dcp0 up up dpc0 dpc0 fw3 dpc0 dpc0 tc tc uc1",
    # forged first chunk inside a run, completed run -> assemble reports the violation
    "6 0 m32 L100 dcp0 dpc0 dcp0 up up dpc0 ff2 dpc0 dpc0 dpc0 tc",
]


def chunk_case(rng, ops_fn):
    """a case on a flow with chunking: small chunk size, frames from just-below to several chunks"""
    mx = rng.choice([32, 40, 64, 64])
    w = rng.choice([2, 3, 4, 4, 6, 8])
    lens = [rng.choice([48, mx, mx + 1, 2 * mx, 2 * mx + 7, 3 * mx - 1, 3 * mx + 5, 5 * mx]) for _ in range(rng.randint(1, 4))]
    lens = [max(l, 48) for l in lens]   # the encoded StringValue frame cannot be shorter than ~45 bytes
    ops = ops_fn()
    if rng.random() < 0.25:
        # forged messages under the current session: the consumer controller's structural checks must fail terminally
        for _ in range(rng.randint(1, 3)):
            ops.insert(rng.randrange(len(ops) // 3, len(ops) + 1), rng.choice(["fw", "ff"]) + str(rng.randint(1, 9)))
    return f"{w} {rng.choice([0, 1])} m{mx} L{','.join(map(str, lens))} " + " ".join(ops)


EPILOGUE = ["tc", "tc", "dcpL", "dpcL", "dcpL"]   # = `recover` of Props/C42 (C42_progress)


def with_epilogue(rng, case):
    """about half of the fault-script cases end with the fault-free recovery continuation; the oracle then checks
    the conclusion of C42_progress on the REAL trace"""
    if any(o[:2] in ("fw", "ff") for o in case.split()[2:]) or rng.random() < 0.5:
        return case
    return case + " " + " ".join(EPILOGUE)


def gen_cases(rng, tier):
    return [with_epilogue(rng, c) for c in _gen_cases(rng, tier)] + PROGRESS


def search_cases(rng, tier):
    return [with_epilogue(rng, c) for c in _search_cases(rng, tier)] + PROGRESS


PROGRESS = [
    # the LAST SequencedMessage is lost while the producer is idle: only silence -> re-register -> timeout Request recovers it
    "4 0 dcp0 dpc0 dcp0 up up dpc0 uc1 dcp0 up up xpc0 " + " ".join(EPILOGUE),
    "2 1 dcp0 dpc0 dcp0 up up xpc0 " + " ".join(EPILOGUE),
    "4 0 m32 L100 dcp0 dpc0 dcp0 up up dpc0 dpc0 dpc0 xpc0 " + " ".join(EPILOGUE),
]


def _gen_cases(rng, tier):
    n = 260 if tier == "quick" else 4000
    cases = [CLEAN] + CHUNKED
    for _ in range(n // 3):
        ln = rng.choice([30, 60, 120, 200])
        rate = rng.choice([0.0, 0.05, 0.15, 0.3])
        prof = rng.choice(["fair", "fair", "fastprod", "pcheavy"])
        cases.append(chunk_case(rng, lambda: gen_script(rng, ln, rate, prof)))
    for _ in range(n):
        w = rng.choice([1, 1, 2, 2, 3, 4, 4, 5, 6, 8, 20])
        dc = rng.choice([0, 1])
        ln = rng.choice([20, 40, 80, 120, 200])
        rate = rng.choice([0.0, 0.05, 0.15, 0.3])
        prof = rng.choice(["fair", "fair", "fastprod", "slowprod", "ticky"])
        cases.append(f"{w} {dc} " + " ".join(gen_script(rng, ln, rate, prof)))
    return cases


def _search_cases(rng, tier):
    cases = []
    for _ in range(500 if tier == "quick" else 2000):
        cases.append(chunk_case(rng, lambda: gen_script(rng, rng.choice([60, 120, 240]), rng.choice([0.05, 0.2, 0.35]), rng.choice(["fair", "pcheavy"]))))
    for _ in range(1500 if tier == "quick" else 6000):
        w = rng.choice([1, 2, 2, 3, 4, 6])
        prof = rng.choice(["fair", "fastprod", "ticky"])
        cases.append(f"{w} {rng.choice([0, 1])} " + " ".join(gen_script(rng, rng.choice([40, 80, 160, 240]), rng.choice([0.1, 0.25, 0.4]), prof)))
    return cases


def compare(case, impl, model):
    if impl == model:
        return None
    a, b = impl.split(";"), model.split(";")
    ops = ["init"] + [o for o in case.split()[2:] if not (o[0] in "mL" and o[1:2].isdigit())]
    for i, (x, y) in enumerate(zip(a, b)):
        if x != y:
            return f"step {i} ({ops[i] if i < len(ops) else '?'}): impl={x!r} model={y!r}"
    return f"different number of segments impl={len(a)} model={len(b)}"


DELIV = re.compile(r"D\((\d+),(\d+),(\d+),(\d+)\)")


def deliveries(impl):
    out = []
    for seg in impl.split(";"):
        for tok in seg.split():
            if tok.startswith("cu:"):
                out += [tuple(map(int, m)) for m in DELIV.findall(tok)]
    return out


PDIG = re.compile(r"P\{cur=(\d+) conf=(\d+) pers=\d+ unc=\[([^\]]*)\].* f=(\d)\}")
CDIG = re.compile(r"C\{w=(\d+) .* conf=(\d+) upto=(\d+) .* f=(\d)\}")
SENTSEQ = re.compile(r"SC?\(\d+,\d+,(\d+),")


def progress_oracle(case, impl):
    """C42_progress on the real trace: after the fault-free continuation tc tc dcpL dpcL dcpL the producer
    controller is alive, has adopted the consumer controller's confirmation watermark, and the oldest message it
    still holds unconfirmed has been re-sent in that last step."""
    ops = [o for o in case.split()[2:] if not (o[0] in "mL" and o[1:2].isdigit())]
    if ops[-5:] != EPILOGUE:
        return None
    segs = impl.split(";")
    if len(segs) != len(ops) + 1 or any(re.search(r"[PC]\{[^}]* f=1\}", s) for s in segs[:-5]):
        return None            # a controller had already failed terminally (e.g. message larger than the window)
    last, prev = segs[-1], segs[-2]
    mp, mc = PDIG.search(last), CDIG.search(prev)
    if not mp or not mc:
        return f"progress: the recovery continuation did not reach the producer controller (last steps: {prev[:60]!r}; {last[:60]!r})"
    cur, pconf, unc, pf = int(mp.group(1)), int(mp.group(2)), mp.group(3), mp.group(4)
    cconf = int(mc.group(2))
    if pf == "1":
        return "progress: the producer controller failed during the recovery continuation"
    if pconf != cconf:
        return f"progress: after recovery the producer's confirmedSeq={pconf} differs from the consumer's {cconf}"
    if unc:
        head = int(unc.split(",")[0].split(":")[1])
        sent = [int(x) for tok in last.split() if tok.startswith("pc:") for x in SENTSEQ.findall(tok)]
        if head not in sent:
            return f"progress: the oldest unconfirmed message seq={head} was not re-sent by the recovery continuation (sent {sent})"
    return None


def oracle(case, impl, judge):
    if impl.startswith("CRASH") or impl.startswith("panic") or impl.startswith("setup-error"):
        return "harness failed: " + impl[:200]
    if any(o[:2] in ("fw", "ff") for o in case.split()[2:]):
        return None    # forged messages: differential only, the links are not faithful (see Driver/C42c.lean)
    pr = progress_oracle(case, impl)
    if pr:
        return pr
    if judge is not None:
        return judge_verdict(judge, ("order:",))
    # mirror of the order part of Spec.C42.Mon (used only when the Lean driver is unavailable)
    last = 0
    chunked = " m" in case and " L" in case
    for (_, mid, seq, pl) in deliveries(impl):
        if (seq < last) if chunked else (seq not in (last, last + 1) or seq < 1):
            return f"order: Delivery seq={seq} after {last}"
        if pl != 1000 + 7 * mid:
            return f"order: Delivery seq={seq} carries payload {pl} for message {mid}"
        last = max(last, seq)
    for seg in impl.split(";"):
        m = re.search(r"C\{w=(\d+) .* conf=(\d+) upto=(\d+) buf=\[([^\]]*)\]", seg)
        if m:
            w, conf, upto, buf = int(m.group(1)), int(m.group(2)), int(m.group(3)), m.group(4)
            if (len(buf.split(",")) if buf else 0) > w or upto > conf + w:
                return "window: buffer or granted demand exceeds the window"
    return None


def judge_verdict(judge, mine):
    """the Lean judge reports all three monitor flags; each property answers for its own"""
    if judge.startswith("ok"):
        return None
    if any(k in judge for k in ("order:", "demand:", "window:")):
        return judge if any(k in judge for k in mine) else None
    return judge


def classify(case, impl, why):
    return None


def is_trivial(case, impl):
    return not deliveries(impl or "")


def tag(case, impl):
    ops = case.split()[2:]
    chunked = "chunked " if len(ops) > 1 and ops[0].startswith("m") and ops[1].startswith("L") else ""
    faults = sum(1 for o in ops if o[0] in "ux" and o not in ("up", "uc1"))
    nd = len({d[2] for d in deliveries(impl or "")})
    return chunked + f"faults={'0' if faults == 0 else '1-5' if faults < 6 else '6+'} delivered={'0' if nd == 0 else '1-3' if nd < 4 else '4-9' if nd < 10 else '10+'}"


# no `shrink`: check.py's shrinker also accepts candidates that merely differ from the model, which would
# replace a genuinely failing script by a non-failing one in the replay file.

"""C44 — work-pulling delivers every job to some worker (scripted worker churn against the real
workPullingProducerController, replayed step by step against the Lean handlers)."""
import re

ID = "C44"
LEAN_MODULES = ["GoaktVerif.Props.C44"]
THEOREMS = [
    "GoaktVerif.C44.C44_holds",
    "GoaktVerif.C44.C44_conservation_holds",
    "GoaktVerif.C44.C44_exactly_once_holds",
    "GoaktVerif.C44.C44_requeue_holds",
    "GoaktVerif.C44.C44_confirmed_once_holds",
    "GoaktVerif.C44.C44_dispatch_holds",
    "GoaktVerif.C44.handle_saturated",
    "GoaktVerif.C44.handle_notices",
    "GoaktVerif.C44.C44_endBinding_pending",
    "GoaktVerif.C44.handle_conserve",
    "GoaktVerif.C44.run_conserve",
]
INPKG = ["actor/zz_verif_c42.go", "actor/zz_verif_c44.go"]
TIMEOUT = 900
MANIFEST = {
    "level_text": "PARTIAL (volatile path, local workers, no controller restart). Kernel-checked for ALL input sequences to an executable model of workPullingProducerController (pending pool, per-worker bindings, round-robin cursor, handshake): job conservation as a multiset identity accepted = pending + all workers' unconfirmed + confirmed (C44_conservation_holds, via handle_conserve for every handler and every input); with non-reused MessageIDs every accepted job sits in exactly one place exactly once, so it is never lost, never duplicated and confirmed at most once (C44_exactly_once_holds); a worker's termination removes its binding and keeps every job held, its unconfirmed jobs going back to the head of the pool (C44_requeue_holds, C44_endBinding_pending); the DeliveryConfirmed notices sent to the producer endpoint are exactly the confirmed jobs, each MessageID at most once (C44_confirmed_once_holds); a job stays in the pool only while no registered worker has free demand (C44_dispatch_holds, round-robin probe covers every binding). The model is tied to the code by replaying every handler of the REAL controller under scripted worker churn (3 workers x 2 companion incarnations, fresh/stale nonces, legal/illegal demand, terminations) and comparing all sent messages and all fields after each step; a conservation oracle is evaluated on the real trace.",
    "level_note": "Not in the model: durable work queue, controller restart, remote-worker authentication through the cluster registry (authentication is an input), MaxInt64 exhaustion. 'Handed to at least one worker' is not a temporal theorem: a job waits while no worker grants demand, and loss of the SequencedMessage on the way to the worker is recovered by the worker's timeout Request (resend), which is in the model but whose eventual occurrence is not. The oracle on the real trace is Spec.C44.Mon (Lean judge) with a Python mirror for messages.",
    "technique": "Lean 4 invariant over all input sequences of an executable model of the work-pulling controller + per-step differential replay of the real handlers under scripted worker churn",
}
TRUSTED = [
    "worker stand-in companions (valid consumer companion spec, capturing mailbox) and worker endpoints whose reliableDelivery field is set in-package authenticate like real local workers",
    "handlers are invoked on the harness goroutine with newReceiveContext; Terminated messages are crafted for the companion path; timers never fire (1h)",
    "the Go bindings map + bindingOrder slice is modelled as one ordered list (bindingOrder holds exactly the map keys)",
]
RULE = ("scripts of 15..200 ops over 3 workers x 2 companion incarnations: registrations (fresh / repeated / stale nonces, "
        "replaced companions), demand grants and acks relative to the binding's watermark (legal and illegal ranges), "
        "worker terminations, producer-endpoint reactions, ticks; non-trivial = at least one job was dispatched to a worker; "
        "distinct by (case, output)")


def gen_script(rng, n, churn):
    nonce_ctr = [0]
    cur = {w: {"c": 0, "n": 0} for w in (1, 2, 3)}

    def fresh():
        nonce_ctr[0] += 1
        return nonce_ctr[0]

    ops = []
    if rng.random() < 0.75:    # usually start with one registered worker that grants demand
        cur[1]["n"] = fresh()
        ops += [f"r1{cur[1]['c']}n{cur[1]['n']}", f"q1{cur[1]['c']}n{cur[1]['n']}a0b{rng.choice([1, 2, 3, 4])}v{rng.choice([0, 1])}"]
    for _ in range(n):
        r = rng.random()
        w = rng.choice([1, 1, 2, 2, 3])
        st = cur[w]
        if r < 0.34:
            ops.append("up")
        elif r < 0.60:
            if st["n"] == 0 and rng.random() < 0.8:
                st["n"] = fresh()
                ops.append(f"r{w}{st['c']}n{st['n']}")
                continue
            n_ = st["n"] if rng.random() < 0.9 else max(1, st["n"] - 1)
            da = rng.choice([0, 0, 0, 1, 1, 2, 3, 9]) if rng.random() < 0.97 else 40
            db = rng.choice([0, 1, 2, 2, 3, 4, 6])
            c = st["c"] if rng.random() < 0.93 else 1 - st["c"]
            ops.append(f"q{w}{c}n{max(1, n_)}a{da}b{db}v{rng.choice([0, 0, 1])}")
        elif r < 0.70:
            n_ = max(1, st["n"] if rng.random() < 0.9 else st["n"] - 1)
            ops.append(f"k{w}{st['c']}n{n_}a{rng.choice([0, 1, 1, 2, 5])}")
        elif r < 0.70 + 0.12 * churn:
            k = rng.random()
            if k < 0.45:            # same companion, fresh nonce (the silence rule)
                st["n"] = fresh()
            elif k < 0.65:          # idempotent repeat
                st["n"] = st["n"] or fresh()
            else:                   # restarted worker: the other companion
                st["c"] = 1 - st["c"]
                st["n"] = fresh()
            ops.append(f"r{w}{st['c']}n{st['n']}")
        elif r < 0.70 + 0.20 * churn:
            c = st["c"] if rng.random() < 0.8 else 1 - st["c"]
            ops.append(f"t{w}{c}")
            if c == st["c"]:
                st["n"] = 0
        elif r < 0.96:
            ops.append("tp")
        else:
            ops.append("xp")
    return ops


SCENARIOS = [
    # two workers, jobs dispatched round robin, worker 1 stops with two unconfirmed jobs, worker 2 takes them over
    "1 r10n1 q10n1a0b2v1 up up up up up up r20n2 q20n2a0b3v0 up up up up q10n1a1b2v0 t10 k20n2a1 r11n5 q11n5a0b1v1",
    # jobs accepted before any worker exists wait in the pool
    "0 r10n1 q10n1a0b1v0 up up t10 up up r20n2 q20n2a0b4v0 up up up up k20n2a2",
]


def gen_cases(rng, tier):
    n = 220 if tier == "quick" else 3000
    cases = list(SCENARIOS)
    for _ in range(n):
        cases.append(f"{rng.choice([0, 1])} " + " ".join(gen_script(rng, rng.choice([15, 40, 80, 140, 200]), rng.choice([0.3, 1.0, 1.0, 2.0]))))
    return cases


def search_cases(rng, tier):
    cases = []
    for _ in range(1200 if tier == "quick" else 5000):
        cases.append(f"{rng.choice([0, 1])} " + " ".join(gen_script(rng, rng.choice([40, 100, 200]), rng.choice([1.0, 2.0, 3.0]))))
    return cases


def compare(case, impl, model):
    if impl == model:
        return None
    a, b = impl.split(";"), model.split(";")
    ops = ["init"] + case.split()[1:]
    for i, (x, y) in enumerate(zip(a, b)):
        if x != y:
            return f"step {i} ({ops[i] if i < len(ops) else '?'}): impl={x!r} model={y!r}"
    return f"different number of segments impl={len(a)} model={len(b)}"


DIG = re.compile(r"W\{ss=(\d+) pend=\[([^\]]*)\] b=\[(.*)\] fd=\[([^\]]*)\] nm=(\d+) nw=(\d+) hs=(\d+)")
NOTICE = re.compile(r"F\((\d+),(\d+),(\d+)\)")


def snapshot(seg):
    """(pending ids, {worker: [unconfirmed ids]}, notices) of one trace segment, or None"""
    m = DIG.search(seg)
    if not m:
        return None
    pend = [int(x.split(":")[0]) for x in m.group(2).split(",")] if m.group(2) else []
    unc = {}
    if m.group(3):
        for b in m.group(3).split("|"):
            f = b.split("/")
            inner = f[6][1:-1] if len(f) > 6 else ""
            unc[(int(f[0]), int(f[1]))] = [int(x.split(":")[0]) for x in inner.split(",")] if inner else []
    notices = []
    for tok in seg.split():
        if tok.startswith("pu:"):
            notices = [int(n[1]) for n in NOTICE.findall(tok)]
    free = {int(e.split(":")[0]): int(e.split(":")[1]) for e in m.group(4).split(",")} if m.group(4) else {}
    return pend, unc, notices, free


def oracle(case, impl, judge):
    """Every accepted job is in exactly one of {pending, one worker's unconfirmed, confirmed}; it leaves the
    controller only through a worker's Request/Ack, once, with exactly one DeliveryConfirmed when enabled;
    a terminated worker's jobs are still held afterwards."""
    if impl.startswith("CRASH") or impl.startswith("panic") or impl.startswith("setup-error"):
        return "harness failed: " + impl[:200]
    if judge is not None and judge.startswith("bad") and "conservation:" not in judge:
        return judge          # unparsable / mismatching trace
    mirror = _mirror(case, impl)
    if judge is not None and judge.startswith("bad") and mirror is None:
        return judge          # Spec.C44.Mon (Lean) found what the mirror missed
    return mirror


def _mirror(case, impl):
    """python mirror of Spec.C44.Mon with a more detailed message"""
    f = case.split()
    dc, ops = f[0] == "1", ["init"] + f[1:]
    segs = impl.split(";")
    if len(segs) != len(ops):
        return "trace does not match the script"
    held_prev, confirmed, seen = [], set(), set()
    for i, (op, seg) in enumerate(zip(ops, segs)):
        if seg in ("-", "bad-op"):
            continue
        s = snapshot(seg)
        if s is None:
            return f"step {i}: unparsable digest"
        pend, unc, notices, free = s
        held = pend + [j for v in unc.values() for j in v]
        if len(set(held)) != len(held):
            return f"step {i} ({op}): a job is held twice: {sorted(held)}"
        entered = set(held) - set(held_prev)
        left = set(held_prev) - set(held)
        if entered & confirmed:
            return f"step {i} ({op}): confirmed job {sorted(entered & confirmed)} is held again"
        if entered and (op != "up" or len(entered) > 1 or (seen and min(entered) <= max(seen))):
            return f"step {i} ({op}): jobs {sorted(entered)} appeared out of nowhere"
        if left and op[0] not in "qk":
            return f"step {i} ({op}): jobs {sorted(left)} vanished without a worker confirmation"
        if dc and sorted(notices) != sorted(left):
            return f"step {i} ({op}): DeliveryConfirmed notices {sorted(notices)} for confirmed jobs {sorted(left)}"
        if not dc and notices:
            return f"step {i} ({op}): unexpected DeliveryConfirmed"
        if pend and any(v > 0 for v in free.values()):
            w = [k for k, v in free.items() if v > 0]
            return f"step {i} ({op}): jobs {pend} wait in the pending pool although worker(s) {w} have free demand (C44_dispatch)"
        confirmed |= left
        seen |= entered
        held_prev = held
    return None


def classify(case, impl, why):
    return None


def dispatched(impl):
    return len(re.findall(r"S\(\d+,\d+,\d+,\d+\)", impl or ""))


def is_trivial(case, impl):
    return dispatched(impl) == 0


def tag(case, impl):
    ops = case.split()[1:]
    terms = sum(1 for o in ops if o[0] == "t")
    d = dispatched(impl)
    ended = len(re.findall(r"b=\[\]", impl or ""))
    return f"terminations={'0' if terms == 0 else '1-3' if terms < 4 else '4+'} dispatched={'0' if d == 0 else '1-5' if d < 6 else '6+'}"

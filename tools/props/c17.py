"""C17 — stopping the actor system tears down every actor exactly once.

Lean: Model.C17 (teardown order of a forest: children concurrently, then PostStop) with
exactly-once / children-first for every interleaving; the shutdown PoisonPill on Model.C31; sends
after the stop on Model.C06; the inherited counterexample (a handler outlives the stop).
Tie: random trees + grains with traffic in flight in a REAL actor system (harness/verifdrv/c06/c17.go);
the model predicts who is torn down and the action results, Spec.C17 judges counts, order
(logical clock) and quietness after Stop on the recorded history.
"""
import re

ID = "C17"
LEAN_MODULES = ["GoaktVerif.Props.C17"]
THEOREMS = [
    "GoaktVerif.C17.C17_perm",
    "GoaktVerif.C17.C17_exactly_once",
    "GoaktVerif.C17.C17_children_first",
    "GoaktVerif.C17.C17_some_order",
    "GoaktVerif.C17.C17_grain_pill_deactivates",
    "GoaktVerif.C17.C17_grain_drops_after_deactivation",
    "GoaktVerif.C17.C17_send_after_stop_rejected",
    "GoaktVerif.C17.C17_handler_outlives_stop",
]
INPKG = ["actor/zz_verif_c06.go"]
HARNESS = "c06"
TIMEOUT = 1500
ORACLE_NEEDS_JUDGE = True
MANIFEST = {
    "level_text": "Kernel-checked theorems: for EVERY actor forest and EVERY interleaving of the concurrent child shutdowns (Model.C17.Stops: freeChildren tears the children down concurrently, then PostStop) the teardown order is a permutation of the reached actors (C17_perm), contains every running actor exactly once and no stopped one (C17_exactly_once, distinct actors, stopped actors have no running descendants), and every actor comes after all actors reached inside its subtree (C17_children_first); a PoisonPill dequeued by an active grain deactivates it once inside that turn (C17_grain_pill_deactivates, with C31_inturn: at most once on every schedule); a Tell whose flag test runs after the stop is rejected and enqueues nothing (C17_send_after_stop_rejected). The clause `after Stop returns no user handler runs` is refuted by the counterexample shared with C06 (C17_handler_outlives_stop) and replayed on the real system. Tie: random trees and grain populations with traffic in flight in a real actor system; the model predicts which actors/grains are torn down and every action result, and Spec.C17 judges exactly-once, children-before-parents (logical clock), grain deactivation and quietness after Stop on the recorded history.",
    "level_note": "Partial: `no user handler runs after Stop returns` is false (C17-F1 = C06-F1 seen through ActorSystem.Stop; C17-F2 = C31-F2 was fixed by 6dc1e0c; C17-F3: a send racing Stop can activate a grain that escapes poisonAllGrains; C17-F4, an actor restarted after a completed stop running outside the tree, is fixed). The per-actor stop is Model.C06's critical section and is not re-modelled here; the teardown model is at PostStop granularity (which actors, in what order) and takes the running flags at the moment Stop reaches each actor as given; system actors of the chain (singleton manager, relocator, dead letter, death watch, topic actor, noSender, guardians) are exercised by the real run but only user actors and grains are judged. A grain whose handler is blocked for longer than the shutdown timeout is abandoned by design (poisonAllGrains returns ctx.Err()) and is not generated.",
    "technique": "Lean 4 structural induction over forests/interleavings + scenario differential and spec oracle on recorded histories of the real actor system",
}
TRUSTED = [
    "Model.C06 / Model.C31 for the per-actor and per-grain stop (their own checks C06, C31)",
    "goroutine identity and logical clock of the harness recorder",
    "Stop returning is observed with a 2 s window (a slower Stop makes the case inconclusive, never an alarm)",
]
RULE = ("random forests of 0..7 user actors (random parent links) × 0..3 grains × scripts of tells, grain sends, pre-stop kills "
        "and pills, handlers parked at gates (traffic in flight), unsynchronised bursts, then Stop, then a send to every "
        "actor and grain; non-trivial = a history containing the Stop markers; distinct by (case, canonical output)")


def rand_case(rng):
    n = rng.choice([0, 1, 2, 3, 3, 4, 5, 6, 7])
    parents = []
    for k in range(n):
        parents.append("-" if k == 0 or rng.random() < 0.25 else str(rng.randrange(k)))
    g = rng.choice([0, 1, 2, 3])
    ops, gated, killed = [], [], 0
    for _ in range(rng.randint(0, 7)):
        r = rng.random()
        if n and r < 0.30:
            ops.append(f"t{rng.randrange(n)}")
        elif g and r < 0.45:
            ops.append(f"m{rng.randrange(g)}")
        elif n and r < 0.55 and killed < 2:
            k = rng.randrange(n)
            ops.append(f"k{k}")
            killed += 1
            if rng.random() < 0.3 and not gated:
                ops.append(f"R{k}")
        elif g and r < 0.62:
            ops.append(f"d{rng.randrange(g)}")
        elif n and r < 0.80:
            k = rng.randrange(n)
            if k not in gated:
                gated.append(k)
                # one message parked in its handler, possibly a backlog queued behind it
                ops += [f"r{k}+", f"t{k}"] + [f"t{k}"] * rng.choice([0, 0, 1, 2, 3])
        elif r < 0.90:
            ops.append("burst")
    ops += ["stop", "after"] + [f"r{k}-" for k in gated]
    return f"sys t={','.join(parents)} g={g} | " + " ".join(ops)


def systematic():
    return [
        "sys t=- g=0 | stop after",
        "sys t= g=0 | stop",
        "sys t= g=2 | m0 m1 stop after",
        "sys t=-,0,0,1 g=2 | t0 t3 m0 stop after",
        "sys t=-,0,1,2,3 g=0 | t4 stop after",
        "sys t=-,-,-,0,1,2 g=1 | stop after",
        "sys t=-,0,0,1 g=1 | r3+ t3 stop after r3-",
        "sys t=-,0 g=1 | r0+ t0 stop after r0-",
        "sys t=-,0 g=0 | r1+ t1 t1 t1 stop after r1-",
        "sys t=- g=1 | r0+ t0 t0 t0 t0 stop after r0-",
        "sys t=-,-,1 g=2 | k1 d0 t0 t2 stop after",
        "sys t=-,0,1 g=2 | d1 m1 stop after",
        "sys t=-,0,1,2 g=3 | burst stop after",
        "sys t=-,0,0 g=1 | t1 k0 t1 stop after",
        "sys t=-,0 g=0 | k1 R1 t1 stop after",
        "sys t=-,- g=1 | k1 R1 t1 stop after",
        "sys t=-,0 g=0 | R1 t1 stop after",
    ]


def gen_cases(rng, tier):
    n = 90 if tier == "quick" else 2500
    return systematic() + [rand_case(rng) for _ in range(n)]


def search_cases(rng, tier):
    return systematic() + [rand_case(rng) for _ in range(300 if tier == "quick" else 3000)]


_gid = re.compile(r"@\d+")


def canon_impl(case, out):
    if out is None or "| LOG" not in out:
        return out
    ids = {}

    def ren(m):
        g = m.group(0)
        if g not in ids:
            ids[g] = f"@{len(ids)}"
        return ids[g]
    return _gid.sub(ren, out)


def _summary(case, impl):
    p = [x.strip() for x in impl.split("|")]
    if len(p) != 3:
        return None
    cfg = case.partition("|")[0].split()
    t = [c for c in cfg if c.startswith("t=")]
    n = len([x for x in t[0][2:].split(",") if x]) if t else 0
    g = [c for c in cfg if c.startswith("g=")]
    ng = int(g[0][2:]) if g else 0
    toks = p[1].split()[1:]
    after = False
    post, dea = {}, {}
    for tok in toks:
        who, _, rest = tok.partition(".")
        kind = rest.partition("@")[0]
        if who == "STOP" and kind == "b":
            after = True
        if after and kind == "postB":
            post[who] = post.get(who, 0) + 1
        if after and kind == "deaB":
            dea[who] = dea.get(who, 0) + 1
    return (p[0].split(),
            "POST " + " ".join(f"A{k}={post.get('A%d' % k, 0)}" for k in range(n)),
            "DEA " + " ".join(f"G{k}={dea.get('G%d' % k, 0)}" for k in range(ng)),
            p[2])


def compare(case, impl, model):
    if model == "*" or model is None:
        return None
    if impl.startswith("CRASH") or impl == "bad-case" or model == "bad-case":
        return None if impl == model else f"impl={impl!r} model={model!r}"
    a = _summary(case, impl)
    m = [x.strip() for x in model.split("|")]
    if a is None or len(m) != 5:
        return f"unparsable impl={impl[:200]!r} model={model!r}"
    ra, rb = a[0], m[0].split()
    if len(ra) != len(rb):
        return f"result count differs impl={ra} model={rb}"
    if "pending" in ra or "wait" in ra:
        return None  # one-sided window expired: inconclusive
    if ra != rb:
        return f"results differ impl={' '.join(ra)} model={' '.join(rb)}"
    racing = "burst" in case  # unsynchronised sends may (re)activate grains while Stop runs
    if a[1].strip() != m[1].strip() or (not racing and a[2].strip() != m[2].strip()):
        return f"torn-down set differs impl=[{a[1]} | {a[2]}] model=[{m[1]} | {m[2]}]"
    if a[3].replace("FIN", "").strip() != m[4].replace("FIN", "").strip():
        return f"stop outcome differs impl=[{a[3]}] model=[{m[4]}]"
    return None


def is_trivial(case, impl):
    return impl is None or "STOP.b" not in impl


def tag(case, impl):
    cfg, _, ops = case.partition("|")
    t = [c for c in cfg.split() if c.startswith("t=")]
    n = len([x for x in t[0][2:].split(",") if x]) if t else 0
    kinds = sorted({re.sub(r"\d+", "", o) for o in ops.split()})
    return f"n={n}:" + "".join(k[0] for k in kinds if k not in ("stop", "after"))


def oracle(case, impl, judge):
    if impl.startswith("CRASH"):
        return "harness crashed: " + impl
    if impl == "bad-case" or judge is None:
        return None
    return None if judge.startswith("ok") else judge


def classify(case, impl, why):
    """signature: every item of the verdict must be `in:A<k>` (a user actor's handler that began before
    Stop returned is still inside Receive: C06-F1 through the shutdown chain).  Grain items (`recv-after-dea:G<k>`, `new:G<k>`) were C17-F2,
    fixed by 6dc1e0c, and are violations again."""
    if not why or not why.startswith("bad "):
        return None
    found = []
    toks = why.split()[1:]
    for tok in toks:
        if re.fullmatch(r"in:A\d+", tok) or (re.fullmatch(r"new:A\d+x1", tok) and "burst" in case):
            # still inside Receive when Stop returned; or ONE Receive entered after it under unsynchronised
            # traffic (the worker had already picked the behaviour before reset() cleared it): both are
            # C06-F1 (clauses 4 / 3).  More than one late Receive per actor, or any late Receive in a
            # script without `burst`, is NOT covered.
            found.append("C17-F1")
        elif re.fullmatch(r"leak:G\d+", tok):
            found.append("C17-F3")
        else:
            return None
    return found[0] if found else None


def shrink(case):
    cfg, _, ops = case.partition("|")
    ops = ops.split()
    for i in range(len(ops)):
        if ops[i] in ("stop",):
            continue
        yield cfg.strip() + " | " + " ".join(ops[:i] + ops[i + 1:])

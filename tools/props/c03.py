"""C03 — messages from one sender are processed in the order they were sent (E3 oracle runs + E2 script differential + facts)."""
ID = "C03"
LEAN_MODULES = ["GoaktVerif.Props.C03"]
THEOREMS = [
    "GoaktVerif.C03.segmentSize_tie",
    "GoaktVerif.C03.deq_then_queue_eq_reserves",
    "GoaktVerif.C03.out_prefix",
    "GoaktVerif.C03.fifo",
    "GoaktVerif.C03.fifo_happens_before",
    "GoaktVerif.C03.oracle_sound",
    "GoaktVerif.C03.fair_per_sender_prefix",
    "GoaktVerif.C03.fair_oracle_sound",
    "GoaktVerif.C03.batchTell_eq",
    "GoaktVerif.C03.unstashAll_order",
    "GoaktVerif.C03.unstash_oldest",
    "GoaktVerif.C03.stash_roundtrip",
    "GoaktVerif.C03.C03_holds",
]
MANIFEST = {
    "level_text": "Kernel-checked theorems on the reservation-queue specification of the Vyukov-style mailboxes (cells pending|ready; reserve fixes the order; deq pops the head iff published), for ARBITRARY histories of reserve/publish/deq events (any number of producers, any interleaving): dequeued ++ queued = reservation order, so the dequeue sequence is a prefix of it and Enqueue(a) returning before Enqueue(b) is called implies a is dequeued before b (fifo_happens_before); the fair mailbox as a family of such queues with an arbitrary round-robin choice gives the same per sender; the per-sender oracle is sound for the spec; BatchTell = fold of Tell = append in order; Unstash takes the oldest, UnstashAll re-enqueues in stash order, a stash/UnstashAll round trip delivers the stashed messages in arrival order. Implementation side: the five real mailboxes run under controlled schedules (yieldinject; Workiva-backed BoundedMailbox at whole-operation granularity) with messages tagged (sender, seq), judged by the oracle on the consumer's dequeues + final drain, with segment/ring wrap-around forced (segmentSize regenerated from source); a gated single-sender script through a real actor system (Tell/BatchTell via api and PID, Stash/Unstash/UnstashAll) must equal the Lean model's handled order exactly; free-running goroutines Tell/BatchTell to one actor per mailbox type, judged one-sidedly; site lists of Enqueue/Dequeue and call lists of BatchTell/stash/unstash/unstashAll pinned.",
    "level_note": "Partial: the theorems are about the reservation-queue SPEC; that each mailbox algorithm refines it is C04's simulation (not re-proved here) — C03 ties the code by oracle-judged controlled schedules, not by a step-for-step model, so an order-breaking edit is caught when some explored schedule exhibits an inversion (or when the pinned atomic-site structure changes). Message LOSS is not an order violation and is left to C02/C04 (the segmented/fair defects C04-F3/F5/F7/F8 found there are fixed in /repo now); end-to-end timeouts are inconclusive, never an alarm. Trusted: yieldinject/vsched, Workiva ring buffer as a black box, sync.Pool behaviour.",
    "technique": "Lean 4 induction over event histories of a sequential specification + oracle-judged controlled-schedule runs of the real mailboxes (E3) + script differential through a real actor system (E2) + extracted call/site facts (E5)",
}
TRUSTED = [
    "each FIFO mailbox refines the reservation queue (that is property C04's simulation; here only sampled by the oracle under controlled schedules)",
    "tools/yieldinject + harness/vsched: one step = one atomic operation of the instrumented mailbox files; BoundedMailbox (Workiva ring buffer) only at whole-operation granularity and never driven into a blocking Put",
    "the recorder actor of the harness handles one message at a time (C01) — the handled order is the dequeue order",
]
RULE = ("mb: per mailbox 1-3 producers x 1-4 enqueues + one consumer, uniform/bursty schedules; segmented: write index pre-positioned within 3 of a "
        "multiple of segmentSize (1 boundary quick, up to 3 thorough); ring/bounded: capacities 2,4,8 with rotated positions, full results included; "
        "script: 1-14 tokens of Tell/BatchTell/S/U/u via api or PID on every mailbox; conc: 2-4 goroutines x 40-700 messages, styles api/pid/batch/mixed; "
        "non-trivial = not bad-case/timeout; distinct by (case, output)")
EXPLANATION = "conc cases that time out are inconclusive (message loss is C02/C04's subject, not an order violation)"
INPKG = ["actor/zz_verif_c03.go"]
INSTRUMENT = ["actor/unbounded_mailbox.go", "actor/unbounded_segmented_mailbox.go",
              "actor/non_blocking_bounded_mailbox.go", "actor/unbounded_fair_mailbox.go"]
# reserve / publish / head-advance structure the reservation-queue reading relies on
SITES = {
    "actor/unbounded_mailbox.go:UnboundedMailbox.Enqueue": ["Store:next", "Swap:tail", "Store:next"],
    "actor/unbounded_mailbox.go:UnboundedMailbox.Dequeue": ["Load:head", "Load:next", "Store:head", "Store:next"],
    "actor/unbounded_segmented_mailbox.go:UnboundedSegmentedMailbox.Enqueue":
        ["Load:tail", "Add:writeIdx", "Store:data", "Add:length", "Load:next", "CAS:tail", "CAS:next", "CAS:tail"],
    "actor/unbounded_segmented_mailbox.go:UnboundedSegmentedMailbox.Dequeue":
        ["Load:head", "Load:writeIdx", "Load:deqIdx", "Load:data", "Store:data", "Store:deqIdx", "Add:length", "Load:next", "Store:head"],
    "actor/non_blocking_bounded_mailbox.go:NonBlockingBoundedMailbox.Enqueue":
        ["Load:enqueuePos", "Load:seq", "Access:ctx", "Store:seq", "CAS:enqueuePos", "Load:enqueuePos"],
    "actor/non_blocking_bounded_mailbox.go:NonBlockingBoundedMailbox.Dequeue":
        ["Load:dequeuePos", "Load:seq", "Access:ctx", "Access:ctx", "Store:seq", "CAS:dequeuePos", "Load:dequeuePos"],
    "actor/unbounded_fair_mailbox.go:UnboundedFairMailbox.Enqueue": ["MapLoad:senders", "Add:length", "Add:pending", "CAS:active"],
    "actor/unbounded_fair_mailbox.go:UnboundedFairMailbox.Dequeue": ["Store:active", "CAS:active", "Load:length", "Load:pending", "Add:length", "Add:pending"],
    "actor/unbounded_fair_mailbox.go:UnboundedFairMailbox.finalizeSender": ["Store:pending", "Store:active", "Load:pending", "CAS:active"],
    "actor/unbounded_fair_mailbox.go:activeSenders.enqueue": ["Store:value", "Store:next", "Swap:tail", "Store:next"],
    "actor/unbounded_fair_mailbox.go:activeSenders.dequeue": ["Load:head", "Load:next", "Store:head", "Load:value", "Store:next", "Store:value"],
}
# sync.Map operations of the fair mailbox (the senders map decides which sub-queue a sender owns) are points too
# ... and so are the PLAIN accesses to a ring cell's payload (`cell.ctx`), which the seq stores are there to order
INSTRUMENT_ARGS = {"actor/unbounded_fair_mailbox.go": ["-syncmap"],
                   "actor/non_blocking_bounded_mailbox.go": ["-plain", "ctx"]}
FACTS = [
    {"file": "actor/pid.go", "suffixes": "pid.Tell", "expect": {"PID.BatchTell": ["pid.Tell"]}},
    {"file": "actor/stash.go", "suffixes": "pid.doReceive,box.Enqueue,box.Dequeue,box.IsEmpty",
     "expect": {"PID.stash": ["box.Enqueue"], "PID.unstash": ["box.Dequeue", "pid.doReceive"],
                "PID.unstashAll": ["box.IsEmpty", "box.Dequeue", "pid.doReceive"]}},
]
GO2LEAN = {"targets": [
    {"kind": "const", "file": "actor/unbounded_segmented_mailbox.go", "name": "segmentSize", "lean": "segmentSize"},
]}
ORACLE_NEEDS_JUDGE = False
SEG = 256
TIMEOUT = 600


def _sched(rng, nt, maxlen):
    k = rng.random()
    if k < 0.1:
        return []
    n = rng.randint(1, maxlen)
    if k < 0.55:
        return [rng.randrange(nt) for _ in range(n)]
    out = []
    while len(out) < n:
        out += [rng.randrange(nt)] * rng.randint(1, 7)
    return out[:n]


def mb_case(rng, kind, boundaries=1):
    cfg = "mb " + kind
    np = rng.randint(1, 3)
    per = [rng.randint(1, 4) for _ in range(np)]
    if kind == "segmented":
        # force the segment boundary: write index within 2 of k*segmentSize, a few undelivered messages left
        e = SEG * rng.randint(1, boundaries) + rng.randint(-3, 1)
        d = e - rng.randint(0, 4)
        if rng.random() < 0.25:
            e, d = rng.randint(0, 6), 0
            d = rng.randint(0, e)
        cfg += f" pre {e} {d}"
    elif kind in ("ring", "bounded"):
        cap = rng.choice([2, 4, 8])
        left = rng.randint(0, cap if kind == "ring" else cap - 1)
        e = cap * rng.randint(0, boundaries + 1) + rng.randint(-2, 2)
        e = max(e, left)
        cfg = f"mb {kind} {cap} pre {e} {e - left}"
    progs = [["e"] * k for k in per]
    progs.append(["d"] * rng.randint(1, sum(per) + 3))
    nt = len(progs)
    sched = _sched(rng, nt, 90)
    return cfg + " | " + " ; ".join(" ".join(p) for p in progs) + " | " + " ".join(map(str, sched))


def preempt_cases(kind, cap="", shapes=((1, 2), (1, 1), (2, 2), (1, 3))):
    """the consumer is parked j atomic steps into a Dequeue (every point of Dequeue / finalizeSender / the map
    operations in turn) while ONE sender completes a burst of whole Enqueues, then the consumer resumes and the
    sender goes on: `0*` = the sender finishes one Enqueue, `1` = one atomic step of the consumer"""
    out = []
    for a, b in shapes:
        for d0 in (0, 1):
            if d0 >= a + 1:
                continue
            for j in range(1, 27):
                sched = ["0*"] * a + ["1*"] * d0 + ["1"] * j + ["0*"] * b + ["1*"] + ["0*"] * 2
                progs = "e " * (a + b + 2) + "; " + "d " * (a + b + 4)
                out.append(f"mb {kind}{cap} | {progs.strip()} | " + " ".join(sched))
    return out


def ring_preempt_cases():
    """bounded ring: the sender first FILLS the ring (capacity 2 / 4), the consumer is parked at every point of its
    Dequeue (incl. the plain cell accesses), the sender pushes on into the slot being released"""
    out = []
    for c in (2, 4):
        out += preempt_cases("ring", f" {c}", shapes=((c, 1), (c, 2), (c - 1, 2)))
    return out


def pct_case(rng, kind, cap=""):
    np = rng.randint(1, 3)
    progs = [["e"] * rng.randint(2, 5) for _ in range(np)] + [["d"] * rng.randint(3, 12)]
    return (f"mb {kind}{cap} | " + " ; ".join(" ".join(p) for p in progs) +
            f" | pct {rng.randrange(1 << 30)} {rng.randint(1, 4)} {rng.randint(4, 40)}")


def script_case(rng, kind):
    cfg = "script " + kind + (" 512" if kind in ("ring", "bounded") else "")
    toks = ["via=" + rng.choice(["api", "pid"])]
    nid = 0
    for _ in range(rng.randint(1, 14)):
        r = rng.random()
        if r < 0.45:
            toks.append(f"t{nid}")
            nid += 1
        elif r < 0.7:
            k = rng.randint(1, 5)
            toks.append("b" + ",".join(str(nid + i) for i in range(k)))
            nid += k
        elif r < 0.82:
            toks.append("S")
        elif r < 0.93:
            toks.append("U")
        else:
            toks.append("u")
    return cfg + " | " + " ".join(toks)


def conc_case(rng, kind, tier):
    ns = rng.randint(2, 4)
    nm = rng.choice([40, 90, 130]) if tier == "quick" else rng.choice([90, 130, 300, 700])
    cap = ""
    if kind in ("ring", "bounded"):
        cap = " " + str(ns * nm + 64)
    style = rng.choice(["api", "pid", "batch", "mixed"])
    return f"conc {kind}{cap} {ns} {nm} {style}"


KINDS = ["unbounded", "segmented", "ring", "fair", "bounded"]


def gen_cases(rng, tier):
    cases = []
    n_mb, n_sc, n_co = (50, 8, 3) if tier == "quick" else (700, 60, 12)
    # consumer preempted at every point of its Dequeue while one sender bursts: exhaustive over the preemption
    # point for the fair mailbox (whose per-sender sub-queue bookkeeping lives in Dequeue/finalizeSender), sampled for the others
    pre = preempt_cases("fair")
    cases += pre if tier != "quick" else pre[:26 * 2] + rng.sample(pre[26 * 2:], 30)
    for kind, cap in (("unbounded", ""), ("segmented", ""), ("ring", " 8")):
        allp = preempt_cases(kind, cap)
        cases += rng.sample(allp, 12 if tier == "quick" else 80)
    rp = ring_preempt_cases()
    cases += rp if tier != "quick" else rng.sample(rp, 90)
    for kind in KINDS:
        for _ in range(8 if tier == "quick" else 120):
            cases.append(pct_case(rng, kind, " 8" if kind in ("ring", "bounded") else ""))
    for kind in KINDS:
        for _ in range(n_mb):
            cases.append(mb_case(rng, kind, 1 if tier == "quick" else 3))
        for _ in range(n_sc):
            cases.append(script_case(rng, kind))
        for _ in range(n_co):
            cases.append(conc_case(rng, kind, tier))
    return cases


def search_cases(rng, tier):
    cases = preempt_cases("fair") + ring_preempt_cases()
    for kind, cap in (("unbounded", ""), ("segmented", ""), ("ring", " 8")):
        cases += preempt_cases(kind, cap)
    for kind in KINDS:
        cases += [pct_case(rng, kind, " 8" if kind in ("ring", "bounded") else "") for _ in range(150)]
    for kind in KINDS:
        cases += [mb_case(rng, kind, 3) for _ in range(400)]
        cases += [script_case(rng, kind) for _ in range(40)]
        cases += [conc_case(rng, kind, "thorough") for _ in range(6)]
    return cases


def compare(case, impl, model):
    if model == "*":
        return None
    if impl.startswith("TIMEOUT"):
        return None
    return None if impl == model else f"impl={impl!r} model={model!r}"


def is_trivial(case, impl):
    return impl.startswith(("bad-case", "TIMEOUT", "CRASH", "HANG", "spawn-error", "tell-error")) or impl == ""


def tag(case, impl):
    f = case.split("|")[0].split()
    t = " ".join(f[:2])
    if f[0] == "mb" and impl:
        if "full" in impl:
            t += ":full"
        if "!blocked" in impl:
            t += ":blocked"
    if impl and impl.startswith("TIMEOUT"):
        t += ":timeout"
    return t


def _ordered(seq):
    last = {}
    for s, q in seq:
        if s in last and q <= last[s]:
            return False
        last[s] = q
    return True


def _msgs(words):
    out = []
    for w in words:
        p = w.split(".")
        if len(p) == 2 and p[0].isdigit() and p[1].isdigit():
            out.append((int(p[0]), int(p[1])))
    return out


def _script_spec(toks):
    """python mirror of Model.C03 (tell / batchTell / deliver)"""
    mb = []
    for t in toks:
        if t.startswith("via="):
            continue
        if t in ("S", "U", "u"):
            mb.append(t)
        elif t[0] == "t" and t[1:].isdigit():
            mb.append(int(t[1:]))
        elif t[0] == "b":
            try:
                mb += [int(x) for x in t[1:].split(",")]
            except ValueError:
                return None
        else:
            return None
    stash, stashing, handled = [], False, []
    fuel = (len(mb) + 1) ** 2 + 8
    while mb and fuel > 0:
        fuel -= 1
        x = mb.pop(0)
        if x == "S":
            stashing = True
        elif x == "U":
            mb += stash
            stash, stashing = [], False
        elif x == "u":
            if stash:
                mb.append(stash.pop(0))
            stashing = False
        elif stashing:
            stash.append(x)
        else:
            handled.append(x)
    return [str(h) for h in handled]


def oracle(case, impl, judge):
    if impl.startswith("CRASH") or impl.startswith("panic"):
        return "harness crashed: " + impl[:200]
    if impl == "HANG":
        return "a mailbox operation never returned (livelock)"
    if impl.startswith("HANG"):
        return None
    if judge is not None and not judge.startswith("ok"):
        return judge
    # python mirror of Spec.C03.perSenderOrdered (always evaluated; must agree with the Lean judge)
    head = case.split("|")[0].split()
    if head and head[0] == "mb":
        secs = impl.split(" | ")
        if len(secs) != 3:
            return None if impl == "bad-case" else "malformed output " + impl[:100]
        if secs[0].endswith(" cap") or "!stuck" in secs[0]:
            return "a thread did not finish: " + secs[0][-120:]
        seq = _msgs(r.strip() for th in secs[1][2:].split(";") for r in th.split(",")) + _msgs(secs[2][2:].split())
        if not _ordered(seq):
            return f"per-sender order violated: {seq}"
    elif head and head[0] == "conc":
        if impl.startswith("TIMEOUT") or impl == "bad-case":
            return None
        if impl.startswith(("spawn-error", "tell-error")):
            return "unexpected error: " + impl[:200]
        if not _ordered(_msgs(impl.split())):
            return "per-sender order violated under free-running goroutines"
    elif head and head[0] == "script":
        if impl.startswith(("spawn-error", "tell-error")):
            return "unexpected error: " + impl[:200]
        if impl.startswith(("TIMEOUT", "HANG")) or impl == "bad-case":
            return None
        want = _script_spec(case.split("|")[1].split())
        if want is not None and impl.split() != want:
            return "handled order differs from send order / stash order: want " + " ".join(want)
    return None


def classify(case, impl, why):
    return None


def shrink(case):
    parts = case.split("|")
    if len(parts) == 3:
        sched = parts[2].split()
        if not sched or sched[0] == "pct":
            return
        mk = lambda sc: parts[0] + "|" + parts[1] + "| " + " ".join(sc)
        yield mk([])
        yield mk(sched[:len(sched) // 2])
        yield mk(sched[len(sched) // 2:])
        yield mk(sched[:-1])
        yield mk(sched[1:])
    elif len(parts) == 2:
        toks = parts[1].split()
        for i in range(1, len(toks)):
            yield parts[0] + "| " + " ".join(toks[:i] + toks[i + 1:])

"""C30 — a grain is active on at most one node at a time (E3: controlled schedules over a fake cluster registry)."""
import os, re

ID = "C30"
LEAN_MODULES = ["GoaktVerif.Props.C30"]
THEOREMS = [
    "GoaktVerif.C30.inv_step",
    "GoaktVerif.C30.inv_reach",
    "GoaktVerif.C30.C30_refuted",
    "GoaktVerif.C30.C30_partial",
    "GoaktVerif.C30.C30_partial_needs_seq",
    "GoaktVerif.C30.C30_fixed",
]
INPKG = ["actor/zz_verif_c30.go", "internal/cluster/zz_verif_c30.go"]
INSTRUMENT = ["internal/cluster/cluster.go"]
_FUNCS = ["PutGrain", "GetGrain", "GrainExists", "RemoveGrain", "putGrainIfAbsent"]
INSTRUMENT_ARGS = {"internal/cluster/cluster.go": ["-funcs", ",".join("cluster." + f for f in _FUNCS)]}
SITES = {
    "internal/cluster/cluster.go:cluster.PutGrain": ["Load:running", "Lock:mu"],
    "internal/cluster/cluster.go:cluster.GetGrain": ["Load:running", "RLock:mu"],
    "internal/cluster/cluster.go:cluster.GrainExists": ["Load:running", "RLock:mu"],
    "internal/cluster/cluster.go:cluster.RemoveGrain": ["Load:running", "Lock:mu"],
    "internal/cluster/cluster.go:cluster.putGrainIfAbsent": ["Load:running", "Lock:mu"],
}
TIMEOUT = 900
MANIFEST = {
    "level_text": "Kernel-checked theorems over a small-step model of the grain activation protocol (one transition per registry operation / hook, any number of nodes, any programs of sends, failing activations, failing publications and deactivations, any schedule): the full property is REFUTED (C30_refuted: 3 nodes, lost claim whose winner vanishes, two active instances) and a second, independent refutation shows the deactivation race (C30_partial_needs_seq); C30_partial proves single activation and registry agreement for every schedule in which each node runs its grain operations sequentially and the lost-claim branch is not taken; C30_fixed proves the same for all schedules once tryClaimGrain retries. The model is tied to the code by replaying controlled schedules on the real ensureGrainProcess/deactivate and goakt's real cluster.go over a fake olric store (labels, results, registry log and final state must coincide).",
    "level_note": "Partial: olric's per-key atomicity (get/put/NX put/delete) is assumed (the fake store is a mutex-protected map); the per-identity single flight is taken as the singleflight library contract (one sender thread per node in every case; a source fact check pins runGrainActivation to singleflight.Group.Do); remote activation/forwarding (tryRemoteGrainActivation, sendToGrainOwner), relocation and node crashes are outside the model; registry operation failures are injected only at the publication step. ACTIVE means OnActivate returned nil and OnDeactivate has not been entered.",
    "technique": "Lean 4 inductive invariant over an interleaving small-step model + controlled-schedule differential replay of the real code (cooperative scheduler, registry operations as schedule points)",
}
TRUSTED = [
    "olric DMap operations are atomic per key (Get, Put, Put NX, Delete): the fake store used by the harness is a mutex-protected map",
    "golang.org/x/sync/singleflight: at most one execution of fn per key at a time on a node, followers receive the leader's result (each node has one sender thread in every case)",
    "tools/yieldinject + harness/vsched: the cooperative scheduler executes exactly one registry operation / hook per schedule entry",
    "remote activation, message forwarding to the owner, relocation and crashes are not modelled",
]
RULE = ("cases: 1-3 nodes, one sender thread per node with 1-4 ops from {s, sa, sp, d, t (time passes: leased registry records expire)}, optional deactivator threads, "
        "schedules made of random runs of thread ids (length 0-80) then deterministic completion; corpus holds the witness schedules; "
        "non-trivial = the harness produced a trace; distinct by (case, output)")
EXPLANATION = ("Every case is executed by the real goakt code under the cooperative scheduler and by the Lean model; traces (labels per step), "
               "per-operation results, registry operation log, hook history and final state must be equal.")

REPO = os.environ.get("VERIF_REPO", "/repo")

SRC_FACTS = {
    "fact singleflight-field": ("actor/actor_system.go", r"grainActivation\s+singleflight\.Group"),
    "fact singleflight-do": ("actor/grain_engine.go", r"func \(x \*actorSystem\) runGrainActivation\(id string, fn func\(\) \(\*grainPID, error\)\) \(\*grainPID, error\) \{(?s:.*?)x\.grainActivation\.Do\(id, func\(\) \(any, error\) \{\s*return fn\(\)"),
    "fact ensure-in-flight": ("actor/grain_engine.go", r"func \(x \*actorSystem\) ensureGrainProcess\((?s:.*?)return x\.runGrainActivation\(key, func\(\) \(\*grainPID, error\) \{"),
}

OPS = ["s", "s", "s", "s", "sa", "sp", "d", "d", "t"]


def _sched(rng, nt, maxlen):
    out = []
    n = rng.randint(0, maxlen)
    while len(out) < n:
        t = rng.randrange(nt)
        out += [t] * rng.choice([1, 1, 2, 3, 3, 5, 8, 9, 13])
    return out[:n]


def _case(rng, nn=None, deact=None):
    nn = nn or rng.choice([1, 2, 2, 3, 3, 3])
    nodes, progs = [], []
    for n in range(nn):
        if nn > 1 and rng.random() < 0.1:
            continue
        nodes.append(n)
        progs.append(" ".join(rng.choice(OPS) for _ in range(rng.randint(1, 4))))
    if not nodes:
        nodes.append(0)
        progs.append("s")
    if deact is None:
        deact = rng.random() < 0.35
    if deact:
        for _ in range(rng.randint(1, 2)):
            nodes.append(rng.choice(nodes))
            progs.append(" ".join("d" for _ in range(rng.randint(1, 2))))
    sched = _sched(rng, len(nodes), 80)
    return f"c30 {nn} " + " ".join(map(str, nodes)) + " | " + " ; ".join(progs) + " | " + " ".join(map(str, sched))


def gen_cases(rng, tier):
    n = 260 if tier == "quick" else 6000
    return list(SRC_FACTS) + [_case(rng) for _ in range(n)]


def search_cases(rng, tier):
    n = 1500 if tier == "quick" else 12000
    # sequential-node cases only: a failure there that is not the lost-claim family is new
    return [_case(rng, deact=False) for _ in range(n)] + [_case(rng) for _ in range(n // 3)]


def compare(case, impl, model):
    if case in SRC_FACTS:
        rel, pat = SRC_FACTS[case]
        try:
            src = open(os.path.join(REPO, rel)).read()
        except OSError as e:
            return f"cannot read {rel}: {e}"
        return None if re.search(pat, src) else f"source fact `{case}` no longer holds in {rel} (the model assumes the per-identity single flight)"
    return None if impl == model else f"impl={impl!r} model={model!r}"


def _digest(impl):
    if " | F " not in impl:
        return None
    d = {}
    for w in impl.split(" | F ", 1)[1].split():
        if "=" in w:
            k, v = w.split("=", 1)
            d[k] = v
    return d


def oracle(case, impl, judge):
    if case in SRC_FACTS:
        return None
    if impl.startswith("CRASH") or impl.startswith("panic"):
        return "harness crashed: " + impl[:200]
    if not impl.startswith("T "):
        return None
    if "!stuck" in impl or impl.endswith("unfinished"):
        return "a logical thread did not finish: " + impl[:200]
    if judge is not None:
        return None if judge.startswith("ok") else judge
    d = _digest(impl)
    if not d or "act" not in d:
        return "no digest"
    act = [int(x) for x in d["act"].split(",") if x != ""]
    if int(d.get("max", "0")) > 1 or sum(act) > 1:
        return f"bad two instances of the grain were active at once (max={d.get('max')} act={d['act']})"
    for n, a in enumerate(act):
        if a and d.get("R") != str(n):
            return f"bad the registry names {d.get('R')} but the active instance is elsewhere (act={d['act']})"
    return None


def _lost_claim(impl):
    """some node's refused NX put (X) is directly followed, among that node's operations, by a miss (G)"""
    d = _digest(impl)
    if not d:
        return False
    last = {}
    for e in d.get("log", "").split(","):
        m = re.fullmatch(r"(\d+)([a-zA-Z]!?)", e)
        if not m:
            continue
        n, k = m.group(1), m.group(2)
        if k == "G" and last.get(n) == "X":
            return True
        last[n] = k
    return False


def classify(case, impl, why):
    if not impl or not impl.startswith("T ") or not why or not why.startswith("bad "):
        return None
    if _lost_claim(impl):
        return "C30-F1"
    nodes = case.split("|")[0].split()[2:]
    if len(set(nodes)) < len(nodes):
        return "C30-F2"
    return None


def is_trivial(case, impl):
    return not (impl or "").startswith("T ")


def tag(case, impl):
    if case in SRC_FACTS:
        return "fact"
    f = case.split("|")[0].split()
    nodes = f[2:]
    return f"nodes={f[1]} threads={len(nodes)}" + (" same-node-threads" if len(set(nodes)) < len(nodes) else "")

"""C02 — accepted messages are processed exactly once; no lost wake-up (E3 controlled schedules
on the real doReceive / runTurn / finishOrReclaim / restartSubtree + dispatch state + mailbox)."""
ID = "C02"
LEAN_MODULES = ["GoaktVerif.Props.C02"]
THEOREMS = [
    "GoaktVerif.C02.exec_acct",
    "GoaktVerif.C02.C02_accounting",
    "GoaktVerif.C02.C02_no_duplicate",
    "GoaktVerif.C02.C02_live",
    "GoaktVerif.C02.exec_K",
    "GoaktVerif.C02.exec_J",
    "GoaktVerif.C02.step_wake",
    "GoaktVerif.C02.C02_no_lost_wakeup",
    "GoaktVerif.C02.C02_quiescent",
    "GoaktVerif.C02.C02_holds",
]
TRUSTED = [
    "scope of the model: local actors with the default (unbounded MPSC) mailbox, user messages only (the system mailbox stays empty), senders / dispatcher workers / restart threads; the grain dispatch path (two queues, pause, grain mailbox) is a second model (Model/C01G, theorems C01G_holds/C02G_holds) tied by its own controlled-schedule replay (EXTRA_CHECKS); grain deactivation, PoisonPill and reinstatement threads are not in either model",
    "the mailbox is modelled by its sequential spec, the reservation queue (C04 is the property that ties mailboxes to it); mailbox-internal atomic operations appear as stutter steps with the code's labels",
    "the ready queue is abstracted to a number of entries (C05 covers the queue itself); the harness plays the workers through a non-blocking take (own ring, global ring, steal)",
    "tools/yieldinject + harness/vsched: the cooperative scheduler changes timing only; sequentially consistent atomics (Go memory model); plain accesses are not modelled as racy",
]
RULE = ("cases = (workers, budget, thread programs of Tell / take-and-run-turn / Restart ops, schedule of thread ids); random uniform schedules and bursty few-preemption schedules, "
        "completed deterministically; every case is executed on the real actor (doReceive, runTurn, finishOrReclaim, restartSubtree, dispatch state, mailbox) under the cooperative scheduler and replayed on the Lean model; "
        "non-trivial = the run produced a trace; distinct by (case, output)")
MANIFEST = {
    "level_text": "Kernel-checked invariants over ALL schedules of any length, any number of senders, workers and restart threads: (accounting) the accepted messages are, as a multiset, exactly those handled, dropped while the actor was stopped, held by a worker, or still in the mailbox — so nothing is handled twice, invented or lost, and without a restart nothing is dropped; (no lost wake-up, as absence of stuck states) whenever the mailbox is non-empty there is a ready-queue entry for a free worker or a thread still responsible for the actor (token holder, turn owner, sender before its TrySchedule outcome, worker in its reclaim check); at quiescence a non-empty mailbox always has a ready-queue entry. Eventual scheduling under a fair scheduler is not stated temporally. The model is tied to the real code step by step: tools/yieldinject instruments the current dispatch_state.go / unbounded_mailbox.go / restartSubtree, the harness drives a real actor through the generated schedules with the harness playing the dispatcher workers, and the Lean model must reproduce every label, result and the final digest; the per-function site sequences are checked as facts.",
    "level_note": "Model scope: local actors, default mailbox (as its reservation-queue spec), user messages, restart thread; grain dispatch path modelled and proved separately (C01G, run with this check); grain deactivation / reinstate threads not modelled. Trusted: Lean kernel (+propext, Quot.sound), yieldinject + cooperative scheduler (sequentially consistent atomics), ready queue abstracted to an entry count. The old defect (restart storing Idle) is kept as a model-level witness theorem and a corpus schedule.",
    "technique": "Lean 4 inductive invariant over a small-step model of the CAS machine, replayed in lockstep against the instrumented real code under controlled schedules",
}
INPKG = ["actor/zz_verif_mbox.go", "actor/zz_verif_c01.go"]
HARNESS = "c01"
INSTRUMENT = ["actor/dispatch_state.go", "actor/unbounded_mailbox.go", "actor/dispatcher.go", "actor/worker.go", "actor/pid.go"]
INSTRUMENT_ARGS = {
    "actor/dispatcher.go": ["-funcs", "none", "-entry", "dispatcher.schedule"],
    "actor/worker.go": ["-funcs", "none", "-entry", "worker.reschedule"],
    "actor/pid.go": ["-funcs", "restartSubtree"],
}
SITES = {
    "actor/dispatch_state.go:dispatchState.Load": ["Load:v"],
    "actor/dispatch_state.go:dispatchState.TrySchedule": ["Load:v", "CAS:v"],
    "actor/dispatch_state.go:dispatchState.TakeForProcessing": ["CAS:v"],
    "actor/dispatch_state.go:dispatchState.YieldToScheduled": ["Store:v"],
    "actor/dispatch_state.go:dispatchState.reset": ["Store:v"],
    "actor/unbounded_mailbox.go:UnboundedMailbox.Enqueue": ["Store:next", "Swap:tail", "Store:next"],
    "actor/unbounded_mailbox.go:UnboundedMailbox.Dequeue": ["Load:head", "Load:next", "Store:head", "Store:next"],
    "actor/unbounded_mailbox.go:UnboundedMailbox.IsEmpty": ["Load:head", "Load:next"],
    "actor/dispatcher.go:dispatcher.schedule": ["Call:schedule"],
    "actor/worker.go:worker.reschedule": ["Call:reschedule"],
    "actor/pid.go:restartSubtree": ["Load:restartCount", "Store:restartCount"],
}
TIMEOUT = 900

# ordered calls the model assumes (actor and grain variants of the same CAS protocol); re-extracted on every run
FACTS = [
    {"file": "actor/pid.go",
     "suffixes": "schedState.*,mailbox.Enqueue,systemMailbox.Enqueue,mailbox.IsEmpty,systemMailbox.IsEmpty,mailbox.Dequeue,systemMailbox.Dequeue,dispatcher.schedule,w.reschedule",
     "expect": {
         "PID.doReceive": ["systemMailbox.Enqueue", "mailbox.Enqueue", "schedState.TrySchedule", "dispatcher.schedule"],
         "PID.runTurn": ["schedState.TakeForProcessing", "systemMailbox.Dequeue", "mailbox.Dequeue", "schedState.YieldToScheduled", "w.reschedule"],
         "PID.finishOrReclaim": ["schedState.reset", "mailbox.IsEmpty", "systemMailbox.IsEmpty", "schedState.TrySchedule", "schedState.TakeForProcessing"],
         "restartSubtree": ["schedState.Load"],
     }},
    {"file": "actor/grain_pid.go",
     "suffixes": "schedState.*,mailbox.Enqueue,queue.Enqueue,mailbox.IsEmpty,mailbox.Dequeue,responses.IsEmpty,responses.Dequeue,dispatcher.schedule,w.reschedule,pid.hasPendingWork,pid.dequeueResponse",
     "expect": {
         "grainPID.receive": ["mailbox.Enqueue", "schedState.TrySchedule", "dispatcher.schedule"],
         "grainPID.enqueueEnvelope": ["queue.Enqueue", "schedState.TrySchedule", "dispatcher.schedule"],
         "grainPID.deliverTimerTick": ["mailbox.Enqueue", "schedState.TrySchedule", "dispatcher.schedule"],
         "grainPID.enqueuePassivationPill": ["mailbox.Enqueue", "schedState.TrySchedule", "dispatcher.schedule"],
         "grainPID.runTurn": ["schedState.TakeForProcessing", "pid.dequeueResponse", "mailbox.Dequeue", "schedState.YieldToScheduled", "w.reschedule"],
         "grainPID.finishOrReclaim": ["schedState.reset", "pid.hasPendingWork", "schedState.TrySchedule", "schedState.TakeForProcessing"],
         "grainPID.hasPendingWork": ["responses.IsEmpty", "mailbox.IsEmpty"],
     }},
]


def one_case(rng, restart_p=0.15, maxsched=110):
    nw = rng.randint(1, 3)
    budget = rng.randint(1, 3)
    progs = []
    mid = 1
    if rng.random() < restart_p:
        ops = ["r"]
        for _ in range(rng.randint(0, 2)):
            ops.append(f"t{mid}")
            mid += 1
        progs.append(ops)
    for _ in range(rng.randint(1, 3)):
        ops = []
        for _ in range(rng.randint(1, 3)):
            ops.append(f"t{mid}")
            mid += 1
        progs.append(ops)
    for w in range(nw):
        progs.append([f"w{w}"] * rng.randint(1, 4))
    rng.shuffle(progs)
    nt = len(progs)
    style = rng.random()
    if style < 0.5:
        sched = [rng.randrange(nt) for _ in range(rng.randint(0, maxsched))]
    else:
        # bursty: long runs of one thread, few preemptions (PCT-like)
        sched = []
        for _ in range(rng.randint(1, 8)):
            sched += [rng.randrange(nt)] * rng.randint(1, 16)
    return f"{nw} {budget} | " + " ; ".join(" ".join(p) for p in progs) + " | " + " ".join(map(str, sched))


def gen_cases(rng, tier):
    n = 70 if tier == "quick" else 2500
    return [one_case(rng) for _ in range(n)] + directed_cases(rng, 8 if tier == "quick" else 400) + template_cases()


def search_cases(rng, tier):
    """wider random schedules, plus PCT schedules (`pct seed depth k`: the Go harness schedules online by random priorities with depth-1
    priority change points over macro steps that end before dispatch-state / ready-queue / mailbox linearisation
    points) on small configurations built for reclaim and wake-up races. They are only understood by the Go harness: these cases are judged by the oracle, never replayed
    on the model."""
    cases = [one_case(rng, restart_p=0.6, maxsched=140) for _ in range(600)]
    for i in range(6000):
        nw = 2
        budget = rng.choice([1, 2, 3])
        ns = rng.randint(2, 3)
        progs = [[f"t{j+1}"] for j in range(ns)] + [["w0"] * 3, ["w1"] * 3]
        if rng.random() < 0.2:
            progs.insert(0, ["r"])
        rng.shuffle(progs)
        depth = rng.choice([2, 3, 3, 3, 4])
        k = rng.choice([12, 18, 25, 35])
        cases.append(f"{nw} {budget} | " + " ; ".join(" ".join(p) for p in progs) + f" | pct {rng.randrange(1 << 30)} {depth} {k}")
    return cases


def compare(case, impl, model):
    if model == "*":
        return None
    return None if impl == model else f"impl={impl[:300]!r} model={model[:300]!r}"


FIFO_KINDS = ("unbounded", "segmented", "fair", "ring", "bounded")


def mailbox_oracle(case, impl):
    """python oracle for the oracle-only cases (cfg = `nw budget mailbox`): O <= 1, nothing pending, every accepted
    message handled exactly once, nothing else handled, FIFO per sender for FIFO mailboxes."""
    import re
    m = re.search(r" \| R (.*) \| F H=(\S*) O=(\d+) E=\d+ S=\d+ P=(\w+)", impl)
    if not m:
        return None
    results, handled, o, pending = m.group(1), m.group(2), int(m.group(3)), m.group(4)
    if o > 1:
        return f"bad C01: {o} handler invocations in progress at once"
    if pending != "false":
        return "bad C02: a published message is still pending after every worker went idle (lost wake-up)"
    progs = [p.split() for p in case.split("|")[1].split(";")]
    res = [r.split(",") if r else [] for r in results.split(";")]
    if any(p and p[0] == "r" for p in progs):
        return None
    acc = []
    per = []
    for p, r in zip(progs, res):
        mine = []
        for op, rr in zip(p, r):
            if op.startswith("t") and "-" in op:
                a, b = map(int, op[1:].split("-"))
                n = int(rr[2:]) if rr.startswith("ok") else 0
                if n != b - a + 1:
                    return None  # bounded mailbox rejected some: which ones is not reported; skip exact accounting
                mine += list(range(a, b + 1))
            elif op.startswith("t") and "-" not in op and rr == "ok":
                mine.append(int(op[1:]))
        per.append(mine)
        acc += mine
    h = [int(x) for x in handled.split(",") if x and x != "ps"]
    if len(set(h)) != len(h):
        return "bad C02: a message was handled twice"
    if set(acc) - set(h):
        return f"bad C02: accepted messages never handled: {sorted(set(acc) - set(h))[:5]}"
    if set(h) - set(acc):
        return "bad C02: a message was handled that was not accepted"
    kind = case.split("|")[0].split()[2]
    if kind.startswith(FIFO_KINDS):
        pos = {x: i for i, x in enumerate(h)}
        for mine in per:
            if any(pos[a] > pos[b] for a, b in zip(mine, mine[1:])):
                return "bad C03: one sender's messages were handled out of order"
    return None


def directed_cases(rng, n):
    """boundary-crossing schedules on the other mailbox kinds (oracle-only): a first sender fills the mailbox up to
    a boundary m, a worker drains it in one turn and parks right before its reset (having seen Dequeue = nil),
    a second sender tells one more message, then everything completes. Macro steps end before dispatch-state
    operations, so the mailbox needs no instrumentation here."""
    cases = []
    kinds = [("segmented", [255, 256, 257, 512]), ("fair", [1, 2]), ("ring8", [1, 6]), ("unbounded", [1, 2]),
             ("uprio", [1, 3]), ("usprio", [1, 3]), ("bounded8", [1, 6])]
    # capacities always exceed the number of messages: a full bounded mailbox dead-letters the message although
    # Tell returns nil (that is C18's subject, not a loss)

    def mk(kind, m, delta, a, b, c, d):
        budget = m + 50
        # the third sender is optional: a later Tell would rescue (and so mask) a lost wake-up
        progs = [f"t1-{m}", f"p t{m+1}", (f"p t{m+2}" if c > 0 else "p"), "w0 w0 w0", "w1 w1 w1"]
        # thread ids: 0 first sender, 1 second, 2 third, 3 worker0, 4 worker1
        sched = ["0*"] * (3 * m + 8)          # the first sender completes all its Tells (<= 3 macro steps each)
        sched += ["3*"] * (2 + m + delta)     # take, CAS, then one macro step per handled message
        sched += ["1*"] * a + ["3*"] * b + ["2*"] * c + ["4*"] * d
        return f"2 {budget} {kind} | " + " ; ".join(progs) + " | " + " ".join(sched)

    # systematic core: for every kind and boundary, park the worker just before / at / after its reset
    for kind, ms in kinds:
        for m in ms:
            for delta in (-1, 0, 1):
                cases.append(mk(kind, m, delta, 6, 2, 0, 4))
            cases.append(mk(kind, m, 0, 6, 2, 6, 4))
    for _ in range(n):
        kind, ms = rng.choice(kinds)
        cases.append(mk(kind, rng.choice(ms), rng.choice([-1, 0, 0, 1]), rng.choice([0, 2, 6]), rng.choice([0, 1, 2]),
                        rng.choice([0, 3, 6]), rng.choice([0, 2, 4])))
    return cases


def template_cases():
    """systematic release/reclaim race template (oracle-only, macro steps): worker 1 is stopped at every point q of
    its turn (take, CAS, handler, nil dequeue, reset, emptiness check, TrySchedule, re-take, yield), optionally a
    sender B completes there, worker 1 advances r more points, a sender C completes, worker 2 runs up to its
    handler, worker 1 continues, a last sender D completes; everything then runs to completion. The oracle looks
    for overlapping handlers, lost wake-ups, lost or duplicated messages."""
    cases = []
    for budget in (1, 3):
        for q in range(0, 8):
            for use_b in (0, 1):
                for r in range(0, 4):
                    for s_ in (1, 3):
                        progs = ["t1", "p t2" if use_b else "p", "p t3", "w0 w0 w0", "w1 w1 w1", "p t4"]
                        sched = ["0*"] * 4 + ["3*"] * q + (["1*"] * 4 if use_b else []) + ["3*"] * r + ["2*"] * 4 \
                            + ["4*"] * 3 + ["3*"] * s_ + ["5*"] * 4
                        cases.append(f"2 {budget} unbounded | " + " ; ".join(progs) + " | " + " ".join(sched))
    return cases


def is_trivial(case, impl):
    return not impl.startswith("T ")


def tag(case, impl):
    return ("restart" if " r" in case.split("|")[1] or case.split("|")[1].strip().startswith("r") else "plain")


def oracle(case, impl, judge):
    if impl.startswith("CRASH"):
        return "harness crashed: " + impl
    if "!stuck" in impl:
        return "a logical thread blocked outside the instrumented points: " + impl[-200:]
    if impl.endswith("unfinished"):
        return None  # step cap reached (e.g. a restart waiting for an actor nobody drains): inconclusive, compared with the model only
    if len(case.split("|")[0].split()) == 3:
        return mailbox_oracle(case, impl)
    if judge is not None:
        return None if judge.startswith("ok") else judge
    import re
    m = re.search(r" O=(\d+) ", impl)
    if m and int(m.group(1)) > 1:
        return f"bad C01: {m.group(1)} handler invocations in progress at once"
    if " P=true" in impl:
        return "bad C02: lost wake-up"
    return None


def classify(case, impl, why):
    return None


# the GRAIN variant (grain turn loop, responses queue + user mailbox, pause) is checked by a companion script with
# its own model, theorems (Props/C01G.lean), harness and lockstep replay; tools/check.py folds its result in
EXTRA_CHECKS = ["tools/extra/c01g.py"]

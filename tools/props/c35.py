"""C35 — relocation handoff masking respects caller deadlines (E5 constants + E1 on the real
loop with real timers, one-sided comparison)."""
ID = "C35"
LEAN_MODULES = ["GoaktVerif.Props.C35"]
THEOREMS = [
    "GoaktVerif.C35.cfg_is_source",
    "GoaktVerif.C35.cfgGen_ok",
    "GoaktVerif.C35.sync_returns",
    "GoaktVerif.C35.sync_waits_within_timeout",
    "GoaktVerif.C35.sync_waits_within_windows",
    "GoaktVerif.C35.sync_return_time",
    "GoaktVerif.C35.sync_returns_within_timeout",
    "GoaktVerif.C35.sync_delivery_deadline",
    "GoaktVerif.C35.sync_outcome",
    "GoaktVerif.C35.async_never_waits",
    "GoaktVerif.C35.C35_holds",
]
GO2LEAN = {"targets": [
    {"kind": "const", "file": "actor/relocation_handoff.go", "name": "relocationHandoffWindow", "lean": "handoffWindow"},
    {"kind": "const", "file": "actor/relocation_handoff.go", "name": "relocationHandoffMinBackoff", "lean": "minBackoff"},
    {"kind": "const", "file": "actor/relocation_handoff.go", "name": "relocationHandoffMaxBackoff", "lean": "maxBackoff"},
    {"kind": "const", "file": "actor/relocation_handoff.go", "name": "relocationNotFoundMaskWindow", "lean": "notFoundMaskWindow"},
]}
INPKG = ["actor/zz_verif_c35.go"]
TIMEOUT = 900
MANIFEST = {
    "level_text": "Kernel-checked theorems about a Lean model of the handoff retry loop (deliverAcrossHandoff + sleepWithinHandoff) on an abstract clock, for ALL caller timeouts, all (unbounded) resolution scripts, all resolution costs and start times: the call returns (sync_returns, a potential argument: the loop cannot iterate more than (window+notFoundWindow)/minBackoff+4 times), every wait ends by the caller's deadline and the total waiting is at most the timeout (sync_waits_within_timeout), waiting on a pinned endpoint is at most min(timeout, relocationHandoffWindow) and on failed resolutions at most relocationNotFoundMaskWindow (sync_waits_within_windows), the call returns at the end of its last wait plus the cost of the following resolution, hence within the timeout when resolutions are instantaneous (sync_return_time, sync_returns_within_timeout), the final delivery carries the caller's deadline (sync_delivery_deadline), the error surfaced is the retryable one that stalled it (sync_outcome), and deliverBypassingHandoff resolves once, never waits and returns ErrRelocationInProgress iff the clustered target is on a relocating endpoint (async_never_waits). The four constants are regenerated from actor/relocation_handoff.go on every run and cfg_is_source/cfgGen_ok re-check them; the loop is tied by a differential run of the real code (real timers, scripted actor system, also through PID.SendSync/SendAsync) compared one-sidedly.",
    "level_note": "partial: timers and scheduling are outside the model. The theorems bound the time on an abstract clock; the real call returns later than the bound by however late its timers fire / its goroutine is scheduled. The differential therefore checks only jitter-proof facts: the number of resolutions never exceeds the model's, the result is the one the last resolution dictates, each resolution comes no earlier than the model's cumulative wait, the delivery deadline brackets start+timeout, no resolution follows one that already returned past the caller's deadline, the async path resolves exactly once. An edit that only lengthens a wait inside the window (e.g. dropping the clamp to the remaining time) is not detectable this way. SendSync/SendAsync are driven only with scripts that never reach a live target (their Ask/Tell delivery is outside this property).",
    "technique": "Lean 4 proof (induction over the retry loop on an abstract clock) with the loop's constants regenerated from the Go source, plus a one-sided differential run of the real loop with real timers against a scripted actor system",
}
TRUSTED = [
    "the hand-written model Model/C35 of the retry loop (abstract clock; a context is either done from the start or never)",
    "tools/go2lean translation of the four duration constants",
    "Go timers never fire early and time.Until uses the monotonic clock (basis of the one-sided comparison)",
    "the scripted stand-in for ActorSystem (only ActorOf, InCluster, isEndpointRelocating, relocationInFlight, recordRelocationHandoff are implemented)",
]
RULE = ("batches of concurrent scripted sends: caller timeouts 0..5000 ms around the backoff boundaries (50/150/350/650 ms), "
        "resolution scripts over pinned / live / not-found (in flight or not) / terminal, cancelled contexts, clustered or not, "
        "sync, async and the SendSync/SendAsync entry points; one case = one batch of 16 (quick) or 24 (thorough) sends; "
        "non-trivial = the batch ran; distinct by (case, output)")

MS = 1000000


def expected_out(clustered, c):
    if c == "P":
        return "relocating" if clustered else "delivered"
    if c in "Ll":
        return "delivered"
    if c in "Nn":
        return "err:addrnotfound"
    if c == "A":
        return "err:actornotfound"
    return "failed:terminal"


def letter_at(script, i):
    return script[i] if i < len(script) else script[-1]


# ---------------------------------------------------------------------------
# generators: a case line is a batch of sub-cases that the harness runs concurrently
# ---------------------------------------------------------------------------

def rand_script(rng, final=None):
    n = rng.randint(0, 6)
    body = "".join(rng.choice("PPPNNA") for _ in range(n))
    if rng.random() < 0.3:
        body = "".join(sorted(body, key=lambda c: c != "P"))     # pinned first, then not-found (the relocation gap)
    return body + (final or rng.choice("PPNNLlLlTnA"))


def short_sub(rng):
    r = rng.random()
    if r < 0.62:
        ms = rng.choice([1, 20, 30, 49, 50, 51, 80, 100, 120, 149, 150, 151, 200, 250, 310, 349, 350, 351, 400, 480, 520, 610, 650, 700])
        return f"sync {ms} {1 if rng.random() < 0.08 else 0} {rand_script(rng)}"
    if r < 0.70:
        # no caller bound, but the script ends within the not-found window or at once
        return f"sync 0 0 {rand_script(rng, final=rng.choice('NLlTnA')).replace('P', 'N')}"
    if r < 0.76:
        return f"sync0 {rand_script(rng)}"
    if r < 0.86:
        return f"async {rng.randint(0, 1)} {rand_script(rng)}"
    if r < 0.94:
        ms = rng.choice([30, 80, 120, 200, 310, 400])
        return f"sendsync {ms} {''.join(rng.choice('PPN') for _ in range(rng.randint(1, 5)))}{rng.choice('PNT')}"
    c = rng.choice("PNT")
    return f"sendasync {1 if c == 'P' else rng.randint(0, 1)} {c}"   # never reaches Tell


def long_sub(rng):
    r = rng.random()
    if r < 0.4:
        return "sync 0 0 " + "P" * rng.randint(1, 3) + rng.choice(["", "N", "NNL", "L"])
    if r < 0.7:
        return f"sync {rng.choice([1500, 2900, 3100, 3400, 5000])} 0 " + rng.choice(["P", "PPPPPPPPPN", "PPPPPPPPPPPPL", "PN"])
    return f"sendsync {rng.choice([0, 3200])} P"


def batches(rng, n_short, n_long, width):
    lines = []
    for i in range(n_short + n_long):
        subs = [short_sub(rng) for _ in range(width)]
        if i < n_long:
            subs[rng.randrange(width)] = long_sub(rng)
            subs[rng.randrange(width)] = long_sub(rng)
        if i == 0:
            subs[0] = "consts"
        lines.append(" ; ".join(subs))
    return lines


def gen_cases(rng, tier):
    if tier == "quick":
        return batches(rng, 9, 1, 16)
    return batches(rng, 60, 8, 24)


def search_cases(rng, tier):
    return batches(rng, 14, 2, 24)


# ---------------------------------------------------------------------------
# comparison (one-sided: real timers only ever fire late)
# ---------------------------------------------------------------------------

def kv(s):
    d = {}
    for w in s.split():
        if "=" in w:
            k, v = w.split("=", 1)
            d[k] = v
    return d


def ints(s):
    return [int(x) for x in s.split(",") if x != ""]


def cmp_one(sub, impl, model):
    f = sub.split()
    if not f:
        return None
    if impl == model:
        return None
    if f[0] == "consts" or impl == "bad-case" or model == "bad-case":
        return f"{sub}: impl={impl!r} model={model!r}"
    if impl.startswith("panic") or impl.startswith("CRASH"):
        return f"{sub}: harness failed: {impl}"
    a, m = kv(impl), kv(model)
    try:
        il, ml = int(a["lookups"]), int(m["lookups"])
        if a["rec"] != m["rec"]:
            return f"{sub}: handoff recorded {a['rec']} times, model {m['rec']}"
        if f[0] in ("sync0", "async", "sendasync"):
            if il != ml or a["out"] != m["out"]:
                return f"{sub}: impl lookups={il} out={a['out']}, model lookups={ml} out={m['out']}"
            return None
        script = f[-1]
        ms = int(f[1]) * MS
        if il > ml:
            return f"{sub}: {il} resolutions, the model allows at most {ml}"
        if il == ml:
            if a["out"] != m["out"]:
                return f"{sub}: out={a['out']} model={m['out']}"
        else:
            c = letter_at(script, il - 1)
            if c not in "PNA" or a["out"] != expected_out(True, c):
                return f"{sub}: stopped after {il} resolutions with out={a['out']}"
        # lower bounds on resolution times: resolution i happens no earlier than the waits before it
        lk, tin = ints(a["lk"]), int(a["tin"])
        cum = 0
        for i, s in enumerate(ints(m["sleeps"])):
            cum += s
            if i + 1 < il and lk[i + 1] - tin < cum:
                return f"{sub}: resolution {i + 1} came {lk[i + 1] - tin} ns after the call, the model waits {cum} ns before it"
        if a["out"] == "delivered":
            if m["dl"] == "none":
                if a["dl"] != "none":
                    return f"{sub}: delivery context has a deadline, the model has none"
            else:
                if a["dl"] == "none":
                    return f"{sub}: delivery context has no deadline, model {m['dl']}"
                dl, thi = int(a["dl"]), int(a["thi"])
                if dl - tin < int(m["dl"]) or dl - thi > int(m["dl"]):
                    return f"{sub}: delivery deadline {dl} outside [{tin}+{m['dl']}, {thi}+{m['dl']}]"
    except (KeyError, ValueError, IndexError) as e:
        return f"{sub}: unparsable ({e}): impl={impl!r} model={model!r}"
    return None


def split_subs(s):
    return [" ".join(x.split()) for x in s.split(";")]


def compare(case, impl, model):
    subs, outs, mods = split_subs(case), split_subs(impl), split_subs(model)
    if impl.startswith("CRASH"):
        return "diff: harness crashed: " + impl
    if not (len(subs) == len(outs) == len(mods)):
        return f"diff: batch sizes differ: {len(subs)} sub-cases, {len(outs)} results, {len(mods)} model results"
    for s, o, m in zip(subs, outs, mods):
        d = cmp_one(s, o, m)
        if d:
            return "diff: " + d
    return None


# ---------------------------------------------------------------------------
# oracle (python mirror of Spec.C35.syncVerdict / singleVerdict)
# ---------------------------------------------------------------------------

def verdict_one(sub, out):
    f = sub.split()
    if not f or out == "bad-case":
        return None
    if f[0] == "consts":
        return None
    if out.startswith("panic") or out.startswith("CRASH"):
        return "harness failed: " + out
    try:
        a = kv(out)
        il = int(a["lookups"])
        script = f[-1]
        if f[0] in ("sync0", "async", "sendasync"):
            clustered = f[0] != "sync0" and f[1] == "1"
            if il != 1:
                return f"resolved-{il}-times"
            if a["out"] != expected_out(clustered, letter_at(script, 0)):
                return "wrong-result " + a["out"]
            return None
        ms = int(f[1]) * MS
        lk = ints(a["lk"])
        if il == 0 or len(lk) != il:
            return "no-resolution-observed"
        if a["out"] != expected_out(True, letter_at(script, il - 1)):
            return "wrong-result " + a["out"]
        thi = int(a["thi"])
        if ms > 0 and any(t >= thi + ms for t in lk[:-1]):
            return "resolution-attempted-after-the-caller-deadline"
        if ms > 0 and a["out"] == "delivered" and (a["dl"] == "none" or int(a["dl"]) > thi + ms):
            return "delivery-not-bounded-by-the-caller-deadline"
    except (KeyError, ValueError, IndexError) as e:
        return f"unparsable ({e})"
    return None


def oracle(case, impl, judge):
    if impl.startswith("CRASH"):
        return "harness crashed: " + impl
    if judge is not None:
        return None if judge.startswith("ok") else judge[4:] if judge.startswith("bad ") else judge
    subs, outs = split_subs(case), split_subs(impl)
    if len(subs) != len(outs):
        return "wrong-number-of-results"
    for i, (s, o) in enumerate(zip(subs, outs)):
        w = verdict_one(s, o)
        if w:
            return f"sub={i} {w}"
    return None


def classify(case, impl, why):
    if why and why.startswith("diff: "):
        return "DIFF"      # not a property failure (keeps the shrinker on real failures)
    return None


def is_trivial(case, impl):
    return impl in ("", "bad-case") or impl.startswith("CRASH")


def canon_impl(case, out):
    return out


def tag(case, impl):
    n = sum(1 for s in split_subs(impl) if "rec=1" in s)
    return f"batch:masked{min(n, 20) // 5 * 5}+"


def shrink(case):
    subs = split_subs(case)
    if len(subs) > 1:
        for s in subs:
            yield s

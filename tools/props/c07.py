"""C07 — failures are handled by exactly the configured supervision directive (E4-style differential on a
real actor system + kernel-checked refinement of the property text by the model)."""
import itertools

ID = "C07"
LEAN_MODULES = ["GoaktVerif.Props.C07"]
THEOREMS = [
    "GoaktVerif.C07.lookup_eq_spec",
    "GoaktVerif.C07.cf_eq_specCount",
    "GoaktVerif.C07.step_refines_code",
    "GoaktVerif.C07.run_refines_code",
    "GoaktVerif.C07.C07_refuted",
    "GoaktVerif.C07.C07_partial",
    "GoaktVerif.C07.C07_escalate_goes_to_parent",
    "GoaktVerif.C07.C07_sibling_restart_count_bumped",
    "GoaktVerif.C07.C07_retried_restart_keeps_parent",
    "GoaktVerif.C07.notify_refines",
    "GoaktVerif.C07.recordFault_cf",
]
INPKG = ["actor/zz_verif_c07.go"]
ORACLE_NEEDS_JUDGE = True
TIMEOUT = 900
MANIFEST = {
    "level_text": "Kernel-checked refinement: for EVERY supervisor option list (strategy, per-type directives, any-error, retry budget/window, backoff), every family size and every script of failures (6 error kinds), pings, reinstatements and aged fault stamps, each step of the model of notifyParent/handlePanicking/handleStop-/handleRestartDirective/recordFault/suspendGroup/restartSubtree produces exactly the outcome the property text prescribes (run_refines_code, step_refines_code), with the configured directive proved equal to the text's lookup (lookup_eq_spec: any-error sole rule, else last rule for the type, else constructor default, else suspend) and the fault counter proved equal to the count of consecutive faults within the window over the fault history (cf_eq_specCount). The text is FALSE of the current code in one clause, proved with a witness replayed on the real code: Escalate delivers the PanicSignal to the parent's own Receive, not the grandparent (C07-F1): C07_refuted, C07_partial (text holds on every step whose configured directive is not Escalate). A second deviation found by this check (restart count of a sibling restarted while running reset to 1) was repaired in /repo by fix 6e40710; the model and the full restart clause now hold (C07_sibling_restart_count_bumped). The model is tied to the code by a differential run on a real actor system (same scripts, equal observations incl. events stream), and the theorem's oracle judgeRun is evaluated on the implementation's observations.",
    "level_note": "Model scope: one parent with <= 4 leaf children sharing one option list, grandparent as recorder; PreStart failures inside a restart are modelled and tied (op F, init's 5 tries, the restart retrier, the final shutdown) but lie outside the refinement theorems (validOps excludes F; finding C07-F3, found there, was repaired by fix 07658af and is now the regression theorem C07_retried_restart_keeps_parent); the public PID.Restart on a child (op R) is modelled, tied and judged by the restart clause, also outside validOps; PostStop never fails; no faults arriving during a restart; remote actors, passivation and backoff sleep lengths not modelled. Trusted: harness quiescence detection (conditions, not sleeps); windows restricted to <=0, 1ns, 1h so wall-clock never decides (expiry forced by an in-package `age` accessor); a death-watch/re-add race of the code outside C07 is pinned to its usual order by the test actor's PreStart; go2lean not used (recordFault has an if-with-init and atomics), the tie is the differential.",
    "technique": "Lean 4 refinement proof (model of the supervision path vs. the property text as an oracle over observations, for all option lists and all op sequences) + differential run of a real actor system against the model",
}
TRUSTED = [
    "the harness' quiescence detection (conditions: dispatch state idle, a barrier actor through the FIFO supervision queue, no goroutine born during the op left in goakt code)",
    "time: reset windows are either non-positive, 1ns (always elapsed) or one hour (never elapsed within a run; elapsed only after the harness ages the stamp); the model's clock is logical",
]
RULE = ("families of 1-3 children under one parent and a grandparent; option lists over strategy x directive rules for 4 error types x 5 directive values "
        "(incl. one outside the enum) x any-error x retry budgets {0,1,2} x windows {-1,0,1ns,1h} x backoff; scripts of <= 6 ops "
        "(fail with 6 error kinds, public Restart, ping, reinstate, age) biased to failures; non-trivial = at least one failure was acted on; distinct by (case, output)")

KINDS = "ABPN"
FKINDS = "ABPQND"


def gen_opts(rng):
    opts = []
    if rng.random() < 0.55:
        opts.append("st:" + rng.choice("1A"))
    nd = rng.choice([0, 1, 1, 2, 2, 3])
    for _ in range(nd):
        opts.append(f"d:{rng.choice(KINDS)}:{rng.choice([0, 1, 2, 2, 2, 3, 7])}")
    if rng.random() < 0.25:
        opts.append(f"any:{rng.choice([0, 1, 2, 2, 3])}")
    if rng.random() < 0.6:
        opts.append(f"r:{rng.choice([0, 1, 1, 2])}:{rng.choice(['-1', '0', '1', 'H', 'H', 'H'])}")
    if rng.random() < 0.2:
        i = rng.choice([0, 1, 1, 2, -1])
        m = rng.choice([0, 1, 2, 3])
        opts.append(f"b:{i}:{m}:H")
    rng.shuffle(opts)
    if rng.random() < 0.15:
        # a late option overriding an earlier one
        opts.append(rng.choice([f"d:{rng.choice(KINDS)}:{rng.choice([0, 1, 2, 3])}", "st:" + rng.choice("1A")]))
    return opts


def configured(opts):
    ks = [o.split(":")[1] for o in opts if o.startswith("d:")]
    return ks


def gen_ops(rng, n, opts, maxlen):
    ks = configured(opts)
    ops = []
    for _ in range(rng.randint(1, maxlen)):
        r = rng.random()
        i = rng.randrange(n)
        if r < 0.6:
            pool = FKINDS
            if ks and rng.random() < 0.6:
                pool = ks
            k = rng.choice(pool)
            ops.append(f"f{i}{k}")
        elif r < 0.66:
            ops.append(f"R{i}")
        elif r < 0.78:
            ops.append(f"p{i}")
        elif r < 0.9:
            ops.append(f"r{i}")
        else:
            ops.append(f"a{i}")
    return ops


def gen_case(rng, maxlen=6):
    n = rng.choice([1, 2, 2, 2, 3])
    opts = gen_opts(rng)
    return f"n={n} " + " ".join(opts) + " | " + " ".join(gen_ops(rng, n, opts, maxlen))


def gen_fcase(rng):
    """scripted PreStart failures during a restart (op F<i><k>): only with retry delays that are short —
    the retrier sleeps WithRetry's timeout between attempts, and 1ns makes the retry library panic"""
    n = rng.choice([1, 2, 2, 3])
    opts = ["st:" + rng.choice("1A"), "d:A:2"]
    if rng.random() < 0.6:
        opts.append(f"r:{rng.choice([1, 2, 3])}:{rng.choice(['2', '2', '0', '-1'])}")
    rng.shuffle(opts)
    ops = []
    for _ in range(rng.randint(2, 6)):
        r = rng.random()
        i = rng.randrange(n)
        if r < 0.45:
            ops.append(f"f{i}A")
        elif r < 0.75:
            ops.append(f"F{i}{rng.choice([1, 3, 5, 5, 6, 9])}")
        elif r < 0.9:
            ops.append(f"p{i}")
        else:
            ops.append(f"r{i}")
    ops.append(f"f{rng.randrange(n)}A")
    return f"n={n} " + " ".join(opts) + " | " + " ".join(ops)


def exhaustive_small():
    """bounded-exhaustive part: 2 children, one rule for kind A, both strategies, budgets and windows,
    every failure sequence of length <= 3 over 2 children (plus a ping)"""
    cases = []
    for st, d, (mx, t) in itertools.product("1A", [0, 1, 2, 3], [(0, "-1"), (1, "H"), (2, "H"), (1, "0"), (1, "1")]):
        if d != 2 and (mx, t) != (0, "-1"):
            continue
        for ln in (1, 2, 3):
            for seq in itertools.product([0, 1], repeat=ln):
                ops = " ".join(f"f{i}A" for i in seq)
                cases.append(f"n=2 st:{st} d:A:{d} r:{mx}:{t} | {ops} p0 p1")
    return cases


def gen_cases(rng, tier):
    if tier == "quick":
        ex = exhaustive_small()
        cases = rng.sample(ex, 40)
        cases += [gen_case(rng) for _ in range(95)]
        cases += [gen_fcase(rng) for _ in range(20)]
        return cases
    cases = exhaustive_small()
    cases += [gen_case(rng, 7) for _ in range(2700)]
    cases += [gen_fcase(rng) for _ in range(400)]
    return cases


def search_cases(rng, tier):
    return exhaustive_small() + [gen_case(rng, 7) for _ in range(1400)] + [gen_fcase(rng) for _ in range(200)]


def compare(case, impl, model):
    return None if impl == model else f"impl={impl!r} model={model!r}"


def is_trivial(case, impl):
    if not impl or impl.startswith(("bad-case", "CRASH", "panic", "spawn-error")):
        return True
    # non-trivial: some failure was acted on (an event was published or a signal delivered)
    return all(s.endswith("|-") and "|P0:-|G0:-|" in s for s in impl.split(" ; "))


def tag(case, impl):
    cfg = case.split("|")[0]
    st = "all" if "st:A" in cfg else "one"
    if " F" in case.split("|")[1]:
        return "prestart-failures"
    bud = "budget" if any(o.startswith("r:") and not o.startswith("r:0") and o.endswith((":H", ":1")) for o in cfg.split()) else "nobudget"
    return f"{st}/{bud}"


def oracle(case, impl, judge):
    if impl.startswith("CRASH") or impl.startswith("panic") or impl.startswith("spawn-error"):
        return "harness failed: " + impl[:200]
    if judge is None:
        return None
    return None if judge.startswith("ok") else judge


def classify(case, impl, why):
    if not why:
        return None
    if why.startswith("bad C07-F1 "):
        return "C07-F1"
    return None


def shrink(case):
    cfg, ops = case.split("|")
    ops = ops.split()
    cfgt = cfg.split()
    for k in range(len(ops)):
        if len(ops) > 1:
            yield cfg.strip() + " | " + " ".join(ops[:k] + ops[k + 1:])
    for k in range(1, len(cfgt)):
        yield " ".join(cfgt[:k] + cfgt[k + 1:]) + " | " + " ".join(ops)


"""C24 — connection compression is transparent (wrapper proved over an abstract codec; real codecs sampled)."""
ID = "C24"
LEVEL = "other"
EXPLANATION = ("Weakly applicable property: its substance is three third-party codecs (compress/gzip, klauspost/zstd, "
               "andybalholm/brotli) that cannot be modelled. What is machine-checked is a CONDITIONAL theorem about goakt's own "
               "code, the connection wrapper (Write = codec write + Flush, pooled codec objects reset by Wrap, arbitrary write "
               "segmentation, arbitrary read sizes at arbitrary points): for every streaming codec satisfying StreamLaw and "
               "ResetLaw the bytes read equal the bytes written, in order (C24_transparent), with two concrete codecs satisfying "
               "the laws (identity; a buffering block codec for which the wrapper's Flush is shown to be essential). That gzip, "
               "zstd and brotli satisfy the laws is NOT proved: the differential SAMPLES it on the real wrappers over loop-back "
               "TCP connections (random and repetitive data, write sizes 0..1 MiB, read sizes 1..1 MiB, streaming and "
               "flush-dependent ping-pong schedules, both directions, pooled-object reuse across successive connections of one "
               "wrapper). Hence level `other`: conditional proof + differential test, not a proof of the property.")
LEAN_MODULES = ["GoaktVerif.Props.C24"]
THEOREMS = ["GoaktVerif.C24." + t for t in [
    "stateAfter_append", "wireOf_append", "inv_step", "inv_run", "C24_transparent",
    "idCodec_laws", "blockCodec_laws", "noflush_starves",
]]
TIMEOUT = 1800
MANIFEST = {
    "level_text": "OTHER (conditional proof + sampling). Kernel-checked: for EVERY streaming codec satisfying StreamLaw (decoding the "
                  "concatenation of the flushed blocks yields the concatenation of the writes) and ResetLaw, a connection wrapped the "
                  "way internal/net/compress*.go wraps it delivers, under any schedule of writes and reads, exactly a prefix of the "
                  "bytes written, in order, and everything once read to the end (C24_transparent); the laws hold for the identity "
                  "codec and for a buffering block codec (idCodec_laws, blockCodec_laws), for which a wrapper without Flush delivers "
                  "nothing (noflush_starves). The codec laws for gzip/zstd/brotli are sampled, not proved.",
    "level_note": "The truth of the property lives in compress/gzip, klauspost/compress/zstd and andybalholm/brotli; they are "
                  "parameters of the model. Tie: the real wrappers around loop-back TCP connections, compared with the executable "
                  "wrapper model over the identity codec (length + order-sensitive checksum of what the reader received) and judged "
                  "against the bytes written; includes flush-dependent ping-pong schedules and pooled-object reuse over several "
                  "connections per wrapper. Hang detection is by a 120 s guard only (shortened once a hang has been seen).",
    "technique": "Lean 4 conditional theorem over an abstract streaming codec + differential sampling of the real codecs",
}
TRUSTED = [
    "compress/gzip, klauspost/compress/zstd, andybalholm/brotli: StreamLaw and ResetLaw are hypotheses (sampled by the differential)",
    "sync.Pool hands back objects in an arbitrary earlier state (modelled as an arbitrary encoder state that Wrap resets)",
]
RULE = ("per case one wrapper (none/gzip/zstd/brotli) and 1-4 successive connections, each with one or two directions; write sizes "
        "from {0,1,small,4 KiB,64 KiB,1 MiB}, read sizes from {1,7,4096,65536,1 MiB}, random or repetitive data, streaming or "
        "ping-pong; non-trivial = at least one byte transferred; distinct by (case, output)")

CODECS = ["none", "gzip", "zstd", "brotli"]


def gen_dir(rng, big):
    kind = rng.choice("rrz")
    seed = rng.randrange(1, 10**6)
    nseg = rng.randint(0, 6)
    budget = rng.choice([64, 4096, 70000] + ([1 << 20] if big else []))
    wsizes = []
    for _ in range(nseg):
        s = rng.choice([0, 1, 2, 13, 100, 1000, 4096, 4097, 65536, 70000, 1 << 20])
        s = min(s, budget)
        wsizes.append(s)
        budget -= s
        if budget <= 0:
            break
    total = sum(wsizes)
    nr = rng.randint(1, 3)
    pool = [1, 2, 7, 64, 4096, 65536, 1 << 20]
    lo = 0 if total <= 3000 else 3 if total <= 20000 else 4 if total <= 200000 else 5
    rs = [rng.choice(pool[lo:]) for _ in range(nr)]
    mode = rng.choice("sp")
    return "%s%d:%s:%s:%s" % (kind, seed, ",".join(map(str, wsizes)) or "-", ",".join(map(str, rs)), mode)


def gen_case(rng, big=False):
    codec = rng.choice(CODECS)
    conns = []
    for _ in range(rng.randint(1, 4)):
        c = gen_dir(rng, big)
        if rng.random() < 0.5:
            c += "/" + gen_dir(rng, big)
        conns.append(c)
    return codec + " " + " ".join(conns)


def gen_cases(rng, tier):
    cases = []
    for codec in CODECS:
        cases.append(codec + " r1:10,20,0,5:7,1:p/z2:100:3:s r3:1000:999:s r4:1:1:p z5:-:1:s")
        cases.append(codec + " z7:70000,70000:65536:p r8:65536:4096,1:s")
        # writes whose length is an exact multiple of 64 KiB / of the codecs' block sizes, each awaited before the next
        cases.append(codec + " r9:65536,131072,32768,1:65536:p z10:262144:65536:p/r11:65536:4096:p")
    for _ in range(60 if tier == "quick" else 1200):
        cases.append(gen_case(rng, big=False))
    for _ in range(2 if tier == "quick" else 40):
        cases.append(gen_case(rng, big=True))
    return cases


def search_cases(rng, tier):
    return gen_cases(rng, tier) + [gen_case(rng) for _ in range(200)]


def compare(case, impl, model):
    if model is None or model == "*":
        return None
    return None if impl == model else f"impl={impl!r} model={model!r}"


def is_trivial(case, impl):
    return impl is None or "n=" not in impl or all(t.startswith("n=0") for t in impl.replace(" / ", " ; ").split(" ; "))


def tag(case, impl):
    f = case.split()
    return f[0] + (":p" if ":p" in case else "") + (":bi" if "/" in case else "") + (":%dconn" % (len(f) - 1))


def oracle(case, impl, judge):
    if impl is None:
        return None
    if impl.startswith("CRASH") or impl.startswith("panic"):
        return "harness crashed: " + impl
    if judge is not None:
        return None if judge.startswith("ok") else judge
    for t in impl.replace(" / ", " ; ").split(" ; "):
        if not t.startswith("n="):
            return "bad transfer: " + t
    return None


def classify(case, impl, why):
    return None


def shrink(case):
    f = case.split()
    for i in range(1, len(f)):
        if len(f) > 2:
            yield " ".join(f[:i] + f[i + 1:])
    for i in range(1, len(f)):
        if "/" in f[i]:
            for d in f[i].split("/"):
                yield " ".join(f[:i] + [d] + f[i + 1:])

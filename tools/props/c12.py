"""C12 — passivation only removes actors that are truly idle (E2 on a virtual clock + theorems)."""
import re

ID = "C12"
LEAN_MODULES = ["GoaktVerif.Props.C12"]
THEOREMS = [
    "GoaktVerif.C12.touchInterval_tie",
    "GoaktVerif.C12.log_sound",
    "GoaktVerif.C12.log_good",
    "GoaktVerif.C12.invO_reachable",
    "GoaktVerif.C12.cinv_reachable",
    "GoaktVerif.C12.C12_guards",
    "GoaktVerif.C12.C12_decision_after_deadline",
    "GoaktVerif.C12.C12_count_threshold",
    "GoaktVerif.C12.witnessOverflow_quiet",
    "GoaktVerif.C12.finv_reachable",
    "GoaktVerif.C12.decision_fresh",
    "GoaktVerif.C12.C12_time_decision",
    "GoaktVerif.C12.C12_count",
    "GoaktVerif.C12.C12_poststop_accounting",
    "GoaktVerif.C12.no_dead_stops",
    "GoaktVerif.C12.C12_once",
    "GoaktVerif.C12.C12_stopped",
    "GoaktVerif.C12.C12_partial",
    "GoaktVerif.C12.witnessStopInWindow_postStops",
    "GoaktVerif.C12.witnessRace_event",
    "GoaktVerif.C12.C12_refuted",
    "GoaktVerif.C12.C12_time_refuted",
]
GO2LEAN = {"targets": [
    {"kind": "const", "file": "actor/pid.go", "name": "passivationTouchInterval", "lean": "passivationTouchInterval"},
]}
INPKG = ["actor/zz_verif_c12.go"]
TIMEOUT = 900
MANIFEST = {
    "level_text": "Kernel-checked theorems over an executable model of passivationManager (incl. Go's container/heap and the entry.index bookkeeping), the PID side (markActivity coalescing, tryPassivation guards in the code's order, pause/resume/suspend/reinstate/Shutdown) and the manager's unlock window, for ALL operation sequences and clock values: every timer-path attempt happens at or after the entry's deadline AND — when it concerns the actor's current, unpaused, time-based entry — at now >= lastActivity + T - 100ms (C12_time_decision, from the invariant finv_reachable: heap array and entry.index in sync through container/heap, paused entries off the heap, lastTouch <= latest <= now, every on-heap deadline >= lastTouch + T and > latest + T - touchInterval, through Register/Pause/Resume/Touch and the coalescing CAS), a successful tryPassivation saw none of long-lived / system-stopping / skip-next / stopping / suspended / paused, the message-count trigger is raised only at or above baseline+N for every MaxMessages (C12_count_threshold; true since fix 5123092 — the int64 sum used to overflow, found with this check) and every count-path attempt goes back to such a crossing of the same entry object (log_sound, C12_guards, C12_decision_after_deadline, C12_count_threshold, C12_count); PostStop runs at most once per actor in EVERY run (C12_once: no stop ever reaches a stopped actor, no_dead_stops + invO_reachable — true since fix 6f92e10, which this check found); a passivated actor is not running and its PostStop ran (C12_stopped); all combined in C12_partial. The full statement is still REFUTED by the literal time clause (C12_refuted / C12_time_refuted: a message handled inside the manager's unlock window, finding C12-F2, witness replayed on the real code); three defects found by this check were fixed in /repo (6f92e10 PostStop twice, 8134435 duplicate heap entry / manager panic, 5123092 count-threshold overflow) and the model follows the fixed code. The model is tied to /repo by a differential run of the real passivationManager and real actors of a real actor system against the model's step function (every op's result and the complete manager/PID state after every op), and the 100ms constant is regenerated from actor/pid.go.",
    "level_note": "Partial: the literal time clause is false of the current code (finding C12-F2, check-then-act between manager and actor). Timing is a virtual clock: the real manager reads time.Now, the harness shifts all stored timestamps instead (no claim about timer lateness, goroutine scheduling of run(), or the select between timer and message triggers beyond 'any order of tick/drain ops'). The unlock window is modelled by whole operations of other goroutines completing inside it; finer interleavings inside tryPassivation/Shutdown (stopLocker) and the markActivity CAS under concurrent callers are not modelled. Restart/re-spawn of a stopped actor is not modelled. Grain passivation (grainPID) is out of scope.",
    "technique": "Lean 4 proof (inductive invariants over all op sequences) on a hand-written model tied by a model/implementation differential on a virtual clock",
}
TRUSTED = [
    "the virtual clock of the C12 harness: every stored timestamp (entry deadlines, latestReceiveTimeNano, lastPassivationTouch) is shifted so that virtual now = time.Now() at the start of each op; values derived from the code's own time.Now() during an op are snapped back to that instant; a comparison real elapsed time could have flipped ends the comparison of that case (never an alarm)",
    "the harness drives the manager by hand (nextEntry+trigger = one timer iteration of run(), processMessageEntry = one trigger iteration) and calls the PID functions handleReceived calls (markActivity, recordProcessedMessage) directly",
    "tools/go2lean `const` extraction of passivationTouchInterval",
]
RULE = ("1-3 actors with time / count / long-lived strategies (6% with a failing PostStop); 5-45 ops from: clock advances (ms-exact boundaries "
        "around the timeout and the 100ms coalescing interval for single-actor cases, a 100ms grid with distinct residues per actor otherwise), "
        "activity, processed-count, pause/resume/suspend/reinstate/stop, manager ticks and drains, 35% of cases with operations inside the manager's "
        "unlock windows, 30% with raw manager calls / direct tryPassivation / system-stopping; non-trivial = at least one successful passivation; "
        "distinct by (case, output)")

PID_OPS = ["act", "rec", "pause", "resume", "susp", "reinst", "stop"]
RAW_OPS = ["mreg", "munreg", "mpause", "mresume", "mtouch", "mproc", "try"]


def _strategies(rng, n, fine):
    out = []
    for i in range(n):
        r = rng.random()
        if r < 0.62:
            if fine:
                t = rng.choice([1, 50, 99, 100, 101, 150, 200, 250, 1000, rng.randint(1, 3000)])
            else:
                t = 100 * rng.randint(1, 30) + 33 * i
            s = f"T{t}"
        elif r < 0.92:
            s = f"C{rng.choice([-1, 0, 1, 1, 2, 2, 3, 4])}"
        else:
            s = "L"
        if rng.random() < 0.06:
            s += "e"
        out.append(s)
    return out


def _case(rng, tier, raw=None, windows=None):
    n = rng.choice([1, 1, 2, 2, 3])
    fine = n == 1
    strats = _strategies(rng, n, fine)
    raw = rng.random() < 0.3 if raw is None else raw
    windows = rng.random() < 0.35 if windows is None else windows
    ts = [int(s[1:].rstrip("e")) for s in strats if s[0] == "T"] or [500]
    has_count = any(s[0] == "C" for s in strats)
    ops = []
    if rng.random() < 0.7:   # what PostStart does right after spawn
        for i in range(n):
            ops += [f"act {i}", f"rec {i}"]
    k = rng.randint(4, 28 if tier == "quick" else 45)

    def adv():
        t = rng.choice(ts)
        if fine:
            c = [1, 49, 50, 99, 100, 101, t, max(t - 100, 1), max(t - 99, 1), max(t - 101, 1), t + 1, max(t - 1, 1), 2 * t, rng.randint(1, 2 * t + 5)]
        else:
            c = [100, 100, 200, 300, 500, 1000, 100 * (t // 100), 100 * (t // 100) + 100, 100 * (t // 100) - 100 or 100, 3000]
        return f"adv {rng.choice(c)}"

    def simple(pool):
        op = rng.choice(pool)
        return f"{op} {rng.randrange(n)}"

    pid_pool = ["act"] * 6 + ["rec"] * (5 if has_count else 2) + ["pause", "resume", "pause", "resume", "susp", "reinst", "stop"]
    win_pool = ["act", "act", "rec", "pause", "resume", "susp", "reinst", "stop", "stop"]
    for _ in range(k):
        r = rng.random()
        if r < 0.2:
            ops.append(adv())
        elif r < 0.42:
            kind = "drain" if (has_count and rng.random() < 0.5) else "tick"
            if windows and rng.random() < 0.5:
                for _ in range(rng.randint(1, 2)):
                    ops.append(("w< " if rng.random() < 0.65 else "w> ") + simple(win_pool))
            ops.append(kind)
        elif raw and r < 0.55:
            rr = rng.random()
            if rr < 0.06:
                ops.append(f"sysstop {rng.choice([0, 1])}")
            elif rr < 0.12:
                ops.append(f"flagstop {rng.randrange(n)} {rng.choice([0, 1])}")
            else:
                ops.append(simple(RAW_OPS))
        else:
            ops.append(simple(pid_pool))
    ops.append(adv())
    ops.append("tick")
    if has_count:
        ops.append("drain")
    return "sys " + " ".join(strats) + " | " + " ; ".join(ops)


def gen_cases(rng, tier):
    n = 420 if tier == "quick" else 9000
    cases = ["const"]
    # directed: the coalescing boundary, exact deadlines, count thresholds
    for t in (150, 1000):
        for d in (99, 100, 101):
            cases.append(f"sys T{t} | act 0 ; adv {d} ; act 0 ; adv {t - d} ; tick ; adv {d - 1 if d > 1 else 1} ; tick ; adv 1 ; tick ; adv 200 ; tick")
    for big in (2**63 - 1, 2**63 - 2, 2**62):   # int64 overflow of baseline + maxMessages
        cases.append(f"sys C{big} | act 0 ; rec 0 ; drain ; rec 0 ; rec 0 ; drain ; resume 0 ; rec 0 ; drain")
    for nmsg in (-1, 0, 1, 2, 3):
        cases.append(f"sys C{nmsg} | act 0 ; rec 0 ; drain ; rec 0 ; drain ; rec 0 ; drain ; rec 0 ; drain ; rec 0 ; drain")
    for _ in range(n):
        cases.append(_case(rng, tier))
    return cases


def search_cases(rng, tier):
    cases = []
    # systematic small scripts around every guard and window
    for st in ("T200", "T1000", "C1", "C2", "L"):
        for pre in ([], ["act 0"], ["stop 0"], ["pause 0"], ["susp 0"], ["pause 0", "resume 0"], ["susp 0", "reinst 0"]):
            for mid in ([], ["pause 0"], ["susp 0"], ["susp 0", "reinst 0"], ["stop 0"], ["pause 0", "resume 0"], ["act 0"]):
                ops = ["act 0", "rec 0", "adv 100", "act 0", "rec 0", "rec 0"] + mid + ["adv 150", "tick", "drain", "adv 900"]
                ops += [f"w< {p}" for p in pre] + ["tick"] + [f"w< {p}" for p in pre] + ["drain", "adv 1000", "tick", "drain", "try 0"]
                cases.append(f"sys {st} | " + " ; ".join(ops))
    for _ in range(3000 if tier == "quick" else 12000):
        cases.append(_case(rng, "thorough"))
    return cases


def _items(out):
    return [x.strip() for x in out.split(" ; ")]


def compare(case, impl, model):
    if impl is None or model is None:
        return None
    if impl.startswith("CRASH"):
        return "harness crashed: " + impl
    a, b = _items(impl), _items(model)
    for i, x in enumerate(a):
        if x == "?":           # real elapsed time made the rest of this run incomparable
            return None
        if i >= len(b):
            return f"impl has more items than the model (item {i}: {x!r})"
        if x != b[i]:
            return f"item {i}: impl={x!r} model={b[i]!r}"
    if len(b) != len(a):
        return f"model has more items than impl ({len(b)} vs {len(a)})"
    return None


def is_trivial(case, impl):
    return impl in ("", "?", "bad-case") or impl.startswith("CRASH") or "=1]" not in impl and "1#" not in impl and case != "const"


def tag(case, impl):
    if case == "const":
        return "const"
    n = len(case.split("|")[0].split()) - 1
    t = f"n{n}"
    if "w<" in case or "w>" in case:
        t += ":win"
    if re.search(r"\b(mreg|munreg|mpause|mresume|mtouch|mproc|try|sysstop|flagstop)\b", case):
        t += ":raw"
    if impl and "=1]" in impl:
        t += ":pass"
    if impl and ("?" in _items(impl)):
        t += ":ambiguous"
    if impl and (impl.endswith("hang") or impl.endswith("panic")):
        t += ":" + impl.rsplit(" ", 1)[-1]
    return t


# ---- python mirror of the judge (used only when the Lean driver is unavailable) -------------

_ACT = re.compile(r"a(\d+):r(\d)p(\d+)f(\d)(\d)(\d)(\d)c(-?\d+)l(-|\d+)u(-|\d+)")


def _obs(item):
    if "#" not in item:
        return None
    d = item.split("#", 1)[1]
    acts = {}
    for m in _ACT.finditer(d.split("E[")[0]):
        acts[int(m.group(1))] = dict(running=m.group(2) == "1", post=int(m.group(3)), paused=m.group(4) == "1", susp=m.group(5) == "1",
                                     stopping=m.group(7) == "1", processed=int(m.group(8)), latest=None if m.group(9) == "-" else int(m.group(9)))
    base = {}
    em = re.search(r"E\[(.*?)\] Q\[", d)
    if em:
        for w in em.group(1).split():
            i, body = w.split("=", 1)
            f = body.split(",")
            if len(f) == 5:
                base[int(i)] = int(f[2][1:])
    return acts, base


def _mirror(case, impl):
    if case == "const":
        return None if impl == "touch=100000000" else "the coalescing slack is not the documented 100ms"
    if impl in ("?", "bad-case"):
        return None
    hd, ops = case.split("|", 1)
    strats = hd.split()[1:]
    ops = [o.strip() for o in ops.split(";") if o.strip()]
    items = _items(impl)
    now, pre, minbase = 0, [], {}
    for k, op in enumerate(ops):
        if k + 1 >= len(items):
            break
        cur = items[k + 1]
        if cur == "panic":
            return "the passivation manager panicked (in production: an unrecovered panic of its goroutine)"
        if cur in ("?", "hang"):
            break
        po, co = _obs(items[k]), _obs(cur)
        if po is None or co is None:
            return "unparsable state"
        if any(a["post"] > 1 for a in co[0].values()):
            return "PostStop ran more than once for one actor"
        for a_, b_ in po[1].items():     # smallest baseline any registration recorded so far
            minbase[a_] = min(minbase.get(a_, b_), b_)
        f = op.split()
        passes = []
        if f[0] in ("tick", "drain"):
            for e in cur.split("#")[0].strip("[]").split(","):
                if e.endswith("=1"):
                    passes.append((int(e.split("=")[0]), f[0] == "drain", False))
        elif f[0] == "try" and cur.startswith("1#"):
            passes.append((int(f[1]), False, True))
        for a, via_count, direct in passes:
            st = strats[a].rstrip("e")
            p, n = po[0].get(a), co[0].get(a)
            if p is None or n is None:
                return "unparsable state"
            if st == "L":
                return "a long-lived actor was passivated"
            acted = any(x in (f"act {a}", f"reinst {a}") for x in pre)
            if st[0] == "T" and not via_count and not direct and p["running"]:
                latest = now if acted else p["latest"]
                if latest is not None and not (latest + int(st[1:]) < now + 100):
                    return ("passivated although it handled a message within the last T: the message was handled inside the manager's unlock window"
                            if acted else "passivated although it handled a message within the last T (minus the coalescing slack)")
            if (direct or not pre) and p["running"] and (p["paused"] or p["susp"] or p["stopping"]):
                return "passivated while paused, suspended or stopping"
            if st[0] == "C" and via_count and not pre and p["running"] and a in minbase and p["processed"] < minbase[a] + int(st[1:]):
                return "message-count passivation before N messages since registration"
            if not direct and n["running"]:
                return "a passivated actor is still running"
        if f[0] == "adv":
            now += int(f[1])
        if f[0] == "w<":
            pre.append(" ".join(f[1:]))
        if f[0] in ("tick", "drain"):
            pre = []
    return None


def oracle(case, impl, judge):
    if impl is None:
        return None
    if impl.startswith("CRASH"):
        return "harness crashed: " + impl
    if judge is not None:
        return None if judge.startswith("ok") else judge
    r = _mirror(case, impl)
    return None if r is None else "bad " + r


def _double_poststop_site(case, impl):
    """(op, actor, was_running_before, window_pre) at the op where an actor's PostStop count first exceeds 1"""
    ops = [o.strip() for o in case.split("|", 1)[1].split(";") if o.strip()]
    items = _items(impl)
    pre = []
    for k, op in enumerate(ops):
        if k + 1 >= len(items):
            break
        o, po = _obs(items[k + 1]), _obs(items[k])
        if o and po:
            for a, st in o[0].items():
                if st["post"] > 1:
                    return op, a, po[0][a]["running"], list(pre)
        f = op.split()
        if f[0] == "w<":
            pre.append(" ".join(f[1:]))
        elif f[0] in ("tick", "drain"):
            pre = []
    return None


_REQUEUE = re.compile(r"w[<>] (resume|reinst|mresume|mreg) ")


def classify(case, impl, why):
    if not why or case == "const":
        return None
    if why.startswith(("item ", "impl has more", "model has more")):
        # a model/implementation difference, not a property failure: keeps the shrinker from trading a
        # failing input for a smaller case on which only the correspondence differs
        return "model-diff"
    if "PostStop ran more than once" in why:
        # C12-F1: a passivation attempt (manager tick/drain, or the direct call) reached an actor that was no
        # longer running (stopped or passivated before, or stopped inside this attempt's unlock window).
        # A second PostStop produced by a plain `stop` op is NOT this finding.
        site = _double_poststop_site(case, impl)
        if site:
            op, a, was_running, pre = site
            if op.split()[0] in ("tick", "drain", "try") and (not was_running or f"stop {a}" in pre):
                return "C12-F1"
        return None
    if "inside the manager's unlock window" in why:
        return "C12-F2"
    if "message-count passivation before N messages" in why:
        # C12-F4: only for strategies whose baseline + N does not fit int64
        for st in case.split("|")[0].split()[1:]:
            st = st.rstrip("e")
            if st[0] == "C" and int(st[1:]) >= 2**63 - 64:
                return "C12-F4"
        return None
    if "manager panicked" in why:
        # C12-F3: only after an unlock window in which the entry was re-queued (Resume/Register) — the
        # double push — and only in nextEntry (a `tick` op)
        ops = [o.strip() for o in case.split("|", 1)[1].split(";") if o.strip()]
        k = len(_items(impl)) - 2
        if 0 <= k < len(ops) and ops[k] == "tick" and _REQUEUE.search(" ; ".join(ops[:k]) + " "):
            return "C12-F3"
        return None
    return None


def shrink(case):
    if "|" not in case:
        return
    hd, ops = case.split("|", 1)
    ops = [o.strip() for o in ops.split(";") if o.strip()]
    for i in range(len(ops)):
        yield hd.strip() + " | " + " ; ".join(ops[:i] + ops[i + 1:])

"""C20 — event stream subscribers get every event once, in publish order (E3 on internal/queue + subscriber, E2 on EventsStream)."""
ID = "C20"
# MODE is the variant of internal/queue/queue.go the E3 cases are generated for:
#   "fresh"  = the code as it is since fix c76ec1e (nodes are never recycled, Length never negative)
#   "pooled" = the code before that fix (nodes recycled through sync.Pool; kept in the model for the refutation
#              theorem and for the seeded revert, VERIF_C20_MODE=pooled ties it to a tree with the fix reverted)
import os
MODE = os.environ.get("VERIF_C20_MODE", "fresh")
LEAN_MODULES = ["GoaktVerif.Props.C20"]
THEOREMS = [
    "GoaktVerif.C20.replay_conservation",
    "GoaktVerif.C20.inv_init",
    "GoaktVerif.C20.inv_step",
    "GoaktVerif.C20.inv_observable",
    "GoaktVerif.C20.C20_queue_holds",
    "GoaktVerif.C20.stream_refines",
    "GoaktVerif.C20.C20_stream_holds",
    "GoaktVerif.C20.C20_holds",
    "GoaktVerif.C20.C20_conservation",
    "GoaktVerif.C20.agree_step",
    "GoaktVerif.C20.C20_log_agrees",
    "GoaktVerif.C20.C20_pooled_refuted",
    "GoaktVerif.C20.C20_pooled_witness_outcome",
]
MANIFEST = {
    "level_text": "Kernel-checked, no bounds: (1) C20_queue_holds - the subscriber queue (internal/queue/queue.go as it is since fix c76ec1e, model Mode.fresh: Michael-Scott queue at atomic-operation granularity, any number of enqueuer/dequeuer/Iterator/signal/Shutdown threads, any programs, EVERY schedule) refines a FIFO: the log of linearization events (each emitted by a step of the operation itself: successful CAS:next, successful CAS:head, Load:next=nil) is a FIFO history and the values sequential Dequeues return from any reachable configuration are exactly the abstract queue (inductive invariant Inv: one chain of linked nodes, owned unlinked nodes, ghost log; inv_init, inv_step, inv_observable); C20_conservation: enqueued = dequeued ++ remaining, so nothing is lost, duplicated or reordered. (2) C20_stream_holds - for EVERY sequence of AddSubscriber/Subscribe/Unsubscribe/RemoveSubscriber/Publish/Broadcast/Iterator/Shutdown/Close each Iterator() returns exactly the messages published since the previous call while that subscriber was subscribed and active, in publish order, once (simulation to a per-subscriber specification). (3) C20_pooled_refuted - the queue as it was before the fix does NOT refine a FIFO (17-step schedule, decide). Tie, re-run on every check: the queue+subscriber model is replayed step-for-step against the real code under controlled schedules (same atomic-site labels from yieldinject, same results, same final heap digest; SITES pins the site sequence per function), the stream model by a sequential differential; the outcome oracle (exactly once, per-publisher order, no Iterator panic, Length 0 after drain) is evaluated on the implementation's own output.",
    "level_note": "Partial in these respects: Publish/Subscribe/Unsubscribe racing each other are mutex-protected in eventstream.go and modelled sequentially only (the concurrent part of the theorem is the subscriber queue, where the lock-free code is); the ghost linearization log is tied to the values operations return by theorem C20_log_agrees (per thread, events = results). Trusted: sync/atomic is sequentially consistent; plain accesses between two atomic sites execute with the preceding site; Go's GC keeps a node alive while any goroutine holds a pointer to it (that is what makes never-recycled nodes safe).",
    "technique": "Lean 4 inductive invariant over a small-step model at atomic-operation granularity (all schedules), model replayed against the real code under controlled schedules (yield injection), simulation proof for the sequential stream layer, refutation of the pre-fix code by kernel evaluation of a concrete schedule",
}
TRUSTED = [
    "sync/atomic operations are sequentially consistent; plain statements between two atomic sites are executed atomically with the preceding site (the granularity yieldinject gives the real code)",
    "harness stand-in for sync.Pool: GOMAXPROCS(1) and VerifQ.Settle after every step move the node the real code Put into an explicit free list served through pool.New (lifo/fifo/drop policy from the case line); the model's theorems quantify over every choice of the pool",
    "values are distinct naturals; subscriber ids are creation indices; topics are naturals (harness maps them to strings)",
]
RULE = ("q: 1-3 producer threads (Enqueue/signal), 1-2 consumer threads (Dequeue/Iterator/Length/IsEmpty), optional Shutdown thread, "
        "schedules of 0-40 entries in bursts of 1-6 then round-robin completion, pool policy lifo/fifo/drop; st: 3-40 stream operations over up to "
        "~4 subscribers and 3 topics; non-trivial = harness produced a trace; distinct by (case, output)")

INPKG = ["internal/queue/zz_verif_c20.go", "eventstream/zz_verif_c20.go"]
INSTRUMENT = ["internal/queue/queue.go", "eventstream/subscriber.go"]
# subscriber.go: only the lock-free methods (yieldinject keys mutex fields by NAME over the whole package and
# `topicsMu` is a sync.Mutex in subscriber but a sync.RWMutex in EventsStream, so the lock rewrite is avoided)
INSTRUMENT_ARGS = {"eventstream/subscriber.go": ["-funcs", "subscriber.Active,subscriber.Shutdown,subscriber.signal"]}
SITES = {
    "internal/queue/queue.go:Queue.Enqueue": ["Load:tail", "Load:next", "CAS:tail", "CAS:tail", "Add:len", "CAS:next"],
    "internal/queue/queue.go:Queue.Dequeue": ["Load:head", "Load:next", "Add:len", "CAS:head"],
    "internal/queue/queue.go:Queue.Length": ["Load:len"],
    "internal/queue/queue.go:Queue.IsEmpty": ["Load:len"],
    "eventstream/subscriber.go:subscriber.signal": ["Load:active"],
    "eventstream/subscriber.go:subscriber.Shutdown": ["Store:active"],
    "eventstream/subscriber.go:subscriber.Active": ["Load:active"],
}
TIMEOUT = 900


# ---------------------------------------------------------------------------------------------
# generators
# ---------------------------------------------------------------------------------------------

def _q_case(rng, mode, nprod, ncons, maxops, schedlen, with_sub=False, shut=False):
    vid = 1
    progs = []
    for _ in range(nprod):
        ops = []
        for _ in range(rng.randint(1, maxops)):
            ops.append(("s" if with_sub and rng.random() < 0.5 else "e") + str(vid))
            vid += 1
        progs.append(ops)
    for _ in range(ncons):
        ops = []
        for _ in range(rng.randint(1, maxops + 1)):
            r = rng.random()
            if with_sub and r < 0.4:
                ops.append("it")
            elif r < 0.85:
                ops.append("d")
            elif r < 0.93:
                ops.append("len")
            else:
                ops.append("emp")
        progs.append(ops)
    if shut:
        progs.append(["sh"])
    nt = len(progs)
    # schedules biased towards long runs of one thread with a few preemptions (where the windows are)
    sched = []
    while len(sched) < schedlen:
        t = rng.randrange(nt)
        sched += [t] * rng.choice([1, 1, 2, 3, 4, 6])
    pol = rng.choice(["lifo", "lifo", "fifo", "drop"])
    return f"q {mode} {pol} | " + " ; ".join(" ".join(p) for p in progs) + " | " + " ".join(map(str, sched[:schedlen]))


def _st_case(rng, nops):
    nsub = 0
    ops = []
    k = 1
    for _ in range(nops):
        r = rng.random()
        i = rng.randrange(nsub + 1) if nsub else 0
        t = rng.randrange(3)
        if nsub == 0 or r < 0.08:
            ops.append("add")
            nsub += 1
        elif r < 0.28:
            ops.append(f"sub:{i}:{t}")
        elif r < 0.36:
            ops.append(f"unsub:{i}:{t}")
        elif r < 0.40:
            ops.append(f"rm:{i}")
        elif r < 0.70:
            ops.append(f"pub:{t}:{k}")
            k += 1
        elif r < 0.75:
            ts = [str(rng.randrange(3)) for _ in range(rng.randint(0, 3))]
            ops.append(f"bc:{k}:{','.join(ts) if ts else '-'}")
            k += 1
        elif r < 0.88:
            ops.append(f"it:{i}")
        elif r < 0.90:
            ops.append(f"shut:{i}")
        elif r < 0.91:
            ops.append("close")
        elif r < 0.94:
            ops.append(f"count:{t}")
        elif r < 0.97:
            ops.append(f"tops:{i}")
        else:
            ops.append(f"act:{i}")
    for i in range(nsub):
        ops.append(f"it:{i}")
    return "st " + " ".join(ops)


def gen_cases(rng, tier):
    nq, nst = (400, 150) if tier == "quick" else (6000, 2000)
    cases = []
    for _ in range(nq):
        shape = rng.random()
        if shape < 0.45:      # the intended use: several publishers, one drainer
            cases.append(_q_case(rng, MODE, rng.randint(1, 3), 1, 3, rng.randint(0, 40), with_sub=rng.random() < 0.5))
        elif shape < 0.7:     # one publisher, one drainer
            cases.append(_q_case(rng, MODE, 1, 1, 4, rng.randint(0, 40), with_sub=rng.random() < 0.5))
        elif shape < 0.9:     # several drainers
            cases.append(_q_case(rng, MODE, rng.randint(1, 2), 2, 3, rng.randint(0, 40), with_sub=rng.random() < 0.5))
        else:                 # with a concurrent Shutdown
            cases.append(_q_case(rng, MODE, 2, 1, 3, rng.randint(0, 30), with_sub=True, shut=True))
    for _ in range(nst):
        cases.append(_st_case(rng, rng.randint(3, 40)))
    return cases


def search_cases(rng, tier):
    cases = []
    for _ in range(4000):
        cases.append(_q_case(rng, MODE, 2, 1, 2, rng.randint(8, 36), with_sub=rng.random() < 0.3))
    for _ in range(1500):
        cases.append(_st_case(rng, rng.randint(3, 30)))
    return cases + gen_cases(rng, "quick")


# ---------------------------------------------------------------------------------------------
# oracle (python mirror of Spec.C20.judgeQueue / judgeStream, used when the Lean judge is unavailable)
# ---------------------------------------------------------------------------------------------

def _dotted(s):
    return [] if s in ("-", "") else [int(x) for x in s.split(".") if x.isdigit()]


def _judge_queue(case, out):
    if out.startswith("CRASH") or out.startswith("panic"):
        return "bad crash " + out
    cp, op = case.split("|"), out.split("|")
    if len(cp) != 3 or len(op) != 3:
        return "bad unparsable " + out
    progs = [p.split() for p in cp[1].split(";")]
    rs = [r.strip().split(",") for r in op[1].strip()[1:].split(";")]
    fs = dict(f.split("=", 1) for f in op[2].split() if "=" in f)
    if "cap" in op[0].split() or "drain" not in fs:
        return "ok unfinished"
    optional = any("sh" in p for p in progs)
    produced = [[int(w[1:]) for w in p if w[0] in "es" and w[1:].isdigit()] for p in progs]
    required = [int(w[1:]) for p in progs for w in p if w[1:].isdigit() and (w[0] == "e" or (w[0] == "s" and not optional))]
    consumed = []
    for p, r in zip(progs, rs):
        c = []
        for o, res in zip(p, r):
            if o == "d" and res.isdigit():
                c.append(int(res))
            elif o == "it":
                c += _dotted(res)
        consumed.append(c)
    if any(x.startswith("panic") for r in rs for x in r):
        return "bad panic Iterator panicked (negative length)"
    drain = _dotted(fs["drain"])
    got = [v for c in consumed for v in c] + drain
    allin = {v for p in produced for v in p}
    if len(set(got)) != len(got):
        return "bad dup a value was delivered twice"
    if any(v not in allin for v in got):
        return "bad invented a delivered value was never published"
    for v in required:
        if v not in got:
            return f"bad lost value {v} was published but is neither received nor left in the queue"
    for c in consumed:
        seq = c + drain
        for p in produced:
            sub = [v for v in seq if v in p]
            exp = [v for v in p if v in sub]
            if sub != exp:
                return "bad order a consumer received one publisher's values out of publish order"
    try:
        if int(fs.get("len2", "0")) != 0:
            return f"bad len Length() is {fs['len2']} after the queue was drained"
    except ValueError:
        return "bad unparsable len2"
    return "ok"


def _judge_stream(case, out):
    ops = case.split()[1:]
    outs = out.split()
    if len(ops) != len(outs):
        return "bad arity " + out
    views = []   # [alive, subscribed set, pending list]
    for op, o in zip(ops, outs):
        f = op.split(":")
        if f[0] == "add":
            views.append([True, set(), []])
            continue
        i = int(f[1]) if f[0] in ("sub", "unsub", "rm", "it", "shut") else None
        if f[0] == "it":
            want = None if i >= len(views) else ".".join(f"{t}/{k}" for t, k in views[i][2]) or "-"
            got = None if o == "nosub" else o
            if want != got:
                return "bad delivery an Iterator() result differs from the messages published while subscribed and active"
            if i < len(views):
                views[i][2] = []
        elif f[0] == "close":
            for v in views:
                v[0] = False
                v[1] = set()
        elif f[0] == "pub":
            t, k = int(f[1]), int(f[2])
            for v in views:
                if v[0] and t in v[1]:
                    v[2].append((t, k))
        elif f[0] == "bc":
            k = int(f[1])
            for t in ([] if f[2] == "-" else [int(x) for x in f[2].split(",")]):
                for v in views:
                    if v[0] and t in v[1]:
                        v[2].append((t, k))
        elif i is not None and i < len(views):
            v = views[i]
            if f[0] == "sub" and v[0]:
                v[1].add(int(f[2]))
            elif f[0] == "unsub":
                v[1].discard(int(f[2]))
            elif f[0] == "rm":
                v[0] = False
                v[1] = set()
            elif f[0] == "shut":
                v[0] = False
    return "ok"


def oracle(case, impl, judge):
    if impl is None:
        return None
    if impl.startswith("CRASH"):
        return "harness crashed: " + impl
    if impl == "bad-case":
        return None
    if judge is None:
        judge = _judge_queue(case, impl) if case.startswith("q ") else _judge_stream(case, impl)
    return None if judge.startswith("ok") else judge


def _shape(case):
    progs = [p.split() for p in case.split("|")[1].split(";")]
    prods = sum(1 for p in progs if any(w[0] in "es" and w[1:].isdigit() for w in p))
    cons = sum(1 for p in progs if any(w in ("d", "it") for w in p))
    rawd = any(w == "d" for p in progs for w in p)
    return prods, cons, rawd


def classify(case, impl, why):
    """No open finding (C20-F1 / C20-F2 were fixed by c76ec1e): every oracle failure is a violation. The class
    returned here only keeps the shrinker on the same kind of PROPERTY failure (it is never a known-finding id)."""
    if why and why.startswith("bad ") and len(why.split()) > 1:
        return "unlisted:" + why.split()[1]
    return None


def is_trivial(case, impl):
    return impl is None or impl in ("", "bad-case") or impl.startswith("CRASH")


def tag(case, impl):
    if case.startswith("q "):
        progs = [p.split() for p in case.split("|")[1].split(";")]
        prods = sum(1 for p in progs if any(w[0] in "es" and w != "sh" and w != "emp" for w in p))
        return f"q:{case.split()[2]}:threads={len(progs)}:producers={prods}"
    return "st"


def shrink(case):
    if case.startswith("q "):
        cfg, progs, sched = [x.strip() for x in case.split("|")]
        s = sched.split()
        for i in range(len(s)):
            yield f"{cfg} | {progs} | " + " ".join(s[:i] + s[i + 1:])
        ps = [p.split() for p in progs.split(";")]
        for ti, p in enumerate(ps):
            for oi in range(len(p)):
                q = [list(x) for x in ps]
                del q[ti][oi]
                if all(q):
                    yield f"{cfg} | " + " ; ".join(" ".join(x) for x in q) + f" | {sched}"
    else:
        ops = case.split()[1:]
        for i in range(len(ops)):
            if ops[i] != "add":
                yield "st " + " ".join(ops[:i] + ops[i + 1:])

"""C27 — remote tells keep order and are never silently dropped (coalescer; E1/E2-style controlled run).

Case line:  co <maxBatch> <hdl> op...      (see harness/verifdrv/c27/main.go)
The harness drives the real remoteclient.Client / coalescer goroutine against an in-process proto
server whose handler blocks on a controller gate; the Lean driver executes the same controller ops
as sequences of Model.C27.step actions and prints the SET of possible outputs (the only
nondeterminism left is Go's random select between `done` and `in` after close).
"""
import re

ID = "C27"
LEAN_MODULES = ["GoaktVerif.Props.C27"]
THEOREMS = [
    "GoaktVerif.C27.fifo_run",
    "GoaktVerif.C27.threadOrder_run",
    "GoaktVerif.C27.flushedAcc_run",
    "GoaktVerif.C27.closing_run",
    "GoaktVerif.C27.C27_fifo",
    "GoaktVerif.C27.C27_order",
    "GoaktVerif.C27.C27_order_oracle",
    "GoaktVerif.C27.C27_no_phantom",
    "GoaktVerif.C27.C27_loss_sites",
    "GoaktVerif.C27.witnessClose_facts",
    "GoaktVerif.C27.witnessRace_facts",
    "GoaktVerif.C27.witnessFqFull_facts",
    "GoaktVerif.C27.witnessSysDown_facts",
    "GoaktVerif.C27.C27_partial",
    "GoaktVerif.C27.C27_no_handler_drop",
    "GoaktVerif.C27.postBarrier_step",
    "GoaktVerif.C27.barrier_run",
    "GoaktVerif.C27.exitClean_step",
    "GoaktVerif.C27.C27_close_complete",
    "GoaktVerif.C27.C27_partial_close",
    "GoaktVerif.C27.C27_holds",
    "GoaktVerif.C27.GC.ginv_run",
    "GoaktVerif.C27.C27_single_coalescer",
    "GoaktVerif.C27.C27_fq_has_slack",
    "GoaktVerif.C27.C27_fq_cap_tie",
]
GO2LEAN = {"targets": [
    {"kind": "const", "file": "actor/remote_server.go", "name": "coalescedFailureQueueSize", "lean": "coalescedFailureQueueSize"},
    {"kind": "const", "file": "actor/defaults.go", "name": "remoteSendCoalescingMaxBatch", "lean": "remoteSendCoalescingMaxBatch"},
]}
# call order of the double-checked creation in getCoalescer and of Close, re-extracted from the source on
# every run (the model GC.gstep mirrors it: lookup, [NetClient], lock, lookup again, create+Set, unlock)
FACTS = [{
    # the submit/close barrier the model's `barrier` pc and `begin` guard mirror (fix 7baca6b)
    "file": "internal/remoteclient/coalescer.go",
    "suffixes": "inflight.RLock,inflight.RUnlock,inflight.Lock,inflight.Unlock,closeOnce.Do,wg.Wait",
    "expect": {
        "coalescer.submit": ["inflight.RLock", "inflight.RUnlock"],
        "coalescer.run": ["inflight.Lock", "inflight.Unlock"],
        "coalescer.close": ["closeOnce.Do", "wg.Wait"],
    },
}, {
    "file": "internal/remoteclient/client.go",
    "suffixes": "coalescers.Get,coalescers.Set,coalescersMu.Lock,coalescersMu.Unlock,coalescers.Range,coalescers.Reset,c.close,c.submit",
    "expect": {
        "client.getCoalescer": ["coalescers.Get", "coalescersMu.Lock", "coalescersMu.Unlock", "coalescers.Get", "coalescers.Set"],
        "client.Close": ["coalescers.Range", "c.close", "coalescers.Reset"],
        "client.RemoteTell": ["c.submit"],
    },
}]
INPKG = ["internal/remoteclient/zz_verif_c27.go", "actor/zz_verif_c27.go"]
TIMEOUT = 900
MANIFEST = {
    "level_text": "Kernel-checked theorems over a small-step interleaving model of coalescer.submit/run/close and the failure fan-out, for ALL schedules of any length with any number of sending goroutines, any transport outcome per batch, any resolution of Go's random select, close and shutdown at any point: global FIFO (flushed batches ++ writer batch ++ channel = acceptance log, C27_fifo), per-thread send order and at-most-once (C27_order), nothing reaches the transport unaccepted (C27_no_phantom), and an exact account of where every accepted message is in a quiescent state (C27_loss_sites). The full property holds on the model of the current code (C27_holds : C27_full): with an error handler configured, every accepted message of every quiescent state of every schedule was delivered or dead-lettered — the writer exits only on an empty channel (C27_close_complete, barrier of fix 7baca6b after fix 305110c) and the error handler never drops a hand-off (C27_no_handler_drop, fix f8d2f6b). The three former findings C27-F1/F2/F3 are regression theorems (witnessClose_facts, witnessFqFull_facts, witnessSysDown_facts, witnessRace_facts), regression corpora and seeded reverts. client.getCoalescer's double-checked creation is modelled too (C27_single_coalescer: at most one coalescer per destination under every interleaving of racing first senders), tied by a call-order fact re-extracted from client.go and by `gc` cases (n goroutines racing the first send behind the held creation mutex: distinct coalescers returned, flushes in flight at once, per-sender order). The model is tied to the code by running the real Client.RemoteTell / coalescer goroutine / Client.Close against a gate-controlled in-process proto server and comparing batch boundaries, submit results, handler calls and the channel leftover with the model's output set.",
    "level_note": "partial: (1) the tie is a differential on controller-serialised schedules (the controller acts only while the writer is parked in a flush or idle); finer interleavings of submit's three steps with the writer (e.g. the submit-racing-close witness) exist only in the model; (2) enqueueCoalescedFailure / drainCoalescedFailures (actor/remote_server.go) are driven on a real started actor system through an in-package accessor (queue replaced by a small one without drain goroutine so that fill/drop is deterministic; dead letters read from the event stream) separately from the coalescer; the end-to-end chain coalescer -> handler -> dead letter is composed in the model only; dead-letter publication itself is C18; (3) the remote node's in-order handling of a batch (remoteTellHandler's loop, handleConn's sequential read loop) and TCP are assumptions; (4) a flush that fails after the remote node already processed it is both delivered and dead-lettered (at-most-once is about the coalescer never re-sending).",
    "technique": "Lean 4 proof (inductive invariants over a small-step interleaving semantics) + model/implementation differential on gate-controlled runs of the real goroutines",
}
TRUSTED = [
    "Go channel semantics (FIFO buffer, blocked senders are admitted in order, select picks uniformly among ready cases) as modelled in Model/C27.lean",
    "the controller harness (harness/verifdrv/c27) serialises the real goroutines correctly: it acts only while the writer is parked in a flush or idle",
    "remote side handles the messages of a batch in slice order and the batches of the single writer sequentially (remoteTellHandler loop; ProtoServer.handleConn is a sequential read loop)",
    "the fan-out accessor harness/inpkg/actor/zz_verif_c27.go swaps the queue for a small one (the real capacity is read back and compared with the regenerated constant)",
    "tools/go2lean extraction of coalescedFailureQueueSize and remoteSendCoalescingMaxBatch",
]
RULE = ("gc: 2..6 goroutines racing the first send to a fresh destination; fq: fan-out scripts; controller scripts over maxBatch 1..8, handler on/off, 1..3 sending threads, 4..40 ops mixing sends, blocked sends, cancels, "
        "releases with success / proto error / dropped connection, close mid-flight with pending channel content and sends after close; "
        "non-trivial = at least one batch reached the transport; distinct by (case, output)")


def _gen_one(rng, big=False):
    mb = rng.choice([1, 1, 2, 2, 3, 4, 8] if not big else [1, 2, 3, 4, 5, 8, 16])
    hdl = rng.choice([1, 1, 1, 0])
    nthreads = rng.randint(1, 3)
    cap = 4 * mb
    ops = []
    inflight, chan, blocked, closed = False, 0, False, False
    n = rng.randint(4, 40 if not big else 80)
    full_sends = 0
    for _ in range(n):
        if closed:
            if rng.random() < 0.5:
                ops.append("s%d" % rng.randrange(nthreads))
            continue
        r = rng.random()
        if blocked and r < 0.15:
            ops.append("x"); blocked = False
        elif r < 0.55 or not inflight:
            # a send; when the channel is full prefer a blocked send, limit the 25 ms deadline sends
            if inflight and chan >= cap:
                if not blocked and rng.random() < 0.6:
                    ops.append("b%d" % rng.randrange(nthreads)); blocked = True
                elif full_sends < 2:
                    ops.append("s%d" % rng.randrange(nthreads)); full_sends += 1
                else:
                    ops.append("r" + rng.choice("+++-!"))
                    take = min(mb, chan); chan -= take
                    if blocked:
                        chan += 1; blocked = False
                    inflight = take > 0
            else:
                ops.append("s%d" % rng.randrange(nthreads))
                if inflight:
                    chan += 1
                else:
                    inflight = True
        elif r < 0.9:
            ops.append("r" + rng.choice("+++-!"))
            take = min(mb, chan); chan -= take
            if blocked:
                chan += 1; blocked = False
            inflight = take > 0
        else:
            ops.append("c" + "".join(rng.choice("++-!") for _ in range(rng.randint(0, 4))))
            closed = True
    if not closed and rng.random() < 0.7:
        ops.append("c" + "".join(rng.choice("++-!") for _ in range(rng.randint(0, 4))))
    return "co %d %d %s" % (mb, hdl, " ".join(ops))


def _structured():
    out = []
    for mb in (1, 2, 3):
        cap = 4 * mb
        # fill the channel behind a parked flush, then close: the loss family
        out.append("co %d 1 %s c" % (mb, " ".join(["s0"] * (cap + 1))))
        out.append("co %d 1 %s c-!" % (mb, " ".join(["s0", "s1"] * ((cap + 1) // 2 + 1))))
        # backpressure: one more than fits, a blocked sender admitted by a release
        out.append("co %d 1 %s s1 b2 r+ r- r! r+" % (mb, " ".join(["s0"] * (cap + 1))))
        # blocked sender cancelled / closed
        out.append("co %d 1 %s b1 x b1 c" % (mb, " ".join(["s0"] * (cap + 1))))
        # every flush fails, with and without a handler
        out.append("co %d 1 s0 s0 s1 s1 s0 r- r! r- r-" % mb)
        out.append("co %d 0 s0 s0 s1 s1 s0 r- r! r- r-" % mb)
    out.append("co 4 1 c s0 s1")
    out.append("co 2 1 s0 r+ s0 r+ s1 r- c s1")
    return out


def _gen_fq(rng):
    size = rng.choice([0, 1, 2, 3, 4, 8])
    ops = []
    for _ in range(rng.randint(1, 10)):
        r = rng.random()
        if r < 0.1:
            ops.append("d")
        elif r < 0.2:
            ops.append("u")
        else:
            ops.append("e%d" % rng.randint(0, 4))
    return "fq %d %s" % (size, " ".join(ops))


def _structured_race(long=False):
    # real-goroutine stress for submit racing close; on the reverted code it loses a message roughly once
    # per 7 s of stress, so the search phase (entered when FACTS / correspondence break) runs it for long
    return ["race 5000 32"] * 8 if long else ["race 400 32"]


def _structured_gc():
    return ["gc 2 1", "gc 2 2", "gc 3 2", "gc 4 2", "gc 4 4", "gc 6 3"]


def _structured_fq():
    return ["fq 256 " + " ".join(["e1"] * 20), "fq 2 e1 e2 e3 e1", "fq 3 e2 d e1 u e1", "fq 4 e2 e2"]


def gen_cases(rng, tier):
    n = 140 if tier == "quick" else 2500
    m = 25 if tier == "quick" else 400
    return _structured() + _structured_gc() + _structured_race() + _structured_fq() + [_gen_one(rng) for _ in range(n)] + [_gen_fq(rng) for _ in range(m)]


def search_cases(rng, tier):
    n = 600 if tier == "quick" else 4000
    return _structured_race(long=True) + _structured() + _structured_gc() * 4 + _structured_fq() + [_gen_one(rng, big=(i % 3 == 0)) for i in range(n)] + [_gen_fq(rng) for _ in range(60)]


def _gc_canon(line):
    """order-independent part of a gc output: the head and the sorted set of messages"""
    head, _, body = line.partition(" | ")
    ids = sorted(m for w in body.split()[1:] for m in w.split(":")[0].split(","))
    return head + " | " + " ".join(ids)


def compare(case, impl, model):
    if impl == "STALL" or model is None:
        return None
    if case.startswith("gc") and " | " in impl and " | " in model:
        a, b = _gc_canon(impl), _gc_canon(model)
        return None if a == b else "impl=%r model=%r (canonical: %r vs %r)" % (impl, model, a, b)
    if impl in model.split(" || "):
        return None
    return "implementation output is not one of the %d outputs the model allows: impl=%r model=%r" % (
        len(model.split(" || ")), impl, model[:600])


def _parse(impl):
    parts = impl.split(" | ")
    if len(parts) != 5:
        return None
    sec = {}
    for p, k in zip(parts[1:], "SBHL"):
        p = p.strip()
        if not p.startswith(k):
            return None
        sec[k] = p[1:].split()
    subs = [w.split("=") for w in sec["S"]]
    batches = [(w.split(":")[0].split(","), w.split(":")[1]) for w in sec["B"]]
    return {
        "sent": [s[0] for s in subs], "accepted": [s[0] for s in subs if s[1] == "ok"],
        "batches": batches, "handled": [m for w in sec["H"] for m in w.split(",")],
        "left": [m for w in sec["L"] for m in w.split(",") if m],
    }


def _unaccounted(case, ob):
    hdl = case.split()[2] == "1"
    delivered = {m for b, o in ob["batches"] if o == "+" for m in b}
    failed = {m for b, o in ob["batches"] if o != "+" for m in b}
    handled = set(ob["handled"]) if hdl else failed
    return [m for m in ob["accepted"] if m not in delivered and m not in handled]


def oracle(case, impl, judge):
    if impl.startswith("CRASH") or impl.startswith("HARNESS-FAIL") or impl.startswith("panic"):
        return "harness could not complete the run: " + impl
    if impl in ("STALL", "bad-case"):
        return None
    if judge is not None:
        return None if judge.startswith("ok") else judge
    if case.startswith("race"):
        return None if impl == "lost=0" else "bad silently-dropped: %s accepted message(s) stayed in the channel after close (submit racing close)" % impl
    if case.startswith("gc"):
        if " | B " not in impl:
            return "bad unparsable output: " + impl
        flushed = [m for w in impl.split(" | B ")[1].split() for m in w.split(":")[0].split(",")]
        n = int(case.split()[1])
        for t in range(n):
            mine = [m for m in flushed if m.split(".")[0] == str(t)]
            if mine != ["%d.0" % t, "%d.1" % t][:len(mine)] or len(set(mine)) != len(mine):
                return "bad order: a thread's messages reached the transport out of send order or twice"
            if len(mine) != 2:
                return "bad silently-dropped: an accepted message never reached the remote node"
        return None
    if case.startswith("fq"):
        total = sum(int(o[1:]) for o in case.split()[2:] if o.startswith("e"))
        dead = [d for d in impl.split("dead=")[1].split(",") if d] if "dead=" in impl else []
        if len(set(dead)) != len(dead):
            return "bad a message was dead-lettered twice"
        return None if len(dead) == total else "bad fanout-dropped %d of %d failed messages were not dead-lettered" % (total - len(dead), total)
    ob = _parse(impl)
    if ob is None:
        return "bad unparsable output: " + impl
    flushed = [m for b, _ in ob["batches"] for m in b]
    if len(set(flushed)) != len(flushed):
        return "bad order: a message reached the transport twice"
    for t in {m.split(".")[0] for m in flushed}:
        mine = [m for m in flushed if m.split(".")[0] == t]
        sent = [m for m in ob["sent"] if m.split(".")[0] == t]
        it = iter(sent)
        if not all(any(x == y for y in it) for x in mine):
            return "bad order: a thread's messages reached the transport out of send order"
    if any(m not in ob["accepted"] for m in flushed):
        return "bad a message reached the transport although its send was not accepted"
    un = _unaccounted(case, ob)
    if un:
        return "bad silently-dropped %s left-in-channel %s" % (",".join(un), ",".join(ob["left"]))
    return None


def classify(case, impl, why):
    """C27-F1 (fixed by 305110c, so a VIOLATION if it shows again): every unaccounted accepted message
    is one that was still sitting in the channel buffer when the writer goroutine exited after close."""
    if case.startswith("race") and why and why.startswith("bad"):
        return "C27-F3"   # fixed by 7baca6b: a VIOLATION if it shows again
    if case.startswith("fq") and why and why.startswith("bad fanout-dropped"):
        # C27-F2: the only way a handed-off message is not dead-lettered is a hand-off made while the
        # queue already held <size> entries or while shuttingDown was set
        size, full, down, n = int(case.split()[1]), 0, False, 0
        dropped = 0
        for o in case.split()[2:]:
            if o == "d":
                down = True
            elif o == "u":
                down = False
            elif o.startswith("e"):
                if down or full >= size:
                    dropped += int(o[1:])
                else:
                    full += 1
        return "C27-F2" if why.startswith("bad fanout-dropped %d of" % dropped) else "C27-property-failure"
    if why and why.startswith(("bad", "harness")) and not why.startswith("bad silently-dropped"):
        return "C27-property-failure"   # not a known finding; keeps the shrinker on property failures
    if not why or not why.startswith("bad silently-dropped"):
        return None
    ob = _parse(impl)
    if ob is None:
        return None
    un = _unaccounted(case, ob)
    if un and ob["left"] and set(un) <= set(ob["left"]):
        return "C27-F1"
    return "C27-property-failure"


def is_trivial(case, impl):
    if case.startswith("race"):
        return not impl.startswith("lost=")
    if case.startswith("gc"):
        return " | B " not in impl
    if case.startswith("fq"):
        return "dead=" not in impl or impl.endswith("dead=")
    return (not impl) or impl.startswith(("bad-case", "HARNESS", "STALL", "CRASH", "panic")) or " | B  | " in impl


def tag(case, impl):
    if case.startswith("race"):
        return "race"
    if case.startswith("gc"):
        return "gc:n" + case.split()[1]
    if case.startswith("fq"):
        return "fq:" + ("drop" if ("d" in case.split()[2:]) else "fill")
    f = case.split()
    t = []
    ops = f[3:]
    if any(o.startswith("c") for o in ops[:-1]):
        t.append("close-mid")
    if any(o in ("r-", "r!") for o in ops) or re.search(r"c.*[-!]", " ".join(ops)):
        t.append("fail")
    if any(o.startswith("b") for o in ops):
        t.append("blocked")
    if impl and " | L " in impl and not impl.rstrip().endswith("| L"):
        t.append("leftover")
    return "mb%s:%s" % (f[1], "+".join(t) or "plain")


def shrink(case):
    f = case.split()
    if f[0] == "race":
        return
    if f[0] == "gc":
        if int(f[1]) > 2:
            yield "gc %d %s" % (int(f[1]) - 1, f[2])
        return
    k = 2 if f[0] == "fq" else 3
    head, ops = f[:k], f[k:]
    for i in range(len(ops)):
        yield " ".join(head + ops[:i] + ops[i + 1:])
